// cross-file accessors for iface::fragmentation (always spliced; must compile under every feature set)
