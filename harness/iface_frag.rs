// C12 (ingress half): PacketAssembler / PacketAssemblerSet reproduce the datagram or deliver nothing.
// Spliced into src/iface/fragmentation.rs: private fields of `PacketAssembler`, `PacketAssemblerSet` reachable.
//
// `offer` repeats, call for call, what `InterfaceInner::process_ipv4` does with a fragment
// (get -> [set_total_size if MF clear] -> add -> assemble); `ipv4_reasm_process` in iface_frag_tx.rs runs the
// same obligations through `process_ipv4` itself.
#[allow(dead_code, unused_imports, unused_variables, unused_mut, unused_assignments)]
mod v_iface_frag {
    use super::*;
    use crate::config::ASSEMBLER_MAX_SEGMENT_COUNT;
    use crate::verif_common::*;

    type Key = u16;
    /// reassembly buffer size of the build configuration (256 in KI4)
    const B: usize = crate::config::REASSEMBLY_BUFFER_SIZE;
    /// index of the second reassembly slot (this file is spliced into every build configuration; the slot
    /// harnesses run under KI4 only, where REASSEMBLY_BUFFER_COUNT = 2, and assert that)
    const S1: usize = if crate::config::REASSEMBLY_BUFFER_COUNT > 1 { 1 } else { 0 };

    /// the fragment branch of `process_ipv4` (src/iface/interface/ipv4.rs): `None` = nothing delivered
    fn offer<'a>(
        set: &'a mut PacketAssemblerSet<Key>,
        key: Key,
        expires: Instant,
        data: &[u8],
        off: usize,
        more_frags: bool,
    ) -> Option<&'a [u8]> {
        let f = match set.get(&key, expires) {
            Ok(f) => f,
            Err(_) => return None,
        };
        if !more_frags {
            if f.set_total_size(data.len() + off).is_err() {
                return None;
            }
        }
        if f.add(data, off).is_err() {
            return None;
        }
        f.assemble()
    }

    /// maximal runs of present 8-byte blocks (4 blocks) = data ranges the assembler has to track
    fn runs4(m: u8) -> usize {
        (m & 1 != 0) as usize
            + ((m & 2 != 0) && (m & 1 == 0)) as usize
            + ((m & 4 != 0) && (m & 2 == 0)) as usize
            + ((m & 8 != 0) && (m & 4 == 0)) as usize
    }

    // ------------------------------------------------------------------ one fragment from an arbitrary state (1-induction)
    // INV (per reassembly slot, ghost datagram g[0..t)): every byte the assembler records as present equals the
    // datagram's byte there; recorded ranges lie inside [0,t); total_size is None or Some(t).
    // Base: `PacketAssembler::new()` / `reset()` record nothing (ipv4_reasm_set_slots asserts new slots are clean).
    // Step (here): any fragment of the same datagram, at any offset, in any order, duplicated or overlapping,
    // preserves INV; `assemble()` hands out bytes only when every byte of [0,t) is recorded, and then exactly g[0..t).
    // The assembler state is built by API prefix (<= 4 disjoint ranges appended in order).
    macro_rules! prefix_range {
        ($pa:ident, $n:ident, $end:ident, $i:expr) => {
            if $n > $i {
                let h = any_le(B);
                let d = any_le(B);
                kani::assume(d >= 1 && ($i == 0 || h >= 1) && $end + h + d <= B);
                $pa.assembler.add($end + h, d).unwrap();
                $end += h + d;
            }
        };
    }

    fn reasm_step<const LEN: usize, const NMIN: usize, const NMAX: usize>() {
        let mut pa = PacketAssembler::<Key>::new();
        pa.key = Some(kani::any());
        let g: [u8; B] = kani::any();
        let t = any_le(B);
        kani::assume(t >= 1);
        let n = any_le(if ASSEMBLER_MAX_SEGMENT_COUNT < NMAX { ASSEMBLER_MAX_SEGMENT_COUNT } else { NMAX });
        kani::assume(n >= NMIN || n == ASSEMBLER_MAX_SEGMENT_COUNT);
        let mut end = 0usize;
        prefix_range!(pa, n, end, 0);
        prefix_range!(pa, n, end, 1);
        prefix_range!(pa, n, end, 2);
        prefix_range!(pa, n, end, 3);
        kani::assume(end <= t);
        pa.buffer = kani::any();
        pa.total_size = if kani::any() { Some(t) } else { None };
        let x = any_lt(B);
        let pre_x = pa.assembler.verif_present(x);
        kani::assume(!pre_x || pa.buffer[x] == g[x]);
        let full = n == ASSEMBLER_MAX_SEGMENT_COUNT;
        // the fragment: 8-aligned offset, LEN bytes of the datagram, MF clear iff it ends the datagram
        let off = any_lt(B / 8) * 8;
        kani::assume(off + LEN <= t);
        let more = off + LEN < t;
        if LEN % 8 != 0 {
            kani::assume(!more);
        }
        crate::vdump!("t={} n={} end={} total_size={:?} x={} off={} more={} asm={}", t, n, end, pa.total_size, x, off, more, pa.assembler);
        // process_ipv4's sequence
        if !more {
            assert!(pa.set_total_size(off + LEN).is_ok(), "prop:c12_reasm_consistent_total_size_accepted");
        }
        assert!(pa.add(&g[off..][..LEN], off).is_ok(), "prop:c12_reasm_fragment_inside_buffer_accepted");
        let post = pa.assembler.clone();
        let post_x = post.verif_present(x);
        let y = off + any_lt(LEN);
        assert!(!pre_x || post_x, "prop:c12_reasm_recorded_bytes_never_forgotten");
        assert!(pa.buffer[y] == g[y], "prop:c12_reasm_fragment_stored_at_its_offset");
        if !full {
            assert!(post.verif_present(y), "prop:c12_reasm_fragment_recorded_unless_assembler_full");
        }
        assert!(!post_x || pa.buffer[x] == g[x], "prop:c12_reasm_recorded_bytes_equal_datagram");
        assert!(post.verif_inv() && post.verif_total() <= t, "inv:reasm_ranges_canonical_and_inside_datagram");
        let known = pa.total_size;
        assert!(known.is_none() || known == Some(t), "inv:reasm_total_size_is_datagram_length");
        let mut delivered = false;
        match pa.assemble() {
            Some(p) => {
                delivered = true;
                assert!(known == Some(t) && p.len() == t, "prop:c12_reasm_delivered_length_exact");
                if x < t {
                    assert!(post_x, "prop:c12_reasm_delivers_only_when_every_byte_present");
                    assert!(p[x] == g[x], "prop:c12_reasm_delivered_bytes_equal_datagram");
                }
            }
            None => {}
        }
        if delivered {
            assert!(pa.key.is_none() && pa.total_size.is_none() && pa.assembler.is_empty(), "prop:c12_reasm_slot_released_after_delivery");
        }
        kani::cover!(delivered && n >= 1 && t > 32, "datagram completed by this fragment");
        kani::cover!(!delivered && n >= 2 && pre_x && x >= off && x < off + LEN, "overlapping duplicate of recorded bytes, still incomplete");
        kani::cover!(!delivered && n >= 1 && !post.verif_present(0), "fragment arrived while the first byte is still missing");
    }

    // @harness props=C12 cfg=KI4 tier=q to=900 mem=8 unwind=12 opts=nomem covers=3 funcs=PacketAssembler::set_total_size;PacketAssembler::add;PacketAssembler::assemble;PacketAssembler::is_complete;PacketAssembler::reset;Assembler::add;Assembler::peek_front bounds=1-induction_step:_datagram_of_any_length_<=_256;_assembler_in_any_state_of_0..=3_recorded_ranges_(API_prefix);_fragment_of_8_bytes_at_any_8-aligned_offset,_consistent_with_the_datagram
    #[kani::proof]
    pub(crate) fn ipv4_reasm_step_8_n03() {
        reasm_step::<8, 0, 3>();
    }

    // @harness props=C12 cfg=KI4 tier=q to=900 mem=8 unwind=12 opts=nomem covers=3 funcs=PacketAssembler::set_total_size;PacketAssembler::add;PacketAssembler::assemble;PacketAssembler::is_complete;PacketAssembler::reset;Assembler::add;Assembler::peek_front bounds=1-induction_step:_datagram_of_any_length_<=_256;_assembler_in_any_state_of_4_recorded_ranges_(assembler_full:_ASSEMBLER_MAX_SEGMENT_COUNT=4)_(API_prefix);_fragment_of_8_bytes_at_any_8-aligned_offset,_consistent_with_the_datagram
    #[kani::proof]
    pub(crate) fn ipv4_reasm_step_8_full() {
        reasm_step::<8, 4, 4>();
    }

    // @harness props=C12 cfg=KI4 tier=q to=900 mem=8 unwind=12 opts=nomem covers=3 funcs=PacketAssembler::set_total_size;PacketAssembler::add;PacketAssembler::assemble;PacketAssembler::is_complete;PacketAssembler::reset;Assembler::add;Assembler::peek_front bounds=1-induction_step:_datagram_of_any_length_<=_256;_assembler_in_any_state_of_0..=3_recorded_ranges_(API_prefix);_fragment_of_24_bytes_at_any_8-aligned_offset,_consistent_with_the_datagram
    #[kani::proof]
    pub(crate) fn ipv4_reasm_step_24_n03() {
        reasm_step::<24, 0, 3>();
    }

    // @harness props=C12 cfg=KI4 tier=q to=900 mem=8 unwind=12 opts=nomem covers=3 funcs=PacketAssembler::set_total_size;PacketAssembler::add;PacketAssembler::assemble;PacketAssembler::is_complete;PacketAssembler::reset;Assembler::add;Assembler::peek_front bounds=1-induction_step:_datagram_of_any_length_<=_256;_assembler_in_any_state_of_4_recorded_ranges_(assembler_full:_ASSEMBLER_MAX_SEGMENT_COUNT=4)_(API_prefix);_fragment_of_24_bytes_at_any_8-aligned_offset,_consistent_with_the_datagram
    #[kani::proof]
    pub(crate) fn ipv4_reasm_step_24_full() {
        reasm_step::<24, 4, 4>();
    }

    // @harness props=C12 cfg=KI4 tier=q to=900 mem=8 unwind=12 opts=nomem covers=3 funcs=PacketAssembler::set_total_size;PacketAssembler::add;PacketAssembler::assemble;PacketAssembler::is_complete;PacketAssembler::reset;Assembler::add;Assembler::peek_front bounds=1-induction_step:_datagram_of_any_length_<=_256;_assembler_in_any_state_of_0..=3_recorded_ranges_(API_prefix);_last_fragment_of_7_bytes_at_any_8-aligned_offset,_consistent_with_the_datagram
    #[kani::proof]
    pub(crate) fn ipv4_reasm_step_7_n03() {
        reasm_step::<7, 0, 3>();
    }

    // @harness props=C12 cfg=KI4 tier=q to=900 mem=8 unwind=12 opts=nomem covers=3 funcs=PacketAssembler::set_total_size;PacketAssembler::add;PacketAssembler::assemble;PacketAssembler::is_complete;PacketAssembler::reset;Assembler::add;Assembler::peek_front bounds=1-induction_step:_datagram_of_any_length_<=_256;_assembler_in_any_state_of_4_recorded_ranges_(assembler_full:_ASSEMBLER_MAX_SEGMENT_COUNT=4)_(API_prefix);_last_fragment_of_7_bytes_at_any_8-aligned_offset,_consistent_with_the_datagram
    #[kani::proof]
    pub(crate) fn ipv4_reasm_step_7_full() {
        reasm_step::<7, 4, 4>();
    }

    // Liveness: the datagram g[0..t) lacks nothing but (part of) this fragment -- [0,a) and [b,t) are recorded,
    // off <= a <= b <= off+LEN, two ranges are trackable -- then this fragment delivers it.
    fn reasm_completes<const LEN: usize>() {
        let mut pa = PacketAssembler::<Key>::new();
        pa.key = Some(kani::any());
        let g: [u8; B] = kani::any();
        let t = any_le(B);
        kani::assume(t >= 1);
        let a = any_le(B);
        let b = any_le(B);
        kani::assume(a <= b && b <= t);
        if ASSEMBLER_MAX_SEGMENT_COUNT < 2 {
            kani::assume(a == 0 || b == t);
        }
        if a > 0 {
            pa.assembler.add(0, a).unwrap();
        }
        if b < t {
            pa.assembler.add(b, t - b).unwrap();
        }
        pa.buffer = kani::any();
        let x = any_lt(B);
        kani::assume(!pa.assembler.verif_present(x) || pa.buffer[x] == g[x]);
        let off = any_lt(B / 8) * 8;
        kani::assume(off + LEN <= t && off <= a && b <= off + LEN);
        let more = off + LEN < t;
        if LEN % 8 != 0 {
            kani::assume(!more);
        }
        // if this is not the last fragment, the last one came earlier and told the length
        pa.total_size = if more || kani::any() { Some(t) } else { None };
        crate::vdump!("t={} a={} b={} off={} more={} total_size={:?}", t, a, b, off, more, pa.total_size);
        if !more {
            assert!(pa.set_total_size(off + LEN).is_ok(), "prop:c12_reasm_consistent_total_size_accepted");
        }
        assert!(pa.add(&g[off..][..LEN], off).is_ok(), "prop:c12_reasm_fragment_inside_buffer_accepted");
        let r = pa.assemble();
        assert!(r.is_some(), "prop:c12_reasm_delivers_when_gaps_trackable");
        let p = r.unwrap();
        assert!(p.len() == t, "prop:c12_reasm_delivered_length_exact");
        if x < t {
            assert!(p[x] == g[x], "prop:c12_reasm_delivered_bytes_equal_datagram");
        }
        kani::cover!(a > 0 && b < t && a < b && more, "middle fragment arrived last");
        kani::cover!(a == 0 && b < t, "first fragment arrived last");
    }

    // @harness props=C12 cfg=KI4 tier=q to=900 mem=8 unwind=12 opts=nomem covers=2 funcs=PacketAssembler::set_total_size;PacketAssembler::add;PacketAssembler::assemble;PacketAssembler::is_complete;Assembler::add bounds=datagram_of_any_length_<=_256_missing_only_bytes_inside_the_arriving_8-byte_fragment_(any_8-aligned_offset)
    #[kani::proof]
    pub(crate) fn ipv4_reasm_completes_8() {
        reasm_completes::<8>();
    }

    // @harness props=C12 cfg=KI4 tier=q to=900 mem=8 unwind=12 opts=nomem covers=2 funcs=PacketAssembler::set_total_size;PacketAssembler::add;PacketAssembler::assemble;PacketAssembler::is_complete;Assembler::add bounds=datagram_of_any_length_<=_256_missing_only_bytes_inside_the_arriving_24-byte_fragment_(any_8-aligned_offset)
    #[kani::proof]
    pub(crate) fn ipv4_reasm_completes_24() {
        reasm_completes::<24>();
    }

    // ------------------------------------------------------------------ any order, duplicates, consistent overlap
    // Bounded witness of the composition (the unbounded argument is the step harness above): one reassembly slot,
    // ghost datagram of T bytes (24 < T <= 32): fragments A=[0,8) B=[8,16) C=[16,24) D=[24,T) (last, MF clear) and,
    // if WITH_E, the consistent overlapping retransmission E=[8,24).  STEPS symbolic picks from the empty slot.
    // (`PacketAssemblerSet::get` is replaced by its effect on a free slot; ipv4_reasm_set_slots covers it.)
    fn offer_pa<'a>(pa: &'a mut PacketAssembler<Key>, key: Key, expires: Instant, data: &[u8], off: usize, more_frags: bool) -> Option<&'a [u8]> {
        if pa.key.is_none() {
            pa.key = Some(key);
            pa.expires_at = expires;
        }
        if !more_frags {
            if pa.set_total_size(data.len() + off).is_err() {
                return None;
            }
        }
        if pa.add(data, off).is_err() {
            return None;
        }
        pa.assemble()
    }

    fn any_order<const T: usize, const WITH_E: bool, const STEPS: usize>() {
        let g: [u8; 32] = kani::any();
        let key: Key = kani::any();
        let exp = Instant::from_millis(60_000);
        let mut pa = PacketAssembler::<Key>::new();
        let mut mask = 0u8;
        let mut over = false;
        let mut delivered = 0usize;
        let mut ooo = false;
        let mut overlap = false;
        let mut late_total = false;
        macro_rules! step {
            () => {{
                let pick: u8 = kani::any();
                kani::assume(pick < if WITH_E { 5 } else { 4 });
                crate::vdump!("pick {}", pick);
                let bits: u8 = if pick == 4 { 6 } else { 1 << pick };
                let low = bits & bits.wrapping_neg();
                ooo = ooo || (mask & (low - 1)) != low - 1;
                overlap = overlap || (mask & bits != 0 && mask & bits != bits);
                late_total = late_total || (pick != 3 && mask & 8 != 0);
                mask |= bits;
                over = over || runs4(mask) > ASSEMBLER_MAX_SEGMENT_COUNT;
                let res = if WITH_E && pick == 4 {
                    offer_pa(&mut pa, key, exp, &g[8..24], 8, true)
                } else if T != 32 && pick == 3 {
                    offer_pa(&mut pa, key, exp, &g[24..T], 24, false)
                } else {
                    let off = pick as usize * 8;
                    offer_pa(&mut pa, key, exp, &g[off..][..8], off, pick != 3)
                };
                match res {
                    Some(p) => {
                        assert!(mask == 15, "prop:c12_reasm_delivers_only_when_every_byte_present");
                        assert!(p.len() == T, "prop:c12_reasm_delivered_length_exact");
                        let k = any_lt(T);
                        assert!(p[k] == g[k], "prop:c12_reasm_delivered_bytes_equal_datagram");
                        mask = 0;
                        delivered += 1;
                    }
                    None => {
                        assert!(mask != 15 || over, "prop:c12_reasm_delivers_when_gaps_trackable");
                    }
                }
                // a delivered datagram releases its slot; an unfinished one keeps it
                assert!(pa.key.is_some() == (mask != 0), "prop:c12_reasm_slot_held_exactly_while_incomplete");
            }};
        }
        step!();
        step!();
        step!();
        step!();
        if STEPS >= 5 {
            step!();
        }
        kani::cover!(delivered == 1 && ooo, "datagram delivered after out-of-order arrival");
        kani::cover!(delivered == 1 && late_total, "last fragment arrived before an earlier one");
        kani::cover!(delivered == 0 && mask == 13, "one block missing: nothing delivered");
        kani::cover!(delivered == 1 && (overlap || !WITH_E), "datagram delivered (with an overlapping retransmission where offered)");
    }

    // @harness props=C12 cfg=KI4 tier=q to=600 mem=8 unwind=12 opts=nomem covers=4 funcs=PacketAssembler::set_total_size;PacketAssembler::add;PacketAssembler::assemble;PacketAssembler::is_complete;Assembler::add bounds=one_reassembly_slot;_datagram_of_32_bytes_in_4_fragments_of_8;_5_symbolic_picks_(every_order_and_duplication);_symbolic_bytes_and_key;_no_expiry
    #[kani::proof]
    pub(crate) fn ipv4_reasm_any_order_32() {
        any_order::<32, false, 5>();
    }

    // @harness props=C12 cfg=KI4 tier=q to=600 mem=8 unwind=12 opts=nomem covers=4 funcs=PacketAssembler::set_total_size;PacketAssembler::add;PacketAssembler::assemble;PacketAssembler::is_complete;Assembler::add bounds=one_reassembly_slot;_datagram_of_25_bytes_(last_fragment_1_byte)_in_4_fragments;_5_symbolic_picks;_symbolic_bytes_and_key;_no_expiry
    #[kani::proof]
    pub(crate) fn ipv4_reasm_any_order_25() {
        any_order::<25, false, 5>();
    }

    // @harness props=C12 cfg=KI4 tier=q to=600 mem=8 unwind=12 opts=nomem covers=4 funcs=PacketAssembler::set_total_size;PacketAssembler::add;PacketAssembler::assemble;PacketAssembler::is_complete;Assembler::add bounds=one_reassembly_slot;_datagram_of_32_bytes_in_4_fragments_of_8_plus_one_overlapping_16-byte_retransmission_[8,24);_5_symbolic_picks;_symbolic_bytes_and_key;_no_expiry
    #[kani::proof]
    pub(crate) fn ipv4_reasm_overlap_32() {
        any_order::<32, true, 5>();
    }

    // ------------------------------------------------------------------ two datagrams interleaved
    // GA (key 7) and GB (key 9), 16 symbolic bytes each in two fragments, through the two-slot set, in a fixed
    // interleaved arrival order: each datagram comes out with its own bytes only.  (A harness with 5 symbolic picks
    // through the set ran out of memory at 8 GB, with symbolic and with fixed keys: the slot pointer returned by
    // `get` becomes symbolic.  Slot separation for symbolic keys: ipv4_reasm_set_slots; any order within one slot:
    // ipv4_reasm_step_* and ipv4_reasm_any_order_*.)
    fn two_datagrams(order: [u8; 4]) {
        let ga: [u8; 16] = kani::any();
        let gb: [u8; 16] = kani::any();
        let ka: Key = 7;
        let kb: Key = 9;
        let exp = Instant::from_millis(60_000);
        let mut set = PacketAssemblerSet::<Key>::new();
        let mut ma = 0u8;
        let mut mb = 0u8;
        let mut da = 0usize;
        let mut db = 0usize;
        macro_rules! step {
            ($i:expr) => {{
                let pick: u8 = order[$i];
                let is_a = pick < 2;
                if is_a { ma |= 1 << pick; } else { mb |= 1 << (pick - 2); }
                let res = match pick {
                    0 => offer(&mut set, ka, exp, &ga[0..8], 0, true),
                    1 => offer(&mut set, ka, exp, &ga[8..16], 8, false),
                    2 => offer(&mut set, kb, exp, &gb[0..8], 0, true),
                    _ => offer(&mut set, kb, exp, &gb[8..16], 8, false),
                };
                match res {
                    Some(p) => {
                        assert!(p.len() == 16, "prop:c12_reasm_delivered_length_exact");
                        let k = any_lt(16);
                        if is_a {
                            assert!(ma == 3, "prop:c12_reasm_delivers_only_when_every_byte_present");
                            assert!(p[k] == ga[k], "prop:c12_reasm_datagrams_never_mixed");
                            ma = 0;
                            da += 1;
                        } else {
                            assert!(mb == 3, "prop:c12_reasm_delivers_only_when_every_byte_present");
                            assert!(p[k] == gb[k], "prop:c12_reasm_datagrams_never_mixed");
                            mb = 0;
                            db += 1;
                        }
                    }
                    None => {
                        assert!(if is_a { ma != 3 } else { mb != 3 }, "prop:c12_reasm_delivers_when_gaps_trackable");
                    }
                }
                let used = set.assemblers[0].key.is_some() as usize + set.assemblers[S1].key.is_some() as usize;
                assert!(used == (ma != 0) as usize + (mb != 0) as usize, "prop:c12_reasm_slot_held_exactly_while_incomplete");
            }};
        }
        step!(0);
        step!(1);
        step!(2);
        step!(3);
        kani::cover!(da == 1 && db == 1, "both datagrams delivered from interleaved fragments");
    }

    // @harness props=C12 cfg=KI4 tier=q to=600 mem=6 unwind=12 opts=nomem covers=1 funcs=PacketAssemblerSet::get;PacketAssembler::set_total_size;PacketAssembler::add;PacketAssembler::assemble bounds=two_datagrams_of_16_symbolic_bytes_in_2_fragments_each;_fixed_keys;_arrival_order_A0,B0,B1,A1;_2_reassembly_slots
    #[kani::proof]
    pub(crate) fn ipv4_reasm_two_datagrams_abba() {
        two_datagrams([0, 2, 3, 1]);
    }

    // @harness props=C12 cfg=KI4 tier=q to=600 mem=6 unwind=12 opts=nomem covers=1 funcs=PacketAssemblerSet::get;PacketAssembler::set_total_size;PacketAssembler::add;PacketAssembler::assemble bounds=two_datagrams_of_16_symbolic_bytes_in_2_fragments_each;_fixed_keys;_arrival_order_B1,A0,A1,B0_(last_fragments_first);_2_reassembly_slots
    #[kani::proof]
    pub(crate) fn ipv4_reasm_two_datagrams_baab() {
        two_datagrams([3, 0, 1, 2]);
    }

    // ------------------------------------------------------------------ slots: keys, full set, expiry
    fn used(set: &PacketAssemblerSet<Key>, k: Key) -> usize {
        (set.assemblers[0].key == Some(k)) as usize + (set.assemblers[S1].key == Some(k)) as usize
    }
    fn clean(a: &PacketAssembler<Key>) -> bool {
        a.total_size.is_none() && a.assembler.is_empty()
    }

    // @harness props=C12 cfg=KI4 tier=q to=900 mem=6 unwind=12 opts=nomem covers=3 funcs=PacketAssemblerSet::get;PacketAssemblerSet::remove_expired;PacketAssembler::reset bounds=2_reassembly_slots_(REASSEMBLY_BUFFER_COUNT=2);_4_symbolic_keys;_symbolic_expiry_instants_and_clock;_one_marker_byte_per_slot
    #[kani::proof]
    pub(crate) fn ipv4_reasm_set_slots() {
        assert!(crate::config::REASSEMBLY_BUFFER_COUNT == 2);
        let mut set = PacketAssemblerSet::<Key>::new();
        let k1: Key = kani::any();
        let k2: Key = kani::any();
        let k3: Key = kani::any();
        let k4: Key = kani::any();
        let e1 = Instant::from_micros(kani::any::<i64>());
        let e2 = Instant::from_micros(kani::any::<i64>());
        let e3 = Instant::from_micros(kani::any::<i64>());
        let e4 = Instant::from_micros(kani::any::<i64>());
        let m1: u8 = kani::any();
        let m2: u8 = kani::any();
        // first key: always a clean slot
        {
            let a = set.get(&k1, e1);
            assert!(a.is_ok(), "prop:c12_slots_empty_set_accepts");
            let a = a.unwrap();
            assert!(a.key == Some(k1) && a.expires_at == e1 && clean(a), "prop:c12_slots_new_slot_clean_and_keyed");
            a.add(&[m1], 0).unwrap();
        }
        // second key
        {
            let b = set.get(&k2, e2);
            assert!(b.is_ok(), "prop:c12_slots_second_key_fits");
            let b = b.unwrap();
            if k2 == k1 {
                assert!(b.expires_at == e1 && b.buffer[0] == m1 && b.assembler.peek_front() == 1, "prop:c12_slots_same_key_same_slot");
            } else {
                assert!(b.key == Some(k2) && b.expires_at == e2 && clean(b), "prop:c12_slots_new_slot_clean_and_keyed");
                b.add(&[m2], 0).unwrap();
            }
        }
        assert!(used(&set, k1) == 1 && used(&set, k2) == 1, "prop:c12_slots_one_slot_per_key");
        let pre0 = (set.assemblers[0].key, set.assemblers[0].expires_at, set.assemblers[0].buffer[0], set.assemblers[0].assembler.peek_front());
        let pre1 = (set.assemblers[S1].key, set.assemblers[S1].expires_at, set.assemblers[S1].buffer[0], set.assemblers[S1].assembler.peek_front());
        // third key
        let full = k1 != k2 && k3 != k1 && k3 != k2;
        {
            let c = set.get(&k3, e3);
            if full {
                assert!(c.is_err(), "prop:c12_slots_full_set_refuses_instead_of_evicting");
            } else {
                assert!(c.is_ok(), "prop:c12_slots_free_or_matching_slot_is_handed_out");
                let c = c.unwrap();
                assert!(c.key == Some(k3), "prop:c12_slots_handed_slot_carries_the_key");
                if k3 == k1 || k3 == k2 {
                    assert!(c.assembler.peek_front() == 1 && c.buffer[0] == if k3 == k1 { m1 } else { m2 }, "prop:c12_slots_same_key_same_slot");
                } else {
                    assert!(clean(c) && c.expires_at == e3, "prop:c12_slots_new_slot_clean_and_keyed");
                }
            }
        }
        if full {
            let post0 = (set.assemblers[0].key, set.assemblers[0].expires_at, set.assemblers[0].buffer[0], set.assemblers[0].assembler.peek_front());
            let post1 = (set.assemblers[S1].key, set.assemblers[S1].expires_at, set.assemblers[S1].buffer[0], set.assemblers[S1].assembler.peek_front());
            assert!(pre0 == post0 && pre1 == post1, "prop:c12_slots_refusal_leaves_slots_untouched");
        }
        assert!(used(&set, k1) == 1 && used(&set, k2) == 1 && used(&set, k3) <= 1, "prop:c12_slots_one_slot_per_key");
        // the clock advances
        let t = Instant::from_micros(kani::any::<i64>());
        let b0 = (set.assemblers[0].key, set.assemblers[0].expires_at);
        let b1 = (set.assemblers[S1].key, set.assemblers[S1].expires_at);
        set.remove_expired(t);
        let mut freed = 0;
        {
            let s0 = &set.assemblers[0];
            if b0.0.is_some() && b0.1 < t {
                assert!(s0.key.is_none() && clean(s0), "prop:c12_slots_expired_slot_freed_and_cleared");
                freed += 1;
            } else {
                assert!(s0.key == b0.0 && s0.expires_at == b0.1, "prop:c12_slots_unexpired_slot_kept");
            }
            let s1 = &set.assemblers[S1];
            if b1.0.is_some() && b1.1 < t {
                assert!(s1.key.is_none() && clean(s1), "prop:c12_slots_expired_slot_freed_and_cleared");
                freed += 1;
            } else {
                assert!(s1.key == b1.0 && s1.expires_at == b1.1, "prop:c12_slots_unexpired_slot_kept");
            }
        }
        // a fourth key gets a slot exactly when one matches or is free
        let room = set.assemblers[0].key.is_none() || set.assemblers[S1].key.is_none() || used(&set, k4) == 1;
        let was_there = used(&set, k4) == 1;
        let d = set.get(&k4, e4);
        assert!(d.is_ok() == room, "prop:c12_slots_free_or_matching_slot_is_handed_out");
        let reused = match d {
            Ok(s) => {
                assert!(s.key == Some(k4) && (was_there || (clean(s) && s.expires_at == e4)), "prop:c12_slots_new_slot_clean_and_keyed");
                !was_there
            }
            Err(_) => false,
        };
        assert!(used(&set, k4) <= 1, "prop:c12_slots_one_slot_per_key");
        kani::cover!(full, "full set refused a third key");
        kani::cover!(full && freed == 1 && reused, "expired slot freed and reused by a new key");
        kani::cover!(full && freed == 0 && !room, "nothing expired: still full");
    }

    // ------------------------------------------------------------------ out-of-range fragments
    // @harness props=C12,C03 cfg=KI4 tier=q to=900 mem=6 unwind=12 opts=nomem covers=3 funcs=PacketAssembler::add;PacketAssembler::set_total_size;PacketAssembler::assemble bounds=one_fragment_already_stored_at_[8,16);_then_a_fragment_at_any_offset_(multiple_of_8_up_to_65528)_of_length_0/1/8/16,_last_or_not;_256-byte_reassembly_buffer
    #[kani::proof]
    pub(crate) fn ipv4_reasm_bounds() {
        assert!(crate::config::REASSEMBLY_BUFFER_SIZE == 256);
        let mut pa = PacketAssembler::<Key>::new();
        pa.key = Some(1);
        let g: [u8; 8] = kani::any();
        pa.add(&g[..], 8).unwrap();
        let off8: u16 = kani::any();
        kani::assume(off8 < 8192);
        let off = off8 as usize * 8;
        let sel: u8 = kani::any();
        let len: usize = match sel { 0 => 0, 1 => 1, 2 => 8, _ => 16 };
        let data: [u8; 16] = kani::any();
        let last: bool = kani::any();
        let size = off + len;
        let pre_asm = pa.assembler.clone();
        let j = any_lt(256);
        let pre_byte = pa.buffer[j];
        // exactly process_ipv4's sequence
        let mut accepted = false;
        let mut out_len: Option<usize> = None;
        let ts = if last { pa.set_total_size(size) } else { Ok(()) };
        if last {
            assert!(ts.is_err() == (size > 256), "prop:c12_reasm_total_size_beyond_buffer_rejected");
        }
        if ts.is_ok() {
            // (one call site per length: copies of concrete size)
            let r = match sel {
                0 => pa.add(&data[..0], off),
                1 => pa.add(&data[..1], off),
                2 => pa.add(&data[..8], off),
                _ => pa.add(&data[..16], off),
            };
            assert!(r.is_err() == (off + len > 256), "prop:c12_reasm_fragment_beyond_buffer_rejected");
            if r.is_ok() {
                accepted = true;
                let i = any_lt(16);
                if i < len {
                    assert!(pa.buffer[off + i] == data[i], "prop:c12_reasm_fragment_stored_at_its_offset");
                    assert!(pa.assembler.verif_present(off + i), "prop:c12_reasm_fragment_recorded");
                }
                if j < off || j >= off + len {
                    assert!(pa.buffer[j] == pre_byte, "prop:c12_reasm_fragment_touches_only_its_range");
                    assert!(pa.assembler.verif_present(j) == pre_asm.verif_present(j), "prop:c12_reasm_fragment_touches_only_its_range");
                }
                out_len = pa.assemble().map(|p| p.len());
                // [0, size) is complete only if this fragment is the last one, starts at 0 and either ends before the
                // stored range [8,16) begins or joins it and ends exactly with it
                if let Some(n) = out_len {
                    assert!(last && n == size && off == 0 && (len == 16 || len < 8), "prop:c12_reasm_delivers_only_when_every_byte_present");
                }
                if last && off == 0 && len == 16 {
                    assert!(out_len == Some(16), "prop:c12_reasm_delivers_when_gaps_trackable");
                }
            } else {
                assert!(pa.assembler == pre_asm && pa.buffer[j] == pre_byte, "prop:c12_reasm_rejected_fragment_changes_nothing");
            }
        } else {
            assert!(pa.assembler == pre_asm && pa.buffer[j] == pre_byte && pa.total_size.is_none(), "prop:c12_reasm_rejected_fragment_changes_nothing");
        }
        kani::cover!(!accepted && off > 256, "fragment far beyond the buffer rejected");
        kani::cover!(accepted && len == 16 && off + len == 256, "fragment ending exactly at the buffer end accepted");
        kani::cover!(out_len == Some(16), "datagram completed by the symbolic fragment");
    }

    // ------------------------------------------------------------------ the reassembly key
    // @harness props=C12 cfg=KI4 tier=q to=600 mem=6 unwind=12 opts=nomem covers=2 funcs=Ipv4Packet::get_key;FragKey::eq bounds=two_arbitrary_20-byte_IPv4_headers
    #[kani::proof]
    pub(crate) fn ipv4_reasm_key() {
        // (this file is spliced into every build configuration: IPv4-only code is gated)
        #[cfg(feature = "proto-ipv4-fragmentation")]
        {
            let a: [u8; 20] = kani::any();
            let b: [u8; 20] = kani::any();
            let ka = FragKey::Ipv4(Ipv4Packet::new_unchecked(&a[..]).get_key());
            let kb = FragKey::Ipv4(Ipv4Packet::new_unchecked(&b[..]).get_key());
            // RFC 791: fragments belong together iff identification, source, destination and protocol agree
            let same = a[4] == b[4] && a[5] == b[5] && a[9] == b[9]
                && a[12] == b[12] && a[13] == b[13] && a[14] == b[14] && a[15] == b[15]
                && a[16] == b[16] && a[17] == b[17] && a[18] == b[18] && a[19] == b[19];
            assert!((ka == kb) == same, "prop:c12_reasm_key_is_ident_src_dst_protocol");
            kani::cover!(ka == kb && a[6] != b[6], "same datagram, different fragment offsets");
            kani::cover!(ka != kb && a[4] == b[4] && a[5] == b[5] && a[9] != b[9], "same ident, different protocol");
        }
    }

    // @harness props=C12 kind=mustfail cfg=KI4 tier=q to=600 mem=6 unwind=12 opts=nomem
    #[kani::proof]
    pub(crate) fn ipv4_reasm_must_fail() {
        let g: [u8; 16] = kani::any();
        let mut set = PacketAssemblerSet::<Key>::new();
        let exp = Instant::from_millis(0);
        let first: bool = kani::any();
        // a datagram is complete after any one of its two fragments (false)
        let r = if first { offer(&mut set, 7, exp, &g[0..8], 0, true) } else { offer(&mut set, 7, exp, &g[8..16], 8, false) };
        assert!(r.is_some(), "prop:deliberately_false_single_fragment_completes_datagram");
    }
}
