// SLAAC state machine harnesses: C13 (poll_at vs. what a poll would do).
// Spliced into src/iface/slaac.rs: private fields of `Slaac`, `Phase`, `PrefixInfo`, `Route` reachable.
//
// What `Interface::poll(t)` does with a `Slaac` (src/iface/interface/mod.rs, ipv6.rs), in this order:
//   maintenance: if slaac.sync_required(t) { sync_slaac_state(t) -> slaac.update_slaac_state(t) }
//   ingress:     every accepted router advertisement -> slaac.process_advertisement(.., t)
//   egress:      if slaac.rs_required(t) { transmit RS; slaac.rs_sent(t) }       (ndisc_rs_egress)
// `Interface::poll_at(t)` takes `slaac.poll_at(t)` as the SLAAC deadline.
//
// INV(t0) = representation invariant of a `Slaac` left behind by a poll at t0 (all instants >= 0):
//   S1  num_solicitations <= MAX_RTR_SOLICITATIONS          (starts at MAX; rs_sent only decrements while > 0)
//   S2  phase == Start  =>  num_solicitations == MAX and retry_rs_at == 0          (new(); Start is never re-entered)
//   S3  phase in {Discovering, Maintaining}  =>  num_solicitations < MAX and 4 s <= retry_rs_at <= t0 + 4 s
//                                                           (Start is left only by rs_sent(t), t <= t0, which sets t + 4 s)
//   S4  phase != None     (rs_sent enters None only with num_solicitations == 0, but its only caller, ndisc_rs_egress,
//                          calls it only after rs_required(), which needs num_solicitations > 0)
//   S5  every stored prefix / route has valid_until > t0, or valid_until == 0 and the `sync_required` flag is set
//                                                           (update_slaac_state(t0) drops everything <= t0 and clears the flag;
//                                                            afterwards process_advertisement(t0) stores t0 + lifetime with
//                                                            lifetime > 0, or zeroes valid_until and sets the flag)
// `slaac_step_{maintenance,advertisement,solicitation}` prove INV inductive over the three poll phases (labels
// `inv:`; maintenance runs at t0 >= the previous poll instant and establishes S5 for t0, the other two
// phases preserve INV(t0)); the other harnesses start from an arbitrary INV(t0) state.
#[allow(dead_code, unused_imports, unused_variables, unused_mut)]
mod v_iface_slaac {
    use super::*;

    // All instants are symbolic *microsecond* counts (the resolution of `Instant`): no multiplication
    // stands between the solver and the comparisons that matter.
    const T_MAX: i64 = 1i64 << 50;
    /// lifetimes in advertisements are 32-bit second counts
    const LIFE_MAX: i64 = 0xffff_ffffi64 * 1_000_000;
    /// RTR_SOLICITATION_INTERVAL in microseconds
    const RSI: i64 = 4_000_000;

    const ROUTER_A: Ipv6Address = Ipv6Address::new(0xfe80, 0, 0, 0, 0, 0, 0, 0xa);
    const ROUTER_B: Ipv6Address = Ipv6Address::new(0xfe80, 0, 0, 0, 0, 0, 0, 0xb);
    const PREFIX_1: Ipv6Address = Ipv6Address::new(0x2001, 0xdb8, 0, 1, 0, 0, 0, 0);
    const PREFIX_2: Ipv6Address = Ipv6Address::new(0x2001, 0xdb8, 0, 2, 0, 0, 0, 0);

    fn us(t: i64) -> Instant {
        Instant::from_micros(t)
    }

    fn any_us(lo: i64, hi: i64) -> i64 {
        let t: i64 = kani::any();
        kani::assume(t >= lo && t <= hi);
        t
    }

    fn any_router() -> Ipv6Address {
        if kani::any() { ROUTER_A } else { ROUTER_B }
    }

    fn any_prefix() -> Ipv6Address {
        if kani::any() { PREFIX_1 } else { PREFIX_2 }
    }

    /// S5 for one stored lifetime
    fn any_valid_until(t0: i64, flag: bool) -> i64 {
        let v = any_us(0, T_MAX + LIFE_MAX);
        kani::assume(v > t0 || (v == 0 && flag));
        v
    }

    /// arbitrary `Slaac` satisfying INV(t0) with the given `sync_required` flag, holding `np` prefixes
    /// (0..=IFACE_MAX_PREFIX_COUNT = 1) and `nr` routes (0..=IFACE_MAX_ROUTE_COUNT = 2).  The counts are
    /// concrete on each path (see `shapes!`): loops over the stored entries then have constant trip
    /// counts, while --default-unwind has to be >= 17 for the 16-byte address comparisons.
    fn any_slaac(t0: i64, flag: bool, np: usize, nr: usize) -> Slaac {
        let mut s = Slaac::new();
        let ph: u8 = kani::any();
        let num: u8 = kani::any();
        kani::assume(num <= MAX_RTR_SOLICITATIONS); // S1
        match ph {
            0 => {
                // S2
                kani::assume(num == MAX_RTR_SOLICITATIONS);
                s.phase = Phase::Start;
                s.retry_rs_at = us(0);
            }
            _ => {
                // S3, S4
                kani::assume(num < MAX_RTR_SOLICITATIONS);
                s.phase = if ph == 1 { Phase::Discovering } else { Phase::Maintaining };
                s.retry_rs_at = us(any_us(RSI, t0 + RSI));
            }
        }
        s.num_solicitations = num;
        s.sync_required = flag;
        // S5: symbolic lifetimes
        if np >= 1 {
            let valid = any_valid_until(t0, flag);
            let pref = any_us(0, T_MAX + LIFE_MAX);
            let _ = s.prefix.insert(Ipv6Cidr::new(any_prefix(), 64), PrefixInfo::new(us(pref), us(valid)));
        }
        if nr >= 1 {
            let _ = s.routes.push(Route { cidr: IPV6_DEFAULT, via_router: ROUTER_A, valid_until: us(any_valid_until(t0, flag)) });
        }
        if nr >= 2 {
            let _ = s.routes.push(Route { cidr: IPV6_DEFAULT, via_router: ROUTER_B, valid_until: us(any_valid_until(t0, flag)) });
        }
        s
    }

    /// run `$body(np, nr)` once per shape, the shape chosen by the solver
    macro_rules! shapes {
        ($body:ident) => {
            let shape: u8 = kani::any();
            match shape {
                0 => $body(0, 0),
                1 => $body(0, 1),
                2 => $body(0, 2),
                3 => $body(1, 0),
                4 => $body(1, 1),
                _ => $body(1, 2),
            }
        };
    }

    fn dump(tag: &str, s: &Slaac, t: i64) {
        crate::vdump!("{} t={} us: {:?}", tag, t, s);
    }

    /// INV(t0), clause by clause (labels `inv:`)
    fn assert_inv(s: &Slaac, t0: i64) {
        assert!(s.num_solicitations <= MAX_RTR_SOLICITATIONS, "inv:S1_solicitation_budget");
        match s.phase {
            Phase::Start => {
                assert!(s.num_solicitations == MAX_RTR_SOLICITATIONS && s.retry_rs_at == us(0), "inv:S2_start_is_pristine");
            }
            Phase::Discovering | Phase::Maintaining => {
                assert!(s.num_solicitations < MAX_RTR_SOLICITATIONS, "inv:S3_solicited_at_least_once");
                assert!(s.retry_rs_at >= us(RSI) && s.retry_rs_at <= us(t0 + RSI), "inv:S3_retry_is_last_rs_plus_interval");
            }
            Phase::None => assert!(false, "inv:S4_phase_none_unreachable"),
        }
        // S5, by symbolic index
        if s.prefix.len() > 0 {
            let info = s.prefix.values().next().unwrap();
            assert!(info.valid_until > us(t0) || (info.valid_until == us(0) && s.sync_required), "inv:S5_prefix_lifetimes");
        }
        let k: usize = kani::any();
        if k < s.routes.len() {
            let r = &s.routes[k];
            assert!(r.valid_until > us(t0) || (r.valid_until == us(0) && s.sync_required), "inv:S5_route_lifetimes");
        }
    }

    /// `t` is strictly before the deadline `d` (None = no deadline)
    fn before(t: i64, d: Option<Instant>) -> bool {
        match d {
            None => true,
            Some(x) => us(t) < x,
        }
    }

    /// what a poll at `t` would do with this state
    fn work_due(s: &Slaac, t: i64) -> bool {
        s.rs_required(us(t)) || s.sync_required(us(t))
    }

    // ------------------------------------------------------------------ poll_at vs rs_required / sync_required
    // State left by a poll at t0 that processed no router advertisement (flag clear, nothing expired yet).
    fn poll_vs_rs_body(np: usize, nr: usize) {
        let t0 = any_us(0, T_MAX);
        let s = any_slaac(t0, false, np, nr);
        dump("STATE", &s, t0);
        let d = s.poll_at(us(t0));
        crate::vdump!("poll_at({}) = {:?}; rs_required={} sync_required={}", t0, d, s.rs_required(us(t0)), s.sync_required(us(t0)));

        let t = any_us(t0, T_MAX + 2 * LIFE_MAX);
        // (witnesses first: a failing assertion cuts off the paths behind it)
        // (two witnesses only: the runner replays the first four generated tests, witnesses included)
        kani::cover!(s.phase == Phase::Discovering && s.num_solicitations > 0 && before(t, d) && t > t0, "waiting for the solicitation interval");
        kani::cover!(s.phase == Phase::Maintaining && d.is_some() && nr == 2 && np == 1 && before(t, d) && t > t0, "maintaining: probe before the earliest of three lifetimes");

        // ---- non-spinning: nothing to do at t0  =>  no deadline, or one strictly later than t0
        if !work_due(&s, t0) {
            assert!(before(t0, d), "prop:c13_slaac_idle_poll_leaves_future_deadline");
        }
        // ---- not earlier: at every instant from t0 up to (excluding) the deadline a poll would do nothing
        if before(t, d) {
            assert!(!s.rs_required(us(t)), "prop:c13_slaac_no_rs_due_before_poll_at");
            assert!(!s.sync_required(us(t)), "prop:c13_slaac_no_expiry_due_before_poll_at");
        }
    }

    // @harness props=C13 cfg=KI6 tier=q to=600 mem=6 unwind=4 opts=nomem covers=2 funcs=Slaac::poll_at;Slaac::rs_required;Slaac::sync_required bounds=every_INV_state:_phase_Start/Discovering/Maintaining,_0..=3_solicitations_left,_0..=1_prefixes_(crate_default_capacity),_0..=2_routes,_lifetimes_any_value_up_to_2^32_s;_poll_instant_<2^50_us;_probe_instant_anywhere_from_the_poll_instant_on
    #[kani::proof]
    pub(crate) fn slaac_poll_vs_rs() {
        shapes!(poll_vs_rs_body);
    }

    // State left by a poll at t0 whose ingress processed a router advertisement after maintenance had
    // run (flag set): the new prefix/route still has to be copied to the interface by a later poll.
    fn poll_after_ra_body(np: usize, nr: usize) {
        let t0 = any_us(0, T_MAX);
        let s = any_slaac(t0, true, np, nr);
        // an advertisement has been processed: Discovering was left (process_advertisement)
        kani::assume(s.phase != Phase::Discovering);
        dump("STATE", &s, t0);
        let d = s.poll_at(us(t0));
        crate::vdump!("poll_at({}) = {:?}; has_ra_update={}", t0, d, s.has_ra_update());
        kani::cover!(s.phase == Phase::Maintaining && np == 1 && d.is_some(), "new prefix waiting to be configured");
        kani::cover!(s.phase == Phase::Start, "unsolicited advertisement before the first solicitation");
        assert!(s.sync_required(us(t0)), "prop:c13_slaac_ra_update_is_pending_work");
        // the pending synchronisation is scheduled: the deadline is not later than the poll that produced it
        assert!(!before(t0, d), "prop:c13_slaac_ra_update_scheduled_by_poll_at");
    }

    // (retired: since the fix "apply SLAAC updates ... in the poll that received them" the pre-state - sync flag still set when poll_at is asked - no longer arises) harness-was: props=C13 cfg=KI6 tier=q to=600 mem=6 unwind=4 opts=nomem covers=2 funcs=Slaac::poll_at;Slaac::sync_required;Slaac::has_ra_update bounds=every_INV_state_with_the_sync_flag_set;_same_bounds_as_slaac_poll_vs_rs
    #[kani::proof]
    pub(crate) fn slaac_poll_after_ra() {
        shapes!(poll_after_ra_body);
    }

    // ------------------------------------------------------------------ INV is inductive over the three phases of a poll
    fn any_prefix_info() -> Option<NdiscPrefixInformation> {
        if kani::any() {
            let fl: u8 = kani::any();
            Some(NdiscPrefixInformation {
                prefix_len: if kani::any() { 64 } else { 48 },
                flags: NdiscPrefixInfoFlags::from_bits_truncate(fl),
                valid_lifetime: Duration::from_micros(any_us(0, LIFE_MAX) as u64),
                preferred_lifetime: Duration::from_micros(any_us(0, LIFE_MAX) as u64),
                prefix: any_prefix(),
            })
        } else {
            None
        }
    }

    /// maintenance at t0, from the state an earlier poll (at tp <= t0) left behind, or from new()
    fn step_maintenance(np: usize, nr: usize) {
        let tp = any_us(0, T_MAX);
        let t0 = any_us(tp, T_MAX);
        let fresh: bool = kani::any();
        let mut s = if fresh && np == 0 && nr == 0 { Slaac::new() } else { any_slaac(tp, kani::any(), np, nr) };
        if fresh && np == 0 && nr == 0 {
            assert_inv(&s, tp);
        }
        dump("PRE maintenance", &s, tp);
        let due = s.sync_required(us(t0));
        if due {
            s.update_slaac_state(us(t0));
        }
        dump("POST", &s, t0);
        kani::cover!(due && nr == 2 && s.routes.len() == 1, "one of two routers expired");
        kani::cover!(!due && nr == 1 && !fresh, "nothing to maintain");
        assert!(!s.sync_required(us(t0)), "inv:S5_maintenance_leaves_nothing_to_sync");
        assert_inv(&s, t0);
    }

    /// ingress at t0 (after maintenance): the interface forwards advertisements only when SLAAC is enabled
    fn step_advertisement(np: usize, nr: usize) {
        let t0 = any_us(0, T_MAX);
        let mut s = any_slaac(t0, kani::any(), np, nr);
        dump("PRE advertisement", &s, t0);
        let src = any_router();
        let life = Duration::from_micros(any_us(0, LIFE_MAX) as u64);
        let was = s.phase;
        s.process_advertisement(&src, life, any_prefix_info(), us(t0));
        dump("POST", &s, t0);
        kani::cover!(nr == 1 && s.routes.len() == 2 && np == 0 && s.prefix.len() == 1 && was == Phase::Discovering, "second router and first prefix learnt");
        kani::cover!(nr == 1 && s.sync_required && s.routes[0].valid_until == us(0) && life == Duration::ZERO, "advertisement with zero router lifetime");
        assert_inv(&s, t0);
        assert!(s.phase != Phase::Discovering, "prop:c13_slaac_advertisement_ends_discovery");
    }

    /// egress at t0 on a device that accepts frames
    fn step_solicitation(np: usize, nr: usize) {
        let t0 = any_us(0, T_MAX);
        let mut s = any_slaac(t0, kani::any(), np, nr);
        dump("PRE solicitation", &s, t0);
        let rs = s.rs_required(us(t0));
        if rs {
            s.rs_sent(us(t0));
        }
        dump("POST", &s, t0);
        kani::cover!(rs && s.num_solicitations == 0, "last solicitation sent");
        kani::cover!(rs && s.num_solicitations == MAX_RTR_SOLICITATIONS - 1, "first solicitation sent");
        assert_inv(&s, t0);
        assert!(!s.rs_required(us(t0)), "prop:c13_slaac_one_solicitation_per_poll");
        if rs && s.num_solicitations > 0 {
            // (the deadline may be earlier than the next solicitation when a stored route or prefix expires first)
            assert!(s.retry_rs_at == us(t0 + RSI), "prop:c13_slaac_next_solicitation_after_interval");
            assert!(matches!(s.poll_at(us(t0)), Some(d) if d <= us(t0 + RSI)), "prop:c13_slaac_next_solicitation_is_a_deadline");
        }
        if rs {
            assert!(before(t0, s.poll_at(us(t0))), "prop:c13_slaac_solicitation_leaves_future_deadline");
        }
    }

    // (bound: no stored prefix.  `prefix.remove` compares 16-byte keys, which needs an unwinding bound of
    // 17; at that bound the loops of update_slaac_state over heapless containers exceed 8 GB.  With a
    // stored prefix, preservation of S5 by maintenance rests on reading update_slaac_state: it removes
    // exactly the prefixes with !is_valid(now) and clears the flag.)
    // @harness props=C13 cfg=KI6 tier=q to=600 mem=6 unwind=4 opts=nomem covers=2 funcs=Slaac::update_slaac_state;Slaac::sync_required;Slaac::new bounds=maintenance_phase_of_a_poll_at_t0>=previous_poll_instant,_from_any_INV_state_or_new();_no_prefix,_0..=2_routes,_any_lifetimes
    #[kani::proof]
    pub(crate) fn slaac_step_maintenance() {
        let shape: u8 = kani::any();
        match shape {
            0 => step_maintenance(0, 0),
            1 => step_maintenance(0, 1),
            _ => step_maintenance(0, 2),
        }
    }


    // @harness props=C13 cfg=KI6 tier=q to=600 mem=8 unwind=18 opts=nomem covers=2 funcs=Slaac::process_advertisement;Slaac::add_route;Slaac::expire_route;Slaac::add_prefix;Slaac::expire_prefix bounds=one_router_advertisement_(2_routers,_2_prefixes,_prefix_length_64/48,_any_flags_and_lifetimes_up_to_2^32_s)_from_any_INV_state;_0..=1_prefixes,_0..=2_routes
    #[kani::proof]
    pub(crate) fn slaac_step_advertisement() {
        shapes!(step_advertisement);
    }

    // @harness props=C13 cfg=KI6 tier=q to=300 mem=4 unwind=4 opts=nomem covers=2 funcs=Slaac::rs_required;Slaac::rs_sent;Slaac::poll_at bounds=solicitation_phase_of_a_poll_(rs_sent_only_after_rs_required,_as_ndisc_rs_egress_does)_from_any_INV_state;_0..=1_prefixes,_0..=2_routes
    #[kani::proof]
    pub(crate) fn slaac_step_solicitation() {
        shapes!(step_solicitation);
    }

    // The exhausted-solicitation state is reached by the interface's own call sequence: new(), then
    // MAX_RTR_SOLICITATIONS times { rs_required -> rs_sent } at increasing instants, no advertisement.
    // @harness props=C13 cfg=KI6 tier=q to=300 mem=4 unwind=5 opts=nomem covers=2 funcs=Slaac::new;Slaac::rs_required;Slaac::rs_sent;Slaac::poll_at;Slaac::sync_required bounds=history:_new()_then_3_solicitations_at_symbolic_instants_(each_at_or_after_its_deadline),_no_router_answers;_then_poll_at_probed_at_any_later_instant
    #[kani::proof]
    pub(crate) fn slaac_unanswered_history() {
        let mut s = Slaac::new();
        let mut t = any_us(0, T_MAX);
        let mut i = 0u8;
        while i < MAX_RTR_SOLICITATIONS {
            // the event loop sleeps until poll_at and polls (possibly late)
            let d = s.poll_at(us(t)).unwrap();
            let t_next = any_us(t, T_MAX);
            kani::assume(us(t_next) >= d);
            t = t_next;
            assert!(s.rs_required(us(t)), "prop:c13_slaac_solicitation_due_at_deadline");
            s.rs_sent(us(t));
            // after each poll that transmitted: while solicitations are left, the deadline is exactly one
            // interval ahead (after the last one there is nothing to schedule; a deadline, if any, lies ahead)
            if s.num_solicitations > 0 {
                assert!(s.poll_at(us(t)) == Some(us(t + RSI)), "prop:c13_slaac_next_solicitation_after_interval");
            } else {
                assert!(before(t, s.poll_at(us(t))), "prop:c13_slaac_next_solicitation_after_interval");
            }
            i += 1;
        }
        assert!(s.phase == Phase::Discovering && s.num_solicitations == 0, "prop:c13_slaac_budget_spent_after_max_solicitations");
        assert_inv(&s, t);
        // the loop sleeps until the advertised deadline and polls: nothing is due any more ...
        let tq = any_us(t, T_MAX + RSI);
        if let Some(d) = s.poll_at(us(t)) {
            kani::assume(us(tq) >= d);
        }
        dump("EXHAUSTED", &s, tq);
        assert!(!work_due(&s, tq), "prop:c13_slaac_nothing_due_after_last_solicitation");
        // ... so the next deadline must lie strictly ahead (or be absent)
        let d2 = s.poll_at(us(tq));
        crate::vdump!("poll_at({}) = {:?}", tq, d2);
        kani::cover!(tq > t + RSI, "polled after the last interval expired");
        kani::cover!(s.retry_rs_at == us(3 * RSI), "three solicitations back to back from t=0");
        assert!(before(tq, d2), "prop:c13_slaac_idle_poll_leaves_future_deadline");
    }

    // @harness props=C13 kind=mustfail cfg=KI6 tier=q to=300 mem=4 unwind=4 opts=nomem
    #[kani::proof]
    pub(crate) fn slaac_must_fail() {
        let t0 = any_us(0, T_MAX);
        let s = any_slaac(t0, false, 0, 1);
        assert!(s.poll_at(us(t0)).is_none(), "prop:deliberately_false_slaac_never_has_a_deadline");
    }
}
