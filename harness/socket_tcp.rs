// TCP socket harnesses: C01 C02 C04 C05 C13 C17 (and the TCP part of C03).
// Spliced into src/socket/tcp.rs: private fields of `Socket`, `Timer`, `RttEstimator` reachable.
//
// One-step (1-induction) harnesses from an arbitrary socket state satisfying INV_tcp
// (DESIGN.md section 9) with ghost streams, plus constructor/base-case harnesses.
#[allow(dead_code, unused_imports, unused_variables, unused_mut, unused_assignments)]
pub(crate) mod v_socket_tcp {
    use super::*;
    use crate::iface::{Config, Interface};
    use crate::phy::{ChecksumCapabilities, Medium};
    use crate::verif_common::*;
    use crate::verif_dev::NullDev;
    use crate::wire::{HardwareAddress, IpCidr, Ipv4Address, Ipv4Repr};

    pub(super) const LOCAL: Ipv4Address = Ipv4Address::new(192, 168, 1, 1);
    pub(super) const REMOTE: Ipv4Address = Ipv4Address::new(192, 168, 1, 2);
    const LPORT: u16 = 80;
    const RPORT: u16 = 4000;

    /// receive ring, transmit ring, ghost-stream universe, max payload of the symbolic segment
    const RX: usize = 4;
    const TX: usize = 4;
    const U: usize = 12;
    const PL: usize = 6;

    /// modular distance a - b on sequence numbers, done with plain i32 arithmetic
    /// (the crate's SeqNumber operators are part of what is checked)
    fn sd(a: TcpSeqNumber, b: TcpSeqNumber) -> i32 {
        a.0.wrapping_sub(b.0)
    }
    fn sadd(a: TcpSeqNumber, n: usize) -> TcpSeqNumber {
        TcpSeqNumber(a.0.wrapping_add(n as i32))
    }

    fn any_instant_in(lo: i64, hi: i64) -> Instant {
        let t: i64 = kani::any();
        kani::assume(t >= lo && t <= hi);
        Instant::from_millis(t)
    }

    fn tsgen() -> u32 {
        0x0102_0304
    }

    /// ghost knowledge accompanying the symbolic socket
    #[derive(Clone, Copy)]
    pub(super) struct Ghost {
        // peer stream: byte at sequence number base+i is stream[i]; peer FIN sits at base+fin_at
        base: i32,
        stream: [u8; U],
        fin_at: usize,
        /// number of peer data bytes received in order so far: RCV.NXT = base + r (+1 once FIN consumed)
        r: usize,
        rxlen: usize,
        fin_rcvd: bool,
        /// bytes beyond RCV.NXT the socket has advertised (E - RCV.NXT before this step)
        wnd: i32,
        // transmit side: copy of the tx ring storage and its position
        app: [u8; TX],
        txread: usize,
        txlen: usize,
        inflight: usize,
        una: TcpSeqNumber,
        syn_unacked: bool,
        fin_state: bool,
        state: State,
        now: i64,
    }

    fn sync_state(c: u8) -> State {
        match c {
            0 => State::SynReceived,
            1 => State::Established,
            2 => State::FinWait1,
            3 => State::FinWait2,
            4 => State::CloseWait,
            5 => State::Closing,
            6 => State::LastAck,
            _ => State::TimeWait,
        }
    }

    fn is_post_fin(st: State) -> bool {
        matches!(st, State::CloseWait | State::LastAck | State::Closing | State::TimeWait)
    }
    fn is_fin_state(st: State) -> bool {
        matches!(st, State::FinWait1 | State::LastAck | State::Closing)
    }

    /// unacknowledged or unsent sequence space exists (C02's premise)
    fn pending(s: &Socket) -> bool {
        matches!(
            s.state,
            State::SynSent | State::SynReceived | State::Established | State::FinWait1 | State::FinWait2
                | State::CloseWait | State::Closing | State::LastAck | State::TimeWait
        ) && s.tuple.is_some()
            && (s.remote_last_seq != s.local_seq_no
                || !s.tx_buffer.is_empty()
                || matches!(s.state, State::SynSent | State::SynReceived | State::FinWait1 | State::Closing | State::LastAck))
    }

    /// C02's finite-deadline invariant L1, in the strengthened form that is inductive: whenever sequence
    /// space is unacknowledged or unsent, a deadline exists that will (re)transmit or abort -
    /// something is sendable right now (`seq_to_transmit`), or a retransmission / fast-retransmission /
    /// zero-window-probe timer runs, or the user timeout will abort the connection.  Deadlines that do not
    /// retransmit anything (keep-alive, delayed ACK, window update, the one-shot timestamp acquisition) do
    /// not count: a socket whose only deadline is one of those is stalled as soon as it has fired.
    /// Every disjunct makes the real `poll_at` finite (asserted), so this implies the statement's
    /// "finite next-poll deadline".
    fn deadline_finite(s: &mut Socket, cx: &mut Context) -> bool {
        let strong = s.seq_to_transmit(cx)
            || matches!(s.timer, Timer::Retransmit { .. } | Timer::FastRetransmit | Timer::ZeroWindowProbe { .. })
            || s.timeout.is_some();
        if strong {
            crate::vassert!(s.poll_at(cx) != PollAt::Ingress, "prop:c02_poll_at_reports_the_retransmission_deadline");
        }
        strong
    }

    /// Fill `s` (freshly built by Socket::new over RX/TX-byte rings) with an arbitrary
    /// synchronized-state INV_tcp state.  `rxs`/`txs` contents were chosen by the caller.
    pub(super) fn any_sync_socket(s: &mut Socket, now: i64, app: [u8; TX], with_reno: bool) -> Ghost {
        let base: i32 = kani::any();
        let stream: [u8; U] = kani::any();
        let fin_at = any_le(U);

        let state = sync_state(kani::any());
        s.state = state;
        s.tuple = Some(Tuple {
            local: IpEndpoint::new(IpAddress::Ipv4(LOCAL), LPORT),
            remote: IpEndpoint::new(IpAddress::Ipv4(REMOTE), RPORT),
        });
        s.listen_endpoint = if kani::any() {
            IpListenEndpoint { addr: None, port: LPORT }
        } else {
            IpListenEndpoint::default()
        };

        // ---- transmit side
        s.local_seq_no = TcpSeqNumber(kani::any());
        let txlen = any_le(TX);
        let txread = any_lt(TX);
        s.tx_buffer.verif_set(txread, txlen);
        let syn_unacked = state == State::SynReceived;
        let fin_state = is_fin_state(state);
        // our FIN has been acknowledged in FIN-WAIT-2 / TIME-WAIT; nothing can be queued before ESTABLISHED
        if matches!(state, State::FinWait2 | State::TimeWait | State::SynReceived) {
            kani::assume(txlen == 0);
        }
        let inflight = any_le(TX + 1);
        kani::assume(inflight <= txlen + syn_unacked as usize + fin_state as usize);
        s.remote_last_seq = sadd(s.local_seq_no, inflight);
        let scale_on: bool = kani::any();
        let scale: u8 = kani::any();
        kani::assume(scale <= 14);
        s.remote_win_scale = if scale_on { Some(scale) } else { None };
        let w16: u16 = kani::any();
        s.remote_win_len = (w16 as usize) << (if scale_on { scale as usize } else { 0 });
        let mss: u16 = kani::any();
        kani::assume(mss >= 48);
        s.remote_mss = mss as usize;
        s.remote_has_sack = kani::any();
        s.pending_fast_retransmit = kani::any();
        s.nagle = kani::any();
        s.local_rx_dup_acks = kani::any();
        s.local_rx_last_ack = if kani::any() { Some(TcpSeqNumber(kani::any())) } else { None };
        s.local_rx_last_seq = if kani::any() { Some(TcpSeqNumber(kani::any())) } else { None };
        s.last_remote_tsval = kani::any();
        s.tsval_generator = if kani::any() { Some(tsgen as TcpTimestampGenerator) } else { None };
        s.hop_limit = None;

        // ---- timers (all stored instants are within a day of `now`)
        let day = 86_400_000i64;
        s.timeout = if kani::any() { Some(Duration::from_millis(any_le(4_000_000) as u64)) } else { None };
        s.keep_alive = if kani::any() { Some(Duration::from_millis(any_le(4_000_000) as u64)) } else { None };
        s.remote_last_ts = if kani::any() { Some(any_instant_in(0, now)) } else { None };
        let tk: u8 = kani::any();
        s.timer = match tk {
            0 => Timer::Idle { keep_alive_at: None },
            1 => Timer::Idle { keep_alive_at: Some(any_instant_in(0, now + day)) },
            2 => Timer::Retransmit { expires_at: any_instant_in(0, now + 60_000) },
            3 => Timer::FastRetransmit,
            4 => {
                let d = any_le(60_000) as u64;
                kani::assume(d >= 1000);
                Timer::ZeroWindowProbe { expires_at: any_instant_in(0, now + 60_000), delay: Duration::from_millis(d) }
            }
            _ => Timer::Close { expires_at: any_instant_in(0, now + 10_000) },
        };
        // T0: the Close timer runs exactly in TIME-WAIT
        kani::assume(matches!(s.timer, Timer::Close { .. }) == (state == State::TimeWait));
        // T1: sequence space in flight always has a retransmission, fast-retransmission or probe timer
        // (dispatch arms the retransmission timer with every segment that occupies sequence space; the fixes
        // recorded in known_findings.json keep it armed across timeouts, fast retransmits and window probes)
        kani::assume(inflight == 0 || matches!(s.timer, Timer::Retransmit { .. } | Timer::FastRetransmit | Timer::ZeroWindowProbe { .. }));
        // T2: queued data against a closed peer window always has a running timer (probe or retransmission):
        // process() and send() arm the probe when the timer is idle, dispatch() falls back to probing after a timeout
        kani::assume(!(txlen > 0 && s.remote_win_len == 0 && s.timer.is_idle()));
        let rto: u32 = kani::any();
        kani::assume(rto >= RTTE_MIN_RTO && rto <= RTTE_MAX_RTO);
        s.rtte.rto = rto;
        s.rtte.rto_count = kani::any();
        kani::assume(s.rtte.rto_count < 3);
        s.rtte.have_measurement = kani::any();
        // T0 (stated assumption): an RTT sample spans at most 10 minutes, i.e. while a segment is being timed the
        // interface is polled at least that often (the RTO, <= 60 s, aborts the sample at the next dispatch)
        s.rtte.srtt = any_le(600_000) as u32;
        s.rtte.rttvar = any_le(600_000) as u32;
        s.rtte.timestamp = if kani::any() { Some((any_instant_in(core::cmp::max(0, now - 600_000), now), TcpSeqNumber(kani::any()))) } else { None };
        s.rtte.max_seq_sent = if kani::any() { Some(TcpSeqNumber(kani::any())) } else { None };
        s.ack_delay = if kani::any() { Some(Duration::from_millis(any_le(1000) as u64)) } else { None };
        let ad: u8 = kani::any();
        s.ack_delay_timer = match ad {
            0 => AckDelayTimer::Idle,
            1 => AckDelayTimer::Waiting(any_instant_in(0, now + 1000)),
            _ => AckDelayTimer::Immediate,
        };
        s.challenge_ack_timer = any_instant_in(0, now + 1000);
        s.congestion_controller = if with_reno {
            #[cfg(feature = "socket-tcp-reno")]
            {
                congestion::AnyController::Reno(congestion::reno::Reno::verif_any())
            }
            #[cfg(not(feature = "socket-tcp-reno"))]
            {
                congestion::AnyController::None(congestion::no_control::NoControl)
            }
        } else {
            congestion::AnyController::None(congestion::no_control::NoControl)
        };

        // ---- receive side
        s.remote_win_shift = 0; // rings are < 64 KiB (W1); scaling is covered by tcp_big_ring_*
        let r = any_le(U);
        let rxlen = any_le(RX);
        let rxread = any_lt(RX);
        kani::assume(rxlen <= r);
        // G1: everything the socket could still accept lies inside the ghost universe
        kani::assume(r + 1 + (RX - rxlen) <= U);
        s.rx_buffer.verif_set(rxread, rxlen);
        let fin_rcvd = is_post_fin(state); // F1
        s.rx_fin_received = fin_rcvd;
        if fin_rcvd {
            kani::assume(r == fin_at);
        } else {
            kani::assume(r <= fin_at);
        }
        s.remote_seq_no = TcpSeqNumber(base.wrapping_add((r - rxlen) as i32).wrapping_add(fin_rcvd as i32));
        // G1: ring contents are the ghost stream
        {
            let st = s.rx_buffer.verif_storage();
            let mut k = 0;
            while k < RX {
                if k < rxlen {
                    st[(rxread + k) % RX] = stream[r - rxlen + k];
                }
                k += 1;
            }
        }
        // out-of-order ranges (as many as the configured assembler tracks, at most 2 here), contents match
        let window = RX - rxlen;
        let h1 = any_le(RX);
        let d1 = any_le(RX);
        let h2 = any_le(RX);
        let d2 = any_le(RX);
        let n_ooo: u8 = kani::any();
        let mut asm_total = 0usize;
        if n_ooo >= 1 && !fin_rcvd {
            kani::assume(h1 >= 1 && d1 >= 1 && h1 + d1 <= window && r + h1 + d1 <= fin_at);
            s.assembler.add(h1, d1).unwrap();
            asm_total = h1 + d1;
            if n_ooo >= 2 && crate::config::ASSEMBLER_MAX_SEGMENT_COUNT >= 2 {
                kani::assume(h2 >= 1 && d2 >= 1 && asm_total + h2 + d2 <= window && r + asm_total + h2 + d2 <= fin_at);
                s.assembler.add(asm_total + h2, d2).unwrap();
                asm_total += h2 + d2;
            }
            let st = s.rx_buffer.verif_storage();
            let mut k = 0;
            while k < RX {
                let in1 = k >= h1 && k < h1 + d1;
                let in2 = n_ooo >= 2 && crate::config::ASSEMBLER_MAX_SEGMENT_COUNT >= 2 && k >= h1 + d1 + h2 && k < h1 + d1 + h2 + d2;
                if in1 || in2 {
                    st[(rxread + rxlen + k) % RX] = stream[r + k];
                }
                k += 1;
            }
        }
        // A1/A2: what we last advertised
        let nxt = sadd(s.remote_seq_no, rxlen);
        let synack_unsent = state == State::SynReceived && inflight == 0;
        let mut wnd: i32 = 0;
        if synack_unsent && kani::any() {
            s.remote_last_ack = None;
            s.remote_last_win = 0;
            kani::assume(asm_total == 0);
        } else {
            let lag = any_le(2 * RX + 1);
            let lastwin = any_le(3 * RX + 2);
            s.remote_last_ack = Some(TcpSeqNumber(nxt.0.wrapping_sub(lag as i32)));
            s.remote_last_win = lastwin as u16;
            wnd = lastwin as i32 - lag as i32;
            // never left of what we hold (one less once the FIN is consumed), never beyond what we can hold
            kani::assume(wnd >= -(fin_rcvd as i32));
            kani::assume(wnd <= window as i32);
            // nothing was ever accepted beyond the advertised edge
            kani::assume(asm_total as i32 <= wnd || asm_total == 0);
        }
        Ghost {
            base, stream, fin_at, r, rxlen, fin_rcvd, wnd, app, txread, txlen, inflight,
            una: s.local_seq_no, syn_unacked, fin_state, state, now,
        }
    }

    /// a symbolic segment from a peer that is consistent about which byte lives at which sequence number
    struct SegBuf {
        payload: [u8; PL],
        plen: usize,
        seq: i32,
        control: TcpControl,
        ack: Option<TcpSeqNumber>,
        win: u16,
        ts: Option<TcpTimestampRepr>,
        mss: Option<u16>,
        wscale: Option<u8>,
        sack_permitted: bool,
    }

    fn any_control() -> TcpControl {
        let c: u8 = kani::any();
        match c {
            0 => TcpControl::None,
            1 => TcpControl::Psh,
            2 => TcpControl::Fin,
            3 => TcpControl::Syn,
            _ => TcpControl::Rst,
        }
    }

    fn any_peer_segment(g: &Ghost) -> SegBuf {
        let plen = any_le(PL);
        let payload: [u8; PL] = kani::any();
        let seq: i32 = kani::any();
        let control = any_control();
        let rel = seq.wrapping_sub(g.base);
        let mut i = 0;
        while i < PL {
            if i < plen {
                let p = rel.wrapping_add(i as i32);
                if p >= 0 && (p as usize) < U {
                    kani::assume(payload[i] == g.stream[p as usize]);
                    kani::assume((p as usize) < g.fin_at);
                }
            }
            i += 1;
        }
        if control == TcpControl::Fin {
            kani::assume(rel.wrapping_add(plen as i32) == g.fin_at as i32);
        }
        let ws: u8 = kani::any();
        kani::assume(ws <= 14);
        SegBuf {
            payload, plen, seq, control,
            ack: if kani::any() { Some(TcpSeqNumber(kani::any())) } else { None },
            win: kani::any(),
            ts: if kani::any() { Some(TcpTimestampRepr::new(kani::any(), kani::any())) } else { None },
            mss: if kani::any() { Some(kani::any()) } else { None },
            wscale: if kani::any() { Some(ws) } else { None },
            sack_permitted: kani::any(),
        }
    }

    fn seg_repr(b: &SegBuf) -> TcpRepr<'_> {
        TcpRepr {
            src_port: RPORT, dst_port: LPORT, control: b.control,
            seq_number: TcpSeqNumber(b.seq), ack_number: b.ack,
            window_len: b.win, window_scale: b.wscale, max_seg_size: b.mss,
            sack_permitted: b.sack_permitted, sack_ranges: [None, None, None], timestamp: b.ts,
            payload: &b.payload[..b.plen],
        }
    }

    fn ip_for(repr: &TcpRepr) -> IpRepr {
        IpRepr::Ipv4(Ipv4Repr { src_addr: REMOTE, dst_addr: LOCAL, next_header: IpProtocol::Tcp, payload_len: repr.buffer_len(), hop_limit: 64 })
    }

    /// RFC 9293 edge set (DESIGN.md section 9); X -> X always allowed
    fn edge_allowed(from: State, to: State) -> bool {
        use State::*;
        if from == to {
            return true;
        }
        matches!(
            (from, to),
            (Closed, Listen) | (Closed, SynSent) | (Listen, SynReceived) | (Listen, Closed)
                | (SynSent, Established) | (SynSent, SynReceived) | (SynSent, Closed)
                | (SynReceived, Established) | (SynReceived, CloseWait) | (SynReceived, Listen)
                | (SynReceived, FinWait1) | (SynReceived, Closed)
                | (Established, CloseWait) | (Established, FinWait1) | (Established, Closed)
                | (FinWait1, FinWait2) | (FinWait1, Closing) | (FinWait1, TimeWait) | (FinWait1, Closed)
                | (FinWait2, TimeWait) | (FinWait2, Closed)
                | (Closing, TimeWait) | (Closing, Closed)
                | (CloseWait, LastAck) | (CloseWait, Closed)
                | (LastAck, Closed) | (TimeWait, Closed)
        )
    }

    macro_rules! tcp_env {
        ($dev:ident, $iface:ident, $cx:ident, $now:ident) => {
            let mtu = any_le(1500);
            kani::assume(mtu >= 68);
            let mut $dev = NullDev { medium: Medium::Ip, mtu, checksum: ChecksumCapabilities::ignored() };
            let $now: i64 = kani::any();
            kani::assume($now >= 0 && $now < (1i64 << 40));
            let mut $iface = Interface::new(Config::new(HardwareAddress::Ip), &mut $dev, Instant::from_millis($now));
            $iface.update_ip_addrs(|a| {
                a.push(IpCidr::new(IpAddress::Ipv4(LOCAL), 24)).unwrap();
            });
            let $cx = $iface.context();
        };
    }

    /// post-state representation invariant, clause by clause (labels `inv:`)
    fn assert_inv_post(s: &Socket, g: &Ghost) {
        crate::vassert!(s.rx_buffer.verif_inv() && s.tx_buffer.verif_inv(), "inv:R1_rings_well_formed");
        crate::vassert!(s.assembler.verif_inv(), "inv:R2_assembler_canonical");
        crate::vassert!(s.assembler.verif_total() <= s.rx_buffer.window(), "inv:R2_assembler_within_window");
        if s.state != State::Closed && s.state != State::Listen {
            crate::vassert!(s.tuple.is_some(), "inv:R3_tuple_present");
            crate::vassert!(s.rx_fin_received == is_post_fin(s.state), "inv:F1_fin_flag_matches_state");
            if s.rx_fin_received {
                crate::vassert!(s.assembler.is_empty(), "inv:F1_no_out_of_order_data_after_fin");
            }
            let fl = sd(s.remote_last_seq, s.local_seq_no);
            let extra = (s.state == State::SynReceived || s.state == State::SynSent) as i32 + is_fin_state(s.state) as i32;
            crate::vassert!(fl >= 0 && fl <= s.tx_buffer.len() as i32 + extra, "inv:S1_flight_within_queue");
            if matches!(s.state, State::FinWait2 | State::TimeWait) {
                crate::vassert!(s.tx_buffer.is_empty(), "inv:S1_nothing_queued_after_fin_acked");
            }
            crate::vassert!(s.remote_mss >= 48, "inv:S2_mss_floor");
            crate::vassert!(matches!(s.timer, Timer::Close { .. }) == (s.state == State::TimeWait), "inv:T0_close_timer_iff_time_wait");
            crate::vassert!(!(!s.tx_buffer.is_empty() && s.remote_win_len == 0 && s.timer.is_idle()), "inv:T2_queued_data_against_closed_window_has_timer");
            crate::vassert!(fl == 0 || matches!(s.timer, Timer::Retransmit { .. } | Timer::FastRetransmit | Timer::ZeroWindowProbe { .. }), "inv:T1_sequence_space_in_flight_has_timer");
            crate::vassert!(s.rtte.rto >= RTTE_MIN_RTO && s.rtte.rto <= RTTE_MAX_RTO && s.rtte.rto_count < 3, "inv:T0_rto_bounds");
            if let Some(a) = s.remote_last_ack {
                let nxt = sadd(s.remote_seq_no, s.rx_buffer.len());
                let lag = sd(nxt, a);
                crate::vassert!(lag >= 0, "inv:A1_last_ack_not_beyond_rcv_nxt");
                let wnd = ((s.remote_last_win as usize) << s.remote_win_shift) as i32 - lag;
                crate::vassert!(wnd >= -(s.rx_fin_received as i32), "inv:A2_advertised_edge_not_left_of_rcv_nxt");
                crate::vassert!(wnd <= s.rx_buffer.window() as i32, "inv:A2_advertised_edge_within_buffer");
            }
        }
    }

    // ------------------------------------------------------------------ receiver step
    // C01-R, C04 (i)-(v), C17 edges+causes for segments, C02-L1, TCP part of C03 (no panic)
    fn rx_step(with_reno: bool) {
        tcp_env!(dev, iface, cx, now);
        let mut rxs: [u8; RX] = kani::any();
        let mut txs: [u8; TX] = kani::any();
        let app = txs;
        let mut s = Socket::new(SocketBuffer::new(&mut rxs[..]), SocketBuffer::new(&mut txs[..]));
        let g = any_sync_socket(&mut s, now, app, with_reno);
        // L1 holds before the step (it is an invariant; asserted on every post-state)
        kani::assume(!pending(&s) || deadline_finite(&mut s, cx));

        let sb = any_peer_segment(&g);
        let repr = seg_repr(&sb);
        let ip_repr = ip_for(&repr);
        kani::assume(s.accepts(cx, &ip_repr, &repr));

        let pre_nxt = sadd(s.remote_seq_no, g.rxlen);
        let pre_asm = s.assembler.clone();
        let pre_timer = s.timer;
        crate::vdump!("PRE now={} {:?}", now, s);
        crate::vdump!("GHOST base={} stream={:?} fin_at={} r={} rxlen={} wnd={}", g.base, g.stream, g.fin_at, g.r, g.rxlen, g.wnd);
        crate::vdump!("SEG {:?} payload={:?}", repr, &sb.payload[..sb.plen]);
        let reply = s.process(cx, &ip_repr, &repr);
        let post = s.state;
        crate::vdump!("REPLY {:?}", reply);
        crate::vdump!("POST {:?}", s);

        // ---- C17: only RFC edges, each with its prescribed cause
        crate::vassert!(edge_allowed(g.state, post), "prop:c17_edge_in_rfc_diagram");
        let ack_is = |n: usize| sb.ack.map(|a| a.0 == g.una.0.wrapping_add(n as i32)).unwrap_or(false);
        let ctl = if sb.control == TcpControl::Psh { TcpControl::None } else { sb.control };
        let our_fin_seq = g.txlen + 1; // ack number acknowledging our FIN, relative to SND.UNA (no SYN pending in FIN states)
        if post != g.state {
            match (g.state, post) {
                (State::SynReceived, State::Established) => {
                    crate::vassert!(ack_is(1) && ctl != TcpControl::Rst && ctl != TcpControl::Syn, "prop:c17_established_only_by_ack_of_own_isn");
                }
                (State::SynReceived, State::CloseWait) => {
                    crate::vassert!(ack_is(1) && ctl == TcpControl::Fin, "prop:c17_close_wait_only_by_in_order_fin");
                }
                (State::SynReceived, State::Listen) => {
                    crate::vassert!(ctl == TcpControl::Rst && s.listen_endpoint.port != 0, "prop:c17_listen_return_only_by_rst_of_listener");
                }
                (_, State::Closed) => {
                    if g.state == State::LastAck && ctl != TcpControl::Rst {
                        crate::vassert!(ack_is(our_fin_seq), "prop:c17_closed_from_last_ack_only_by_ack_of_own_fin");
                    } else {
                        crate::vassert!(ctl == TcpControl::Rst, "prop:c17_only_rst_resets_connection");
                    }
                }
                (State::Established, State::CloseWait) | (State::FinWait2, State::TimeWait) => {
                    crate::vassert!(ctl == TcpControl::Fin, "prop:c17_close_wait_only_by_in_order_fin");
                }
                (State::FinWait1, State::FinWait2) => {
                    // (a FIN that cannot be taken yet because of a hole counts as a plain ACK)
                    crate::vassert!(ctl != TcpControl::Rst && ctl != TcpControl::Syn && ack_is(our_fin_seq), "prop:c17_fin_wait_2_only_by_ack_of_own_fin");
                }
                (State::FinWait1, State::Closing) => {
                    crate::vassert!(ctl == TcpControl::Fin && !ack_is(our_fin_seq), "prop:c17_closing_only_by_in_order_fin");
                }
                (State::FinWait1, State::TimeWait) => {
                    crate::vassert!(ctl == TcpControl::Fin && ack_is(our_fin_seq), "prop:c17_time_wait_only_when_both_fins_done");
                }
                (State::Closing, State::TimeWait) => {
                    crate::vassert!(ctl != TcpControl::Rst && ctl != TcpControl::Syn && ack_is(our_fin_seq), "prop:c17_time_wait_only_when_both_fins_done");
                }
                _ => {
                    crate::vassert!(false, "prop:c17_segment_cannot_cause_this_edge");
                }
            }
            // RST acts only when in window: RCV.NXT <= seq < RCV.NXT + advertised window (or seq = RCV.NXT for a zero window)
            if ctl == TcpControl::Rst {
                // RFC 9293 3.10.7.4 segment acceptability test as the reference
                let off = sb.seq.wrapping_sub(pre_nxt.0);
                let end = off.wrapping_add(sb.plen as i32);
                let ok = if sb.plen == 0 {
                    if g.wnd <= 0 { off == 0 } else { off >= 0 && off < g.wnd }
                } else {
                    g.wnd > 0 && ((off >= 0 && off < g.wnd) || (end > 0 && end <= g.wnd))
                };
                crate::vassert!(ok, "prop:c17_only_in_window_rst_resets");
            }
        }

        if post != State::Closed && post != State::Listen {
            // ---- C01/C04: stream position, FIN placement
            let new_len = s.rx_buffer.len();
            let new_nxt = sadd(s.remote_seq_no, new_len);
            let adv = sd(new_nxt, pre_nxt);
            crate::vassert!(adv >= 0 && adv <= RX as i32 + 1, "prop:c04_rcv_nxt_monotone_and_bounded");
            let fin_now = s.rx_fin_received;
            crate::vassert!(fin_now || !g.fin_rcvd, "prop:c04_fin_flag_never_retracted");
            let fin_step = (fin_now && !g.fin_rcvd) as i32;
            let data_adv = (adv - fin_step) as usize;
            crate::vassert!(adv >= fin_step, "prop:c04_fin_consumes_one_sequence_number");
            crate::vassert!(g.r + data_adv <= g.fin_at, "prop:c04_never_accepts_data_beyond_peer_fin");
            if fin_now {
                crate::vassert!(g.r + data_adv == g.fin_at, "prop:c01_fin_only_after_every_preceding_byte");
                crate::vassert!(fin_step == 0 || ctl == TcpControl::Fin, "prop:c17_fin_flag_only_from_fin_segment");
            }
            crate::vassert!(new_len <= g.rxlen + data_adv, "prop:c04_buffer_grows_only_by_accepted_bytes");
            // ---- byte exactness of everything the application can read
            if new_len > 0 {
                let k = any_lt(RX);
                kani::assume(k < new_len);
                let got = s.rx_buffer.get_allocated(k, 1);
                crate::vassert!(got.len() == 1, "prop:c04_queued_byte_readable");
                let pos = g.r + data_adv - new_len + k;
                crate::vassert!(got[0] == g.stream[pos], "prop:c01_rx_bytes_equal_peer_stream");
            }
            // ---- out-of-order bytes recorded in the assembler equal the peer's bytes there
            {
                let j = any_lt(RX);
                if s.assembler.verif_present(j) {
                    let w = s.rx_buffer.get_unallocated(j, 1);
                    crate::vassert!(w.len() == 1, "prop:c04_recorded_range_inside_buffer");
                    crate::vassert!(g.r + data_adv + j < g.fin_at, "prop:c04_never_accepts_data_beyond_peer_fin");
                    crate::vassert!(w[0] == g.stream[g.r + data_adv + j], "prop:c04_out_of_order_bytes_equal_peer_stream");
                }
            }
            // ---- nothing beyond the advertised window is accepted (offset o from the old RCV.NXT)
            {
                let o = any_lt(RX + 1);
                let was = pre_asm.verif_present(o);
                let is = if o < data_adv { true } else { s.assembler.verif_present(o - data_adv) };
                if is && !was {
                    crate::vassert!((o as i32) < g.wnd, "prop:c04_no_byte_accepted_beyond_advertised_window");
                }
                if was {
                    crate::vassert!(is, "prop:c04_recorded_bytes_never_dropped");
                }
            }
            // ---- ACK never lies
            if let Some((_, rr)) = &reply {
                if rr.control != TcpControl::Rst {
                    crate::vassert!(rr.ack_number == Some(new_nxt), "prop:c04_ack_is_exactly_rcv_nxt");
                    crate::vassert!(rr.payload.is_empty() && rr.control == TcpControl::None, "prop:c05_ack_reply_carries_no_data");
                    crate::vassert!(rr.window_len as usize == s.rx_buffer.window(), "prop:c05_reply_window_is_free_space");
                }
            }
            // ---- A: acknowledged bytes leave the tx queue, the rest keeps its place
            let new_txlen = s.tx_buffer.len();
            crate::vassert!(new_txlen <= g.txlen, "prop:c01_process_never_queues_tx_data");
            let acked = g.txlen - new_txlen;
            if new_txlen > 0 {
                let k = any_lt(TX);
                kani::assume(k < new_txlen);
                let b = s.tx_buffer.get_allocated(k, 1);
                crate::vassert!(b.len() == 1 && b[0] == g.app[(g.txread + acked + k) % TX], "prop:c01_unacked_tx_bytes_keep_place");
                let syn_now = (post == State::SynReceived) as i32;
                let moved = sd(s.local_seq_no, g.una) + syn_now - g.syn_unacked as i32;
                crate::vassert!(moved == acked as i32, "prop:c01_snd_una_tracks_tx_queue");
            }
            // ---- C02 L1: unacknowledged sequence space => finite deadline
            if pending(&s) {
                crate::vassert!(deadline_finite(&mut s, cx), "prop:c02_pending_data_has_finite_deadline");
            }
        }
        // a reply to a reset is never sent; replies go back to the sender
        if let Some((ipr, rr)) = &reply {
            crate::vassert!(sb.control != TcpControl::Rst, "prop:c11_no_reply_to_rst");
            crate::vassert!(ipr.src_addr() == IpAddress::Ipv4(LOCAL) && ipr.dst_addr() == IpAddress::Ipv4(REMOTE), "prop:c10_reply_addresses");
            crate::vassert!(rr.src_port == LPORT && rr.dst_port == RPORT, "prop:c10_reply_ports");
        }
        assert_inv_post(&s, &g);

        kani::cover!(s.rx_buffer.len() > g.rxlen && !pre_asm.is_empty(), "in-order data joined out-of-order data");
        kani::cover!(s.rx_fin_received && !g.fin_rcvd && s.rx_buffer.len() > g.rxlen, "FIN accepted together with data");
        kani::cover!(s.tx_buffer.len() < g.txlen, "ACK released tx bytes");
        kani::cover!(reply.is_some() && post == g.state, "reply produced");
        kani::cover!(post == State::TimeWait && g.state == State::FinWait1, "FIN-WAIT-1 -> TIME-WAIT");
    }

    // @harness props=C01,C04,C17,C02,C03 cfg=KT2 tier=q to=1500 mem=8 unwind=8 opts=nomem covers=5 funcs=tcp::Socket::process;tcp::Socket::accepts;tcp::Socket::poll_at;tcp::Socket::ack_reply;RingBuffer::write_unallocated;Assembler::add_then_remove_front bounds=rx/tx_ring_4_bytes;_payload<=6;_ghost_stream_12_bytes_at_any_i32_base;_all_8_synchronized_states;_<=2_out-of-order_ranges_(assembler_MAX=2);_no_congestion_control
    #[kani::proof]
    pub(crate) fn tcp_rx_step() {
        rx_step(false);
    }

    // @harness props=C01,C04,C17,C02 cfg=KT2 tier=t to=3000 mem=12 unwind=8 opts=nomem covers=5 funcs=tcp::Socket::process;congestion::reno::Reno::on_ack;congestion::reno::Reno::on_dup_ack;congestion::reno::Reno::set_remote_window bounds=as_tcp_rx_step_with_the_Reno_congestion_controller_in_an_arbitrary_state_(MSS_48..65535,_cwnd/rwnd<=2^30)
    #[kani::proof]
    pub(crate) fn tcp_rx_step_reno() {
        rx_step(true);
    }

    // ------------------------------------------------------------------ sender step
    // C05 (i)-(v), C01-S, C04 (iii) for emitted ACK numbers, C17 edges of dispatch, C02-L1
    fn tx_step(with_reno: bool) {
        tcp_env!(dev, iface, cx, now);
        let mut rxs: [u8; RX] = kani::any();
        let mut txs: [u8; TX] = kani::any();
        let app = txs;
        let mut s = Socket::new(SocketBuffer::new(&mut rxs[..]), SocketBuffer::new(&mut txs[..]));
        let g = any_sync_socket(&mut s, now, app, with_reno);
        kani::assume(!pending(&s) || deadline_finite(&mut s, cx));

        let nowi = Instant::from_millis(now);
        crate::vdump!("PRE now={} {:?}", now, s);
        let pre_win = s.remote_win_len;
        let pre_mss = s.remote_mss;
        let pre_zwp = s.timer.should_zero_window_probe(nowi);
        let pre_ka = s.timer.should_keep_alive(nowi);
        let pre_close = s.timer.should_close(nowi);
        let pre_timed_out = s.timed_out(nowi) || (s.remote_last_ts.is_none() && s.timeout == Some(Duration::ZERO));
        let pre_fast = s.pending_fast_retransmit || s.timer == Timer::FastRetransmit;
        let pre_nxt = sadd(s.remote_seq_no, g.rxlen);
        let pre_rxwin = s.rx_buffer.window();
        let pre_tsgen = s.tsval_generator.is_some();
        let ip_mtu = cx.ip_mtu();

        let mut seen = false;
        let mut e_seq = TcpSeqNumber(0);
        let mut e_len = 0usize;
        let mut e_ctl = TcpControl::None;
        let mut e_ack: Option<TcpSeqNumber> = None;
        let mut e_win = 0u16;
        let mut e_wscale: Option<u8> = None;
        let mut e_mss: Option<u16> = None;
        let mut e_hdr = 0usize;
        let mut e_iplen = 0usize;
        let mut e_bytes = [0u8; TX + 1];
        let mut e_src_ok = false;
        let emit_ok: bool = kani::any();
        let res = s.dispatch(cx, |_cx, (ip, repr)| {
            seen = true;
            e_seq = repr.seq_number;
            e_len = repr.payload.len();
            e_ctl = repr.control;
            e_ack = repr.ack_number;
            e_win = repr.window_len;
            e_wscale = repr.window_scale;
            e_mss = repr.max_seg_size;
            e_hdr = repr.header_len();
            e_iplen = ip.header_len() + ip.payload_len();
            e_src_ok = ip.src_addr() == IpAddress::Ipv4(LOCAL) && ip.dst_addr() == IpAddress::Ipv4(REMOTE)
                && repr.src_port == LPORT && repr.dst_port == RPORT && ip.payload_len() == repr.buffer_len();
            let mut i = 0;
            while i < TX + 1 {
                if i < repr.payload.len() {
                    e_bytes[i] = repr.payload[i];
                }
                i += 1;
            }
            if emit_ok { Ok(()) } else { Err(()) }
        });
        crate::vassert!(res.is_ok() == (emit_ok || !seen), "prop:c09_emit_error_passed_through");
        let post = s.state;
        crate::vdump!("EMIT seen={} ok={} seq={} len={} ctl={:?} ack={:?} win={} | ghost una={} inflight={} txlen={} txread={}", seen, emit_ok, e_seq, e_len, e_ctl, e_ack, e_win, g.una, g.inflight, g.txlen, g.txread);
        crate::vdump!("POST {:?}", s);

        // ---- C17: dispatch changes state only by timeout (-> CLOSED) or TIME-WAIT expiry
        if post != g.state {
            crate::vassert!(post == State::Closed, "prop:c17_dispatch_only_closes");
            if g.state == State::TimeWait && !pre_timed_out {
                crate::vassert!(pre_close, "prop:c17_time_wait_ends_only_after_its_timer");
            } else {
                crate::vassert!(pre_timed_out, "prop:c17_dispatch_closes_only_on_timeout");
            }
        }
        if g.state == State::TimeWait && pre_close && !pre_timed_out && !seen {
            crate::vassert!(post == State::Closed, "prop:c17_time_wait_ends_at_its_timer");
        }

        if seen {
            crate::vassert!(e_src_ok, "prop:c10_segment_addresses_and_length");
            if e_ctl == TcpControl::Rst {
                crate::vassert!(post == State::Closed, "prop:c17_rst_only_when_aborting");
            } else {
                // (ii) size limits
                crate::vassert!(e_len <= pre_mss, "prop:c05_payload_within_peer_mss");
                crate::vassert!(e_iplen <= ip_mtu, "prop:c05_segment_within_mtu");
                let off = sd(e_seq, g.una);
                // keep-alive: one garbage byte 0 just below SND.NXT, no state change (RFC 1122 4.2.3.6)
                let is_ka = e_len == 1 && e_bytes[0] == 0 && e_ctl == TcpControl::None
                    && (sd(e_seq, s.remote_last_seq) == -1 || sd(e_seq, g.una) == -1);
                if e_len > 0 && !is_ka {
                    crate::vassert!(off >= 0, "prop:c05_never_sends_below_snd_una");
                    let off = off as usize - g.syn_unacked as usize;
                    // the one-byte zero-window probe: the next unsent byte, sent only when the window is closed
                    let probe = pre_zwp && e_len == 1 && off == g.inflight && pre_win <= g.inflight;
                    if !probe {
                        // (i) inside the window learned from the peer
                        crate::vassert!(off + e_len <= pre_win, "prop:c05_data_within_peer_window");
                    }
                    crate::vassert!(off + e_len <= g.txlen, "prop:c05_data_within_tx_queue");
                    // (iii) exactly the application's bytes, also when retransmitting
                    let i = any_lt(TX);
                    kani::assume(i < e_len);
                    crate::vassert!(e_bytes[i] == g.app[(g.txread + off + i) % TX], "prop:c05_payload_equals_application_bytes");
                    // (iv) contiguous: new data starts at SND.NXT, retransmissions at SND.UNA
                    crate::vassert!(off == g.inflight || off == 0, "prop:c05_data_starts_at_snd_nxt_or_snd_una");
                }
                if e_ctl == TcpControl::Fin {
                    crate::vassert!(g.fin_state, "prop:c05_fin_only_after_close");
                    let off = sd(e_seq, g.una);
                    crate::vassert!(off >= 0 && off as usize + e_len == g.txlen, "prop:c05_fin_only_after_all_queued_data");
                }
                if e_ctl == TcpControl::Syn {
                    // (v) SYN segments carry an unscaled window and the MSS option
                    crate::vassert!(g.state == State::SynReceived, "prop:c05_syn_only_during_handshake");
                    crate::vassert!(e_len == 0 && sd(e_seq, g.una) == 0, "prop:c05_syn_at_iss");
                    crate::vassert!(e_win as usize == core::cmp::min(pre_rxwin, 65535), "prop:c05_syn_window_unscaled");
                    crate::vassert!(e_mss == Some((ip_mtu - 40) as u16), "prop:c05_syn_announces_mss_from_mtu");
                } else {
                    crate::vassert!(e_win as usize == pre_rxwin >> s.remote_win_shift, "prop:c05_window_scaled_as_negotiated");
                    crate::vassert!(e_mss.is_none() && e_wscale.is_none(), "prop:c05_handshake_options_only_on_syn");
                }
                // C04 (iii): the ACK number is exactly RCV.NXT
                crate::vassert!(e_ack == Some(pre_nxt), "prop:c04_ack_is_exactly_rcv_nxt");
            }
        }
        // nothing is altered in the queue by sending
        {
            crate::vassert!(s.tx_buffer.len() == g.txlen || post == State::Closed, "prop:c05_dispatch_keeps_tx_queue");
            if s.tx_buffer.len() == g.txlen && g.txlen > 0 {
                let k = any_lt(TX);
                kani::assume(k < g.txlen);
                let b = s.tx_buffer.get_allocated(k, 1);
                crate::vassert!(b.len() == 1 && b[0] == g.app[(g.txread + k) % TX], "prop:c05_dispatch_keeps_tx_queue");
            }
        }
        if post != State::Closed && post != State::Listen {
            if pending(&s) {
                crate::vassert!(deadline_finite(&mut s, cx), "prop:c02_pending_data_has_finite_deadline");
            }
        }
        assert_inv_post(&s, &g);

        kani::cover!(seen && e_len > 1 && e_ctl != TcpControl::Rst && emit_ok, "data segment emitted");
        kani::cover!(seen && e_ctl == TcpControl::Fin && e_len > 0, "FIN with data emitted");
        kani::cover!(seen && pre_zwp && e_len == 1 && pre_win == 0, "zero-window probe emitted");
        kani::cover!(seen && pre_fast && e_len > 0, "fast retransmission emitted");
        kani::cover!(post == State::Closed && g.state == State::TimeWait, "TIME-WAIT expired");
    }

    // @harness props=C05,C01,C04,C17,C02 cfg=KT tier=q to=1500 mem=8 unwind=8 opts=nomem covers=5 funcs=tcp::Socket::dispatch;tcp::Socket::seq_to_transmit;tcp::Socket::poll_at;RingBuffer::get_allocated bounds=tx/rx_ring_4_bytes;_all_8_synchronized_states;_every_timer_kind;_peer_window_any_u16<<scale;_peer_MSS_48..65535;_MTU_68..1500;_no_congestion_control
    #[kani::proof]
    pub(crate) fn tcp_tx_step() {
        tx_step(false);
    }

    // @harness props=C05,C01,C02,C17 cfg=KT tier=t to=3000 mem=12 unwind=8 opts=nomem covers=5 funcs=tcp::Socket::dispatch;tcp::Socket::seq_to_transmit;congestion::reno::Reno::window;congestion::reno::Reno::on_rto;congestion::reno::Reno::on_loss bounds=as_tcp_tx_step_with_the_Reno_congestion_controller_in_an_arbitrary_state_(MSS_48..65535,_cwnd/rwnd<=2^30)
    #[kani::proof]
    pub(crate) fn tcp_tx_step_reno() {
        tx_step(true);
    }

    // ------------------------------------------------------------------ application reads
    // @harness props=C01,C04 cfg=KT tier=q to=900 mem=8 unwind=8 opts=nomem covers=3 funcs=tcp::Socket::recv_slice;tcp::Socket::recv;tcp::Socket::peek;tcp::Socket::peek_slice bounds=rx_ring_4_bytes;_all_8_synchronized_states;_user_buffer_0..=6
    #[kani::proof]
    pub(crate) fn tcp_recv_step() {
        tcp_env!(dev, iface, cx, now);
        let mut rxs: [u8; RX] = kani::any();
        let mut txs: [u8; TX] = kani::any();
        let app = txs;
        let mut s = Socket::new(SocketBuffer::new(&mut rxs[..]), SocketBuffer::new(&mut txs[..]));
        let g = any_sync_socket(&mut s, now, app, false);
        let pre_nxt = sadd(s.remote_seq_no, g.rxlen);
        let pre_asm = s.assembler.clone();
        let mut buf = [0u8; PL];
        let want = any_le(PL);
        let which: u8 = kani::any();
        let mut got_n = 0usize;
        let mut finished = false;
        let mut err = false;
        let mut consumed = true;
        match which {
            0 => match s.recv_slice(&mut buf[..want]) {
                Ok(n) => got_n = n,
                Err(RecvError::Finished) => finished = true,
                Err(_) => err = true,
            },
            1 => {
                let take = any_le(PL);
                match s.recv(|b| {
                    let t = core::cmp::min(take, b.len());
                    let mut i = 0;
                    while i < PL {
                        if i < t { buf[i] = b[i]; }
                        i += 1;
                    }
                    (t, t)
                }) {
                    Ok(n) => got_n = n,
                    Err(RecvError::Finished) => finished = true,
                    Err(_) => err = true,
                }
            }
            2 => {
                consumed = false;
                match s.peek(want) {
                    Ok(b) => {
                        got_n = b.len();
                        let mut i = 0;
                        while i < PL {
                            if i < b.len() { buf[i] = b[i]; }
                            i += 1;
                        }
                    }
                    Err(RecvError::Finished) => finished = true,
                    Err(_) => err = true,
                }
            }
            _ => {
                consumed = false;
                match s.peek_slice(&mut buf[..want]) {
                    Ok(n) => got_n = n,
                    Err(RecvError::Finished) => finished = true,
                    Err(_) => err = true,
                }
            }
        }
        // exactly the next bytes of the peer's stream
        crate::vassert!(got_n <= g.rxlen && got_n <= PL, "prop:c01_never_hands_out_more_than_queued");
        if got_n > 0 {
            let i = any_lt(PL);
            kani::assume(i < got_n);
            crate::vassert!(buf[i] == g.stream[g.r - g.rxlen + i], "prop:c01_delivered_bytes_are_next_stream_bytes");
        }
        if finished {
            // Finished only after the FIN, with nothing left to read: every byte before the FIN was delivered
            crate::vassert!(g.fin_rcvd && g.rxlen == 0 && g.r == g.fin_at, "prop:c01_finished_only_after_all_bytes_delivered");
        }
        if which == 0 && !finished && !err {
            crate::vassert!(got_n == core::cmp::min(want, g.rxlen), "prop:c01_recv_slice_takes_all_available");
        }
        // consumption advances the stream position by exactly what was handed out; RCV.NXT is unchanged
        let new_len = s.rx_buffer.len();
        crate::vassert!(sd(sadd(s.remote_seq_no, new_len), pre_nxt) == 0, "prop:c04_reading_does_not_move_rcv_nxt");
        if consumed {
            crate::vassert!(new_len == g.rxlen - got_n, "prop:c01_each_byte_delivered_once");
        } else {
            crate::vassert!(new_len == g.rxlen, "prop:c01_peek_consumes_nothing");
        }
        if new_len > 0 {
            let k = any_lt(RX);
            kani::assume(k < new_len);
            let b = s.rx_buffer.get_allocated(k, 1);
            crate::vassert!(b.len() == 1 && b[0] == g.stream[g.r - new_len + k], "prop:c01_rx_bytes_equal_peer_stream");
        }
        {
            // out-of-order data keeps its place relative to RCV.NXT
            let j = any_lt(RX);
            crate::vassert!(s.assembler.verif_present(j) == pre_asm.verif_present(j), "prop:c04_reading_keeps_out_of_order_ranges");
            if pre_asm.verif_present(j) {
                let w = s.rx_buffer.get_unallocated(j, 1);
                crate::vassert!(w.len() == 1 && w[0] == g.stream[g.r + j], "prop:c04_out_of_order_bytes_equal_peer_stream");
            }
        }
        crate::vassert!(s.state == g.state, "prop:c17_reading_never_changes_state");
        kani::cover!(got_n >= 2 && consumed && new_len > 0, "partial read");
        kani::cover!(finished, "Finished reported");
        kani::cover!(got_n >= 1 && !pre_asm.is_empty(), "read with out-of-order data present");
    }

    // ------------------------------------------------------------------ application writes / close
    // @harness props=C01,C05,C17,C02 cfg=KT tier=q to=900 mem=8 unwind=8 opts=nomem covers=3 funcs=tcp::Socket::send_slice;tcp::Socket::send;tcp::Socket::close;tcp::Socket::abort bounds=tx_ring_4_bytes;_all_8_synchronized_states;_user_data_0..=6
    #[kani::proof]
    pub(crate) fn tcp_send_step() {
        tcp_env!(dev, iface, cx, now);
        let mut rxs: [u8; RX] = kani::any();
        let mut txs: [u8; TX] = kani::any();
        let app = txs;
        let mut s = Socket::new(SocketBuffer::new(&mut rxs[..]), SocketBuffer::new(&mut txs[..]));
        let g = any_sync_socket(&mut s, now, app, false);
        kani::assume(!pending(&s) || deadline_finite(&mut s, cx));
        let data: [u8; PL] = kani::any();
        let dl = any_le(PL);
        let which: u8 = kani::any();
        let mut wrote = 0usize;
        let mut refused = false;
        match which {
            0 => match s.send_slice(&data[..dl]) {
                Ok(n) => wrote = n,
                Err(_) => refused = true,
            },
            1 => {
                match s.send(|b| {
                    let t = core::cmp::min(dl, b.len());
                    let mut i = 0;
                    while i < PL {
                        if i < t { b[i] = data[i]; }
                        i += 1;
                    }
                    (t, t)
                }) {
                    Ok(n) => wrote = n,
                    Err(_) => refused = true,
                }
            }
            2 => s.close(),
            _ => s.abort(),
        }
        let post = s.state;
        if which <= 1 {
            crate::vassert!(post == g.state, "prop:c17_writing_never_changes_state");
            crate::vassert!(refused == !matches!(g.state, State::Established | State::CloseWait), "prop:c05_send_only_while_tx_half_open");
            if which == 0 && !refused {
                crate::vassert!(wrote == core::cmp::min(dl, TX - g.txlen), "prop:c01_send_slice_accepts_all_that_fits");
            }
            // accepted bytes are appended unmodified behind what is queued
            crate::vassert!(s.tx_buffer.len() == g.txlen + wrote, "prop:c01_accepted_bytes_are_queued_once");
            if s.tx_buffer.len() > 0 {
                let k = any_lt(TX);
                kani::assume(k < s.tx_buffer.len());
                let b = s.tx_buffer.get_allocated(k, 1);
                let want = if k < g.txlen { g.app[(g.txread + k) % TX] } else { data[k - g.txlen] };
                crate::vassert!(b.len() == 1 && b[0] == want, "prop:c01_tx_queue_is_written_stream");
            }
            crate::vassert!(s.local_seq_no == g.una && sd(s.remote_last_seq, g.una) == g.inflight as i32, "prop:c05_writing_does_not_move_sequence_numbers");
        } else if which == 2 {
            let want = match g.state {
                State::SynReceived | State::Established => State::FinWait1,
                State::CloseWait => State::LastAck,
                st => st,
            };
            crate::vassert!(post == want, "prop:c17_close_follows_rfc_diagram");
            crate::vassert!(s.tx_buffer.len() == g.txlen, "prop:c05_close_keeps_queued_data");
        } else {
            crate::vassert!(post == State::Closed, "prop:c17_abort_closes");
        }
        if post != State::Closed && pending(&s) {
            crate::vassert!(deadline_finite(&mut s, cx), "prop:c02_pending_data_has_finite_deadline");
        }
        kani::cover!(wrote >= 2 && g.txlen > 0, "bytes appended behind queued data");
        kani::cover!(which == 2 && post == State::LastAck, "close in CLOSE-WAIT");
        kani::cover!(wrote > 0 && g.txlen == 0 && s.remote_win_len == 0, "first bytes queued against a zero window");
    }

    // ------------------------------------------------------------------ deadline fires (C02 L2) and poll_at contract (C13)
    // @harness props=C13,C02 cfg=KT tier=q to=1500 mem=8 unwind=8 opts=nomem covers=3 funcs=tcp::Socket::poll_at;tcp::Socket::dispatch bounds=tx/rx_ring_4_bytes;_all_8_synchronized_states;_every_timer_kind;_probe_instant_anywhere_before_the_deadline
    #[kani::proof]
    pub(crate) fn tcp_poll_at_step() {
        tcp_env!(dev, iface, cx, now);
        let mut rxs: [u8; RX] = kani::any();
        let mut txs: [u8; TX] = kani::any();
        let app = txs;
        let mut s = Socket::new(SocketBuffer::new(&mut rxs[..]), SocketBuffer::new(&mut txs[..]));
        let g = any_sync_socket(&mut s, now, app, false);
        kani::assume(!pending(&s) || deadline_finite(&mut s, cx));
        let nowi = Instant::from_millis(now);
        let d = s.poll_at(cx);
        let early = match d {
            PollAt::Ingress => true,
            PollAt::Time(t) => nowi < t,
            PollAt::Now => false,
        };
        let mut seen = false;
        let mut e_len = 0usize;
        let mut e_seglen = 0usize;
        let _ = s.dispatch(cx, |_cx, (_ip, repr)| -> Result<(), ()> {
            seen = true;
            e_len = repr.payload.len();
            e_seglen = repr.segment_len();
            Ok(())
        });
        if early {
            // polling before the deadline transmits nothing and changes no protocol state
            crate::vassert!(!seen, "prop:c13_nothing_sent_before_poll_at");
            crate::vassert!(s.state == g.state, "prop:c13_no_state_change_before_poll_at");
            crate::vassert!(s.local_seq_no == g.una && sd(s.remote_last_seq, g.una) == g.inflight as i32, "prop:c13_no_sequence_change_before_poll_at");
        }
        if !seen && s.state == g.state {
            // non-spinning: a poll that sent nothing leaves a deadline strictly in the future, or none
            match s.poll_at(cx) {
                PollAt::Now => crate::vassert!(false, "prop:c13_idle_poll_leaves_future_deadline"),
                PollAt::Time(t) => crate::vassert!(t > nowi, "prop:c13_idle_poll_leaves_future_deadline"),
                PollAt::Ingress => {}
            }
        }
        if !early && pending(&s) && s.state == g.state {
            // C02 L2 (safety core): at or after the deadline something observable happens or a later finite deadline is armed
            crate::vassert!(seen || deadline_finite(&mut s, cx), "prop:c02_deadline_leads_to_transmission_or_new_deadline");
        }
        kani::cover!(early && matches!(d, PollAt::Time(_)), "polled before a timed deadline");
        kani::cover!(!early && seen && e_seglen > 0, "deadline reached: sequence space (re)transmitted");
        kani::cover!(!seen && matches!(s.poll_at(cx), PollAt::Time(_)), "idle poll with future deadline");
    }

    // ------------------------------------------------------------------ base cases: listen / connect / handshake segments
    fn fresh<'a>(rxs: &'a mut [u8], txs: &'a mut [u8]) -> Socket<'a> {
        let mut s = Socket::new(SocketBuffer::new(rxs), SocketBuffer::new(txs));
        s.ack_delay = if kani::any() { Some(ACK_DELAY_DEFAULT) } else { None };
        s
    }

    // @harness props=C17,C05,C04,C02 cfg=KT tier=q to=900 mem=8 unwind=8 opts=nomem covers=3 funcs=tcp::Socket::listen;tcp::Socket::accepts;tcp::Socket::process;tcp::Socket::dispatch bounds=real_listener_from_new()+listen();_arbitrary_first_segment_(payload<=6);_then_one_dispatch
    #[kani::proof]
    pub(crate) fn tcp_listen_step() {
        tcp_env!(dev, iface, cx, now);
        let mut rxs = [0u8; RX];
        let mut txs = [0u8; TX];
        let mut s = fresh(&mut rxs[..], &mut txs[..]);
        crate::vassert!(s.state == State::Closed, "prop:c17_new_socket_closed");
        s.listen(LPORT).unwrap();
        crate::vassert!(s.state == State::Listen && !pending(&s), "prop:c17_listen_from_closed");
        let g = Ghost { base: 0, stream: [0; U], fin_at: U, r: 0, rxlen: 0, fin_rcvd: false, wnd: 0, app: [0; TX], txread: 0, txlen: 0,
                        inflight: 0, una: TcpSeqNumber(0), syn_unacked: false, fin_state: false, state: State::Listen, now };
        let mut sb = any_peer_segment(&g);
        let repr = seg_repr(&sb);
        let ip_repr = ip_for(&repr);
        let acc = s.accepts(cx, &ip_repr, &repr);
        if acc {
            let reply = s.process(cx, &ip_repr, &repr);
            if s.state != State::Listen {
                crate::vassert!(s.state == State::SynReceived, "prop:c17_listen_leaves_only_to_syn_received");
                crate::vassert!(sb.control == TcpControl::Syn && sb.ack.is_none(), "prop:c17_syn_received_only_by_syn_without_ack");
                crate::vassert!(reply.is_none(), "prop:c17_syn_ack_sent_by_dispatch");
                crate::vassert!(s.remote_seq_no == TcpSeqNumber(sb.seq.wrapping_add(1)), "prop:c04_stream_starts_right_after_syn");
                crate::vassert!(s.rx_buffer.is_empty() && s.assembler.is_empty(), "prop:c04_no_data_accepted_from_syn");
                let want_mss = match sb.mss { Some(0) | None => DEFAULT_MSS, Some(m) => core::cmp::max(m as usize, MIN_REMOTE_MSS) };
                crate::vassert!(s.remote_mss == want_mss, "prop:c05_mss_negotiated_with_floor");
                crate::vassert!(s.remote_win_scale == sb.wscale && s.remote_win_shift == 0, "prop:c05_window_scale_negotiated");
                crate::vassert!(pending(&s) && deadline_finite(&mut s, cx), "prop:c02_pending_data_has_finite_deadline");
                // the SYN-ACK
                let mut seen = false;
                let mut ok = false;
                let iss = s.local_seq_no;
                let mtu = cx.ip_mtu();
                let _ = s.dispatch(cx, |_cx, (_ip, r)| -> Result<(), ()> {
                    seen = true;
                    ok = r.control == TcpControl::Syn && r.seq_number == iss && r.ack_number == Some(TcpSeqNumber(sb.seq.wrapping_add(1)))
                        && r.payload.is_empty() && r.window_len as usize == RX && r.max_seg_size == Some((mtu - 40) as u16)
                        && r.window_scale == sb.wscale.map(|_| 0);
                    Ok(())
                });
                crate::vassert!(seen && ok, "prop:c05_syn_ack_well_formed");
                crate::vassert!(s.state == State::SynReceived && deadline_finite(&mut s, cx), "prop:c02_pending_data_has_finite_deadline");
            } else {
                crate::vassert!(s.tuple.is_none() && s.rx_buffer.is_empty(), "prop:c17_rejected_segment_leaves_listener_untouched");
            }
        }
        kani::cover!(acc && s.state == State::SynReceived && sb.mss == Some(10), "SYN with tiny MSS accepted");
        kani::cover!(acc && s.state == State::Listen, "accepted by filter but ignored");
        kani::cover!(!acc, "not accepted");
    }

    // @harness props=C17,C05,C04,C02 cfg=KT tier=q to=900 mem=8 unwind=8 opts=nomem covers=3 funcs=tcp::Socket::connect;tcp::Socket::dispatch;tcp::Socket::process bounds=real_active_opener_from_new()+connect();_SYN_dispatched;_arbitrary_reply_segment_(payload<=6);_ISS_from_the_real_PRNG_with_symbolic_seed_position
    #[kani::proof]
    pub(crate) fn tcp_syn_sent_step() {
        tcp_env!(dev, iface, cx, now);
        let mut rxs = [0u8; RX];
        let mut txs = [0u8; TX];
        let mut s = fresh(&mut rxs[..], &mut txs[..]);
        // history before the active open: the socket may have been a listener that was closed again
        // (seed s56: a listen endpoint that survives close()/connect() turns the active socket into a
        // "passive" one for the SYN-RECEIVED + RST edge)
        let was_listener: bool = kani::any();
        if was_listener {
            s.listen(LPORT).unwrap();
            crate::vassert!(s.state == State::Listen, "prop:c17_listen_from_closed");
            s.close();
            crate::vassert!(s.state == State::Closed, "prop:c17_close_of_listener");
        }
        s.connect(cx, (IpAddress::Ipv4(REMOTE), RPORT), LPORT).unwrap();
        crate::vassert!(s.state == State::SynSent, "prop:c17_connect_from_closed");
        crate::vassert!(s.listen_endpoint == IpListenEndpoint::default(), "prop:c17_active_open_is_not_a_listener");
        // every ISS value
        let iss = TcpSeqNumber(kani::any());
        s.local_seq_no = iss;
        s.remote_last_seq = iss;
        crate::vassert!(deadline_finite(&mut s, cx), "prop:c02_pending_data_has_finite_deadline");
        let mut ok = false;
        let mtu = cx.ip_mtu();
        let _ = s.dispatch(cx, |_cx, (_ip, r)| -> Result<(), ()> {
            ok = r.control == TcpControl::Syn && r.seq_number == iss && r.ack_number.is_none() && r.payload.is_empty()
                && r.window_len as usize == RX && r.max_seg_size == Some((mtu - 40) as u16) && r.window_scale == Some(0);
            Ok(())
        });
        crate::vassert!(ok, "prop:c05_syn_well_formed");
        crate::vassert!(s.state == State::SynSent && deadline_finite(&mut s, cx), "prop:c02_pending_data_has_finite_deadline");
        let g = Ghost { base: 0, stream: [0; U], fin_at: U, r: 0, rxlen: 0, fin_rcvd: false, wnd: 0, app: [0; TX], txread: 0, txlen: 0,
                        inflight: 1, una: iss, syn_unacked: true, fin_state: false, state: State::SynSent, now };
        let sb = any_peer_segment(&g);
        let repr = seg_repr(&sb);
        let ip_repr = ip_for(&repr);
        kani::assume(s.accepts(cx, &ip_repr, &repr));
        let reply = s.process(cx, &ip_repr, &repr);
        let acks_iss = sb.ack == Some(TcpSeqNumber(iss.0.wrapping_add(1)));
        match s.state {
            State::SynSent => {}
            State::Established => {
                crate::vassert!(sb.control == TcpControl::Syn && acks_iss, "prop:c17_established_only_by_ack_of_own_isn");
                crate::vassert!(s.remote_seq_no == TcpSeqNumber(sb.seq.wrapping_add(1)), "prop:c04_stream_starts_right_after_syn");
                crate::vassert!(s.local_seq_no == TcpSeqNumber(iss.0.wrapping_add(1)), "prop:c01_snd_una_tracks_tx_queue");
                let want_mss = match sb.mss { Some(0) | None => DEFAULT_MSS, Some(m) => core::cmp::max(m as usize, MIN_REMOTE_MSS) };
                crate::vassert!(s.remote_mss == want_mss, "prop:c05_mss_negotiated_with_floor");
            }
            State::SynReceived => {
                crate::vassert!(sb.control == TcpControl::Syn && sb.ack.is_none(), "prop:c17_simultaneous_open_only_by_bare_syn");
                crate::vassert!(deadline_finite(&mut s, cx), "prop:c02_pending_data_has_finite_deadline");
                // RFC 9293 3.10.7.4: only a connection that came from LISTEN returns there on a RST
                crate::vassert!(s.listen_endpoint.port == 0, "prop:c17_active_open_is_not_a_listener");
            }
            State::Closed => {
                crate::vassert!(sb.control == TcpControl::Rst && acks_iss, "prop:c17_handshake_reset_only_by_exact_rst_ack");
            }
            _ => crate::vassert!(false, "prop:c17_edge_in_rfc_diagram"),
        }
        crate::vassert!(s.rx_buffer.is_empty() && s.assembler.is_empty(), "prop:c04_no_data_accepted_from_syn");
        if let Some((_, rr)) = &reply {
            crate::vassert!(sb.control != TcpControl::Rst, "prop:c11_no_reply_to_rst");
        }
        kani::cover!(s.state == State::Established, "handshake completed");
        kani::cover!(s.state == State::SynReceived, "simultaneous open");
        kani::cover!(s.state == State::Closed, "connection refused");
    }

    // ------------------------------------------------------------------ receive-window scaling (rings > 64 KiB)
    // A real handshake on a 128 KiB receive ring (shift 2), then one data segment anywhere in sequence space:
    // nothing may be accepted beyond what the buffer can hold / what was advertised, no debug_assert fires.
    const BIG: usize = 1 << 17;

    fn big_ring_handshake(active: bool) {
        tcp_env!(dev, iface, cx, now);
        #[allow(static_mut_refs, unsafe_code)]
        let big: &'static mut [u8] = unsafe {
            static mut BIGBUF: [u8; BIG] = [0; BIG];
            &mut BIGBUF[..]
        };
        let mut txs = [0u8; TX];
        let mut s = Socket::new(SocketBuffer::new(big), SocketBuffer::new(&mut txs[..]));
        crate::vassert!(s.remote_win_shift == 2, "prop:c05_window_shift_from_buffer_size");
        let peer_scale: bool = kani::any();
        let irs: i32 = kani::any();
        let mut syn_win = 0u16;
        let mut syn_ws: Option<u8> = None;
        if active {
            s.connect(cx, (IpAddress::Ipv4(REMOTE), RPORT), LPORT).unwrap();
            let _ = s.dispatch(cx, |_cx, (_ip, r)| -> Result<(), ()> { syn_win = r.window_len; syn_ws = r.window_scale; Ok(()) });
            let iss = s.local_seq_no;
            let synack = TcpRepr {
                src_port: RPORT, dst_port: LPORT, control: TcpControl::Syn, seq_number: TcpSeqNumber(irs),
                ack_number: Some(sadd(iss, 1)), window_len: 1000, window_scale: if peer_scale { Some(0) } else { None },
                max_seg_size: Some(1460), sack_permitted: false, sack_ranges: [None, None, None], timestamp: None, payload: &[],
            };
            let ipr = ip_for(&synack);
            kani::assume(s.accepts(cx, &ipr, &synack));
            let _ = s.process(cx, &ipr, &synack);
            crate::vassert!(s.state == State::Established, "prop:c17_established_only_by_ack_of_own_isn");
        } else {
            s.listen(LPORT).unwrap();
            let syn = TcpRepr {
                src_port: RPORT, dst_port: LPORT, control: TcpControl::Syn, seq_number: TcpSeqNumber(irs),
                ack_number: None, window_len: 1000, window_scale: if peer_scale { Some(0) } else { None },
                max_seg_size: Some(1460), sack_permitted: false, sack_ranges: [None, None, None], timestamp: None, payload: &[],
            };
            let ipr = ip_for(&syn);
            kani::assume(s.accepts(cx, &ipr, &syn));
            let _ = s.process(cx, &ipr, &syn);
            let _ = s.dispatch(cx, |_cx, (_ip, r)| -> Result<(), ()> { syn_win = r.window_len; syn_ws = r.window_scale; Ok(()) });
        }
        // (v) SYN windows are unscaled; the scale option is offered (active) or echoed only if the peer offered it
        crate::vassert!(syn_win == 65535, "prop:c05_syn_window_unscaled");
        crate::vassert!(syn_ws == (if active || peer_scale { Some(2) } else { None }), "prop:c05_window_scale_option_as_negotiated");
        let shift = if peer_scale { 2 } else { 0 };
        crate::vassert!(s.remote_win_shift == shift, "prop:c05_window_shift_only_if_peer_scales");
        // what the peer was told it may send: the SYN window, unscaled
        let nxt = TcpSeqNumber(irs.wrapping_add(1));
        crate::vassert!(s.remote_seq_no == nxt && s.rx_buffer.is_empty(), "prop:c04_stream_starts_right_after_syn");
        // one data segment (with the final ACK of the handshake for the passive side) anywhere
        let seq: i32 = kani::any();
        let payload: [u8; 4] = kani::any();
        let seg = TcpRepr {
            src_port: RPORT, dst_port: LPORT, control: TcpControl::None, seq_number: TcpSeqNumber(seq),
            ack_number: Some(s.remote_last_seq), window_len: 1000, window_scale: None,
            max_seg_size: None, sack_permitted: false, sack_ranges: [None, None, None], timestamp: None, payload: &payload[..],
        };
        let ipr = ip_for(&seg);
        kani::assume(s.accepts(cx, &ipr, &seg));
        let _ = s.process(cx, &ipr, &seg);
        let off = seq.wrapping_sub(nxt.0);
        // accepted bytes lie inside what was advertised (65535 from the SYN) and inside the buffer;
        // byte exactness is the small-ring harnesses' job (symbolic indexing into 128 KiB exhausts the solver)
        let total = s.assembler.verif_total();
        if total > 0 {
            crate::vassert!(off > 0 && total > off as usize && total <= off as usize + 4, "prop:c04_only_segment_bytes_recorded");
            crate::vassert!(total <= 65535, "prop:c04_no_byte_accepted_beyond_advertised_window");
            crate::vassert!(s.rx_buffer.is_empty(), "prop:c04_in_order_bytes_only");
        }
        if s.rx_buffer.len() > 0 {
            crate::vassert!(off <= 0 && off > -4 && s.rx_buffer.len() == (4 + off) as usize, "prop:c04_in_order_bytes_only");
        }
        crate::vassert!(total + s.rx_buffer.len() <= BIG, "prop:c04_never_exceeds_buffer");
        kani::cover!(s.rx_buffer.len() == 4, "in-order data accepted after the handshake");
        kani::cover!(!s.assembler.is_empty(), "out-of-order data recorded");
    }

    // @harness props=C04,C05,C01,C03 cfg=KT tier=q to=1200 mem=8 unwind=8 opts=nomem covers=2 funcs=tcp::Socket::new;tcp::Socket::connect;tcp::Socket::dispatch;tcp::Socket::process bounds=128_KiB_receive_ring_(window_shift_2);_real_active_open;_peer_with_or_without_window_scaling;_one_4-byte_segment_at_any_sequence_number
    #[kani::proof]
    pub(crate) fn tcp_big_ring_active() {
        big_ring_handshake(true);
    }

    // @harness props=C04,C05,C01,C03 cfg=KT tier=q to=1200 mem=8 unwind=8 opts=nomem covers=2 funcs=tcp::Socket::new;tcp::Socket::listen;tcp::Socket::dispatch;tcp::Socket::process bounds=128_KiB_receive_ring_(window_shift_2);_real_passive_open;_peer_with_or_without_window_scaling;_one_4-byte_segment_at_any_sequence_number
    #[kani::proof]
    pub(crate) fn tcp_big_ring_passive() {
        big_ring_handshake(false);
    }

    // ------------------------------------------------------------------ closed loop (thorough tier)
    // Two real sockets, concrete handshake with BOTH ISNs symbolic, then K symbolic steps over
    // {app send, A/B dispatch (segment may be lost), deliver A->B / B->A (segment may stay in the network = duplicate),
    //  app recv, close, time advance}.  Cross-checks the per-step composition argument (DESIGN 5/C01) and is the
    // replayable-history generator: every counterexample is a complete history from new().
    const P: usize = 4;

    #[derive(Clone, Copy)]
    struct Seg {
        valid: bool,
        control: TcpControl,
        seq: TcpSeqNumber,
        ack: Option<TcpSeqNumber>,
        win: u16,
        mss: Option<u16>,
        len: usize,
        data: [u8; P],
    }
    const NOSEG: Seg = Seg { valid: false, control: TcpControl::None, seq: TcpSeqNumber(0), ack: None, win: 0, mss: None, len: 0, data: [0; P] };

    fn capture(repr: &TcpRepr) -> Seg {
        let mut data = [0u8; P];
        let mut i = 0;
        while i < P {
            if i < repr.payload.len() { data[i] = repr.payload[i]; }
            i += 1;
        }
        Seg { valid: true, control: repr.control, seq: repr.seq_number, ack: repr.ack_number, win: repr.window_len, mss: repr.max_seg_size, len: repr.payload.len(), data }
    }
    fn pair_tx(s: &mut Socket, cx: &mut Context) -> Seg {
        let mut out = NOSEG;
        let _ = s.dispatch(cx, |_cx, (_ip, repr)| -> Result<(), ()> { out = capture(&repr); Ok(()) });
        out
    }
    fn pair_rx(s: &mut Socket, cx: &mut Context, seg: &Seg, from: Ipv4Address, to: Ipv4Address, sp: u16, dp: u16) -> Seg {
        let repr = TcpRepr {
            src_port: sp, dst_port: dp, control: seg.control, seq_number: seg.seq, ack_number: seg.ack,
            window_len: seg.win, window_scale: None, max_seg_size: seg.mss, sack_permitted: false,
            sack_ranges: [None, None, None], timestamp: None, payload: &seg.data[..seg.len],
        };
        let ip = IpRepr::Ipv4(Ipv4Repr { src_addr: from, dst_addr: to, next_header: IpProtocol::Tcp, payload_len: repr.buffer_len(), hop_limit: 64 });
        if !s.accepts(cx, &ip, &repr) {
            return NOSEG;
        }
        match s.process(cx, &ip, &repr) {
            Some((_ip, r)) => capture(&r),
            None => NOSEG,
        }
    }

    fn pair_bmc(steps: usize) {
        let mut deva = NullDev { medium: Medium::Ip, mtu: 1500, checksum: ChecksumCapabilities::ignored() };
        let mut ia = Interface::new(Config::new(HardwareAddress::Ip), &mut deva, Instant::from_millis(0));
        ia.update_ip_addrs(|a| { a.push(IpCidr::new(IpAddress::Ipv4(LOCAL), 24)).unwrap(); });
        let mut ib = Interface::new(Config::new(HardwareAddress::Ip), &mut deva, Instant::from_millis(0));
        ib.update_ip_addrs(|a| { a.push(IpCidr::new(IpAddress::Ipv4(REMOTE), 24)).unwrap(); });
        let mut arx = [0u8; 4];
        let mut atx = [0u8; 4];
        let mut brx = [0u8; 4];
        let mut btx = [0u8; 4];
        let mut a = Socket::new(SocketBuffer::new(&mut arx[..]), SocketBuffer::new(&mut atx[..]));
        let mut b = Socket::new(SocketBuffer::new(&mut brx[..]), SocketBuffer::new(&mut btx[..]));
        a.set_ack_delay(None);
        b.set_ack_delay(None);
        b.listen(RPORT).unwrap();
        a.connect(ia.context(), (IpAddress::Ipv4(REMOTE), RPORT), LPORT).unwrap();
        let isn: i32 = kani::any();
        a.local_seq_no = TcpSeqNumber(isn);
        a.remote_last_seq = TcpSeqNumber(isn);
        let syn = pair_tx(&mut a, ia.context());
        crate::vassert!(syn.valid && syn.control == TcpControl::Syn, "prop:c17_connect_from_closed");
        let _ = pair_rx(&mut b, ib.context(), &syn, LOCAL, REMOTE, LPORT, RPORT);
        let bisn: i32 = kani::any();
        b.local_seq_no = TcpSeqNumber(bisn);
        b.remote_last_seq = TcpSeqNumber(bisn);
        let synack = pair_tx(&mut b, ib.context());
        let _ = pair_rx(&mut a, ia.context(), &synack, REMOTE, LOCAL, RPORT, LPORT);
        crate::vassert!(a.state == State::Established, "prop:c17_established_only_by_ack_of_own_isn");
        let ack = pair_tx(&mut a, ia.context());
        let _ = pair_rx(&mut b, ib.context(), &ack, LOCAL, REMOTE, LPORT, RPORT);
        crate::vassert!(b.state == State::Established, "prop:c17_established_only_by_ack_of_own_isn");

        let stream: [u8; 4] = kani::any();
        let mut sent = 0usize;
        let mut rcvd = 0usize;
        let mut closed = false;
        let mut wire_ab = NOSEG;
        let mut wire_ba = NOSEG;
        let mut now: i64 = 0;
        let mut step = 0;
        while step < steps {
            step += 1;
            let act: u8 = kani::any();
            let dt: i64 = kani::any();
            kani::assume(dt >= 0 && dt <= 4000);
            now += dt;
            ia.poll_maintenance(Instant::from_millis(now));
            ib.poll_maintenance(Instant::from_millis(now));
            match act {
                0 => {
                    let n: usize = kani::any();
                    kani::assume(n >= 1 && n <= 2 && sent + n <= 4);
                    if let Ok(k) = a.send_slice(&stream[sent..sent + n]) { sent += k; }
                }
                1 => { let s = pair_tx(&mut a, ia.context()); if s.valid && kani::any() { wire_ab = s; } }
                2 => { let s = pair_tx(&mut b, ib.context()); if s.valid && kani::any() { wire_ba = s; } }
                3 => {
                    if wire_ab.valid {
                        let r = pair_rx(&mut b, ib.context(), &wire_ab, LOCAL, REMOTE, LPORT, RPORT);
                        if !kani::any::<bool>() { wire_ab = NOSEG; }
                        if r.valid { wire_ba = r; }
                    }
                }
                4 => {
                    if wire_ba.valid {
                        let r = pair_rx(&mut a, ia.context(), &wire_ba, REMOTE, LOCAL, RPORT, LPORT);
                        if !kani::any::<bool>() { wire_ba = NOSEG; }
                        if r.valid { wire_ab = r; }
                    }
                }
                5 => {
                    let mut buf = [0u8; 4];
                    match b.recv_slice(&mut buf[..]) {
                        Ok(k) => {
                            let mut i = 0;
                            while i < 4 {
                                if i < k { crate::vassert!(rcvd + i < sent && buf[i] == stream[rcvd + i], "prop:c01_delivered_bytes_are_a_prefix_of_written_bytes"); }
                                i += 1;
                            }
                            rcvd += k;
                        }
                        Err(RecvError::Finished) => {
                            crate::vassert!(closed && rcvd == sent, "prop:c01_finished_only_after_all_bytes_delivered");
                        }
                        Err(_) => {}
                    }
                }
                _ => { a.close(); closed = true; }
            }
            // C02 safety core along real histories: unacknowledged sequence space => finite deadline
            if pending(&a) {
                crate::vassert!(deadline_finite(&mut a, ia.context()), "prop:c02_pending_data_has_finite_deadline");
            }
        }
        kani::cover!(rcvd >= 1, "at least one byte delivered end to end");
    }

    // @harness props=C01,C02,C17 cfg=KT tier=t to=3000 mem=16 unwind=8 opts=nomem covers=1 funcs=tcp::Socket::connect;tcp::Socket::listen;tcp::Socket::dispatch;tcp::Socket::process;tcp::Socket::send_slice;tcp::Socket::recv_slice;tcp::Socket::close bounds=two_real_sockets,_4-byte_rings,_both_ISNs_symbolic;_4_symbolic_steps_over_7_action_kinds_incl._loss,_duplication,_time_advance<=4_s
    #[kani::proof]
    pub(crate) fn tcp_pair_bmc4() {
        pair_bmc(4);
    }

    // @harness props=C01,C17 kind=mustfail cfg=KT tier=q to=900 mem=8 unwind=8 opts=nomem
    #[kani::proof]
    pub(crate) fn tcp_must_fail() {
        tcp_env!(dev, iface, cx, now);
        let mut rxs: [u8; RX] = kani::any();
        let mut txs: [u8; TX] = kani::any();
        let app = txs;
        let mut s = Socket::new(SocketBuffer::new(&mut rxs[..]), SocketBuffer::new(&mut txs[..]));
        let g = any_sync_socket(&mut s, now, app, false);
        let sb = any_peer_segment(&g);
        let repr = seg_repr(&sb);
        let ip_repr = ip_for(&repr);
        kani::assume(s.accepts(cx, &ip_repr, &repr));
        let _ = s.process(cx, &ip_repr, &repr);
        crate::vassert!(s.state == g.state, "prop:deliberately_false_state_never_changes");
    }
}
