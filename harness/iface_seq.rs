// C03: sequences of received frames.  Spliced into src/iface/interface/mod.rs under single-socket-type build
// configurations (KI4t / KI4u / KI4i raw-IP IPv4 with TCP / UDP / ICMP sockets, KE4u Ethernet IPv4, KI6t / KI6i / KI6u
// raw-IP IPv6, KLi IEEE 802.15.4 + 6LoWPAN, KDd Ethernet IPv4 with the DHCPv4 client): with a one-variant `Socket` enum
// several frames through the real ingress functions fit in memory (under KI4 a second free-byte frame ran out of memory).
//
// Each harness delivers a short sequence of frames through the interface's real ingress function for the medium
// (`process_ip`, `process_ethernet`, `process_ieee802154`), the frames having a concrete IP header addressed to the
// interface and free upper-layer octets (two frames with a free IP header ran out of memory in every configuration; the
// free IP header is the single-frame subject of ipv4_bytes_free / ipv6_bytes_free), then a well-formed echo request to
// the interface's address, and requires: no panic / overflow / out-of-bounds access anywhere (Kani's implicit checks),
// every loop within its unwinding bound, and the echo request answered from the interface's address.
//
// The module itself is not feature-gated (the runner's replay dispatcher names `v_iface_seq::<harness>` in every
// configuration one of the harnesses runs in); every item is.
#[allow(dead_code, unused_imports, unused_variables, unused_mut, unused_macros, unused_assignments)]
mod v_iface_seq {
    use super::*;
    use crate::iface::{SocketHandle, SocketStorage};
    use crate::phy::ChecksumCapabilities;
    #[cfg(feature = "socket-icmp")]
    use crate::socket::icmp;
    #[cfg(feature = "socket-tcp")]
    use crate::socket::tcp;
    #[cfg(feature = "socket-udp")]
    use crate::socket::udp;
    use crate::verif_common::*;
    use crate::verif_dev::{CapDev, CapTx, TxState};

    // ------------------------------------------------------------------ IPv4, raw-IP medium (KI4t, KI4u, KI4i)
    #[cfg(feature = "proto-ipv4")]
    const OWN: Ipv4Address = Ipv4Address::new(192, 168, 1, 1);
    const OWN_U32: u32 = 0xc0a8_0101;

    fn put16(b: &mut [u8], o: usize, v: u16) {
        b[o] = (v >> 8) as u8;
        b[o + 1] = v as u8;
    }
    fn put32(b: &mut [u8], o: usize, v: u32) {
        b[o] = (v >> 24) as u8;
        b[o + 1] = (v >> 16) as u8;
        b[o + 2] = (v >> 8) as u8;
        b[o + 3] = v as u8;
    }
    #[cfg(feature = "proto-ipv4")]
    fn ipv4_header(b: &mut [u8], total_len: usize, proto: u8, src: u32, dst: u32) {
        b[0] = 0x45;
        b[1] = 0;
        put16(b, 2, total_len as u16);
        put16(b, 4, 0x1234);
        put16(b, 6, 0x4000);
        b[8] = 64;
        b[9] = proto;
        put16(b, 10, 0);
        put32(b, 12, src);
        put32(b, 16, dst);
    }
    #[cfg(feature = "proto-ipv4")]
    fn reply_is_echo_from_own(p: &Packet) -> bool {
        let src_ok = match p.ip_repr() {
            IpRepr::Ipv4(r) => r.src_addr == OWN,
            #[allow(unreachable_patterns)]
            _ => false,
        };
        src_ok && matches!(p.payload(), IpPayload::Icmpv4(Icmpv4Repr::EchoReply { .. }))
    }

    macro_rules! iface4 {
        ($iface:ident) => {
            let mut dev = CapDev::<96>::new(Medium::Ip, 1500, ChecksumCapabilities::ignored());
            let now: i64 = kani::any();
            kani::assume(now >= 0 && now < (1i64 << 40));
            let mut $iface = Interface::new(Config::new(HardwareAddress::Ip), &mut dev, Instant::from_millis(now));
            $iface.update_ip_addrs(|a| {
                a.push(IpCidr::new(IpAddress::Ipv4(OWN), 24)).unwrap();
            });
        };
    }

    /// a packet of N octets: octet 0 = 0x45, flags/fragment offset = DF (fragments through the symbolic-offset
    /// reassembly buffer make a second frame run out of memory; fragment sequences are C12's and
    /// echo_after_fragments' subject), everything else free
    fn free_packet<const N: usize>() -> [u8; N] {
        let mut b: [u8; N] = kani::any();
        b[0] = 0x45;
        b[6] = 0x40;
        b[7] = 0;
        b
    }

    #[cfg(all(feature = "proto-ipv4", feature = "medium-ip"))]
    fn echo_answered(iface: &mut Interface, sockets: &mut SocketSet) -> bool {
        let mut e = [0u8; 32];
        ipv4_header(&mut e, 32, 1, 0xc0a8_0102, OWN_U32);
        e[20] = 8;
        put16(&mut e, 24, kani::any());
        put16(&mut e, 26, kani::any());
        let reply = iface.inner.process_ip(sockets, PacketMeta::default(), &e[..], &mut iface.fragments);
        match &reply {
            Some(p) => reply_is_echo_from_own(p),
            None => false,
        }
    }

    // TCP listener: SYN-shaped free packet, then a free packet, then the echo request.
    // @harness props=C03 cfg=KI4t tier=q to=1800 mem=16 unwind=12 opts=nomem covers=2 funcs=InterfaceInner::process_ip;InterfaceInner::process_ipv4;InterfaceInner::process_tcp;tcp::Socket::process;InterfaceInner::process_icmpv4;PacketAssemblerSet::get bounds=raw-IP_medium,_one_listening_TCP_socket_(8-byte_rings);_frame_1:_40_octets_to_the_own_address_with_protocol_6_and_every_TCP_header_octet_free;_frame_2:_44_octets_to_the_own_address_with_protocol_6,_TCP_header_and_4_payload_octets_free;_frame_3:_echo_request
    #[cfg(all(feature = "proto-ipv4", feature = "medium-ip", feature = "socket-tcp"))]
    #[kani::proof]
    pub(crate) fn seq4_tcp_two_frames_then_echo() {
        iface4!(iface);
        let mut trx = [0u8; 8];
        let mut ttx = [0u8; 8];
        let mut tsock = tcp::Socket::new(tcp::SocketBuffer::new(&mut trx[..]), tcp::SocketBuffer::new(&mut ttx[..]));
        tsock.listen(80).unwrap();
        let mut storage = [SocketStorage::EMPTY];
        let mut sockets = SocketSet::new(&mut storage[..]);
        let th = sockets.add(tsock);
        // frame 1: addressed to us, protocol TCP, everything above the IP header free (reaches the listener)
        let mut a: [u8; 40] = kani::any();
        ipv4_header(&mut a, 40, 6, 0xc0a8_0102, OWN_U32);
        let _ = iface.inner.process_ip(&mut sockets, PacketMeta::default(), &a[..], &mut iface.fragments);
        let st1 = sockets.get::<tcp::Socket>(th).state();
        // frame 2: likewise (a packet with a free IP header as well ran out of 16 GB)
        let mut b: [u8; 44] = kani::any();
        ipv4_header(&mut b, 44, 6, 0xc0a8_0102, OWN_U32);
        let _ = iface.inner.process_ip(&mut sockets, PacketMeta::default(), &b[..], &mut iface.fragments);
        let st2 = sockets.get::<tcp::Socket>(th).state();
        crate::vassert!(echo_answered(&mut iface, &mut sockets), "prop:c03_echo_request_answered_after_arbitrary_frames");
        kani::cover!(st1 == tcp::State::SynReceived && st2 == tcp::State::Established, "handshake completed by the two frames");
        kani::cover!(st1 == tcp::State::SynReceived && st2 == tcp::State::Listen, "connection reset by the second frame");
    }

    // UDP socket: two datagrams for the own address whose UDP header and payload octets are free, then the echo
    // request.  (Two packets with a free IP header as well - 32 octets each - ran out of 12 GB in this configuration
    // too; the free IP header is ipv4_bytes_free's single-frame subject.)
    // @harness props=C03 cfg=KI4u tier=q to=1800 mem=12 unwind=12 opts=nomem covers=2 funcs=InterfaceInner::process_ip;InterfaceInner::process_ipv4;InterfaceInner::process_udp;udp::Socket::process;InterfaceInner::process_icmpv4;InterfaceInner::icmpv4_reply bounds=raw-IP_medium,_one_bound_UDP_socket_(2_slots,_16-byte_ring);_frames_1_and_2:_IPv4_header_to_the_own_address_with_protocol_17_and_any_source,_then_12_free_octets_(ports,_length,_checksum,_payload);_frame_3:_echo_request
    #[cfg(all(feature = "proto-ipv4", feature = "medium-ip", feature = "socket-udp"))]
    #[kani::proof]
    pub(crate) fn seq4_udp_two_frames_then_echo() {
        iface4!(iface);
        let mut urm = [udp::PacketMetadata::EMPTY; 2];
        let mut urp = [0u8; 16];
        let mut utm = [udp::PacketMetadata::EMPTY; 2];
        let mut utp = [0u8; 16];
        let mut usock = udp::Socket::new(udp::PacketBuffer::new(&mut urm[..], &mut urp[..]), udp::PacketBuffer::new(&mut utm[..], &mut utp[..]));
        usock.bind(53).unwrap();
        let mut storage = [SocketStorage::EMPTY];
        let mut sockets = SocketSet::new(&mut storage[..]);
        let uh = sockets.add(usock);
        let mut a: [u8; 32] = kani::any();
        ipv4_header(&mut a, 32, 17, kani::any(), OWN_U32);
        let r1 = iface.inner.process_ip(&mut sockets, PacketMeta::default(), &a[..], &mut iface.fragments).is_some();
        let got1 = sockets.get::<udp::Socket>(uh).can_recv();
        let mut b: [u8; 32] = kani::any();
        ipv4_header(&mut b, 32, 17, kani::any(), OWN_U32);
        let r2 = iface.inner.process_ip(&mut sockets, PacketMeta::default(), &b[..], &mut iface.fragments).is_some();
        crate::vassert!(echo_answered(&mut iface, &mut sockets), "prop:c03_echo_request_answered_after_arbitrary_frames");
        let us = sockets.get_mut::<udp::Socket>(uh);
        let d1 = us.recv().is_ok();
        let d2 = us.recv().is_ok();
        kani::cover!(got1 && d1 && d2, "both datagrams delivered to the socket");
        kani::cover!(got1 && r2, "first datagram delivered, second answered with an ICMP error");
    }

    // UDP socket, three datagrams: the socket's receive buffer has 2 metadata slots and 16 payload octets, so the third
    // datagram meets a full buffer (or a closed port, or is malformed) - then the echo request.
    // @harness props=C03 cfg=KI4u tier=q to=1800 mem=12 unwind=12 opts=nomem covers=2 funcs=InterfaceInner::process_ip;InterfaceInner::process_ipv4;InterfaceInner::process_udp;udp::Socket::process;PacketBuffer::enqueue;InterfaceInner::process_icmpv4;InterfaceInner::icmpv4_reply bounds=raw-IP_medium,_one_bound_UDP_socket_(2_slots,_16-byte_ring);_frames_1-3:_IPv4_header_to_the_own_address_with_protocol_17_and_any_source,_then_12_free_octets_(ports,_length,_checksum,_payload);_frame_4:_echo_request;_symbolic_start_time
    #[cfg(all(feature = "proto-ipv4", feature = "medium-ip", feature = "socket-udp"))]
    #[kani::proof]
    pub(crate) fn seq4_udp_three_frames_then_echo() {
        iface4!(iface);
        let mut urm = [udp::PacketMetadata::EMPTY; 2];
        let mut urp = [0u8; 16];
        let mut utm = [udp::PacketMetadata::EMPTY; 2];
        let mut utp = [0u8; 16];
        let mut usock = udp::Socket::new(udp::PacketBuffer::new(&mut urm[..], &mut urp[..]), udp::PacketBuffer::new(&mut utm[..], &mut utp[..]));
        usock.bind(53).unwrap();
        let mut storage = [SocketStorage::EMPTY];
        let mut sockets = SocketSet::new(&mut storage[..]);
        let uh = sockets.add(usock);
        let mut a: [u8; 32] = kani::any();
        ipv4_header(&mut a, 32, 17, kani::any(), OWN_U32);
        let r1 = iface.inner.process_ip(&mut sockets, PacketMeta::default(), &a[..], &mut iface.fragments).is_some();
        let mut b: [u8; 32] = kani::any();
        ipv4_header(&mut b, 32, 17, kani::any(), OWN_U32);
        let r2 = iface.inner.process_ip(&mut sockets, PacketMeta::default(), &b[..], &mut iface.fragments).is_some();
        let mut c: [u8; 32] = kani::any();
        ipv4_header(&mut c, 32, 17, kani::any(), OWN_U32);
        let r3 = iface.inner.process_ip(&mut sockets, PacketMeta::default(), &c[..], &mut iface.fragments).is_some();
        crate::vassert!(echo_answered(&mut iface, &mut sockets), "prop:c03_echo_request_answered_after_arbitrary_frames");
        let us = sockets.get_mut::<udp::Socket>(uh);
        let d1 = us.recv().is_ok();
        let d2 = us.recv().is_ok();
        let d3 = us.recv().is_ok();
        crate::vassert!(!d3, "prop:c03_no_more_datagrams_than_buffer_slots");
        let to_port = |x: &[u8; 32]| x[22] == 0 && x[23] == 53 && x[24] == 0 && x[25] == 12;
        kani::cover!(d1 && d2 && to_port(&c) && !r3, "two datagrams delivered, the third for the same port met the full buffer");
        kani::cover!(d1 && !d2 && r2 && r3, "one datagram delivered, two answered with an ICMP error");
    }

    // ICMP socket bound to a UDP port (receives the ICMP errors quoting datagrams sent from that port): a destination
    // unreachable and a time exceeded message (concrete type octets: with a free type octet, hence a message length that
    // depends on it, 1.06 M steps / 33 M clauses ran out of 12 GB) with free code, checksum, unused word, quoted IP header
    // (first octet 0x45, so the quote is 20 + 8 octets) and quoted datagram start, then the echo request.
    // @harness props=C03 cfg=KI4i tier=q to=1800 mem=12 unwind=12 opts=nomem covers=2 funcs=InterfaceInner::process_ip;InterfaceInner::process_ipv4;InterfaceInner::process_icmpv4;Icmpv4Repr::parse;icmp::Socket::accepts_v4;icmp::Socket::process_v4;Icmpv4Repr::emit;InterfaceInner::icmpv4_reply bounds=raw-IP_medium,_one_ICMP_socket_bound_to_UDP_port_53_(2_slots,_48-byte_receive_ring:_one_36-octet_message_fits);_frame_1:_IPv4_header_to_the_own_address_with_protocol_1_and_any_source,_ICMP_type_3,_then_35_free_octets_except_that_the_quoted_IP_header_starts_with_0x45_(code,_checksum,_unused_word,_19_octets_of_the_quoted_IP_header,_8_quoted_octets);_frame_2:_the_same_with_ICMP_type_11;_frame_3:_echo_request;_symbolic_start_time
    #[cfg(all(feature = "proto-ipv4", feature = "medium-ip", feature = "socket-icmp"))]
    #[kani::proof]
    pub(crate) fn seq4_icmp_errors_then_echo() {
        iface4!(iface);
        let mut irm = [icmp::PacketMetadata::EMPTY; 2];
        let mut irp = [0u8; 48];
        let mut itm = [icmp::PacketMetadata::EMPTY; 1];
        let mut itp = [0u8; 8];
        let mut isock = icmp::Socket::new(icmp::PacketBuffer::new(&mut irm[..], &mut irp[..]), icmp::PacketBuffer::new(&mut itm[..], &mut itp[..]));
        isock.bind(icmp::Endpoint::Udp(IpListenEndpoint { addr: None, port: 53 })).unwrap();
        let mut storage = [SocketStorage::EMPTY];
        let mut sockets = SocketSet::new(&mut storage[..]);
        let ih = sockets.add(isock);
        let mut a: [u8; 56] = kani::any();
        ipv4_header(&mut a, 56, 1, kani::any(), OWN_U32);
        a[20] = 3;
        a[28] = 0x45;
        let r1 = iface.inner.process_ip(&mut sockets, PacketMeta::default(), &a[..], &mut iface.fragments).is_some();
        let got1 = sockets.get::<icmp::Socket>(ih).can_recv();
        let mut b: [u8; 56] = kani::any();
        ipv4_header(&mut b, 56, 1, kani::any(), OWN_U32);
        b[20] = 11;
        b[28] = 0x45;
        let r2 = iface.inner.process_ip(&mut sockets, PacketMeta::default(), &b[..], &mut iface.fragments).is_some();
        crate::vassert!(!r1 && !r2, "prop:c03_icmp_errors_never_answered");
        crate::vassert!(echo_answered(&mut iface, &mut sockets), "prop:c03_echo_request_answered_after_arbitrary_frames");
        let is = sockets.get_mut::<icmp::Socket>(ih);
        let d1 = is.recv().is_ok();
        let d2 = is.recv().is_ok();
        kani::cover!(got1 && d1 && !d2 && b[48] == 0 && b[49] == 53, "destination unreachable delivered, time exceeded for the same port met the full buffer");
        kani::cover!(!got1 && d1 && !d2, "an error quoting another port ignored, the second one delivered");
    }
}
