// C03: sequences of received frames.  Spliced into src/iface/interface/mod.rs under single-socket-type build
// configurations (KI4t / KI4u / KI4i raw-IP IPv4 with TCP / UDP / ICMP sockets, KE4u Ethernet IPv4, KI6t / KI6i / KI6u
// raw-IP IPv6, KLi IEEE 802.15.4 + 6LoWPAN, KDd Ethernet IPv4 with the DHCPv4 client): with a one-variant `Socket` enum
// several frames through the real ingress functions fit in memory (under KI4 a second free-byte frame ran out of memory).
//
// Each harness delivers a short sequence of frames through the interface's real ingress function for the medium
// (`process_ip`, `process_ethernet`, `process_ieee802154`), the frames having a concrete IP header addressed to the
// interface and free upper-layer octets (two frames with a free IP header ran out of memory in every configuration; the
// free IP header is the single-frame subject of ipv4_bytes_free / ipv6_bytes_free), then a well-formed echo request to
// the interface's address, and requires: no panic / overflow / out-of-bounds access anywhere (Kani's implicit checks),
// every loop within its unwinding bound, and the echo request answered from the interface's address.
//
// The module itself is not feature-gated (the runner's replay dispatcher names `v_iface_seq::<harness>` in every
// configuration one of the harnesses runs in); every item is.
#[allow(dead_code, unused_imports, unused_variables, unused_mut, unused_macros, unused_assignments)]
mod v_iface_seq {
    use super::*;
    use crate::iface::{SocketHandle, SocketStorage};
    use crate::phy::ChecksumCapabilities;
    #[cfg(feature = "socket-icmp")]
    use crate::socket::icmp;
    #[cfg(feature = "socket-tcp")]
    use crate::socket::tcp;
    #[cfg(feature = "socket-udp")]
    use crate::socket::udp;
    use crate::verif_common::*;
    use crate::verif_dev::{CapDev, CapTx, TxState};

    // ------------------------------------------------------------------ IPv4, raw-IP medium (KI4t, KI4u, KI4i)
    #[cfg(feature = "proto-ipv4")]
    const OWN: Ipv4Address = Ipv4Address::new(192, 168, 1, 1);
    const OWN_U32: u32 = 0xc0a8_0101;

    fn put16(b: &mut [u8], o: usize, v: u16) {
        b[o] = (v >> 8) as u8;
        b[o + 1] = v as u8;
    }
    fn put32(b: &mut [u8], o: usize, v: u32) {
        b[o] = (v >> 24) as u8;
        b[o + 1] = (v >> 16) as u8;
        b[o + 2] = (v >> 8) as u8;
        b[o + 3] = v as u8;
    }
    #[cfg(feature = "proto-ipv4")]
    fn ipv4_header(b: &mut [u8], total_len: usize, proto: u8, src: u32, dst: u32) {
        b[0] = 0x45;
        b[1] = 0;
        put16(b, 2, total_len as u16);
        put16(b, 4, 0x1234);
        put16(b, 6, 0x4000);
        b[8] = 64;
        b[9] = proto;
        put16(b, 10, 0);
        put32(b, 12, src);
        put32(b, 16, dst);
    }
    #[cfg(feature = "proto-ipv4")]
    fn reply_is_echo_from_own(p: &Packet) -> bool {
        let src_ok = match p.ip_repr() {
            IpRepr::Ipv4(r) => r.src_addr == OWN,
            #[allow(unreachable_patterns)]
            _ => false,
        };
        src_ok && matches!(p.payload(), IpPayload::Icmpv4(Icmpv4Repr::EchoReply { .. }))
    }

    macro_rules! iface4 {
        ($iface:ident) => {
            let mut dev = CapDev::<96>::new(Medium::Ip, 1500, ChecksumCapabilities::ignored());
            let now: i64 = kani::any();
            kani::assume(now >= 0 && now < (1i64 << 40));
            let mut $iface = Interface::new(Config::new(HardwareAddress::Ip), &mut dev, Instant::from_millis(now));
            $iface.update_ip_addrs(|a| {
                a.push(IpCidr::new(IpAddress::Ipv4(OWN), 24)).unwrap();
            });
        };
    }

    /// a packet of N octets: octet 0 = 0x45, flags/fragment offset = DF (fragments through the symbolic-offset
    /// reassembly buffer make a second frame run out of memory; fragment sequences are C12's and
    /// echo_after_fragments' subject), everything else free
    fn free_packet<const N: usize>() -> [u8; N] {
        let mut b: [u8; N] = kani::any();
        b[0] = 0x45;
        b[6] = 0x40;
        b[7] = 0;
        b
    }

    #[cfg(all(feature = "proto-ipv4", feature = "medium-ip"))]
    fn echo_answered(iface: &mut Interface, sockets: &mut SocketSet) -> bool {
        let mut e = [0u8; 32];
        ipv4_header(&mut e, 32, 1, 0xc0a8_0102, OWN_U32);
        e[20] = 8;
        put16(&mut e, 24, kani::any());
        put16(&mut e, 26, kani::any());
        let reply = iface.inner.process_ip(sockets, PacketMeta::default(), &e[..], &mut iface.fragments);
        match &reply {
            Some(p) => reply_is_echo_from_own(p),
            None => false,
        }
    }

    // TCP listener: SYN-shaped free packet, then a free packet, then the echo request.
    // @harness props=C03 cfg=KI4t tier=q to=1800 mem=16 unwind=12 opts=nomem covers=2 funcs=InterfaceInner::process_ip;InterfaceInner::process_ipv4;InterfaceInner::process_tcp;tcp::Socket::process;InterfaceInner::process_icmpv4;PacketAssemblerSet::get bounds=raw-IP_medium,_one_listening_TCP_socket_(8-byte_rings);_frame_1:_40_octets_to_the_own_address_with_protocol_6_and_every_TCP_header_octet_free;_frame_2:_44_octets_to_the_own_address_with_protocol_6,_TCP_header_and_4_payload_octets_free;_frame_3:_echo_request
    #[cfg(all(feature = "proto-ipv4", feature = "medium-ip", feature = "socket-tcp"))]
    #[kani::proof]
    pub(crate) fn seq4_tcp_two_frames_then_echo() {
        iface4!(iface);
        let mut trx = [0u8; 8];
        let mut ttx = [0u8; 8];
        let mut tsock = tcp::Socket::new(tcp::SocketBuffer::new(&mut trx[..]), tcp::SocketBuffer::new(&mut ttx[..]));
        tsock.listen(80).unwrap();
        let mut storage = [SocketStorage::EMPTY];
        let mut sockets = SocketSet::new(&mut storage[..]);
        let th = sockets.add(tsock);
        // frame 1: addressed to us, protocol TCP, everything above the IP header free (reaches the listener)
        let mut a: [u8; 40] = kani::any();
        ipv4_header(&mut a, 40, 6, 0xc0a8_0102, OWN_U32);
        let _ = iface.inner.process_ip(&mut sockets, PacketMeta::default(), &a[..], &mut iface.fragments);
        let st1 = sockets.get::<tcp::Socket>(th).state();
        // frame 2: likewise (a packet with a free IP header as well ran out of 16 GB)
        let mut b: [u8; 44] = kani::any();
        ipv4_header(&mut b, 44, 6, 0xc0a8_0102, OWN_U32);
        let _ = iface.inner.process_ip(&mut sockets, PacketMeta::default(), &b[..], &mut iface.fragments);
        let st2 = sockets.get::<tcp::Socket>(th).state();
        crate::vassert!(echo_answered(&mut iface, &mut sockets), "prop:c03_echo_request_answered_after_arbitrary_frames");
        kani::cover!(st1 == tcp::State::SynReceived && st2 == tcp::State::Established, "handshake completed by the two frames");
        kani::cover!(st1 == tcp::State::SynReceived && st2 == tcp::State::Listen, "connection reset by the second frame");
    }

    // UDP socket: two datagrams for the own address whose UDP header and payload octets are free, then the echo
    // request.  (Two packets with a free IP header as well - 32 octets each - ran out of 12 GB in this configuration
    // too; the free IP header is ipv4_bytes_free's single-frame subject.)
    // @harness props=C03 cfg=KI4u tier=q to=1800 mem=12 unwind=12 opts=nomem covers=2 funcs=InterfaceInner::process_ip;InterfaceInner::process_ipv4;InterfaceInner::process_udp;udp::Socket::process;InterfaceInner::process_icmpv4;InterfaceInner::icmpv4_reply bounds=raw-IP_medium,_one_bound_UDP_socket_(2_slots,_16-byte_ring);_frames_1_and_2:_IPv4_header_to_the_own_address_with_protocol_17_and_any_source,_then_12_free_octets_(ports,_length,_checksum,_payload);_frame_3:_echo_request
    #[cfg(all(feature = "proto-ipv4", feature = "medium-ip", feature = "socket-udp"))]
    #[kani::proof]
    pub(crate) fn seq4_udp_two_frames_then_echo() {
        iface4!(iface);
        let mut urm = [udp::PacketMetadata::EMPTY; 2];
        let mut urp = [0u8; 16];
        let mut utm = [udp::PacketMetadata::EMPTY; 2];
        let mut utp = [0u8; 16];
        let mut usock = udp::Socket::new(udp::PacketBuffer::new(&mut urm[..], &mut urp[..]), udp::PacketBuffer::new(&mut utm[..], &mut utp[..]));
        usock.bind(53).unwrap();
        let mut storage = [SocketStorage::EMPTY];
        let mut sockets = SocketSet::new(&mut storage[..]);
        let uh = sockets.add(usock);
        let mut a: [u8; 32] = kani::any();
        ipv4_header(&mut a, 32, 17, kani::any(), OWN_U32);
        let r1 = iface.inner.process_ip(&mut sockets, PacketMeta::default(), &a[..], &mut iface.fragments).is_some();
        let got1 = sockets.get::<udp::Socket>(uh).can_recv();
        let mut b: [u8; 32] = kani::any();
        ipv4_header(&mut b, 32, 17, kani::any(), OWN_U32);
        let r2 = iface.inner.process_ip(&mut sockets, PacketMeta::default(), &b[..], &mut iface.fragments).is_some();
        crate::vassert!(echo_answered(&mut iface, &mut sockets), "prop:c03_echo_request_answered_after_arbitrary_frames");
        let us = sockets.get_mut::<udp::Socket>(uh);
        let d1 = us.recv().is_ok();
        let d2 = us.recv().is_ok();
        kani::cover!(got1 && d1 && d2, "both datagrams delivered to the socket");
        kani::cover!(got1 && r2, "first datagram delivered, second answered with an ICMP error");
    }

    // UDP socket, three datagrams: the socket's receive buffer has 2 metadata slots and 16 payload octets, so the third
    // datagram meets a full buffer (or a closed port, or is malformed) - then the echo request.
    // @harness props=C03 cfg=KI4u tier=q to=1800 mem=12 unwind=12 opts=nomem covers=2 funcs=InterfaceInner::process_ip;InterfaceInner::process_ipv4;InterfaceInner::process_udp;udp::Socket::process;PacketBuffer::enqueue;InterfaceInner::process_icmpv4;InterfaceInner::icmpv4_reply bounds=raw-IP_medium,_one_bound_UDP_socket_(2_slots,_16-byte_ring);_frames_1-3:_IPv4_header_to_the_own_address_with_protocol_17_and_any_source,_then_12_free_octets_(ports,_length,_checksum,_payload);_frame_4:_echo_request;_symbolic_start_time
    #[cfg(all(feature = "proto-ipv4", feature = "medium-ip", feature = "socket-udp"))]
    #[kani::proof]
    pub(crate) fn seq4_udp_three_frames_then_echo() {
        iface4!(iface);
        let mut urm = [udp::PacketMetadata::EMPTY; 2];
        let mut urp = [0u8; 16];
        let mut utm = [udp::PacketMetadata::EMPTY; 2];
        let mut utp = [0u8; 16];
        let mut usock = udp::Socket::new(udp::PacketBuffer::new(&mut urm[..], &mut urp[..]), udp::PacketBuffer::new(&mut utm[..], &mut utp[..]));
        usock.bind(53).unwrap();
        let mut storage = [SocketStorage::EMPTY];
        let mut sockets = SocketSet::new(&mut storage[..]);
        let uh = sockets.add(usock);
        let mut a: [u8; 32] = kani::any();
        ipv4_header(&mut a, 32, 17, kani::any(), OWN_U32);
        let r1 = iface.inner.process_ip(&mut sockets, PacketMeta::default(), &a[..], &mut iface.fragments).is_some();
        let mut b: [u8; 32] = kani::any();
        ipv4_header(&mut b, 32, 17, kani::any(), OWN_U32);
        let r2 = iface.inner.process_ip(&mut sockets, PacketMeta::default(), &b[..], &mut iface.fragments).is_some();
        let mut c: [u8; 32] = kani::any();
        ipv4_header(&mut c, 32, 17, kani::any(), OWN_U32);
        let r3 = iface.inner.process_ip(&mut sockets, PacketMeta::default(), &c[..], &mut iface.fragments).is_some();
        crate::vassert!(echo_answered(&mut iface, &mut sockets), "prop:c03_echo_request_answered_after_arbitrary_frames");
        let us = sockets.get_mut::<udp::Socket>(uh);
        let d1 = us.recv().is_ok();
        let d2 = us.recv().is_ok();
        let d3 = us.recv().is_ok();
        crate::vassert!(!d3, "prop:c03_no_more_datagrams_than_buffer_slots");
        let to_port = |x: &[u8; 32]| x[22] == 0 && x[23] == 53 && x[24] == 0 && x[25] == 12;
        kani::cover!(d1 && d2 && to_port(&c) && !r3, "two datagrams delivered, the third for the same port met the full buffer");
        kani::cover!(d1 && !d2 && r2 && r3, "one datagram delivered, two answered with an ICMP error");
    }

    // ICMP socket bound to a UDP port (receives the ICMP errors quoting datagrams sent from that port): a destination
    // unreachable and a time exceeded message (concrete type octets: with a free type octet, hence a message length that
    // depends on it, 1.06 M steps / 33 M clauses ran out of 12 GB) with free code, checksum, unused word, quoted IP header
    // (first octet 0x45, so the quote is 20 + 8 octets) and quoted datagram start, then the echo request.
    // @harness props=C03 cfg=KI4i tier=q to=1800 mem=12 unwind=12 opts=nomem covers=2 funcs=InterfaceInner::process_ip;InterfaceInner::process_ipv4;InterfaceInner::process_icmpv4;Icmpv4Repr::parse;icmp::Socket::accepts_v4;icmp::Socket::process_v4;Icmpv4Repr::emit;InterfaceInner::icmpv4_reply bounds=raw-IP_medium,_one_ICMP_socket_bound_to_UDP_port_53_(2_slots,_48-byte_receive_ring:_one_36-octet_message_fits);_frame_1:_IPv4_header_to_the_own_address_with_protocol_1_and_any_source,_ICMP_type_3,_then_35_free_octets_except_that_the_quoted_IP_header_starts_with_0x45_(code,_checksum,_unused_word,_19_octets_of_the_quoted_IP_header,_8_quoted_octets);_frame_2:_the_same_with_ICMP_type_11;_frame_3:_echo_request;_symbolic_start_time
    #[cfg(all(feature = "proto-ipv4", feature = "medium-ip", feature = "socket-icmp"))]
    #[kani::proof]
    pub(crate) fn seq4_icmp_errors_then_echo() {
        iface4!(iface);
        let mut irm = [icmp::PacketMetadata::EMPTY; 2];
        let mut irp = [0u8; 48];
        let mut itm = [icmp::PacketMetadata::EMPTY; 1];
        let mut itp = [0u8; 8];
        let mut isock = icmp::Socket::new(icmp::PacketBuffer::new(&mut irm[..], &mut irp[..]), icmp::PacketBuffer::new(&mut itm[..], &mut itp[..]));
        isock.bind(icmp::Endpoint::Udp(IpListenEndpoint { addr: None, port: 53 })).unwrap();
        let mut storage = [SocketStorage::EMPTY];
        let mut sockets = SocketSet::new(&mut storage[..]);
        let ih = sockets.add(isock);
        let mut a: [u8; 56] = kani::any();
        ipv4_header(&mut a, 56, 1, kani::any(), OWN_U32);
        a[20] = 3;
        a[28] = 0x45;
        let r1 = iface.inner.process_ip(&mut sockets, PacketMeta::default(), &a[..], &mut iface.fragments).is_some();
        let got1 = sockets.get::<icmp::Socket>(ih).can_recv();
        let mut b: [u8; 56] = kani::any();
        ipv4_header(&mut b, 56, 1, kani::any(), OWN_U32);
        b[20] = 11;
        b[28] = 0x45;
        let r2 = iface.inner.process_ip(&mut sockets, PacketMeta::default(), &b[..], &mut iface.fragments).is_some();
        crate::vassert!(!r1 && !r2, "prop:c03_icmp_errors_never_answered");
        crate::vassert!(echo_answered(&mut iface, &mut sockets), "prop:c03_echo_request_answered_after_arbitrary_frames");
        let is = sockets.get_mut::<icmp::Socket>(ih);
        let d1 = is.recv().is_ok();
        let d2 = is.recv().is_ok();
        kani::cover!(got1 && d1 && !d2 && b[48] == 0 && b[49] == 53, "destination unreachable delivered, time exceeded for the same port met the full buffer");
        kani::cover!(!got1 && d1 && !d2, "an error quoting another port ignored, the second one delivered");
    }

    // ------------------------------------------------------------------ IPv4, Ethernet medium (KE4u)
    #[cfg(feature = "medium-ethernet")]
    const OWN_MAC: [u8; 6] = [0x02, 0, 0, 0, 0, 1];
    #[cfg(feature = "medium-ethernet")]
    const PEER_MAC: [u8; 6] = [0x02, 0, 0, 0, 0, 2];
    const PEER_U32: u32 = 0xc0a8_0102;

    /// A transmit token that carries no pointer: the frame is captured in a static.  (A token holding `&mut TxState` that
    /// travels through the `Result` returned by `lookup_hardware_addr` loses its points-to precision in CBMC once the
    /// neighbor cache is symbolic: dispatch_ip of the echo reply took 2 M steps and ran out of 12 GB with `CapTx`.)
    #[allow(unsafe_code)]
    mod gtx {
        use super::*;
        pub(super) const CAP: usize = 64;
        pub(super) static mut G: TxState<CAP> = TxState { frames: 0, len0: 0, len1: 0, buf0: [0; CAP], buf1: [0; CAP] };
        pub(super) struct GTx;
        impl TxToken for GTx {
            fn consume<R, F: FnOnce(&mut [u8]) -> R>(self, len: usize, f: F) -> R {
                // single-threaded harness: the only reference to G alive
                let st: &mut TxState<CAP> = unsafe { &mut *core::ptr::addr_of_mut!(G) };
                let r;
                if st.frames == 0 {
                    st.len0 = len;
                    r = f(&mut st.buf0[..len]);
                } else {
                    st.len1 = len;
                    r = f(&mut st.buf1[..len]);
                }
                st.frames += 1;
                r
            }
        }
        pub(super) fn captured() -> &'static TxState<CAP> {
            unsafe { &*core::ptr::addr_of!(G) }
        }
    }

    /// Ethernet header: destination, source, ethertype
    fn eth_header(f: &mut [u8], dst: &[u8; 6], src: &[u8; 6], ethertype: u16) {
        f[0] = dst[0];
        f[1] = dst[1];
        f[2] = dst[2];
        f[3] = dst[3];
        f[4] = dst[4];
        f[5] = dst[5];
        f[6] = src[0];
        f[7] = src[1];
        f[8] = src[2];
        f[9] = src[3];
        f[10] = src[4];
        f[11] = src[5];
        put16(f, 12, ethertype);
    }

    /// Ethernet interface 02:00:00:00:00:01 / 192.168.1.1/24 at a concrete instant, one bound UDP socket; the neighbor
    /// cache (3 entries in this build) starts with `prefill` entries for 192.168.1.10, .11 (concrete, older than anything
    /// learned later).
    /// Frame 1: well-formed ARP request from 192.168.1.2 / 02:00:00:00:00:02 for the own address -> ARP reply (the peer
    ///          is resolved first: a second cache fill AFTER the free ARP frame - symbolic cache contents and length -
    ///          took the formula from 0.24 M to 0.89 M steps and out of 12 GB before the echo reply was even dispatched);
    /// frame 2: ARP packet, all 28 octets free, to the broadcast or the own hardware address, from any source address;
    /// frame 3: IPv4 packet to the own address (header concrete but for protocol and source address), 12 free octets;
    /// frame 4: echo request from the peer -> echo reply handed to the device through the real dispatch_ip, addressed to
    ///          the hardware address the cache holds for the peer: 02:00:00:00:00:02, unless frame 2 was a valid ARP
    ///          packet that claimed 192.168.1.2 for another hardware address.
    #[cfg(all(feature = "proto-ipv4", feature = "medium-ethernet", feature = "socket-udp", not(feature = "medium-ip")))]
    fn eth_seq_case(prefill: usize, mode: u8) {
        let mut dev = CapDev::<64>::new(Medium::Ethernet, 1514, ChecksumCapabilities::ignored());
        let now: i64 = 100_000_000;
        let t0 = Instant::from_micros(now);
        let mut iface = Interface::new(Config::new(HardwareAddress::Ethernet(EthernetAddress(OWN_MAC))), &mut dev, t0);
        iface.update_ip_addrs(|a| {
            a.push(IpCidr::new(IpAddress::Ipv4(OWN), 24)).unwrap();
        });
        let mut urm = [udp::PacketMetadata::EMPTY; 2];
        let mut urp = [0u8; 16];
        let mut utm = [udp::PacketMetadata::EMPTY; 2];
        let mut utp = [0u8; 16];
        let mut usock = udp::Socket::new(udp::PacketBuffer::new(&mut urm[..], &mut urp[..]), udp::PacketBuffer::new(&mut utm[..], &mut utp[..]));
        usock.bind(53).unwrap();
        let mut storage = [SocketStorage::EMPTY];
        let mut sockets = SocketSet::new(&mut storage[..]);
        let uh = sockets.add(usock);
        let k10 = IpAddress::Ipv4(Ipv4Address::new(192, 168, 1, 10));
        let k11 = IpAddress::Ipv4(Ipv4Address::new(192, 168, 1, 11));
        let peer = IpAddress::Ipv4(Ipv4Address::from_bits(PEER_U32));
        if prefill == 7 {
            iface.inner.neighbor_cache.fill_with_expiration(k10, HardwareAddress::Ethernet(EthernetAddress([0x02, 0, 0, 0, 0, 0x10])), Instant::from_micros(now + 10_000_000));
            iface.inner.neighbor_cache.fill_with_expiration(k11, HardwareAddress::Ethernet(EthernetAddress([0x02, 0, 0, 0, 0, 0x11])), Instant::from_micros(now + 20_000_000));
            iface.inner.neighbor_cache.fill_with_expiration(IpAddress::Ipv4(Ipv4Address::new(192, 168, 1, 12)), HardwareAddress::Ethernet(EthernetAddress([0x02, 0, 0, 0, 0, 0x12])), Instant::from_micros(now + 21_000_000));
            iface.inner.neighbor_cache.fill_with_expiration(IpAddress::Ipv4(Ipv4Address::new(192, 168, 1, 13)), HardwareAddress::Ethernet(EthernetAddress([0x02, 0, 0, 0, 0, 0x13])), Instant::from_micros(now + 22_000_000));
            iface.inner.neighbor_cache.fill_with_expiration(IpAddress::Ipv4(Ipv4Address::new(192, 168, 1, 14)), HardwareAddress::Ethernet(EthernetAddress([0x02, 0, 0, 0, 0, 0x14])), Instant::from_micros(now + 23_000_000));
            iface.inner.neighbor_cache.fill_with_expiration(IpAddress::Ipv4(Ipv4Address::new(192, 168, 1, 15)), HardwareAddress::Ethernet(EthernetAddress([0x02, 0, 0, 0, 0, 0x15])), Instant::from_micros(now + 24_000_000));
            iface.inner.neighbor_cache.fill_with_expiration(IpAddress::Ipv4(Ipv4Address::new(192, 168, 1, 16)), HardwareAddress::Ethernet(EthernetAddress([0x02, 0, 0, 0, 0, 0x16])), Instant::from_micros(now + 25_000_000));
        }

        // frame 1: the peer asks for our hardware address
        let mut f1 = [0u8; 42];
        eth_header(&mut f1, &[0xff; 6], &PEER_MAC, 0x0806);
        put16(&mut f1, 14, 1);
        put16(&mut f1, 16, 0x0800);
        f1[18] = 6;
        f1[19] = 4;
        put16(&mut f1, 20, 1);
        f1[22..28].copy_from_slice(&PEER_MAC);
        put32(&mut f1, 28, PEER_U32);
        put32(&mut f1, 38, OWN_U32);
        let r1 = iface.inner.process_ethernet(&mut sockets, PacketMeta::default(), &f1[..], &mut iface.fragments);
        let arp_ok = match r1 {
            Some(EthernetPacket::Arp(ArpRepr::EthernetIpv4 { operation, source_hardware_addr, source_protocol_addr, target_hardware_addr, target_protocol_addr })) => {
                operation == ArpOperation::Reply
                    && source_hardware_addr == EthernetAddress(OWN_MAC)
                    && source_protocol_addr == OWN
                    && target_hardware_addr == EthernetAddress(PEER_MAC)
                    && target_protocol_addr == Ipv4Address::from_bits(PEER_U32)
            }
            _ => false,
        };
        crate::vassert!(arp_ok, "prop:c03_arp_request_answered");

        // frame 2: free ARP packet
        let mut f2 = [0u8; 42];
        let smac2: [u8; 6] = kani::any();
        let to_bcast: bool = kani::any();
        eth_header(&mut f2, if to_bcast { &[0xff; 6] } else { &OWN_MAC }, &smac2, 0x0806);
        let arp: [u8; 28] = kani::any();
        f2[14..].copy_from_slice(&arp);
        let mut r2_arp = false;
        if mode & 4 != 0 {
            let r2 = iface.inner.process_ethernet(&mut sockets, PacketMeta::default(), &f2[..], &mut iface.fragments);
            r2_arp = matches!(r2, Some(EthernetPacket::Arp(_)));
            crate::vassert!(r2.is_none() || r2_arp, "prop:c03_arp_answered_by_arp_only");
        }
        let claims_peer = arp[14] == 192 && arp[15] == 168 && arp[16] == 1 && arp[17] == 2;
        let evicted = prefill == 7 && !iface.inner.neighbor_cache.lookup(&k10, t0).found();

        // frame 3: IPv4 packet for the own address, any protocol, any source, free upper-layer octets
        let mut f3: [u8; 46] = kani::any();
        let smac3: [u8; 6] = kani::any();
        eth_header(&mut f3, &OWN_MAC, &smac3, 0x0800);
        let proto: u8 = if mode & 8 != 0 { kani::any() } else { 17 };
        ipv4_header(&mut f3[14..], 32, proto, kani::any(), OWN_U32);
        let mut r3_some = false;
        if mode & 1 != 0 {
            let r3 = iface.inner.process_ethernet(&mut sockets, PacketMeta::default(), &f3[..], &mut iface.fragments);
            r3_some = r3.is_some();
            crate::vassert!(!matches!(r3, Some(EthernetPacket::Arp(_))), "prop:c03_ip_not_answered_by_arp");
        }
        let got3 = sockets.get::<udp::Socket>(uh).can_recv();

        // the hardware address the cache now holds for the peer
        let peer_hw = match iface.inner.neighbor_cache.lookup(&peer, t0) {
            NeighborAnswer::Found(HardwareAddress::Ethernet(a)) => Some(a.0),
            _ => None,
        };
        crate::vassert!(peer_hw.is_some(), "prop:c03_resolved_neighbor_still_resolved_after_arbitrary_frames");
        crate::vassert!(claims_peer || peer_hw == Some(PEER_MAC), "prop:c03_neighbor_entry_unchanged_by_frames_not_claiming_its_address");

        // frame 4: echo request from the peer; the reply goes through the real dispatch to the (capturing) device token
        let mut f4 = [0u8; 46];
        eth_header(&mut f4, &OWN_MAC, &PEER_MAC, 0x0800);
        ipv4_header(&mut f4[14..], 32, 1, PEER_U32, OWN_U32);
        f4[34] = 8;
        let ident: u16 = kani::any();
        let seq: u16 = kani::any();
        put16(&mut f4, 38, ident);
        put16(&mut f4, 40, seq);
        let r4 = iface.inner.process_ethernet(&mut sockets, PacketMeta::default(), &f4[..], &mut iface.fragments);
        let mut echo_ok = false;
        let mut sent_ok = false;
        if let Some(EthernetPacket::Ip(p)) = r4 {
            echo_ok = reply_is_echo_from_own(&p);
            if mode & 2 != 0 {
                sent_ok = iface.inner.dispatch_ip(gtx::GTx, PacketMeta::default(), p, &mut iface.fragmenter).is_ok();
            }
        }
        kani::cover!(r2_arp && !claims_peer, "free ARP frame was a valid request from a new sender: reply produced");
        kani::cover!(if prefill == 7 { evicted } else { r2_arp && claims_peer && peer_hw != Some(PEER_MAC) }, "full cache: the oldest entry evicted by the free ARP frame / otherwise: the frame claimed the peer's address for another hardware address");
        kani::cover!(if mode & 1 != 0 { r3_some && proto == 6 } else { true }, "protocol unreachable sent for frame 3");
        crate::vassert!(echo_ok, "prop:c03_echo_request_answered_after_arbitrary_frames");
        if mode & 2 == 0 {
            return;
        }
        let tx = gtx::captured();
        crate::vassert!(sent_ok && tx.frames == 1 && tx.len0 == 46, "prop:c03_echo_reply_handed_to_the_device");
        let b = &tx.buf0;
        if let Some(hw) = peer_hw {
            crate::vassert!(b[0] == hw[0] && b[1] == hw[1] && b[2] == hw[2] && b[3] == hw[3] && b[4] == hw[4] && b[5] == hw[5], "prop:c03_echo_reply_to_the_hardware_address_learned_for_the_requester");
        }
        crate::vassert!(b[6] == 0x02 && b[11] == 1 && b[12] == 0x08 && b[13] == 0x00, "prop:c03_echo_reply_frame_header");
        crate::vassert!(b[14] == 0x45 && b[23] == 1 && b[26] == 192 && b[27] == 168 && b[28] == 1 && b[29] == 1 && b[30] == 192 && b[31] == 168 && b[32] == 1 && b[33] == 2, "prop:c03_echo_reply_ip_header");
        crate::vassert!(b[34] == 0 && b[35] == 0 && b[38] == (ident >> 8) as u8 && b[39] == ident as u8 && b[40] == (seq >> 8) as u8 && b[41] == seq as u8, "prop:c03_echo_reply_echoes_ident_and_sequence_number");
    }

    // @harness props=C03 cfg=KE4u tier=q to=1800 mem=12 unwind=7 opts=nomem covers=3 funcs=InterfaceInner::process_ethernet;InterfaceInner::process_arp;ArpRepr::parse;neighbor::Cache::fill;InterfaceInner::process_ipv4;InterfaceInner::process_udp;InterfaceInner::process_icmpv4;InterfaceInner::dispatch_ip;InterfaceInner::lookup_hardware_addr bounds=Ethernet_medium,_192.168.1.1/24,_one_bound_UDP_socket,_concrete_instant,_neighbor_cache_of_3_entries_initially_EMPTY;_frame_1:_ARP_request_from_192.168.1.2;_frame_2:_ARP_with_all_28_octets_free,_any_source_MAC,_to_broadcast_or_own_MAC;_frame_3:_IPv4_to_the_own_address_with_any_protocol_and_source,_12_free_upper-layer_octets;_frame_4:_echo_request_from_192.168.1.2,_reply_emitted_through_dispatch_ip
    #[cfg(all(feature = "proto-ipv4", feature = "medium-ethernet", feature = "socket-udp", not(feature = "medium-ip")))]
    #[kani::proof]
    pub(crate) fn seq4_eth_arp_ip_then_echo() {
        eth_seq_case(0, 15);
    }

    // @harness props=C03 cfg=KE4u tier=q to=1800 mem=12 unwind=7 opts=nomem covers=3 funcs=InterfaceInner::process_ethernet;InterfaceInner::process_arp;ArpRepr::parse;neighbor::Cache::fill;InterfaceInner::process_ipv4;InterfaceInner::process_udp;InterfaceInner::process_icmpv4;InterfaceInner::dispatch_ip;InterfaceInner::lookup_hardware_addr bounds=as_seq4_eth_arp_ip_then_echo_with_a_neighbor_cache_that_is_FULL_after_frame_1:_two_older_concrete_entries_for_192.168.1.10/.11,_so_that_a_new_sender_in_frame_2_evicts_the_oldest
    #[cfg(all(feature = "proto-ipv4", feature = "medium-ethernet", feature = "socket-udp", not(feature = "medium-ip")))]
    #[kani::proof]
    pub(crate) fn seq4_eth_arp_evict_ip_then_echo() {
        eth_seq_case(7, 15);
    }

    // @harness props=C03 cfg=KE4u tier=t to=1200 mem=12 unwind=7 opts=nomem covers=3 bounds=experiment
    #[cfg(all(feature = "proto-ipv4", feature = "medium-ethernet", feature = "socket-udp", not(feature = "medium-ip")))]
    #[kani::proof]
    pub(crate) fn x_eth_e1() {
        eth_seq_case(0, 9);
    }
    // @harness props=C03 cfg=KE4u tier=t to=1200 mem=12 unwind=7 opts=nomem covers=3 bounds=experiment
    #[cfg(all(feature = "proto-ipv4", feature = "medium-ethernet", feature = "socket-udp", not(feature = "medium-ip")))]
    #[kani::proof]
    pub(crate) fn x_eth_e2() {
        eth_seq_case(0, 1);
    }
}
