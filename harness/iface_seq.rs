// C03: sequences of received frames.  Spliced into src/iface/interface/mod.rs under single-socket-type build
// configurations (KI4t / KI4u / KI4i raw-IP IPv4 with TCP / UDP / ICMP sockets, KE4u Ethernet IPv4, KI6t / KI6i / KI6u
// raw-IP IPv6, KLi IEEE 802.15.4 + 6LoWPAN, KDd Ethernet IPv4 with the DHCPv4 client): with a one-variant `Socket` enum
// several frames through the real ingress functions fit in memory (under KI4 a second free-byte frame ran out of memory).
//
// Each harness delivers a short sequence of frames through the interface's real ingress function for the medium
// (`process_ip`, `process_ethernet`, `process_ieee802154`), the frames having a concrete IP header addressed to the
// interface and free upper-layer octets (two frames with a free IP header ran out of memory in every configuration; the
// free IP header is the single-frame subject of ipv4_bytes_free / ipv6_bytes_free), then a well-formed echo request to
// the interface's address, and requires: no panic / overflow / out-of-bounds access anywhere (Kani's implicit checks),
// every loop within its unwinding bound, and the echo request answered from the interface's address.
//
// The module itself is not feature-gated (the runner's replay dispatcher names `v_iface_seq::<harness>` in every
// configuration one of the harnesses runs in); every item is.
#[allow(dead_code, unused_imports, unused_variables, unused_mut, unused_macros, unused_assignments)]
mod v_iface_seq {
    use super::*;
    use crate::iface::{SocketHandle, SocketStorage};
    use crate::phy::ChecksumCapabilities;
    #[cfg(feature = "socket-icmp")]
    use crate::socket::icmp;
    #[cfg(feature = "socket-tcp")]
    use crate::socket::tcp;
    #[cfg(feature = "socket-udp")]
    use crate::socket::udp;
    use crate::verif_common::*;
    use crate::verif_dev::{CapDev, CapTx, TxState};

    // ------------------------------------------------------------------ IPv4, raw-IP medium (KI4t, KI4u, KI4i)
    #[cfg(feature = "proto-ipv4")]
    const OWN: Ipv4Address = Ipv4Address::new(192, 168, 1, 1);
    const OWN_U32: u32 = 0xc0a8_0101;

    fn put16(b: &mut [u8], o: usize, v: u16) {
        b[o] = (v >> 8) as u8;
        b[o + 1] = v as u8;
    }
    fn put32(b: &mut [u8], o: usize, v: u32) {
        b[o] = (v >> 24) as u8;
        b[o + 1] = (v >> 16) as u8;
        b[o + 2] = (v >> 8) as u8;
        b[o + 3] = v as u8;
    }
    #[cfg(feature = "proto-ipv4")]
    fn ipv4_header(b: &mut [u8], total_len: usize, proto: u8, src: u32, dst: u32) {
        b[0] = 0x45;
        b[1] = 0;
        put16(b, 2, total_len as u16);
        put16(b, 4, 0x1234);
        put16(b, 6, 0x4000);
        b[8] = 64;
        b[9] = proto;
        put16(b, 10, 0);
        put32(b, 12, src);
        put32(b, 16, dst);
    }
    #[cfg(feature = "proto-ipv4")]
    fn reply_is_echo_from_own(p: &Packet) -> bool {
        let src_ok = match p.ip_repr() {
            IpRepr::Ipv4(r) => r.src_addr == OWN,
            #[allow(unreachable_patterns)]
            _ => false,
        };
        src_ok && matches!(p.payload(), IpPayload::Icmpv4(Icmpv4Repr::EchoReply { .. }))
    }

    macro_rules! iface4 {
        ($iface:ident) => {
            let mut dev = CapDev::<96>::new(Medium::Ip, 1500, ChecksumCapabilities::ignored());
            let now: i64 = kani::any();
            kani::assume(now >= 0 && now < (1i64 << 40));
            let mut $iface = Interface::new(Config::new(HardwareAddress::Ip), &mut dev, Instant::from_millis(now));
            $iface.update_ip_addrs(|a| {
                a.push(IpCidr::new(IpAddress::Ipv4(OWN), 24)).unwrap();
            });
        };
    }

    /// a packet of N octets: octet 0 = 0x45, flags/fragment offset = DF (fragments through the symbolic-offset
    /// reassembly buffer make a second frame run out of memory; fragment sequences are C12's and
    /// echo_after_fragments' subject), everything else free
    fn free_packet<const N: usize>() -> [u8; N] {
        let mut b: [u8; N] = kani::any();
        b[0] = 0x45;
        b[6] = 0x40;
        b[7] = 0;
        b
    }

    #[cfg(all(feature = "proto-ipv4", feature = "medium-ip"))]
    fn echo_answered(iface: &mut Interface, sockets: &mut SocketSet) -> bool {
        let mut e = [0u8; 32];
        ipv4_header(&mut e, 32, 1, 0xc0a8_0102, OWN_U32);
        e[20] = 8;
        put16(&mut e, 24, kani::any());
        put16(&mut e, 26, kani::any());
        let reply = iface.inner.process_ip(sockets, PacketMeta::default(), &e[..], &mut iface.fragments);
        match &reply {
            Some(p) => reply_is_echo_from_own(p),
            None => false,
        }
    }

    // TCP listener: SYN-shaped free packet, then a free packet, then the echo request.
    // @harness props=C03 cfg=KI4t tier=q to=1800 mem=16 unwind=12 opts=nomem covers=2 funcs=InterfaceInner::process_ip;InterfaceInner::process_ipv4;InterfaceInner::process_tcp;tcp::Socket::process;InterfaceInner::process_icmpv4;PacketAssemblerSet::get bounds=raw-IP_medium,_one_listening_TCP_socket_(8-byte_rings);_frame_1:_40_octets_to_the_own_address_with_protocol_6_and_every_TCP_header_octet_free;_frame_2:_44_octets_to_the_own_address_with_protocol_6,_TCP_header_and_4_payload_octets_free;_frame_3:_echo_request
    #[cfg(all(feature = "proto-ipv4", feature = "medium-ip", feature = "socket-tcp"))]
    #[kani::proof]
    pub(crate) fn seq4_tcp_two_frames_then_echo() {
        iface4!(iface);
        let mut trx = [0u8; 8];
        let mut ttx = [0u8; 8];
        let mut tsock = tcp::Socket::new(tcp::SocketBuffer::new(&mut trx[..]), tcp::SocketBuffer::new(&mut ttx[..]));
        tsock.listen(80).unwrap();
        let mut storage = [SocketStorage::EMPTY];
        let mut sockets = SocketSet::new(&mut storage[..]);
        let th = sockets.add(tsock);
        // frame 1: addressed to us, protocol TCP, everything above the IP header free (reaches the listener)
        let mut a: [u8; 40] = kani::any();
        ipv4_header(&mut a, 40, 6, 0xc0a8_0102, OWN_U32);
        let _ = iface.inner.process_ip(&mut sockets, PacketMeta::default(), &a[..], &mut iface.fragments);
        let st1 = sockets.get::<tcp::Socket>(th).state();
        // frame 2: likewise (a packet with a free IP header as well ran out of 16 GB)
        let mut b: [u8; 44] = kani::any();
        ipv4_header(&mut b, 44, 6, 0xc0a8_0102, OWN_U32);
        let _ = iface.inner.process_ip(&mut sockets, PacketMeta::default(), &b[..], &mut iface.fragments);
        let st2 = sockets.get::<tcp::Socket>(th).state();
        crate::vassert!(echo_answered(&mut iface, &mut sockets), "prop:c03_echo_request_answered_after_arbitrary_frames");
        kani::cover!(st1 == tcp::State::SynReceived && st2 == tcp::State::Established, "handshake completed by the two frames");
        kani::cover!(st1 == tcp::State::SynReceived && st2 == tcp::State::Listen, "connection reset by the second frame");
    }

    // UDP socket: two datagrams for the own address whose UDP header and payload octets are free, then the echo
    // request.  (Two packets with a free IP header as well - 32 octets each - ran out of 12 GB in this configuration
    // too; the free IP header is ipv4_bytes_free's single-frame subject.)
    // @harness props=C03 cfg=KI4u tier=q to=1800 mem=12 unwind=12 opts=nomem covers=2 funcs=InterfaceInner::process_ip;InterfaceInner::process_ipv4;InterfaceInner::process_udp;udp::Socket::process;InterfaceInner::process_icmpv4;InterfaceInner::icmpv4_reply bounds=raw-IP_medium,_one_bound_UDP_socket_(2_slots,_16-byte_ring);_frames_1_and_2:_IPv4_header_to_the_own_address_with_protocol_17_and_any_source,_then_12_free_octets_(ports,_length,_checksum,_payload);_frame_3:_echo_request
    #[cfg(all(feature = "proto-ipv4", feature = "medium-ip", feature = "socket-udp"))]
    #[kani::proof]
    pub(crate) fn seq4_udp_two_frames_then_echo() {
        iface4!(iface);
        let mut urm = [udp::PacketMetadata::EMPTY; 2];
        let mut urp = [0u8; 16];
        let mut utm = [udp::PacketMetadata::EMPTY; 2];
        let mut utp = [0u8; 16];
        let mut usock = udp::Socket::new(udp::PacketBuffer::new(&mut urm[..], &mut urp[..]), udp::PacketBuffer::new(&mut utm[..], &mut utp[..]));
        usock.bind(53).unwrap();
        let mut storage = [SocketStorage::EMPTY];
        let mut sockets = SocketSet::new(&mut storage[..]);
        let uh = sockets.add(usock);
        let mut a: [u8; 32] = kani::any();
        ipv4_header(&mut a, 32, 17, kani::any(), OWN_U32);
        let r1 = iface.inner.process_ip(&mut sockets, PacketMeta::default(), &a[..], &mut iface.fragments).is_some();
        let got1 = sockets.get::<udp::Socket>(uh).can_recv();
        let mut b: [u8; 32] = kani::any();
        ipv4_header(&mut b, 32, 17, kani::any(), OWN_U32);
        let r2 = iface.inner.process_ip(&mut sockets, PacketMeta::default(), &b[..], &mut iface.fragments).is_some();
        crate::vassert!(echo_answered(&mut iface, &mut sockets), "prop:c03_echo_request_answered_after_arbitrary_frames");
        let us = sockets.get_mut::<udp::Socket>(uh);
        let d1 = us.recv().is_ok();
        let d2 = us.recv().is_ok();
        kani::cover!(got1 && d1 && d2, "both datagrams delivered to the socket");
        kani::cover!(got1 && r2, "first datagram delivered, second answered with an ICMP error");
    }

    // UDP socket, three datagrams: the socket's receive buffer has 2 metadata slots and 16 payload octets, so the third
    // datagram meets a full buffer (or a closed port, or is malformed) - then the echo request.
    // @harness props=C03 cfg=KI4u tier=q to=1800 mem=12 unwind=12 opts=nomem covers=2 funcs=InterfaceInner::process_ip;InterfaceInner::process_ipv4;InterfaceInner::process_udp;udp::Socket::process;PacketBuffer::enqueue;InterfaceInner::process_icmpv4;InterfaceInner::icmpv4_reply bounds=raw-IP_medium,_one_bound_UDP_socket_(2_slots,_16-byte_ring);_frames_1-3:_IPv4_header_to_the_own_address_with_protocol_17_and_any_source,_then_12_free_octets_(ports,_length,_checksum,_payload);_frame_4:_echo_request;_symbolic_start_time
    #[cfg(all(feature = "proto-ipv4", feature = "medium-ip", feature = "socket-udp"))]
    #[kani::proof]
    pub(crate) fn seq4_udp_three_frames_then_echo() {
        iface4!(iface);
        let mut urm = [udp::PacketMetadata::EMPTY; 2];
        let mut urp = [0u8; 16];
        let mut utm = [udp::PacketMetadata::EMPTY; 2];
        let mut utp = [0u8; 16];
        let mut usock = udp::Socket::new(udp::PacketBuffer::new(&mut urm[..], &mut urp[..]), udp::PacketBuffer::new(&mut utm[..], &mut utp[..]));
        usock.bind(53).unwrap();
        let mut storage = [SocketStorage::EMPTY];
        let mut sockets = SocketSet::new(&mut storage[..]);
        let uh = sockets.add(usock);
        let mut a: [u8; 32] = kani::any();
        ipv4_header(&mut a, 32, 17, kani::any(), OWN_U32);
        let r1 = iface.inner.process_ip(&mut sockets, PacketMeta::default(), &a[..], &mut iface.fragments).is_some();
        let mut b: [u8; 32] = kani::any();
        ipv4_header(&mut b, 32, 17, kani::any(), OWN_U32);
        let r2 = iface.inner.process_ip(&mut sockets, PacketMeta::default(), &b[..], &mut iface.fragments).is_some();
        let mut c: [u8; 32] = kani::any();
        ipv4_header(&mut c, 32, 17, kani::any(), OWN_U32);
        let r3 = iface.inner.process_ip(&mut sockets, PacketMeta::default(), &c[..], &mut iface.fragments).is_some();
        crate::vassert!(echo_answered(&mut iface, &mut sockets), "prop:c03_echo_request_answered_after_arbitrary_frames");
        let us = sockets.get_mut::<udp::Socket>(uh);
        let d1 = us.recv().is_ok();
        let d2 = us.recv().is_ok();
        let d3 = us.recv().is_ok();
        crate::vassert!(!d3, "prop:c03_no_more_datagrams_than_buffer_slots");
        let to_port = |x: &[u8; 32]| x[22] == 0 && x[23] == 53 && x[24] == 0 && x[25] == 12;
        kani::cover!(d1 && d2 && to_port(&c) && !r3, "two datagrams delivered, the third for the same port met the full buffer");
        kani::cover!(d1 && !d2 && r2 && r3, "one datagram delivered, two answered with an ICMP error");
    }

    // ICMP socket bound to a UDP port (receives the ICMP errors quoting datagrams sent from that port): a destination
    // unreachable and a time exceeded message (concrete type octets: with a free type octet, hence a message length that
    // depends on it, 1.06 M steps / 33 M clauses ran out of 12 GB) with free code, checksum, unused word, quoted IP header
    // (first octet 0x45, so the quote is 20 + 8 octets) and quoted datagram start, then the echo request.
    // @harness props=C03 cfg=KI4i tier=q to=1800 mem=12 unwind=12 opts=nomem covers=2 funcs=InterfaceInner::process_ip;InterfaceInner::process_ipv4;InterfaceInner::process_icmpv4;Icmpv4Repr::parse;icmp::Socket::accepts_v4;icmp::Socket::process_v4;Icmpv4Repr::emit;InterfaceInner::icmpv4_reply bounds=raw-IP_medium,_one_ICMP_socket_bound_to_UDP_port_53_(2_slots,_48-byte_receive_ring:_one_36-octet_message_fits);_frame_1:_IPv4_header_to_the_own_address_with_protocol_1_and_any_source,_ICMP_type_3,_then_35_free_octets_except_that_the_quoted_IP_header_starts_with_0x45_(code,_checksum,_unused_word,_19_octets_of_the_quoted_IP_header,_8_quoted_octets);_frame_2:_the_same_with_ICMP_type_11;_frame_3:_echo_request;_symbolic_start_time
    #[cfg(all(feature = "proto-ipv4", feature = "medium-ip", feature = "socket-icmp"))]
    #[kani::proof]
    pub(crate) fn seq4_icmp_errors_then_echo() {
        iface4!(iface);
        let mut irm = [icmp::PacketMetadata::EMPTY; 2];
        let mut irp = [0u8; 48];
        let mut itm = [icmp::PacketMetadata::EMPTY; 1];
        let mut itp = [0u8; 8];
        let mut isock = icmp::Socket::new(icmp::PacketBuffer::new(&mut irm[..], &mut irp[..]), icmp::PacketBuffer::new(&mut itm[..], &mut itp[..]));
        isock.bind(icmp::Endpoint::Udp(IpListenEndpoint { addr: None, port: 53 })).unwrap();
        let mut storage = [SocketStorage::EMPTY];
        let mut sockets = SocketSet::new(&mut storage[..]);
        let ih = sockets.add(isock);
        let mut a: [u8; 56] = kani::any();
        ipv4_header(&mut a, 56, 1, kani::any(), OWN_U32);
        a[20] = 3;
        a[28] = 0x45;
        let r1 = iface.inner.process_ip(&mut sockets, PacketMeta::default(), &a[..], &mut iface.fragments).is_some();
        let got1 = sockets.get::<icmp::Socket>(ih).can_recv();
        let mut b: [u8; 56] = kani::any();
        ipv4_header(&mut b, 56, 1, kani::any(), OWN_U32);
        b[20] = 11;
        b[28] = 0x45;
        let r2 = iface.inner.process_ip(&mut sockets, PacketMeta::default(), &b[..], &mut iface.fragments).is_some();
        crate::vassert!(!r1 && !r2, "prop:c03_icmp_errors_never_answered");
        crate::vassert!(echo_answered(&mut iface, &mut sockets), "prop:c03_echo_request_answered_after_arbitrary_frames");
        let is = sockets.get_mut::<icmp::Socket>(ih);
        let d1 = is.recv().is_ok();
        let d2 = is.recv().is_ok();
        kani::cover!(got1 && d1 && !d2 && b[48] == 0 && b[49] == 53, "destination unreachable delivered, time exceeded for the same port met the full buffer");
        kani::cover!(!got1 && d1 && !d2, "an error quoting another port ignored, the second one delivered");
    }

    // ---- TCP socket in a synchronized / half-open state reached through real frames
    /// 20-octet TCP header without options
    fn tcp_header(b: &mut [u8], sport: u16, dport: u16, seq: u32, ack: u32, flags: u8, window: u16) {
        put16(b, 0, sport);
        put16(b, 2, dport);
        put32(b, 4, seq);
        put32(b, 8, ack);
        b[12] = 0x50;
        b[13] = flags;
        put16(b, 14, window);
        put16(b, 16, 0);
        put16(b, 18, 0);
    }

    /// a segment of 44 octets for the connection `sport` -> `dport` from 192.168.1.2: IPv4 header and ports concrete,
    /// sequence and acknowledgement numbers, data offset, flags, window, checksum, urgent pointer free, then 4 free octets
    /// that are options (data offset 6), payload (data offset 5) or make the segment malformed (other data offsets)
    #[cfg(feature = "proto-ipv4")]
    fn free_segment(sport: u16, dport: u16) -> [u8; 44] {
        let mut b: [u8; 44] = kani::any();
        ipv4_header(&mut b, 44, 6, PEER_U32, OWN_U32);
        put16(&mut b, 20, sport);
        put16(&mut b, 22, dport);
        b
    }

    // ESTABLISHED through a real handshake (SYN in, the socket's own SYN-ACK out through `dispatch`, ACK in), then two
    // segments with free TCP headers, then the echo request.
    // @harness props=C03 cfg=KI4t tier=t to=3600 mem=16 unwind=12 opts=nomem covers=3 funcs=InterfaceInner::process_ip;InterfaceInner::process_ipv4;InterfaceInner::process_tcp;tcp::Socket::accepts;tcp::Socket::process;tcp::Socket::dispatch;TcpRepr::parse;InterfaceInner::process_icmpv4 bounds=raw-IP_medium,_one_TCP_socket_(8-byte_rings)_listening_on_port_80;_prefix:_SYN_from_192.168.1.2:4000_(sequence_number_1000,_window_100,_no_options),_the_socket's_SYN-ACK_taken_from_dispatch,_the_matching_ACK_->_ESTABLISHED;_frames_1_and_2:_44_octets_for_that_connection_with_free_sequence/acknowledgement_numbers,_data_offset,_flags,_window,_checksum,_urgent_pointer_and_4_free_octets_(options_or_payload);_then_the_echo_request;_symbolic_start_time,_no_time_advance
    #[cfg(all(feature = "proto-ipv4", feature = "medium-ip", feature = "socket-tcp"))]
    #[kani::proof]
    pub(crate) fn seq4_tcp_established_two_segments_then_echo() {
        iface4!(iface);
        let mut trx = [0u8; 8];
        let mut ttx = [0u8; 8];
        let mut tsock = tcp::Socket::new(tcp::SocketBuffer::new(&mut trx[..]), tcp::SocketBuffer::new(&mut ttx[..]));
        tsock.listen(80).unwrap();
        let mut storage = [SocketStorage::EMPTY];
        let mut sockets = SocketSet::new(&mut storage[..]);
        let th = sockets.add(tsock);
        // SYN
        let mut syn = [0u8; 40];
        ipv4_header(&mut syn, 40, 6, PEER_U32, OWN_U32);
        tcp_header(&mut syn[20..], 4000, 80, 1000, 0, 0x02, 100);
        let r = iface.inner.process_ip(&mut sockets, PacketMeta::default(), &syn[..], &mut iface.fragments).is_some();
        crate::vassert!(!r && sockets.get::<tcp::Socket>(th).state() == tcp::State::SynReceived, "prop:c03_syn_taken_by_the_listener");
        // the socket's SYN-ACK
        let mut synack_seq: u32 = 0;
        let mut synack_ok = false;
        let _ = sockets.get_mut::<tcp::Socket>(th).dispatch(&mut iface.inner, |_cx, (_ip, t)| -> core::result::Result<(), ()> {
            synack_seq = t.seq_number.0 as u32;
            synack_ok = t.control == TcpControl::Syn && t.ack_number == Some(TcpSeqNumber(1001));
            Ok(())
        });
        crate::vassert!(synack_ok, "prop:c03_syn_ack_sent");
        // ACK
        let mut ack = [0u8; 40];
        ipv4_header(&mut ack, 40, 6, PEER_U32, OWN_U32);
        tcp_header(&mut ack[20..], 4000, 80, 1001, synack_seq.wrapping_add(1), 0x10, 100);
        let r = iface.inner.process_ip(&mut sockets, PacketMeta::default(), &ack[..], &mut iface.fragments).is_some();
        crate::vassert!(!r && sockets.get::<tcp::Socket>(th).state() == tcp::State::Established, "prop:c03_handshake_completes");
        // two free segments
        let a = free_segment(4000, 80);
        let _ = iface.inner.process_ip(&mut sockets, PacketMeta::default(), &a[..], &mut iface.fragments);
        let st1 = sockets.get::<tcp::Socket>(th).state();
        let got1 = sockets.get::<tcp::Socket>(th).can_recv();
        let b = free_segment(4000, 80);
        let _ = iface.inner.process_ip(&mut sockets, PacketMeta::default(), &b[..], &mut iface.fragments);
        let st2 = sockets.get::<tcp::Socket>(th).state();
        let n2 = sockets.get::<tcp::Socket>(th).recv_queue();
        crate::vassert!(echo_answered(&mut iface, &mut sockets), "prop:c03_echo_request_answered_after_arbitrary_frames");
        kani::cover!(st1 == tcp::State::Established && st2 == tcp::State::Established && n2 == 8, "both segments carried data that was accepted: receive buffer full");
        kani::cover!(st1 == tcp::State::CloseWait && got1 && st2 == tcp::State::Closed, "data + FIN, then a reset");
        kani::cover!(st1 == tcp::State::Established && a[32] == 0x60 && st2 == tcp::State::CloseWait, "a segment with 4 option octets accepted, then a FIN");
    }

    /// SYN-SENT (connect() called and the SYN emitted through `dispatch`), then two segments for the connection, then the
    /// echo request.  `flags1` / `flags2`: Some(f) = the segment has no options (data offset 5, 4 payload octets) and
    /// these flags; None = data offset and flags free.
    #[cfg(all(feature = "proto-ipv4", feature = "medium-ip", feature = "socket-tcp"))]
    fn syn_sent_case(flags1: Option<u8>, flags2: Option<u8>) {
        iface4!(iface);
        let mut trx = [0u8; 8];
        let mut ttx = [0u8; 8];
        let mut tsock = tcp::Socket::new(tcp::SocketBuffer::new(&mut trx[..]), tcp::SocketBuffer::new(&mut ttx[..]));
        tsock.connect(&mut iface.inner, (IpAddress::Ipv4(Ipv4Address::from_bits(PEER_U32)), 80), 49152).unwrap();
        let mut storage = [SocketStorage::EMPTY];
        let mut sockets = SocketSet::new(&mut storage[..]);
        let th = sockets.add(tsock);
        let mut syn_seq: u32 = 0;
        let mut syn_ok = false;
        let _ = sockets.get_mut::<tcp::Socket>(th).dispatch(&mut iface.inner, |_cx, (_ip, t)| -> core::result::Result<(), ()> {
            syn_seq = t.seq_number.0 as u32;
            syn_ok = t.control == TcpControl::Syn && t.ack_number.is_none();
            Ok(())
        });
        crate::vassert!(syn_ok && sockets.get::<tcp::Socket>(th).state() == tcp::State::SynSent, "prop:c03_syn_sent");
        let mut a = free_segment(80, 49152);
        if let Some(f) = flags1 {
            a[32] = 0x50;
            a[33] = f;
        }
        let r1 = iface.inner.process_ip(&mut sockets, PacketMeta::default(), &a[..], &mut iface.fragments).is_some();
        let st1 = sockets.get::<tcp::Socket>(th).state();
        let mut b = free_segment(80, 49152);
        if let Some(f) = flags2 {
            b[32] = 0x50;
            b[33] = f;
        }
        let r2 = iface.inner.process_ip(&mut sockets, PacketMeta::default(), &b[..], &mut iface.fragments).is_some();
        let st2 = sockets.get::<tcp::Socket>(th).state();
        let n2 = sockets.get::<tcp::Socket>(th).recv_queue();
        crate::vassert!(echo_answered(&mut iface, &mut sockets), "prop:c03_echo_request_answered_after_arbitrary_frames");
        let ack1 = u32::from_be_bytes([a[28], a[29], a[30], a[31]]);
        kani::cover!(st1 == tcp::State::Established && ack1 == syn_seq.wrapping_add(1) && st2 == tcp::State::Established && n2 == 4, "SYN-ACK completed the connection, then 4 data octets accepted");
        // (covers unconditional: a cover in the branch a harness does not take would be reported unsatisfiable)
        kani::cover!(if flags1.is_none() { st1 == tcp::State::SynSent && r1 } else { st1 == tcp::State::Established && st2 == tcp::State::Closed }, "free first segment: unacceptable ACK answered with a reset / SYN-ACK first: connection completed, then reset");
        kani::cover!(if flags1.is_none() { st1 == tcp::State::SynReceived } else { st1 == tcp::State::Established && st2 == tcp::State::CloseWait }, "free first segment: simultaneous open, bare SYN took the socket to SYN-RECEIVED / SYN-ACK first: connection completed, then closed by the peer");
    }

    // @harness props=C03 cfg=KI4t tier=t to=1800 mem=16 unwind=12 opts=nomem covers=3 funcs=InterfaceInner::process_ip;InterfaceInner::process_ipv4;InterfaceInner::process_tcp;tcp::Socket::connect;tcp::Socket::accepts;tcp::Socket::process;tcp::Socket::dispatch;TcpRepr::parse;InterfaceInner::process_icmpv4 bounds=raw-IP_medium,_one_TCP_socket_(8-byte_rings);_prefix:_connect()_to_192.168.1.2:80_from_port_49152,_SYN_taken_from_dispatch_->_SYN-SENT;_frame_1:_44_octets_for_that_connection_with_free_sequence/acknowledgement_numbers,_data_offset,_flags,_window,_checksum,_urgent_pointer_and_4_free_octets_(options_or_payload);_frame_2:_ACK_segment_without_options:_free_sequence/acknowledgement_numbers,_window_and_4_payload_octets;_then_the_echo_request;_symbolic_start_time,_no_time_advance
    #[cfg(all(feature = "proto-ipv4", feature = "medium-ip", feature = "socket-tcp"))]
    #[kani::proof]
    pub(crate) fn seq4_tcp_syn_sent_free_then_ack_then_echo() {
        syn_sent_case(None, Some(0x10));
    }

    // @harness props=C03 cfg=KI4t tier=t to=1800 mem=16 unwind=12 opts=nomem covers=3 funcs=InterfaceInner::process_ip;InterfaceInner::process_ipv4;InterfaceInner::process_tcp;tcp::Socket::connect;tcp::Socket::accepts;tcp::Socket::process;tcp::Socket::dispatch;TcpRepr::parse;InterfaceInner::process_icmpv4 bounds=raw-IP_medium,_one_TCP_socket_(8-byte_rings);_prefix:_connect()_to_192.168.1.2:80_from_port_49152,_SYN_taken_from_dispatch_->_SYN-SENT;_frame_1:_SYN-ACK_without_options:_free_sequence/acknowledgement_numbers,_window_and_4_payload_octets;_frame_2:_44_octets_for_that_connection_with_free_sequence/acknowledgement_numbers,_data_offset,_flags,_window,_checksum,_urgent_pointer_and_4_free_octets_(options_or_payload);_then_the_echo_request;_symbolic_start_time,_no_time_advance
    #[cfg(all(feature = "proto-ipv4", feature = "medium-ip", feature = "socket-tcp"))]
    #[kani::proof]
    pub(crate) fn seq4_tcp_syn_sent_synack_then_free_then_echo() {
        syn_sent_case(Some(0x12), None);
    }

    // ------------------------------------------------------------------ IPv4, Ethernet medium (KE4u)
    #[cfg(feature = "medium-ethernet")]
    const OWN_MAC: [u8; 6] = [0x02, 0, 0, 0, 0, 1];
    #[cfg(feature = "medium-ethernet")]
    const PEER_MAC: [u8; 6] = [0x02, 0, 0, 0, 0, 2];
    const PEER_U32: u32 = 0xc0a8_0102;

    /// A transmit token that carries no pointer: the frame is captured in a static.  (A token holding `&mut TxState` that
    /// travels through the `Result` returned by `lookup_hardware_addr` loses its points-to precision in CBMC once the
    /// neighbor cache is symbolic: dispatch_ip of the echo reply took 2 M steps and ran out of 12 GB with `CapTx`.)
    #[allow(unsafe_code)]
    mod gtx {
        use super::*;
        pub(super) const CAP: usize = 64;
        pub(super) static mut G: TxState<CAP> = TxState { frames: 0, len0: 0, len1: 0, buf0: [0; CAP], buf1: [0; CAP] };
        pub(super) struct GTx;
        impl TxToken for GTx {
            fn consume<R, F: FnOnce(&mut [u8]) -> R>(self, len: usize, f: F) -> R {
                // single-threaded harness: the only reference to G alive
                let st: &mut TxState<CAP> = unsafe { &mut *core::ptr::addr_of_mut!(G) };
                let r;
                if st.frames == 0 {
                    st.len0 = len;
                    r = f(&mut st.buf0[..len]);
                } else {
                    st.len1 = len;
                    r = f(&mut st.buf1[..len]);
                }
                st.frames += 1;
                r
            }
        }
        pub(super) fn captured() -> &'static TxState<CAP> {
            unsafe { &*core::ptr::addr_of!(G) }
        }
    }

    /// Ethernet header: destination, source, ethertype
    fn eth_header(f: &mut [u8], dst: &[u8; 6], src: &[u8; 6], ethertype: u16) {
        f[0] = dst[0];
        f[1] = dst[1];
        f[2] = dst[2];
        f[3] = dst[3];
        f[4] = dst[4];
        f[5] = dst[5];
        f[6] = src[0];
        f[7] = src[1];
        f[8] = src[2];
        f[9] = src[3];
        f[10] = src[4];
        f[11] = src[5];
        put16(f, 12, ethertype);
    }

    /// Ethernet interface 02:00:00:00:00:01 / 192.168.1.1/24 at a concrete instant, one bound UDP socket; the neighbor
    /// cache (6 entries in this build) starts with `prefill` concrete entries for 192.168.1.10.. (older than anything
    /// learned later).
    /// Frame P (if `peer_first`): well-formed ARP request from 192.168.1.2 / 02:00:00:00:00:02 for the own address ->
    ///          ARP reply; the requester is learned.
    /// Frame A: ARP packet, all 28 octets free, to the broadcast or the own hardware address, from any source address.
    /// Frame I (if `with_ip`): IPv4 packet to the own address (header concrete but for protocol and source address), 12
    ///          free upper-layer octets, from any source hardware address.
    /// Frame E: echo request from 192.168.1.2 -> echo reply, handed to the real dispatch_ip with a capturing token: it
    ///          goes to the hardware address the cache holds for 192.168.1.2 (02:..:02 if learned from frame P, unless
    ///          frame A was a valid ARP packet claiming 192.168.1.2 for another address), or, if the cache holds none, an
    ///          ARP request for 192.168.1.2 is broadcast instead.
    ///
    /// Measured limits (12 GB): what follows a cache fill on a NON-EMPTY cache loses every constant of the `Interface`
    /// object (heapless `LinearMap::insert` reaches `mem::swap` through a pointer chosen by the key search; CBMC turns the
    /// untyped 8-byte chunk copies into updates of the whole enclosing object).  After that the echo request and its
    /// dispatch fit (1.3 M steps, 17 M clauses), a free IPv4 frame in between does not (2.5 M steps; without the dispatch
    /// 1.4 M steps / 28 M clauses, out of memory), and neither does a second fill (frames A, P in that order: 0.9 M steps,
    /// out of memory before the dispatch).  Hence two shapes: P A E (requester resolved, reply to the right address) and
    /// A I E on an initially empty cache (requester unresolved unless frame A claimed its address).
    #[cfg(all(feature = "proto-ipv4", feature = "medium-ethernet", feature = "socket-udp", not(feature = "medium-ip")))]
    fn eth_seq_case(prefill: usize, peer_first: bool, with_ip: bool, dispatch: bool) {
        let mut dev = CapDev::<64>::new(Medium::Ethernet, 1514, ChecksumCapabilities::ignored());
        let now: i64 = 100_000_000;
        let t0 = Instant::from_micros(now);
        let mut iface = Interface::new(Config::new(HardwareAddress::Ethernet(EthernetAddress(OWN_MAC))), &mut dev, t0);
        iface.update_ip_addrs(|a| {
            a.push(IpCidr::new(IpAddress::Ipv4(OWN), 24)).unwrap();
        });
        let mut urm = [udp::PacketMetadata::EMPTY; 2];
        let mut urp = [0u8; 16];
        let mut utm = [udp::PacketMetadata::EMPTY; 2];
        let mut utp = [0u8; 16];
        let mut usock = udp::Socket::new(udp::PacketBuffer::new(&mut urm[..], &mut urp[..]), udp::PacketBuffer::new(&mut utm[..], &mut utp[..]));
        usock.bind(53).unwrap();
        let mut storage = [SocketStorage::EMPTY];
        let mut sockets = SocketSet::new(&mut storage[..]);
        let uh = sockets.add(usock);
        let k10 = IpAddress::Ipv4(Ipv4Address::new(192, 168, 1, 10));
        let peer = IpAddress::Ipv4(Ipv4Address::from_bits(PEER_U32));
        if prefill == 5 {
            iface.inner.neighbor_cache.fill_with_expiration(k10, HardwareAddress::Ethernet(EthernetAddress([0x02, 0, 0, 0, 0, 0x10])), Instant::from_micros(now + 10_000_000));
            iface.inner.neighbor_cache.fill_with_expiration(IpAddress::Ipv4(Ipv4Address::new(192, 168, 1, 11)), HardwareAddress::Ethernet(EthernetAddress([0x02, 0, 0, 0, 0, 0x11])), Instant::from_micros(now + 20_000_000));
            iface.inner.neighbor_cache.fill_with_expiration(IpAddress::Ipv4(Ipv4Address::new(192, 168, 1, 12)), HardwareAddress::Ethernet(EthernetAddress([0x02, 0, 0, 0, 0, 0x12])), Instant::from_micros(now + 21_000_000));
            iface.inner.neighbor_cache.fill_with_expiration(IpAddress::Ipv4(Ipv4Address::new(192, 168, 1, 13)), HardwareAddress::Ethernet(EthernetAddress([0x02, 0, 0, 0, 0, 0x13])), Instant::from_micros(now + 22_000_000));
            iface.inner.neighbor_cache.fill_with_expiration(IpAddress::Ipv4(Ipv4Address::new(192, 168, 1, 14)), HardwareAddress::Ethernet(EthernetAddress([0x02, 0, 0, 0, 0, 0x14])), Instant::from_micros(now + 23_000_000));
        }

        // frame P: the peer asks for our hardware address
        if peer_first {
            let mut fp = [0u8; 42];
            eth_header(&mut fp, &[0xff; 6], &PEER_MAC, 0x0806);
            put16(&mut fp, 14, 1);
            put16(&mut fp, 16, 0x0800);
            fp[18] = 6;
            fp[19] = 4;
            put16(&mut fp, 20, 1);
            fp[22..28].copy_from_slice(&PEER_MAC);
            put32(&mut fp, 28, PEER_U32);
            put32(&mut fp, 38, OWN_U32);
            let rp = iface.inner.process_ethernet(&mut sockets, PacketMeta::default(), &fp[..], &mut iface.fragments);
            let arp_ok = match rp {
                Some(EthernetPacket::Arp(ArpRepr::EthernetIpv4 { operation, source_hardware_addr, source_protocol_addr, target_hardware_addr, target_protocol_addr })) => {
                    operation == ArpOperation::Reply
                        && source_hardware_addr == EthernetAddress(OWN_MAC)
                        && source_protocol_addr == OWN
                        && target_hardware_addr == EthernetAddress(PEER_MAC)
                        && target_protocol_addr == Ipv4Address::from_bits(PEER_U32)
                }
                _ => false,
            };
            crate::vassert!(arp_ok, "prop:c03_arp_request_answered");
        }

        // frame A: free ARP packet
        let mut fa = [0u8; 42];
        let smac_a: [u8; 6] = kani::any();
        let to_bcast: bool = kani::any();
        eth_header(&mut fa, if to_bcast { &[0xff; 6] } else { &OWN_MAC }, &smac_a, 0x0806);
        let arp: [u8; 28] = kani::any();
        fa[14..].copy_from_slice(&arp);
        let ra = iface.inner.process_ethernet(&mut sockets, PacketMeta::default(), &fa[..], &mut iface.fragments);
        let ra_arp = matches!(ra, Some(EthernetPacket::Arp(_)));
        crate::vassert!(ra.is_none() || ra_arp, "prop:c03_arp_answered_by_arp_only");
        let claims_peer = arp[14] == 192 && arp[15] == 168 && arp[16] == 1 && arp[17] == 2;
        let evicted = prefill == 5 && !iface.inner.neighbor_cache.lookup(&k10, t0).found();

        // frame I: IPv4 packet for the own address, any protocol, any source, free upper-layer octets
        let mut ri_some = false;
        let mut proto: u8 = 0;
        if with_ip {
            let mut fi: [u8; 46] = kani::any();
            let smac_i: [u8; 6] = kani::any();
            eth_header(&mut fi, &OWN_MAC, &smac_i, 0x0800);
            proto = kani::any();
            ipv4_header(&mut fi[14..], 32, proto, kani::any(), OWN_U32);
            let ri = iface.inner.process_ethernet(&mut sockets, PacketMeta::default(), &fi[..], &mut iface.fragments);
            ri_some = ri.is_some();
            crate::vassert!(!matches!(ri, Some(EthernetPacket::Arp(_))), "prop:c03_ip_not_answered_by_arp");
        }
        let got_i = sockets.get::<udp::Socket>(uh).can_recv();

        // the hardware address the cache now holds for the peer
        let peer_hw = match iface.inner.neighbor_cache.lookup(&peer, t0) {
            NeighborAnswer::Found(HardwareAddress::Ethernet(a)) => Some(a.0),
            _ => None,
        };
        if peer_first {
            crate::vassert!(peer_hw.is_some(), "prop:c03_resolved_neighbor_still_resolved_after_arbitrary_frames");
            crate::vassert!(claims_peer || peer_hw == Some(PEER_MAC), "prop:c03_neighbor_entry_unchanged_by_frames_not_claiming_its_address");
        } else {
            crate::vassert!(claims_peer || peer_hw.is_none(), "prop:c03_neighbor_entry_unchanged_by_frames_not_claiming_its_address");
        }

        // frame E: echo request from the peer; the reply goes through the real dispatch to the (capturing) device token
        let mut fe = [0u8; 46];
        eth_header(&mut fe, &OWN_MAC, &PEER_MAC, 0x0800);
        ipv4_header(&mut fe[14..], 32, 1, PEER_U32, OWN_U32);
        fe[34] = 8;
        let ident: u16 = kani::any();
        let seq: u16 = kani::any();
        put16(&mut fe, 38, ident);
        put16(&mut fe, 40, seq);
        let re = iface.inner.process_ethernet(&mut sockets, PacketMeta::default(), &fe[..], &mut iface.fragments);
        let mut echo_ok = false;
        let mut sent_ok = false;
        if let Some(EthernetPacket::Ip(p)) = re {
            echo_ok = reply_is_echo_from_own(&p);
            if dispatch {
                sent_ok = iface.inner.dispatch_ip(gtx::GTx, PacketMeta::default(), p, &mut iface.fragmenter).is_ok();
            }
        }
        kani::cover!(ra_arp && !claims_peer, "free ARP frame was a valid request from a new sender: reply produced");
        kani::cover!(if prefill == 5 { evicted } else { ra_arp && claims_peer && peer_hw.is_some() && peer_hw != Some(PEER_MAC) }, "full cache: the oldest entry evicted by the free ARP frame / otherwise: the frame claimed the peer's address for another hardware address");
        kani::cover!(if with_ip { ri_some && proto == 6 && !got_i } else { peer_hw == Some(PEER_MAC) }, "with frame I: protocol unreachable sent for it / without: the peer's entry is intact");
        crate::vassert!(echo_ok, "prop:c03_echo_request_answered_after_arbitrary_frames");
        if !dispatch {
            // (the frame dispatch_ip makes of the reply and of the cache's answer for the requester - asserted above - is
            // C16's subject: iface_neighbor.rs, dispatch_ip_step)
            return;
        }
        let tx = gtx::captured();
        crate::vassert!(tx.frames == 1, "prop:c03_one_frame_handed_to_the_device");
        let b = &tx.buf0;
        crate::vassert!(b[6] == 0x02 && b[7] == 0 && b[8] == 0 && b[9] == 0 && b[10] == 0 && b[11] == 1, "prop:c03_frame_from_own_hardware_address");
        if let Some(hw) = peer_hw {
            crate::vassert!(sent_ok && tx.len0 == 46, "prop:c03_echo_reply_handed_to_the_device");
            crate::vassert!(b[0] == hw[0] && b[1] == hw[1] && b[2] == hw[2] && b[3] == hw[3] && b[4] == hw[4] && b[5] == hw[5], "prop:c03_echo_reply_to_the_hardware_address_learned_for_the_requester");
            crate::vassert!(b[12] == 0x08 && b[13] == 0x00, "prop:c03_echo_reply_frame_header");
            crate::vassert!(b[14] == 0x45 && b[23] == 1 && b[26] == 192 && b[27] == 168 && b[28] == 1 && b[29] == 1 && b[30] == 192 && b[31] == 168 && b[32] == 1 && b[33] == 2, "prop:c03_echo_reply_ip_header");
            crate::vassert!(b[34] == 0 && b[35] == 0 && b[38] == (ident >> 8) as u8 && b[39] == ident as u8 && b[40] == (seq >> 8) as u8 && b[41] == seq as u8, "prop:c03_echo_reply_echoes_ident_and_sequence_number");
        } else {
            // requester not resolved: the reply is dropped in favour of an ARP request for it
            crate::vassert!(!sent_ok && tx.len0 == 42, "prop:c03_unresolved_requester_asked_for_by_arp");
            crate::vassert!(b[0] == 0xff && b[5] == 0xff && b[12] == 0x08 && b[13] == 0x06 && b[20] == 0 && b[21] == 1, "prop:c03_unresolved_requester_asked_for_by_arp");
            crate::vassert!(b[28] == 192 && b[29] == 168 && b[30] == 1 && b[31] == 1 && b[38] == 192 && b[39] == 168 && b[40] == 1 && b[41] == 2, "prop:c03_unresolved_requester_asked_for_by_arp");
        }
    }

    // @harness props=C03 cfg=KE4u tier=q to=1800 mem=12 unwind=7 opts=nomem covers=3 funcs=InterfaceInner::process_ethernet;InterfaceInner::process_arp;ArpRepr::parse;neighbor::Cache::fill;InterfaceInner::process_ipv4;InterfaceInner::process_icmpv4;InterfaceInner::dispatch_ip;InterfaceInner::lookup_hardware_addr bounds=Ethernet_medium,_192.168.1.1/24,_one_bound_UDP_socket,_concrete_instant,_neighbor_cache_of_6_entries_initially_empty;_frame_1:_ARP_request_from_192.168.1.2;_frame_2:_ARP_with_all_28_octets_free,_any_source_MAC,_to_broadcast_or_own_MAC;_frame_3:_echo_request_from_192.168.1.2,_reply_emitted_through_dispatch_ip_to_the_hardware_address_learned;_no_free_IPv4_frame_(out_of_memory_with_one,_see_seq4_eth_arp_ip_then_echo)
    #[cfg(all(feature = "proto-ipv4", feature = "medium-ethernet", feature = "socket-udp", not(feature = "medium-ip")))]
    #[kani::proof]
    pub(crate) fn seq4_eth_resolved_arp_then_echo() {
        eth_seq_case(0, true, false, true);
    }

    // @harness props=C03 cfg=KE4u tier=t to=1800 mem=12 unwind=7 opts=nomem covers=3 funcs=InterfaceInner::process_ethernet;InterfaceInner::process_arp;ArpRepr::parse;neighbor::Cache::fill;InterfaceInner::process_ipv4;InterfaceInner::process_icmpv4;InterfaceInner::dispatch_ip;InterfaceInner::lookup_hardware_addr bounds=as_seq4_eth_resolved_arp_then_echo_with_a_neighbor_cache_that_is_FULL_after_frame_1_(five_older_concrete_entries_for_192.168.1.10-.14),_so_that_a_new_sender_in_frame_2_evicts_the_oldest_entry
    #[cfg(all(feature = "proto-ipv4", feature = "medium-ethernet", feature = "socket-udp", not(feature = "medium-ip")))]
    #[kani::proof]
    pub(crate) fn seq4_eth_resolved_arp_evict_then_echo() {
        eth_seq_case(5, true, false, false);
    }

    // @harness props=C03 cfg=KE4u tier=t to=1800 mem=12 unwind=7 opts=nomem covers=3 funcs=InterfaceInner::process_ethernet;InterfaceInner::process_arp;ArpRepr::parse;neighbor::Cache::fill;InterfaceInner::process_ipv4;InterfaceInner::process_udp;InterfaceInner::process_icmpv4;InterfaceInner::icmpv4_reply;InterfaceInner::dispatch_ip;InterfaceInner::lookup_hardware_addr;InterfaceInner::dispatch_ethernet bounds=Ethernet_medium,_192.168.1.1/24,_one_bound_UDP_socket,_concrete_instant,_neighbor_cache_of_6_entries_initially_empty;_frame_1:_ARP_with_all_28_octets_free,_any_source_MAC,_to_broadcast_or_own_MAC;_frame_2:_IPv4_to_the_own_address_with_any_protocol,_source_and_source_MAC,_12_free_upper-layer_octets;_frame_3:_echo_request_from_192.168.1.2_(not_resolved_unless_frame_1_claimed_that_address):_dispatch_ip_emits_the_reply_or_an_ARP_request
    #[cfg(all(feature = "proto-ipv4", feature = "medium-ethernet", feature = "socket-udp", not(feature = "medium-ip")))]
    #[kani::proof]
    pub(crate) fn seq4_eth_arp_ip_then_echo() {
        eth_seq_case(0, false, true, false);
    }

    // ------------------------------------------------------------------ IPv6, raw-IP medium (KI6u, KI6i, KI6t)
    /// own addresses: fe80::1/64 and 2001:db8::1/64
    const LL6: [u8; 16] = [0xfe, 0x80, 0, 0, 0, 0, 0, 0, 0, 0, 0, 0, 0, 0, 0, 1];
    const GL6: [u8; 16] = [0x20, 0x01, 0x0d, 0xb8, 0, 0, 0, 0, 0, 0, 0, 0, 0, 0, 0, 1];
    const PEER6: [u8; 16] = [0x20, 0x01, 0x0d, 0xb8, 0, 0, 0, 0, 0, 0, 0, 0, 0, 0, 0, 2];
    const ALL_NODES6: [u8; 16] = [0xff, 0x02, 0, 0, 0, 0, 0, 0, 0, 0, 0, 0, 0, 0, 0, 1];

    fn ipv6_header(b: &mut [u8], payload_len: usize, nh: u8, hop: u8, src: &[u8; 16], dst: &[u8; 16]) {
        b[0] = 0x60;
        b[1] = 0;
        b[2] = 0;
        b[3] = 0;
        put16(b, 4, payload_len as u16);
        b[6] = nh;
        b[7] = hop;
        let mut i = 0;
        while i < 16 {
            b[8 + i] = src[i];
            b[24 + i] = dst[i];
            i += 1;
        }
    }
    /// source 2001:db8::xx or fe80::xx (last octet free), destination the global own address or all-nodes
    fn any_src6() -> [u8; 16] {
        let mut a = if kani::any() { PEER6 } else { LL6 };
        a[15] = kani::any();
        a
    }
    fn any_dst6() -> [u8; 16] {
        if kani::any() { GL6 } else { ALL_NODES6 }
    }
    macro_rules! iface6 {
        ($iface:ident) => {
            let mut dev = CapDev::<96>::new(Medium::Ip, 1500, ChecksumCapabilities::ignored());
            let mut $iface = Interface::new(Config::new(HardwareAddress::Ip), &mut dev, Instant::from_micros(100_000_000));
            $iface.update_ip_addrs(|a| {
                a.push(IpCidr::new(IpAddress::Ipv6(Ipv6Address::from(LL6)), 64)).unwrap();
                a.push(IpCidr::new(IpAddress::Ipv6(Ipv6Address::from(GL6)), 64)).unwrap();
            });
        };
    }
    /// well-formed ICMPv6 echo request from 2001:db8::2 to 2001:db8::1 answered by an echo reply from 2001:db8::1
    #[cfg(all(feature = "proto-ipv6", feature = "medium-ip"))]
    fn echo6_answered(iface: &mut Interface, sockets: &mut SocketSet) -> bool {
        let mut e = [0u8; 52];
        ipv6_header(&mut e, 12, 58, 64, &PEER6, &GL6);
        e[40] = 128;
        put16(&mut e, 44, kani::any());
        put16(&mut e, 46, kani::any());
        let reply = iface.inner.process_ip(sockets, PacketMeta::default(), &e[..], &mut iface.fragments);
        match &reply {
            Some(p) => {
                let src_ok = match p.ip_repr() {
                    IpRepr::Ipv6(r) => r.src_addr.octets() == GL6 && r.dst_addr.octets() == PEER6,
                    #[allow(unreachable_patterns)]
                    _ => false,
                };
                src_ok && matches!(p.payload(), IpPayload::Icmpv6(Icmpv6Repr::EchoReply { .. }))
            }
            None => false,
        }
    }

    // UDP socket: two datagrams with free UDP header and payload, then the ICMPv6 echo request.
    // @harness props=C03 cfg=KI6u tier=q to=1800 mem=12 unwind=18 opts=nomem covers=2 funcs=InterfaceInner::process_ip;InterfaceInner::process_ipv6;InterfaceInner::process_nxt_hdr;InterfaceInner::process_udp;udp::Socket::process;InterfaceInner::process_icmpv6;InterfaceInner::icmpv6_reply bounds=raw-IP_medium,_own_fe80::1_and_2001:db8::1,_one_bound_UDP_socket_(2_slots,_16-byte_ring);_frames_1_and_2:_IPv6_header_(next_header_17,_source_2001:db8::xx_or_fe80::xx_with_free_last_octet,_destination_2001:db8::1_or_ff02::1),_then_12_free_octets_(ports,_length,_checksum,_payload);_frame_3:_echo_request;_concrete_instant
    #[cfg(all(feature = "proto-ipv6", feature = "medium-ip", feature = "socket-udp"))]
    #[kani::proof]
    pub(crate) fn seq6_udp_two_frames_then_echo() {
        iface6!(iface);
        let mut urm = [udp::PacketMetadata::EMPTY; 2];
        let mut urp = [0u8; 16];
        let mut utm = [udp::PacketMetadata::EMPTY; 2];
        let mut utp = [0u8; 16];
        let mut usock = udp::Socket::new(udp::PacketBuffer::new(&mut urm[..], &mut urp[..]), udp::PacketBuffer::new(&mut utm[..], &mut utp[..]));
        usock.bind(53).unwrap();
        let mut storage = [SocketStorage::EMPTY];
        let mut sockets = SocketSet::new(&mut storage[..]);
        let uh = sockets.add(usock);
        let mut a: [u8; 52] = kani::any();
        ipv6_header(&mut a, 12, 17, 64, &any_src6(), &any_dst6());
        let r1 = iface.inner.process_ip(&mut sockets, PacketMeta::default(), &a[..], &mut iface.fragments).is_some();
        let got1 = sockets.get::<udp::Socket>(uh).can_recv();
        let mut b: [u8; 52] = kani::any();
        ipv6_header(&mut b, 12, 17, 64, &any_src6(), &any_dst6());
        let r2 = iface.inner.process_ip(&mut sockets, PacketMeta::default(), &b[..], &mut iface.fragments).is_some();
        crate::vassert!(echo6_answered(&mut iface, &mut sockets), "prop:c03_echo_request_answered_after_arbitrary_frames");
        let us = sockets.get_mut::<udp::Socket>(uh);
        let d1 = us.recv().is_ok();
        let d2 = us.recv().is_ok();
        kani::cover!(got1 && d1 && d2, "both datagrams delivered to the socket");
        kani::cover!(got1 && r2, "first datagram delivered, second answered with an ICMPv6 error");
    }

    // ------------------------------------------------------------------ IEEE 802.15.4 / 6LoWPAN (KLi)
    /// own extended address 02:00:00:00:00:00:00:01 (fe80::1), peer 02:..:02 (fe80::2), PAN 0xabcd
    const HW154: [u8; 8] = [0x02, 0, 0, 0, 0, 0, 0, 1];
    const PEER154: [u8; 8] = [0x02, 0, 0, 0, 0, 0, 0, 2];
    /// 802.15.4 data frame header as smoltcp itself emits it: frame control 0x41 0xcc (data, PAN ID compression, extended
    /// addresses, version 2003), sequence number, destination PAN, destination and source address (little endian)
    const MAC154: usize = 21;
    fn mac154(f: &mut [u8], seq: u8) {
        f[0] = 0x41;
        f[1] = 0xcc;
        f[2] = seq;
        f[3] = 0xcd;
        f[4] = 0xab;
        let mut i = 0;
        while i < 8 {
            f[5 + i] = HW154[7 - i];
            f[13 + i] = PEER154[7 - i];
            i += 1;
        }
    }

    /// optional FRAG1 (datagram size < 256 and tag free, IPHC 7a 33 = everything elided, addresses from the link layer, next
    /// header in-line 58, then the 8-octet ICMPv6 echo request header: 48 octets uncompressed), optional FRAGN (size, tag
    /// and `offset` free or the concrete offset 6, 8 free data octets), then an IPHC-compressed echo request from fe80::2
    /// carried by a FRAG1 that is its whole datagram (size 52) -> echo reply from fe80::1.  Only the last frame is used by
    /// the registered harness (see the comment there for what was measured with the fragments in front).
    #[cfg(all(feature = "medium-ieee802154", feature = "proto-sixlowpan-fragmentation", feature = "socket-icmp"))]
    fn lowpan_seq_case(with_frag1: bool, with_fragn: bool, free_offset: bool) {
        let mut dev = CapDev::<64>::new(Medium::Ieee802154, 125, ChecksumCapabilities::ignored());
        let mut cfg = Config::new(HardwareAddress::Ieee802154(Ieee802154Address::Extended(HW154)));
        cfg.pan_id = Some(Ieee802154Pan(0xabcd));
        let mut iface = Interface::new(cfg, &mut dev, Instant::from_micros(100_000_000));
        iface.update_ip_addrs(|a| {
            a.push(IpCidr::new(IpAddress::Ipv6(Ipv6Address::from(LL6)), 64)).unwrap();
        });
        let mut irm = [icmp::PacketMetadata::EMPTY; 1];
        let mut irp = [0u8; 16];
        let mut itm = [icmp::PacketMetadata::EMPTY; 1];
        let mut itp = [0u8; 16];
        let mut isock = icmp::Socket::new(icmp::PacketBuffer::new(&mut irm[..], &mut irp[..]), icmp::PacketBuffer::new(&mut itm[..], &mut itp[..]));
        isock.bind(icmp::Endpoint::Ident(0x1234)).unwrap();
        let mut storage = [SocketStorage::EMPTY];
        let mut sockets = SocketSet::new(&mut storage[..]);
        let ih = sockets.add(isock);

        let size1: u8 = kani::any();
        let tag1: [u8; 2] = kani::any();
        let mut r1 = false;
        if with_frag1 {
            let mut f = [0u8; MAC154 + 15];
            mac154(&mut f, 1);
            let p = [0xc0, size1, tag1[0], tag1[1], 0x7a, 0x33, 0x3a, 128, 0, 0, 0, 0x12, 0x34, 0, 1];
            f[MAC154..].copy_from_slice(&p);
            r1 = iface.inner.process_ieee802154(&mut sockets, PacketMeta::default(), &f[..], &mut iface.fragments).is_some();
        }
        let sizen: u8 = kani::any();
        let tagn: [u8; 2] = kani::any();
        let offset: u8 = if free_offset { kani::any() } else { 6 };
        let mut rn = false;
        if with_fragn {
            let mut f = [0u8; MAC154 + 13];
            mac154(&mut f, 2);
            let d: [u8; 8] = kani::any();
            let p = [0xe0, sizen, tagn[0], tagn[1], offset, d[0], d[1], d[2], d[3], d[4], d[5], d[6], d[7]];
            f[MAC154..].copy_from_slice(&p);
            rn = iface.inner.process_ieee802154(&mut sockets, PacketMeta::default(), &f[..], &mut iface.fragments).is_some();
        }
        // echo request in one FRAG1 (size 52 = 40 + 12, tag 0x7777): IPHC 7a 33, next header 58 in-line, ICMPv6 echo request, 4 data octets
        let mut e = [0u8; MAC154 + 19];
        mac154(&mut e, 3);
        let ident: [u8; 2] = kani::any();
        let seqn: [u8; 2] = kani::any();
        let p = [0xc0, 52, 0x77, 0x77, 0x7a, 0x33, 0x3a, 128, 0, 0, 0, ident[0], ident[1], seqn[0], seqn[1], 1, 2, 3, 4];
        e[MAC154..].copy_from_slice(&p);
        let reply = iface.inner.process_ieee802154(&mut sockets, PacketMeta::default(), &e[..], &mut iface.fragments);
        let ok = match &reply {
            Some(pk) => {
                let addr_ok = match pk.ip_repr() {
                    IpRepr::Ipv6(r) => r.src_addr.octets() == LL6 && r.dst_addr.octets()[15] == 2 && r.dst_addr.octets()[0] == 0xfe,
                    #[allow(unreachable_patterns)]
                    _ => false,
                };
                addr_ok && matches!(pk.payload(), IpPayload::Icmpv6(Icmpv6Repr::EchoReply { ident: i, seq_no: q, data }) if *i == u16::from_be_bytes(ident) && *q == u16::from_be_bytes(seqn) && data.len() == 4)
            }
            None => false,
        };
        kani::cover!(if with_frag1 { r1 && size1 == 48 } else { true }, "FRAG1 that is its whole datagram (size 48) delivered and answered at once");
        kani::cover!(if with_fragn && with_frag1 { !r1 && !rn && size1 == sizen && tag1 == tagn && size1 == 56 } else { !rn }, "FRAGN for the datagram FRAG1 started (same size and tag) / FRAGN stored or dropped");
        crate::vassert!(ok, "prop:c03_echo_request_answered_after_arbitrary_frames");
    }

    // Measured: with a FRAG1 (free size / tag) and / or a FRAGN (free size / tag / offset) in front, symbolic execution did
    // not finish within 15 min (KLi, 64-octet reassembly slots), and an UNFRAGMENTED IPHC frame goes through the 1500-octet
    // decompression buffer, beyond any affordable field-sensitivity bound: the next-header octet read back from it is not
    // constant and symbolic execution wanders through every extension header parser (no end within 15 min).  What fits is
    // the echo request carried by a FRAG1 that is its whole datagram (reassembled in a 64-octet slot); fragment sequences
    // without the interface around them are iface_sixlowpan.rs' lowpan_frag_rx_* harnesses.
    // @harness props=C03 cfg=KLi tier=q to=900 mem=12 unwind=18 opts=nomem covers=2 funcs=InterfaceInner::process_ieee802154;Ieee802154Repr::parse;InterfaceInner::process_sixlowpan;InterfaceInner::process_sixlowpan_fragment;PacketAssemblerSet::get;PacketAssembler::add_with;InterfaceInner::sixlowpan_to_ipv6;InterfaceInner::process_ipv6;InterfaceInner::process_icmpv6;InterfaceInner::icmpv6_reply bounds=IEEE_802.15.4_medium,_extended_addresses,_PAN_0xabcd,_own_fe80::1,_one_ICMP_socket,_2_reassembly_slots_of_64_octets;_ONE_frame:_FRAG1_(datagram_size_52,_concrete_tag)_carrying_a_whole_IPHC-compressed_echo_request_from_fe80::2_with_free_identifier_and_sequence_number;_reply_packet_checked_(not_its_compression);_no_preceding_fragments_(infeasible,_see_comment)
    #[cfg(all(feature = "medium-ieee802154", feature = "proto-sixlowpan-fragmentation", feature = "socket-icmp"))]
    #[kani::proof]
    pub(crate) fn seq_lowpan_frag1_complete_echo() {
        lowpan_seq_case(false, false, false);
    }

    // ------------------------------------------------------------------ DHCPv4 client on Ethernet (KDd)
    /// total frame: Ethernet 14 + IPv4 20 + UDP 8 + DHCP (236 fixed + 4 magic cookie + options)
    const DHCP_OPTS: usize = 21 + 1;
    const DHCP_FRAME: usize = 14 + 20 + 8 + 240 + DHCP_OPTS;

    /// a server message: BOOTP header with free op, htype, hlen, xid, yiaddr, siaddr and chaddr (other fixed fields,
    /// sname and file zero), magic cookie, options of concrete shape {message type, server identifier, lease time,
    /// subnet mask} with free values and the end option (with 4 further free-form option octets per frame symbolic
    /// execution itself ran out of 12 GB after 33 min: DhcpRepr::parse on free-form options is wire_views.rs' single-call subject)
    #[cfg(all(feature = "proto-ipv4", feature = "medium-ethernet"))]
    fn dhcp_frame(f: &mut [u8; DHCP_FRAME]) {
        let hdr: [u8; 8] = kani::any();
        let addrs: [u8; 8] = kani::any();
        let ch: [u8; 6] = kani::any();
        let ov: [u8; 13] = kani::any();
        eth_header(&mut f[..], &[0xff; 6], &PEER_MAC, 0x0800);
        ipv4_header(&mut f[14..], DHCP_FRAME - 14, 17, PEER_U32, 0xffff_ffff);
        put16(&mut f[..], 34, 67);
        put16(&mut f[..], 36, 68);
        put16(&mut f[..], 38, (DHCP_FRAME - 34) as u16);
        put16(&mut f[..], 40, 0);
        let d = 42;
        f[d] = hdr[0];
        f[d + 1] = hdr[1];
        f[d + 2] = hdr[2];
        f[d + 4] = hdr[4];
        f[d + 5] = hdr[5];
        f[d + 6] = hdr[6];
        f[d + 7] = hdr[7];
        f[d + 16] = addrs[0];
        f[d + 17] = addrs[1];
        f[d + 18] = addrs[2];
        f[d + 19] = addrs[3];
        f[d + 20] = addrs[4];
        f[d + 21] = addrs[5];
        f[d + 22] = addrs[6];
        f[d + 23] = addrs[7];
        f[d + 28] = ch[0];
        f[d + 29] = ch[1];
        f[d + 30] = ch[2];
        f[d + 31] = ch[3];
        f[d + 32] = ch[4];
        f[d + 33] = ch[5];
        f[d + 236] = 99;
        f[d + 237] = 130;
        f[d + 238] = 83;
        f[d + 239] = 99;
        let o = d + 240;
        f[o] = 53;
        f[o + 1] = 1;
        f[o + 2] = ov[0];
        f[o + 3] = 54;
        f[o + 4] = 4;
        f[o + 5] = ov[1];
        f[o + 6] = ov[2];
        f[o + 7] = ov[3];
        f[o + 8] = ov[4];
        f[o + 9] = 51;
        f[o + 10] = 4;
        f[o + 11] = ov[5];
        f[o + 12] = ov[6];
        f[o + 13] = ov[7];
        f[o + 14] = ov[8];
        f[o + 15] = 1;
        f[o + 16] = 4;
        f[o + 17] = ov[9];
        f[o + 18] = ov[10];
        f[o + 19] = ov[11];
        f[o + 20] = ov[12];
        f[o + 21] = 255;
    }

    // @harness props=C03 cfg=KDd tier=q to=1200 mem=12 unwind=12 opts=nomem,fs320 covers=2 funcs=InterfaceInner::process_ethernet;InterfaceInner::process_ipv4;UdpRepr::parse;dhcpv4::Socket::process;DhcpPacket::new_checked;DhcpRepr::parse;dhcpv4::Socket::dispatch;InterfaceInner::process_icmpv4 bounds=Ethernet_medium,_static_address_192.168.1.1/24_plus_a_DHCPv4_client_socket_(default_settings)_whose_DISCOVER_was_taken_from_dispatch;_frames_1_and_2:_broadcast_UDP_67->68_from_192.168.1.2_carrying_a_BOOTP_header_with_free_op/htype/hlen/xid/yiaddr/siaddr/chaddr,_the_magic_cookie,_options_{53,54,51,1}_with_free_values,_end;_then_an_echo_request_(reply_packet_checked)_and,_10_s_later,_the_client's_next_message_taken_from_dispatch
    #[cfg(all(feature = "proto-ipv4", feature = "medium-ethernet", feature = "socket-dhcpv4"))]
    #[kani::proof]
    pub(crate) fn seq4_dhcp_two_frames_then_echo() {
        use crate::socket::dhcpv4;
        let mut dev = CapDev::<64>::new(Medium::Ethernet, 1514, ChecksumCapabilities::ignored());
        let now: i64 = 100_000_000;
        let mut iface = Interface::new(Config::new(HardwareAddress::Ethernet(EthernetAddress(OWN_MAC))), &mut dev, Instant::from_micros(now));
        iface.update_ip_addrs(|a| {
            a.push(IpCidr::new(IpAddress::Ipv4(OWN), 24)).unwrap();
        });
        let mut storage = [SocketStorage::EMPTY];
        let mut sockets = SocketSet::new(&mut storage[..]);
        let dh = sockets.add(dhcpv4::Socket::new());
        // the client's DISCOVER
        let mut xid: u32 = 0;
        let mut first_is_discover = false;
        let _ = sockets.get_mut::<dhcpv4::Socket>(dh).dispatch(&mut iface.inner, |_cx, (_ip, _udp, d)| -> core::result::Result<(), ()> {
            xid = d.transaction_id;
            first_is_discover = d.message_type == DhcpMessageType::Discover;
            Ok(())
        });
        crate::vassert!(first_is_discover, "prop:c03_dhcp_client_solicits");
        // two server messages
        let mut f1 = [0u8; DHCP_FRAME];
        dhcp_frame(&mut f1);
        let r1 = iface.inner.process_ethernet(&mut sockets, PacketMeta::default(), &f1[..], &mut iface.fragments).is_some();
        let mut f2 = [0u8; DHCP_FRAME];
        dhcp_frame(&mut f2);
        let r2 = iface.inner.process_ethernet(&mut sockets, PacketMeta::default(), &f2[..], &mut iface.fragments).is_some();
        crate::vassert!(!r1 && !r2, "prop:c03_dhcp_server_messages_not_answered_on_ingress");
        // echo request from the peer (broadcast hardware destination: no neighbor entry needed to build the reply packet)
        let mut fe = [0u8; 46];
        eth_header(&mut fe, &OWN_MAC, &PEER_MAC, 0x0800);
        ipv4_header(&mut fe[14..], 32, 1, PEER_U32, OWN_U32);
        fe[34] = 8;
        put16(&mut fe, 38, kani::any());
        put16(&mut fe, 40, kani::any());
        let re = iface.inner.process_ethernet(&mut sockets, PacketMeta::default(), &fe[..], &mut iface.fragments);
        let echo_ok = match &re {
            Some(EthernetPacket::Ip(p)) => reply_is_echo_from_own(p),
            _ => false,
        };
        crate::vassert!(echo_ok, "prop:c03_echo_request_answered_after_arbitrary_frames");
        // 10 s later (the default DISCOVER retry interval) the client says something again: DISCOVER, or REQUEST if one
        // of the frames was an acceptable OFFER
        iface.inner.now = Instant::from_micros(now + 10_000_000);
        let mut said = 0u8;
        let _ = sockets.get_mut::<dhcpv4::Socket>(dh).dispatch(&mut iface.inner, |_cx, (_ip, _udp, d)| -> core::result::Result<(), ()> {
            said = if d.message_type == DhcpMessageType::Discover { 1 } else if d.message_type == DhcpMessageType::Request { 2 } else { 3 };
            Ok(())
        });
        let xid1 = u32::from_be_bytes([f1[46], f1[47], f1[48], f1[49]]);
        kani::cover!(said == 2 && xid1 == xid && f1[42 + 242] == 2, "frame 1 was an OFFER for the pending transaction: REQUEST sent");
        kani::cover!(said == 1 && xid1 == xid && f1[42 + 242] == 2, "an OFFER with the right transaction id but not acceptable: DISCOVER repeated");
        crate::vassert!(said == 1 || said == 2, "prop:c03_dhcp_client_still_transmits_after_arbitrary_server_messages");
    }

    // @harness props=C03 kind=mustfail cfg=KI4u tier=q to=600 mem=8 unwind=12 opts=nomem
    #[cfg(all(feature = "proto-ipv4", feature = "medium-ip", feature = "socket-udp"))]
    #[kani::proof]
    pub(crate) fn iface_seq_must_fail() {
        iface4!(iface);
        let mut urm = [udp::PacketMetadata::EMPTY; 2];
        let mut urp = [0u8; 16];
        let mut utm = [udp::PacketMetadata::EMPTY; 2];
        let mut utp = [0u8; 16];
        let mut usock = udp::Socket::new(udp::PacketBuffer::new(&mut urm[..], &mut urp[..]), udp::PacketBuffer::new(&mut utm[..], &mut utp[..]));
        usock.bind(53).unwrap();
        let mut storage = [SocketStorage::EMPTY];
        let mut sockets = SocketSet::new(&mut storage[..]);
        let uh = sockets.add(usock);
        let mut a: [u8; 32] = kani::any();
        ipv4_header(&mut a, 32, 17, kani::any(), OWN_U32);
        let _ = iface.inner.process_ip(&mut sockets, PacketMeta::default(), &a[..], &mut iface.fragments);
        crate::vassert!(!sockets.get::<udp::Socket>(uh).can_recv(), "prop:deliberately_false_no_datagram_is_ever_delivered");
    }
}
