// C08 — Internet checksums are computed correctly, emitted valid and enforced.
// Spliced at the crate root (src/lib.rs), build configuration KW.
//
// Independent oracle: `ref_sum*` below is RFC 1071 section 1 written out literally (big-endian
// 16-bit words, end-around carry after every addition, a trailing odd byte is padded with a zero
// byte on the right); pseudo-headers are byte arrays laid out from RFC 768 / 793 / 8200 (8.1).
// The oracle never calls into `crate::wire::checksum`.  `cksum_ref_selfcheck` pins it to the
// RFC 1071 worked example and to published packets.
//
// Checksum arithmetic is SAT-hard (DESIGN.md section 3, probes 9/10c): packet-level harnesses keep
// <= ~6 symbolic 16-bit words per query; which bytes are symbolic is chosen by a bit mask
// (`pick`), the other bytes are fixed non-zero patterns, so a region the crate forgot to sum is
// still noticed.  Every header field, both pseudo-header addresses, the length and each payload
// position is symbolic in at least one `_w<k>` instance.
#[cfg(all(
    feature = "medium-ieee802154",
    feature = "proto-dhcpv4",
    feature = "proto-dns",
    feature = "proto-ipv4",
    feature = "proto-ipv6"
))]
#[allow(dead_code, unused_imports, unused_variables, unused_mut, clippy::all)]
mod v_wire_cksum {
    use crate::phy::{Checksum, ChecksumCapabilities};
    use crate::verif_common::*;
    use crate::wire::*;

    // ------------------------------------------------------------------ the reference (oracle)

    /// one's-complement addition of two 16-bit words (end-around carry)
    fn oc_add(a: u16, b: u16) -> u16 {
        let s = a as u32 + b as u32;
        ((s & 0xffff) + (s >> 16)) as u16
    }

    fn be16(hi: u8, lo: u8) -> u16 {
        ((hi as u16) << 8) | lo as u16
    }

    /// RFC 1071 sum of `data`, continuing from the partial sum `init`
    /// (exact continuation of a byte stream only if everything summed before had even length).
    fn ref_sum_from(init: u16, data: &[u8]) -> u16 {
        let mut acc = init;
        let mut i = 0;
        while i + 1 < data.len() {
            acc = oc_add(acc, be16(data[i], data[i + 1]));
            i += 2;
        }
        if i < data.len() {
            acc = oc_add(acc, be16(data[i], 0));
        }
        acc
    }

    fn ref_sum(data: &[u8]) -> u16 {
        ref_sum_from(0, data)
    }

    /// 0x0000 and 0xffff both represent zero in one's-complement arithmetic
    fn ones_eq(a: u16, b: u16) -> bool {
        a == b || (a == 0 && b == 0xffff) || (a == 0xffff && b == 0)
    }

    /// RFC 768 / RFC 793 pseudo-header: src, dst, zero, protocol, 16-bit upper-layer length
    fn ph4(src: &[u8; 16], dst: &[u8; 16], proto: u8, len: u16) -> [u8; 12] {
        [
            src[0], src[1], src[2], src[3], dst[0], dst[1], dst[2], dst[3], 0, proto,
            (len >> 8) as u8, len as u8,
        ]
    }

    /// RFC 8200 section 8.1 pseudo-header: src, dst, 32-bit upper-layer length, 3 zero bytes, next header
    fn ph6(src: &[u8; 16], dst: &[u8; 16], proto: u8, len: u32) -> [u8; 40] {
        let mut p = [0u8; 40];
        let mut i = 0;
        while i < 16 {
            p[i] = src[i];
            p[16 + i] = dst[i];
            i += 1;
        }
        p[32] = (len >> 24) as u8;
        p[33] = (len >> 16) as u8;
        p[34] = (len >> 8) as u8;
        p[35] = len as u8;
        p[39] = proto;
        p
    }

    fn ref_ph(v6: bool, src: &[u8; 16], dst: &[u8; 16], proto: u8, len: usize) -> u16 {
        if v6 {
            ref_sum(&ph6(src, dst, proto, len as u32))
        } else {
            ref_sum(&ph4(src, dst, proto, len as u16))
        }
    }

    /// the receiver's rule: the sum over pseudo-header and segment, checksum field included, is all ones
    fn ref_l4_ok(v6: bool, src: &[u8; 16], dst: &[u8; 16], proto: u8, seg: &[u8]) -> bool {
        ref_sum_from(ref_ph(v6, src, dst, proto, seg.len()), seg) == 0xffff
    }

    /// UDP: the length field, not the buffer, delimits the datagram (RFC 768)
    fn ref_udp_ok(v6: bool, src: &[u8; 16], dst: &[u8; 16], seg: &[u8]) -> bool {
        if seg.len() < 8 {
            return false;
        }
        let l = be16(seg[4], seg[5]) as usize;
        if l < 8 || l > seg.len() {
            return false;
        }
        ref_sum_from(ref_ph(v6, src, dst, 17, l), &seg[..l]) == 0xffff
    }

    /// IPv4 header: the IHL field delimits the summed region (RFC 791)
    fn ref_ipv4_ok(b: &[u8]) -> bool {
        if b.len() < 20 {
            return false;
        }
        let ihl = ((b[0] & 0x0f) as usize) * 4;
        if ihl < 20 || ihl > b.len() {
            return false;
        }
        ref_sum(&b[..ihl]) == 0xffff
    }

    // ------------------------------------------------------------------ symbolic-word selection

    /// `fixed` with byte i replaced by a symbolic byte where bit i of `mask` is set
    fn pick<const N: usize>(fixed: [u8; N], mask: u32) -> [u8; N] {
        let mut out = fixed;
        let mut i = 0;
        while i < N {
            if (mask >> i) & 1 == 1 {
                out[i] = kani::any();
            }
            i += 1;
        }
        out
    }

    const SRC_FIX: [u8; 16] = [
        0x20, 0x01, 0x0d, 0xb8, 0x85, 0xa3, 0x17, 0x2e, 0x8a, 0x2e, 0x03, 0x70, 0x73, 0x34, 0xc1, 0x5d,
    ];
    const DST_FIX: [u8; 16] = [
        0xfe, 0x80, 0x4b, 0x1c, 0x02, 0x1a, 0x2b, 0xff, 0xfe, 0x3c, 0x4d, 0x5e, 0x9b, 0x07, 0x66, 0xe1,
    ];
    const PAY_FIX: [u8; 8] = [0xde, 0xad, 0xbe, 0xef, 0x5a, 0xc3, 0x3c, 0xa5];

    fn ip_addr(v6: bool, b: &[u8; 16]) -> IpAddress {
        if v6 {
            IpAddress::Ipv6(Ipv6Address::from(*b))
        } else {
            IpAddress::Ipv4(Ipv4Address::new(b[0], b[1], b[2], b[3]))
        }
    }

    fn tx_off() -> Checksum {
        if kani::any() { Checksum::None } else { Checksum::Rx }
    }

    fn rx_off() -> Checksum {
        if kani::any() { Checksum::None } else { Checksum::Tx }
    }

    /// XOR a non-zero corruption into one or two bytes of `buf[..n]` at symbolic positions
    fn corrupt(buf: &mut [u8], n: usize) {
        let p1 = any_lt(n);
        let p2 = any_lt(n);
        let m1: u8 = kani::any();
        let m2: u8 = kani::any();
        kani::assume(m1 != 0);
        // m2 == 0: single-byte corruption; same position twice must not cancel
        kani::assume(p1 != p2 || m1 != m2);
        buf[p1] ^= m1;
        buf[p2] ^= m2;
    }

    // ================================================================== (a) the routine itself

    // @harness props=C08 cfg=KW tier=q to=120 mem=4 unwind=24 opts=nomem covers=1 funcs=wire::checksum::data;wire::checksum::combine;wire::checksum::pseudo_header_v4;wire::checksum::pseudo_header_v6 bounds=concrete_vectors:_RFC_1071_worked_example,_published_IPv4_header,_odd_length,_UDP/IPv4_and_ICMPv6_packets
    #[kani::proof]
    pub(crate) fn cksum_ref_selfcheck() {
        // RFC 1071 section 3 worked example: 0001 f203 f4f5 f6f7 -> 2ddf0 -> ddf2
        let ex = [0x00u8, 0x01, 0xf2, 0x03, 0xf4, 0xf5, 0xf6, 0xf7];
        assert!(ref_sum(&ex) == 0xddf2, "prop:c08_reference_matches_rfc1071_example");
        assert!(checksum::data(&ex) == 0xddf2, "prop:c08_data_matches_rfc1071_example");
        // odd length: the last byte is the HIGH byte of a zero-padded word
        let odd = [0x12u8, 0x34, 0x56];
        assert!(ref_sum(&odd) == 0x6834 && checksum::data(&odd) == 0x6834, "prop:c08_odd_byte_padded_on_the_right");
        // widely published IPv4 header (checksum b861)
        let hdr = [
            0x45u8, 0x00, 0x00, 0x73, 0x00, 0x00, 0x40, 0x00, 0x40, 0x11, 0xb8, 0x61, 0xc0, 0xa8, 0x00, 0x01,
            0xc0, 0xa8, 0x00, 0xc7,
        ];
        assert!(ref_ipv4_ok(&hdr), "prop:c08_reference_accepts_published_ipv4_header");
        assert!(Ipv4Packet::new_unchecked(&hdr[..]).verify_checksum(), "prop:c08_crate_accepts_published_ipv4_header");
        let mut hdr0 = hdr;
        hdr0[10] = 0;
        hdr0[11] = 0;
        assert!(!ref_sum(&hdr0) == 0xb861, "prop:c08_reference_computes_published_ipv4_checksum");
        // UDP over IPv4, 192.168.1.1 -> 192.168.1.2, 48896 -> 53, payload aa 00 00 ff, checksum 124d
        let udp = [0xbfu8, 0x00, 0x00, 0x35, 0x00, 0x0c, 0x12, 0x4d, 0xaa, 0x00, 0x00, 0xff];
        let mut s4 = [0u8; 16];
        let mut d4 = [0u8; 16];
        s4[0] = 192; s4[1] = 168; s4[2] = 1; s4[3] = 1;
        d4[0] = 192; d4[1] = 168; d4[2] = 1; d4[3] = 2;
        assert!(ref_udp_ok(false, &s4, &d4, &udp), "prop:c08_reference_accepts_known_udp4_packet");
        // ICMPv6 echo request fe80::1 -> fe80::2, checksum 19b3
        let echo6 = [0x80u8, 0x00, 0x19, 0xb3, 0x12, 0x34, 0xab, 0xcd, 0xaa, 0x00, 0x00, 0xff];
        let mut s6 = [0u8; 16];
        let mut d6 = [0u8; 16];
        s6[0] = 0xfe; s6[1] = 0x80; s6[15] = 1;
        d6[0] = 0xfe; d6[1] = 0x80; d6[15] = 2;
        assert!(ref_l4_ok(true, &s6, &d6, 58, &echo6), "prop:c08_reference_accepts_known_icmpv6_packet");
        // end-around carry: ffff + 0001 = 0001 (not 0000)
        assert!(oc_add(0xffff, 0x0001) == 0x0001 && checksum::combine(&[0xffff, 0x0001]) == 0x0001, "prop:c08_end_around_carry");
        kani::cover!(true, "self-check executed");
    }

    fn equiv<const N: usize>(maxlen: usize) {
        let buf: [u8; N] = kani::any();
        let off: usize = kani::any();
        let len: usize = kani::any();
        kani::assume(off <= 3 && len <= maxlen);
        let d = &buf[off..off + len];
        let got = checksum::data(d);
        let want = ref_sum(d);
        assert!(ones_eq(got, want), "prop:c08_data_equals_rfc1071_sum");
        // stronger: the same representative of zero (callers compare with `== !0`)
        assert!(got == want, "prop:c08_data_equals_rfc1071_sum_same_zero_representation");
        kani::cover!(len == maxlen && off == 3, "longest buffer at the most misaligned start");
        kani::cover!(len % 4 == 3 && off == 1 && got == 0xffff, "odd tail after a 2-byte tail, sum is negative zero");
    }

    // @harness props=C08 cfg=KW tier=q to=900 mem=6 unwind=10 opts=nomem covers=2 funcs=wire::checksum::data bounds=length_0..=12;_start_offset_0..=3_into_a_15-byte_symbolic_array;_all_contents
    #[kani::proof]
    pub(crate) fn cksum_equiv_12() {
        equiv::<15>(12);
    }

    // @harness props=C08 cfg=KW tier=t to=2400 mem=8 unwind=12 opts=nomem covers=2 funcs=wire::checksum::data bounds=length_0..=16;_start_offset_0..=3;_all_contents
    #[kani::proof]
    pub(crate) fn cksum_equiv_16() {
        equiv::<19>(16);
    }

    // @harness props=C08 cfg=KW tier=t to=3600 mem=8 unwind=14 opts=nomem covers=2 funcs=wire::checksum::data bounds=length_0..=20;_start_offset_0..=3;_all_contents
    #[kani::proof]
    pub(crate) fn cksum_equiv_20() {
        equiv::<23>(20);
    }

    // @harness props=C08 cfg=KW tier=q to=900 mem=6 unwind=10 opts=nomem covers=2 funcs=wire::checksum::data;wire::checksum::combine bounds=length_0..=12;_every_even_split_point;_start_offset_0..=1;_all_contents
    #[kani::proof]
    pub(crate) fn cksum_split() {
        let buf: [u8; 13] = kani::any();
        let off: usize = kani::any();
        let len: usize = kani::any();
        let s: usize = kani::any();
        kani::assume(off <= 1 && len <= 12 && s <= len && s % 2 == 0);
        let d = &buf[off..off + len];
        let whole = checksum::data(d);
        let parts = checksum::combine(&[checksum::data(&d[..s]), checksum::data(&d[s..])]);
        assert!(ones_eq(parts, whole), "prop:c08_sum_of_even_split_equals_sum_of_whole");
        kani::cover!(len == 11 && s == 6 && off == 1, "odd total, split in the middle");
        kani::cover!(s == len && len == 12, "empty second part");
    }

    // @harness props=C08 cfg=KW tier=q to=300 mem=4 unwind=6 opts=nomem covers=2 funcs=wire::checksum::combine bounds=0..=4_arbitrary_16-bit_words
    #[kani::proof]
    pub(crate) fn cksum_combine() {
        let w: [u16; 4] = kani::any();
        let n = any_le(4);
        let got = checksum::combine(&w[..n]);
        let mut want = 0u16;
        let mut i = 0;
        while i < 4 {
            if i < n {
                want = oc_add(want, w[i]);
            }
            i += 1;
        }
        assert!(ones_eq(got, want), "prop:c08_combine_is_ones_complement_addition");
        assert!(got == want, "prop:c08_combine_same_zero_representation");
        kani::cover!(n == 4 && w[0] as u32 + w[1] as u32 + w[2] as u32 + w[3] as u32 > 0x2ffff, "three carries folded");
        kani::cover!(n == 2 && got == 0xffff && w[0] != 0 && w[0] != 0xffff, "negative zero result");
    }

    // @harness props=C08 cfg=KW tier=q to=600 mem=4 unwind=8 opts=nomem covers=1 funcs=wire::checksum::pseudo_header_v4 bounds=all_source_and_destination_addresses,_all_256_protocol_values,_all_lengths_0..=65535
    #[kani::proof]
    pub(crate) fn cksum_pseudo_v4() {
        let src: [u8; 4] = kani::any();
        let dst: [u8; 4] = kani::any();
        let proto: u8 = kani::any();
        let len: u16 = kani::any();
        let got = checksum::pseudo_header_v4(
            &Ipv4Address::new(src[0], src[1], src[2], src[3]),
            &Ipv4Address::new(dst[0], dst[1], dst[2], dst[3]),
            IpProtocol::from(proto),
            len as u32,
        );
        let bytes = [src[0], src[1], src[2], src[3], dst[0], dst[1], dst[2], dst[3], 0, proto, (len >> 8) as u8, len as u8];
        let want = ref_sum(&bytes);
        assert!(ones_eq(got, want), "prop:c08_pseudo_header_v4_equals_rfc768_sum");
        kani::cover!(got == 0xffff && proto == 6, "negative zero pseudo-header sum");
    }

    fn pseudo_v6(smask: u32, dmask: u32, len_sym: bool, proto_sym: bool) {
        let src = pick(SRC_FIX, smask);
        let dst = pick(DST_FIX, dmask);
        let proto: u8 = if proto_sym { kani::any() } else { 58 };
        let len: u32 = if len_sym { kani::any() } else { 0x0000_a53c };
        // the crate writes `length as u16`: lengths above 65535 (jumbograms, which smoltcp does not
        // support: IPv6 payload_len is u16 everywhere) are outside the claim
        kani::assume(len <= 0xffff);
        let got = checksum::pseudo_header_v6(&Ipv6Address::from(src), &Ipv6Address::from(dst), IpProtocol::from(proto), len);
        let want = ref_sum(&ph6(&src, &dst, proto, len));
        assert!(ones_eq(got, want), "prop:c08_pseudo_header_v6_equals_rfc8200_sum");
        kani::cover!(got == 0xffff, "negative zero pseudo-header sum");
    }

    // @harness props=C08 cfg=KW tier=q to=600 mem=4 unwind=22 opts=nomem covers=1 funcs=wire::checksum::pseudo_header_v6 bounds=source_bytes_0..12_symbolic,_rest_fixed_non-zero
    #[kani::proof]
    pub(crate) fn cksum_pseudo_v6_w1() {
        pseudo_v6(0x0fff, 0, false, false);
    }

    // @harness props=C08 cfg=KW tier=q to=600 mem=4 unwind=22 opts=nomem covers=1 funcs=wire::checksum::pseudo_header_v6 bounds=source_bytes_12..16_and_destination_bytes_0..8_symbolic,_rest_fixed_non-zero
    #[kani::proof]
    pub(crate) fn cksum_pseudo_v6_w2() {
        pseudo_v6(0xf000, 0x00ff, false, false);
    }

    // @harness props=C08 cfg=KW tier=q to=600 mem=4 unwind=22 opts=nomem covers=1 funcs=wire::checksum::pseudo_header_v6 bounds=destination_bytes_8..16,_all_256_next-header_values,_all_lengths_0..=65535_symbolic,_rest_fixed_non-zero
    #[kani::proof]
    pub(crate) fn cksum_pseudo_v6_w3() {
        pseudo_v6(0, 0xff00, true, true);
    }
}
