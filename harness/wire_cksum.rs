// C08 — Internet checksums are computed correctly, emitted valid and enforced.
// Spliced at the crate root (src/lib.rs), build configuration KW.
//
// Independent oracle: `ref_sum*` below is RFC 1071 section 1 written out literally (big-endian
// 16-bit words, end-around carry after every addition, a trailing odd byte is padded with a zero
// byte on the right); pseudo-headers are byte arrays laid out from RFC 768 / 793 / 8200 (8.1).
// The oracle never calls into `crate::wire::checksum`.  `cksum_ref_selfcheck` pins it to the
// RFC 1071 worked example and to published packets.
//
// Checksum arithmetic is SAT-hard (DESIGN.md section 3, probes 9/10c): packet-level harnesses keep
// <= ~4-6 symbolic 16-bit words per query; which bytes are symbolic is chosen by a bit mask
// (`pick`), the other bytes are fixed non-zero patterns, so a region the crate forgot to sum is
// still noticed.  Every header field, both pseudo-header addresses, the length and each payload
// position is symbolic in at least one `_w<k>` instance.
//
// Harness-side helpers used by packet harnesses are loop-free (macro-unrolled), so `unwind=` only
// has to cover the crate's own loops: a large bound makes CBMC unroll `TcpRepr::parse`'s option loop
// and the NDISC option loops that many times as soon as a header byte is symbolic (out of memory at
// unwind 24, measured).
#[cfg(all(
    feature = "medium-ieee802154",
    feature = "proto-dhcpv4",
    feature = "proto-dns",
    feature = "proto-ipv4",
    feature = "proto-ipv6"
))]
#[allow(dead_code, unused_imports, unused_variables, unused_mut, clippy::all)]
mod v_wire_cksum {
    use crate::phy::{Checksum, ChecksumCapabilities};
    use crate::verif_common::*;
    use crate::wire::*;

    /// `unrolled!(k in [0, 1, 2] { body })` expands `body` once per literal with `k` bound to it
    macro_rules! unrolled {
        ($k:ident in [$($v:literal),*] $body:block) => {
            $( { let $k: usize = $v; $body } )*
        };
    }

    // ------------------------------------------------------------------ the reference (oracle)

    /// one's-complement addition of two 16-bit words (end-around carry)
    fn oc_add(a: u16, b: u16) -> u16 {
        let s = a as u32 + b as u32;
        ((s & 0xffff) + (s >> 16)) as u16
    }

    fn be16(hi: u8, lo: u8) -> u16 {
        ((hi as u16) << 8) | lo as u16
    }

    /// RFC 1071 sum of `data`, continuing from the partial sum `init`
    /// (exact continuation of a byte stream only if everything summed before had even length).
    fn ref_sum_from(init: u16, data: &[u8]) -> u16 {
        let mut acc = init;
        let mut i = 0;
        while i + 1 < data.len() {
            acc = oc_add(acc, be16(data[i], data[i + 1]));
            i += 2;
        }
        if i < data.len() {
            acc = oc_add(acc, be16(data[i], 0));
        }
        acc
    }

    fn ref_sum(data: &[u8]) -> u16 {
        ref_sum_from(0, data)
    }

    /// the same sum, loop-free, for buffers of at most 48 bytes (word slot k covers bytes 2k, 2k+1)
    fn ref_sum48_from(init: u16, data: &[u8]) -> u16 {
        let n = data.len();
        assert!(n <= 48, "prop:c08_harness_reference_buffer_bound");
        let mut acc = init;
        unrolled!(k in [0, 1, 2, 3, 4, 5, 6, 7, 8, 9, 10, 11, 12, 13, 14, 15, 16, 17, 18, 19, 20, 21, 22, 23] {
            if 2 * k + 1 < n {
                acc = oc_add(acc, be16(data[2 * k], data[2 * k + 1]));
            } else if 2 * k < n {
                acc = oc_add(acc, be16(data[2 * k], 0));
            }
        });
        acc
    }

    fn ref_sum48(data: &[u8]) -> u16 {
        ref_sum48_from(0, data)
    }

    /// 0x0000 and 0xffff both represent zero in one's-complement arithmetic
    fn ones_eq(a: u16, b: u16) -> bool {
        a == b || (a == 0 && b == 0xffff) || (a == 0xffff && b == 0)
    }

    /// RFC 768 / RFC 793 pseudo-header: src, dst, zero, protocol, 16-bit upper-layer length
    fn ph4(src: &[u8; 16], dst: &[u8; 16], proto: u8, len: u16) -> [u8; 12] {
        [
            src[0], src[1], src[2], src[3], dst[0], dst[1], dst[2], dst[3], 0, proto,
            (len >> 8) as u8, len as u8,
        ]
    }

    /// RFC 8200 section 8.1 pseudo-header: src, dst, 32-bit upper-layer length, 3 zero bytes, next header
    fn ph6(src: &[u8; 16], dst: &[u8; 16], proto: u8, len: u32) -> [u8; 40] {
        let mut p = [0u8; 40];
        unrolled!(i in [0, 1, 2, 3, 4, 5, 6, 7, 8, 9, 10, 11, 12, 13, 14, 15] {
            p[i] = src[i];
            p[16 + i] = dst[i];
        });
        p[32] = (len >> 24) as u8;
        p[33] = (len >> 16) as u8;
        p[34] = (len >> 8) as u8;
        p[35] = len as u8;
        p[39] = proto;
        p
    }

    fn ref_ph(v6: bool, src: &[u8; 16], dst: &[u8; 16], proto: u8, len: usize) -> u16 {
        if v6 {
            ref_sum48(&ph6(src, dst, proto, len as u32))
        } else {
            ref_sum48(&ph4(src, dst, proto, len as u16))
        }
    }

    /// the receiver's rule: the sum over pseudo-header and segment, checksum field included, is all ones
    fn ref_l4_ok(v6: bool, src: &[u8; 16], dst: &[u8; 16], proto: u8, seg: &[u8]) -> bool {
        ref_sum48_from(ref_ph(v6, src, dst, proto, seg.len()), seg) == 0xffff
    }

    /// UDP: the length field, not the buffer, delimits the datagram (RFC 768)
    fn ref_udp_len_ok(seg: &[u8]) -> bool {
        seg.len() >= 8 && be16(seg[4], seg[5]) as usize >= 8 && be16(seg[4], seg[5]) as usize <= seg.len()
    }

    fn ref_udp_ok(v6: bool, src: &[u8; 16], dst: &[u8; 16], seg: &[u8]) -> bool {
        if !ref_udp_len_ok(seg) {
            return false;
        }
        let l = be16(seg[4], seg[5]) as usize;
        ref_sum48_from(ref_ph(v6, src, dst, 17, l), &seg[..l]) == 0xffff
    }

    /// IPv4 header: the IHL field delimits the summed region (RFC 791)
    fn ref_ipv4_ok(b: &[u8]) -> bool {
        if b.len() < 20 {
            return false;
        }
        let ihl = ((b[0] & 0x0f) as usize) * 4;
        if ihl < 20 || ihl > b.len() {
            return false;
        }
        ref_sum48(&b[..ihl]) == 0xffff
    }

    // ------------------------------------------------------------------ symbolic-word selection

    /// `fixed` with byte i (i < 16) replaced by a symbolic byte where bit i of `mask` is set
    fn pick<const N: usize>(fixed: [u8; N], mask: u32) -> [u8; N] {
        let mut out = fixed;
        unrolled!(i in [0, 1, 2, 3, 4, 5, 6, 7, 8, 9, 10, 11, 12, 13, 14, 15] {
            if i < N && (mask >> i) & 1 == 1 {
                out[i] = kani::any();
            }
        });
        out
    }

    const SRC_FIX: [u8; 16] = [
        0x20, 0x01, 0x0d, 0xb8, 0x85, 0xa3, 0x17, 0x2e, 0x8a, 0x2e, 0x03, 0x70, 0x73, 0x34, 0xc1, 0x5d,
    ];
    const DST_FIX: [u8; 16] = [
        0xfe, 0x80, 0x4b, 0x1c, 0x02, 0x1a, 0x2b, 0xff, 0xfe, 0x3c, 0x4d, 0x5e, 0x9b, 0x07, 0x66, 0xe1,
    ];
    const PAY_FIX: [u8; 8] = [0xde, 0xad, 0xbe, 0xef, 0x5a, 0xc3, 0x3c, 0xa5];

    fn ip_addr(v6: bool, b: &[u8; 16]) -> IpAddress {
        if v6 {
            IpAddress::Ipv6(Ipv6Address::from(*b))
        } else {
            IpAddress::Ipv4(Ipv4Address::new(b[0], b[1], b[2], b[3]))
        }
    }

    fn tx_off() -> Checksum {
        if kani::any() { Checksum::None } else { Checksum::Rx }
    }

    fn rx_off() -> Checksum {
        if kani::any() { Checksum::None } else { Checksum::Tx }
    }

    /// XOR a non-zero corruption into one or two bytes of `buf` at symbolic positions: the first
    /// among the positions whose bit is set in `allowed1`, the second (mask may be zero = single-byte
    /// corruption) among `allowed2` (positions < 28).  Written as per-index conditional updates so
    /// that bytes outside the masks stay concrete for the symbolic executor (a symbolic TCP data
    /// offset or ICMPv6 type makes the parsers explore every option / message parser: out of memory
    /// at 6 GB, measured).
    fn corrupt2(buf: &mut [u8], allowed1: u32, allowed2: u32) {
        let p1: usize = kani::any();
        let p2: usize = kani::any();
        let m1: u8 = kani::any();
        let m2: u8 = kani::any();
        kani::assume(p1 < 28 && p2 < 28 && (allowed1 >> p1) & 1 == 1 && (allowed2 >> p2) & 1 == 1);
        kani::assume(m1 != 0);
        // m2 == 0: single-byte corruption; the same position twice must not cancel
        kani::assume(p1 != p2 || m1 != m2);
        unrolled!(i in [0, 1, 2, 3, 4, 5, 6, 7, 8, 9, 10, 11, 12, 13, 14, 15, 16, 17, 18, 19, 20, 21, 22, 23, 24, 25, 26, 27] {
            if (allowed1 >> i) & 1 == 1 && p1 == i {
                buf[i] ^= m1;
            }
            if (allowed2 >> i) & 1 == 1 && p2 == i {
                buf[i] ^= m2;
            }
        });
    }

    fn corrupt(buf: &mut [u8], allowed: u32) {
        corrupt2(buf, allowed, allowed);
    }

    /// bit mask of positions 0..n
    const fn upto(n: u32) -> u32 {
        (1u32 << n) - 1
    }

    // ================================================================== (a) the routine itself

    // @harness props=C08 cfg=KW tier=q to=120 mem=4 unwind=12 opts=nomem covers=1 funcs=wire::checksum::data;wire::checksum::combine;wire::Ipv4Packet::verify_checksum bounds=concrete_vectors:_RFC_1071_worked_example,_published_IPv4_header,_odd_length,_UDP/IPv4_and_ICMPv6_packets
    #[kani::proof]
    pub(crate) fn cksum_ref_selfcheck() {
        // RFC 1071 section 3 worked example: 0001 f203 f4f5 f6f7 -> 2ddf0 -> ddf2
        let ex = [0x00u8, 0x01, 0xf2, 0x03, 0xf4, 0xf5, 0xf6, 0xf7];
        assert!(ref_sum(&ex) == 0xddf2 && ref_sum48(&ex) == 0xddf2, "prop:c08_reference_matches_rfc1071_example");
        assert!(checksum::data(&ex) == 0xddf2, "prop:c08_data_matches_rfc1071_example");
        // odd length: the last byte is the HIGH byte of a zero-padded word
        let odd = [0x12u8, 0x34, 0x56];
        assert!(ref_sum(&odd) == 0x6834 && ref_sum48(&odd) == 0x6834, "prop:c08_reference_pads_odd_byte_on_the_right");
        assert!(checksum::data(&odd) == 0x6834, "prop:c08_data_pads_odd_byte_on_the_right");
        // widely published IPv4 header (checksum b861)
        let hdr = [
            0x45u8, 0x00, 0x00, 0x73, 0x00, 0x00, 0x40, 0x00, 0x40, 0x11, 0xb8, 0x61, 0xc0, 0xa8, 0x00, 0x01,
            0xc0, 0xa8, 0x00, 0xc7,
        ];
        assert!(ref_ipv4_ok(&hdr), "prop:c08_reference_accepts_published_ipv4_header");
        assert!(Ipv4Packet::new_unchecked(&hdr[..]).verify_checksum(), "prop:c08_crate_accepts_published_ipv4_header");
        let mut hdr0 = hdr;
        hdr0[10] = 0;
        hdr0[11] = 0;
        assert!(!ref_sum(&hdr0) == 0xb861 && !ref_sum48(&hdr0) == 0xb861, "prop:c08_reference_computes_published_ipv4_checksum");
        // UDP over IPv4, 192.168.1.1 -> 192.168.1.2, 48896 -> 53, payload aa 00 00 ff, checksum 124d
        let udp = [0xbfu8, 0x00, 0x00, 0x35, 0x00, 0x0c, 0x12, 0x4d, 0xaa, 0x00, 0x00, 0xff];
        let mut s4 = [0u8; 16];
        let mut d4 = [0u8; 16];
        s4[0] = 192; s4[1] = 168; s4[2] = 1; s4[3] = 1;
        d4[0] = 192; d4[1] = 168; d4[2] = 1; d4[3] = 2;
        assert!(ref_udp_ok(false, &s4, &d4, &udp), "prop:c08_reference_accepts_known_udp4_packet");
        // ICMPv6 echo request fe80::1 -> fe80::2, checksum 19b3
        let echo6 = [0x80u8, 0x00, 0x19, 0xb3, 0x12, 0x34, 0xab, 0xcd, 0xaa, 0x00, 0x00, 0xff];
        let mut s6 = [0u8; 16];
        let mut d6 = [0u8; 16];
        s6[0] = 0xfe; s6[1] = 0x80; s6[15] = 1;
        d6[0] = 0xfe; d6[1] = 0x80; d6[15] = 2;
        assert!(ref_l4_ok(true, &s6, &d6, 58, &echo6), "prop:c08_reference_accepts_known_icmpv6_packet");
        // end-around carry: ffff + 0001 = 0001 (not 0000)
        assert!(oc_add(0xffff, 0x0001) == 0x0001 && checksum::combine(&[0xffff, 0x0001]) == 0x0001, "prop:c08_end_around_carry");
        kani::cover!(true, "self-check executed");
    }

    fn equiv<const N: usize>(maxlen: usize) {
        let buf: [u8; N] = kani::any();
        let off: usize = kani::any();
        let len: usize = kani::any();
        kani::assume(off <= 3 && len <= maxlen);
        let d = &buf[off..off + len];
        let got = checksum::data(d);
        let want = ref_sum(d);
        assert!(ones_eq(got, want), "prop:c08_data_equals_rfc1071_sum");
        // stronger: the same representative of zero (callers compare with `== !0`)
        assert!(got == want, "prop:c08_data_equals_rfc1071_sum_same_zero_representation");
        kani::cover!(len == maxlen && off == 3, "longest buffer at the most misaligned start");
        kani::cover!(len % 4 == 3 && off == 1 && got == 0xffff, "odd tail after a 2-byte tail, sum is negative zero");
    }

    // @harness props=C08 cfg=KW tier=q to=900 mem=6 unwind=10 opts=nomem covers=2 funcs=wire::checksum::data bounds=length_0..=12;_start_offset_0..=3_into_a_15-byte_symbolic_array;_all_contents
    #[kani::proof]
    pub(crate) fn cksum_equiv_12() {
        equiv::<15>(12);
    }

    // @harness props=C08 cfg=KW tier=t to=1200 mem=8 unwind=12 opts=nomem covers=2 funcs=wire::checksum::data bounds=length_0..=16;_start_offset_0..=3;_all_contents
    #[kani::proof]
    pub(crate) fn cksum_equiv_16() {
        equiv::<19>(16);
    }

    // @harness props=C08 cfg=KW tier=t to=1200 mem=8 unwind=14 opts=nomem covers=2 funcs=wire::checksum::data bounds=length_0..=20;_start_offset_0..=3;_all_contents
    #[kani::proof]
    pub(crate) fn cksum_equiv_20() {
        equiv::<23>(20);
    }

    // @harness props=C08 cfg=KW tier=t to=1200 mem=8 unwind=16 opts=nomem covers=2 funcs=wire::checksum::data bounds=length_0..=24;_start_offset_0..=3;_all_contents
    #[kani::proof]
    pub(crate) fn cksum_equiv_24() {
        equiv::<27>(24);
    }

    // (length 0..=32 gave no answer within 17 min: not kept; measured: 12: 70 s, 16: 170 s, 20: 330 s, 24: 680 s)

    // `data` has no alignment-dependent path (`as_chunks` splits by length, words are read with
    // `from_ne_bytes` from byte arrays), so the split harness starts at offset 0 of a symbolic array.
    // @harness props=C08 cfg=KW tier=q to=900 mem=6 unwind=10 opts=nomem covers=2 funcs=wire::checksum::data;wire::checksum::combine bounds=length_0..=12;_every_even_split_point;_all_contents
    #[kani::proof]
    pub(crate) fn cksum_split() {
        let buf: [u8; 12] = kani::any();
        let len: usize = kani::any();
        let s: usize = kani::any();
        kani::assume(len <= 12 && s <= len && s % 2 == 0);
        let d = &buf[..len];
        let whole = checksum::data(d);
        let parts = checksum::combine(&[checksum::data(&d[..s]), checksum::data(&d[s..])]);
        assert!(ones_eq(parts, whole), "prop:c08_sum_of_even_split_equals_sum_of_whole");
        kani::cover!(len == 11 && s == 6, "odd total, split in the middle");
        kani::cover!(s == len && len == 12, "empty second part");
    }

    // @harness props=C08 cfg=KW tier=q to=300 mem=4 unwind=6 opts=nomem covers=2 funcs=wire::checksum::combine bounds=0..=4_arbitrary_16-bit_words
    #[kani::proof]
    pub(crate) fn cksum_combine() {
        let w: [u16; 4] = kani::any();
        let n = any_le(4);
        let got = checksum::combine(&w[..n]);
        let mut want = 0u16;
        unrolled!(i in [0, 1, 2, 3] {
            if i < n {
                want = oc_add(want, w[i]);
            }
        });
        assert!(ones_eq(got, want), "prop:c08_combine_is_ones_complement_addition");
        assert!(got == want, "prop:c08_combine_same_zero_representation");
        kani::cover!(n == 4 && w[0] as u32 + w[1] as u32 + w[2] as u32 + w[3] as u32 > 0x2ffff, "three carries folded");
        kani::cover!(n == 2 && got == 0xffff && w[0] != 0 && w[0] != 0xffff, "negative zero result");
    }

    // @harness props=C08 cfg=KW tier=q to=600 mem=4 unwind=8 opts=nomem covers=1 funcs=wire::checksum::pseudo_header_v4 bounds=all_source_and_destination_addresses,_all_256_protocol_values,_all_lengths_0..=65535
    #[kani::proof]
    pub(crate) fn cksum_pseudo_v4() {
        let src: [u8; 4] = kani::any();
        let dst: [u8; 4] = kani::any();
        let proto: u8 = kani::any();
        let len: u16 = kani::any();
        let got = checksum::pseudo_header_v4(
            &Ipv4Address::new(src[0], src[1], src[2], src[3]),
            &Ipv4Address::new(dst[0], dst[1], dst[2], dst[3]),
            IpProtocol::from(proto),
            len as u32,
        );
        let bytes = [src[0], src[1], src[2], src[3], dst[0], dst[1], dst[2], dst[3], 0, proto, (len >> 8) as u8, len as u8];
        let want = ref_sum(&bytes);
        assert!(ones_eq(got, want), "prop:c08_pseudo_header_v4_equals_rfc768_sum");
        kani::cover!(got == 0xffff && proto == 6, "negative zero pseudo-header sum");
    }

    fn pseudo_v6(smask: u32, dmask: u32, len_sym: bool, proto_sym: bool) {
        let src = pick(SRC_FIX, smask);
        let dst = pick(DST_FIX, dmask);
        let proto: u8 = if proto_sym { kani::any() } else { 58 };
        let len: u32 = if len_sym { kani::any() } else { 0x0000_a53c };
        // the crate writes `length as u16`: lengths above 65535 (jumbograms, which smoltcp does not
        // support: IPv6 payload_len is u16 everywhere) are outside the claim
        kani::assume(len <= 0xffff);
        let got = checksum::pseudo_header_v6(&Ipv6Address::from(src), &Ipv6Address::from(dst), IpProtocol::from(proto), len);
        let want = ref_sum48(&ph6(&src, &dst, proto, len));
        assert!(ones_eq(got, want), "prop:c08_pseudo_header_v6_equals_rfc8200_sum");
        kani::cover!(got == 0xffff, "negative zero pseudo-header sum");
    }

    // @harness props=C08 cfg=KW tier=q to=600 mem=4 unwind=8 opts=nomem covers=1 funcs=wire::checksum::pseudo_header_v6 bounds=source_bytes_0..12_symbolic,_rest_fixed_non-zero
    #[kani::proof]
    pub(crate) fn cksum_pseudo_v6_w1() {
        pseudo_v6(0x0fff, 0, false, false);
    }

    // @harness props=C08 cfg=KW tier=q to=600 mem=4 unwind=8 opts=nomem covers=1 funcs=wire::checksum::pseudo_header_v6 bounds=source_bytes_12..16_and_destination_bytes_0..4_symbolic,_rest_fixed_non-zero
    #[kani::proof]
    pub(crate) fn cksum_pseudo_v6_w2() {
        pseudo_v6(0xf000, 0x000f, false, false);
    }

    // @harness props=C08 cfg=KW tier=q to=600 mem=4 unwind=8 opts=nomem covers=1 funcs=wire::checksum::pseudo_header_v6 bounds=destination_bytes_4..12_symbolic,_rest_fixed_non-zero
    #[kani::proof]
    pub(crate) fn cksum_pseudo_v6_w3() {
        pseudo_v6(0, 0x0ff0, false, false);
    }

    // @harness props=C08 cfg=KW tier=q to=600 mem=4 unwind=8 opts=nomem covers=1 funcs=wire::checksum::pseudo_header_v6 bounds=destination_bytes_12..16,_all_256_next-header_values,_all_lengths_0..=65535_symbolic,_rest_fixed_non-zero
    #[kani::proof]
    pub(crate) fn cksum_pseudo_v6_w4() {
        pseudo_v6(0, 0xf000, true, true);
    }

    // ================================================================== packet builders

    /// IPv4 field bytes: 0..4 src, 4..8 dst, 8 protocol, 9 hop limit, 10..12 payload length
    const IPV4_FIX: [u8; 12] = [10, 1, 2, 3, 172, 16, 200, 9, 17, 64, 0x01, 0x2c];

    fn ipv4_repr(mask: u32) -> Ipv4Repr {
        let f = pick(IPV4_FIX, mask);
        let payload_len = be16(f[10], f[11]) as usize;
        // `emit` computes `20u16 + payload_len as u16`; a datagram cannot be longer than 65535
        kani::assume(payload_len <= 65535 - 20);
        Ipv4Repr {
            src_addr: Ipv4Address::new(f[0], f[1], f[2], f[3]),
            dst_addr: Ipv4Address::new(f[4], f[5], f[6], f[7]),
            next_header: IpProtocol::from(f[8]),
            hop_limit: f[9],
            payload_len,
        }
    }

    /// emits the 20-byte header in front of 8 fixed payload bytes (payload_len forced to 8 when `with_payload`)
    fn ipv4_emit(mask: u32, with_payload: bool, caps: &ChecksumCapabilities) -> [u8; 28] {
        let mut repr = ipv4_repr(mask);
        if with_payload {
            repr.payload_len = 8;
        }
        let mut buf: [u8; 28] = kani::any(); // stale buffer contents must not matter
        unrolled!(i in [0, 1, 2, 3, 4, 5, 6, 7] {
            buf[20 + i] = PAY_FIX[i];
        });
        repr.emit(&mut Ipv4Packet::new_unchecked(&mut buf[..]), caps);
        buf
    }

    /// echo field bytes: 0..2 ident, 2..4 sequence number
    const ECHO_FIX: [u8; 4] = [0x12, 0x34, 0xab, 0xcd];

    /// ICMPv4 / ICMPv6 echo into `buf[..8 + plen]`; returns the packet length.
    /// kind 0 = request, 1 = reply, anything else = symbolic choice
    fn echo_emit(
        v6: bool,
        kind: u8,
        src: &[u8; 16],
        dst: &[u8; 16],
        fmask: u32,
        pmask: u32,
        plen: usize,
        caps: &ChecksumCapabilities,
        buf: &mut [u8; 16],
    ) -> usize {
        let f = pick(ECHO_FIX, fmask);
        let data = pick(PAY_FIX, pmask);
        let reply: bool = if kind <= 1 { kind == 1 } else { kani::any() };
        let ident = be16(f[0], f[1]);
        let seq_no = be16(f[2], f[3]);
        let n = 8 + plen;
        if v6 {
            let repr = if reply {
                Icmpv6Repr::EchoReply { ident, seq_no, data: &data[..plen] }
            } else {
                Icmpv6Repr::EchoRequest { ident, seq_no, data: &data[..plen] }
            };
            assert!(repr.buffer_len() == n, "prop:c08_harness_shape_icmpv6");
            repr.emit(
                &Ipv6Address::from(*src),
                &Ipv6Address::from(*dst),
                &mut Icmpv6Packet::new_unchecked(&mut buf[..n]),
                caps,
            );
        } else {
            let repr = if reply {
                Icmpv4Repr::EchoReply { ident, seq_no, data: &data[..plen] }
            } else {
                Icmpv4Repr::EchoRequest { ident, seq_no, data: &data[..plen] }
            };
            assert!(repr.buffer_len() == n, "prop:c08_harness_shape_icmpv4");
            repr.emit(&mut Icmpv4Packet::new_unchecked(&mut buf[..n]), caps);
        }
        n
    }

    fn ref_echo_ok(v6: bool, src: &[u8; 16], dst: &[u8; 16], seg: &[u8]) -> bool {
        if v6 { ref_l4_ok(true, src, dst, 58, seg) } else { ref_sum48(seg) == 0xffff }
    }

    fn echo_parse_ok(v6: bool, src: &[u8; 16], dst: &[u8; 16], seg: &[u8], caps: &ChecksumCapabilities) -> bool {
        if v6 {
            Icmpv6Repr::parse(&Ipv6Address::from(*src), &Ipv6Address::from(*dst), &Icmpv6Packet::new_unchecked(seg), caps).is_ok()
        } else {
            Icmpv4Repr::parse(&Icmpv4Packet::new_unchecked(seg), caps).is_ok()
        }
    }

    /// UDP field bytes: 0..2 source port, 2..4 destination port
    const PORT_FIX: [u8; 4] = [0xbf, 0x01, 0x14, 0xe9];

    fn udp_emit(
        v6: bool,
        src: &[u8; 16],
        dst: &[u8; 16],
        fmask: u32,
        pmask: u32,
        plen: usize,
        caps: &ChecksumCapabilities,
        buf: &mut [u8; 16],
    ) -> usize {
        let f = pick(PORT_FIX, fmask);
        let data = pick(PAY_FIX, pmask);
        let repr = UdpRepr { src_port: be16(f[0], f[1]), dst_port: be16(f[2], f[3]) };
        // documented: the destination port cannot be zero
        kani::assume(repr.dst_port != 0);
        let n = 8 + plen;
        repr.emit(
            &mut UdpPacket::new_unchecked(&mut buf[..n]),
            &ip_addr(v6, src),
            &ip_addr(v6, dst),
            plen,
            |b| b.copy_from_slice(&data[..plen]),
            caps,
        );
        n
    }

    fn udp_parse_ok(v6: bool, src: &[u8; 16], dst: &[u8; 16], seg: &[u8], caps: &ChecksumCapabilities) -> bool {
        UdpRepr::parse(&UdpPacket::new_unchecked(seg), &ip_addr(v6, src), &ip_addr(v6, dst), caps).is_ok()
    }

    /// TCP field bytes: 0..2 source port, 2..4 destination port, 4..8 sequence number,
    /// 8..12 acknowledgement number, 12..14 window
    const TCP_FIX: [u8; 14] = [0xc3, 0x50, 0x01, 0xbb, 0x7a, 0x11, 0xf0, 0x0d, 0x31, 0x41, 0x59, 0x26, 0x72, 0x10];
    /// option bytes; shape 1: 0..2 MSS, 2 window scale, 3..7 TSval, 7..11 TSecr; shape 2: two SACK blocks 0..8, 8..16
    const OPT_FIX: [u8; 16] = [0x05, 0xb4, 0x07, 0x1d, 0x2e, 0x3f, 0x40, 0x51, 0x62, 0x73, 0x84, 0x95, 0xa6, 0xb7, 0xc8, 0xd9];

    fn be32(b: &[u8], i: usize) -> u32 {
        ((b[i] as u32) << 24) | ((b[i + 1] as u32) << 16) | ((b[i + 2] as u32) << 8) | b[i + 3] as u32
    }

    /// shape 0: no options (header 20); shape 1: MSS + WS + SACK-permitted + timestamps (header 40);
    /// shape 2: ACK with SACK blocks in slots 0 and 2 (header 40).  Control flag and ACK presence symbolic
    /// when `ctl_sym`.
    fn tcp_emit(
        v6: bool,
        src: &[u8; 16],
        dst: &[u8; 16],
        fmask: u32,
        omask: u32,
        pmask: u32,
        shape: u8,
        ctl_sym: bool,
        plen: usize,
        caps: &ChecksumCapabilities,
        buf: &mut [u8; 48],
    ) -> usize {
        let f = pick(TCP_FIX, fmask);
        let o = pick(OPT_FIX, omask);
        let data = pick(PAY_FIX, pmask);
        let c: u8 = if ctl_sym { kani::any() } else { 1 };
        let control = match c {
            0 => TcpControl::None,
            1 => TcpControl::Psh,
            2 => TcpControl::Syn,
            3 => TcpControl::Fin,
            _ => TcpControl::Rst,
        };
        let has_ack: bool = if ctl_sym && shape != 2 { kani::any() } else { true };
        let repr = TcpRepr {
            src_port: be16(f[0], f[1]),
            dst_port: be16(f[2], f[3]),
            control,
            seq_number: TcpSeqNumber(be32(&f, 4) as i32),
            ack_number: if has_ack { Some(TcpSeqNumber(be32(&f, 8) as i32)) } else { None },
            window_len: be16(f[12], f[13]),
            window_scale: if shape == 1 { Some(o[2]) } else { None },
            max_seg_size: if shape == 1 { Some(be16(o[0], o[1])) } else { None },
            sack_permitted: shape == 1,
            sack_ranges: if shape == 2 {
                [Some((be32(&o, 0), be32(&o, 4))), None, Some((be32(&o, 8), be32(&o, 12)))]
            } else {
                [None, None, None]
            },
            timestamp: if shape == 1 { Some(TcpTimestampRepr::new(be32(&o, 3), be32(&o, 7))) } else { None },
            payload: &data[..plen],
        };
        // documented: ports are non-zero, the shift count is at most 14
        kani::assume(repr.src_port != 0 && repr.dst_port != 0 && o[2] <= 14);
        let hl = if shape == 0 { 20 } else { 40 };
        assert!(repr.header_len() == hl, "prop:c08_harness_shape_tcp");
        let n = hl + plen;
        repr.emit(&mut TcpPacket::new_unchecked(&mut buf[..n]), &ip_addr(v6, src), &ip_addr(v6, dst), caps);
        n
    }

    fn tcp_parse_ok(v6: bool, src: &[u8; 16], dst: &[u8; 16], seg: &[u8], caps: &ChecksumCapabilities) -> bool {
        TcpRepr::parse(&TcpPacket::new_unchecked(seg), &ip_addr(v6, src), &ip_addr(v6, dst), caps).is_ok()
    }

    // ================================================================== (b) emitted packets verify
    // Cover witnesses: a checksum field of 0000 means the rest of the packet sums to negative zero
    // (ffff); a field of ffff is impossible except for UDP (the sum of a non-zero packet is never 0000).

    fn emit_valid_ipv4(mask: u32) {
        let buf = ipv4_emit(mask, false, &ChecksumCapabilities::default());
        assert!(buf[0] == 0x45, "prop:c08_emitted_ipv4_header_is_20_bytes");
        assert!(ref_ipv4_ok(&buf[..20]), "prop:c08_emitted_ipv4_header_checksum_verifies");
        kani::cover!(be16(buf[10], buf[11]) == 0x0000, "emitted header checksum 0000");
    }

    // @harness props=C08 cfg=KW tier=q to=600 mem=4 unwind=8 opts=nomem covers=1 funcs=wire::Ipv4Repr::emit;wire::Ipv4Packet::fill_checksum bounds=source_address_and_destination_bytes_0..2_symbolic_(3_words),_rest_fixed
    #[kani::proof]
    pub(crate) fn emit_valid_ipv4_w1() {
        emit_valid_ipv4(0x03f);
    }

    // @harness props=C08 cfg=KW tier=q to=600 mem=4 unwind=8 opts=nomem covers=1 funcs=wire::Ipv4Repr::emit;wire::Ipv4Packet::fill_checksum bounds=protocol_(all_256),_hop_limit,_payload_length_0..=65515,_destination_bytes_2..4_symbolic_(3_words)
    #[kani::proof]
    pub(crate) fn emit_valid_ipv4_w2() {
        emit_valid_ipv4(0xfc0);
    }

    // thorough: every Ipv4Repr field at once (6 words)
    // @harness props=C08 cfg=KW tier=t to=1200 mem=8 unwind=8 opts=nomem covers=1 funcs=wire::Ipv4Repr::emit;wire::Ipv4Packet::fill_checksum bounds=every_Ipv4Repr_field_symbolic_(addresses,_protocol,_hop_limit,_payload_length_0..=65515):_6_words
    #[kani::proof]
    pub(crate) fn emit_valid_ipv4_full() {
        emit_valid_ipv4(0xfff);
    }

    fn emit_valid_echo(v6: bool, smask: u32, dmask: u32, fmask: u32, pmask: u32, plen_max: usize, plen_sym: bool) {
        let src = pick(SRC_FIX, smask);
        let dst = pick(DST_FIX, dmask);
        let plen = if plen_sym { any_le(plen_max) } else { plen_max };
        let mut buf: [u8; 16] = kani::any();
        let n = echo_emit(v6, 2, &src, &dst, fmask, pmask, plen, &ChecksumCapabilities::default(), &mut buf);
        assert!(ref_echo_ok(v6, &src, &dst, &buf[..n]), "prop:c08_emitted_icmp_checksum_verifies");
        kani::cover!(be16(buf[2], buf[3]) == 0x0000, "emitted checksum 0000");
    }

    // @harness props=C08 cfg=KW tier=q to=600 mem=4 unwind=8 opts=nomem covers=1 funcs=wire::Icmpv4Repr::emit;wire::Icmpv4Packet::fill_checksum bounds=echo_request/reply,_4_data_bytes;_ident,_seq,_data_0..4_symbolic_(4_words)
    #[kani::proof]
    pub(crate) fn emit_valid_icmpv4_w1() {
        emit_valid_echo(false, 0, 0, 0xf, 0x0f, 4, false);
    }

    // @harness props=C08 cfg=KW tier=q to=600 mem=4 unwind=8 opts=nomem covers=1 funcs=wire::Icmpv4Repr::emit;wire::Icmpv4Packet::fill_checksum bounds=echo_request/reply,_data_length_0..=7_symbolic;_seq_and_data_2..7_symbolic
    #[kani::proof]
    pub(crate) fn emit_valid_icmpv4_w2() {
        emit_valid_echo(false, 0, 0, 0xc, 0x7c, 7, true);
    }

    // @harness props=C08 cfg=KW tier=q to=600 mem=4 unwind=8 opts=nomem covers=1 funcs=wire::Icmpv6Repr::emit;wire::Icmpv6Packet::fill_checksum bounds=echo_request/reply,_4_data_bytes;_source_bytes_0..8_symbolic
    #[kani::proof]
    pub(crate) fn emit_valid_icmpv6_w1() {
        emit_valid_echo(true, 0x00ff, 0, 0, 0, 4, false);
    }

    // @harness props=C08 cfg=KW tier=q to=600 mem=4 unwind=8 opts=nomem covers=1 funcs=wire::Icmpv6Repr::emit;wire::Icmpv6Packet::fill_checksum bounds=echo_request/reply,_4_data_bytes;_source_bytes_8..16_symbolic
    #[kani::proof]
    pub(crate) fn emit_valid_icmpv6_w2() {
        emit_valid_echo(true, 0xff00, 0, 0, 0, 4, false);
    }

    // @harness props=C08 cfg=KW tier=q to=600 mem=4 unwind=8 opts=nomem covers=1 funcs=wire::Icmpv6Repr::emit;wire::Icmpv6Packet::fill_checksum bounds=echo_request/reply,_4_data_bytes;_destination_bytes_0..8_symbolic
    #[kani::proof]
    pub(crate) fn emit_valid_icmpv6_w3() {
        emit_valid_echo(true, 0, 0x00ff, 0, 0, 4, false);
    }

    // @harness props=C08 cfg=KW tier=q to=600 mem=4 unwind=8 opts=nomem covers=1 funcs=wire::Icmpv6Repr::emit;wire::Icmpv6Packet::fill_checksum bounds=echo_request/reply,_4_data_bytes;_destination_bytes_8..16_symbolic
    #[kani::proof]
    pub(crate) fn emit_valid_icmpv6_w4() {
        emit_valid_echo(true, 0, 0xff00, 0, 0, 4, false);
    }

    // @harness props=C08 cfg=KW tier=q to=600 mem=4 unwind=8 opts=nomem covers=1 funcs=wire::Icmpv6Repr::emit;wire::Icmpv6Packet::fill_checksum bounds=echo_request/reply,_data_length_0..=5_symbolic;_ident_and_data_0..4_symbolic
    #[kani::proof]
    pub(crate) fn emit_valid_icmpv6_w5() {
        emit_valid_echo(true, 0, 0, 0x3, 0x0f, 5, true);
    }

    fn emit_valid_udp(v6: bool, smask: u32, dmask: u32, fmask: u32, pmask: u32, plen_max: usize, plen_sym: bool) {
        let src = pick(SRC_FIX, smask);
        let dst = pick(DST_FIX, dmask);
        let plen = if plen_sym { any_le(plen_max) } else { plen_max };
        let mut buf: [u8; 16] = kani::any();
        let n = udp_emit(v6, &src, &dst, fmask, pmask, plen, &ChecksumCapabilities::default(), &mut buf);
        assert!(be16(buf[4], buf[5]) as usize == n, "prop:c08_emitted_udp_length_field");
        assert!(ref_udp_ok(v6, &src, &dst, &buf[..n]), "prop:c08_emitted_udp_checksum_verifies");
        // RFC 768: a computed checksum of zero is transmitted as all ones; zero means "no checksum"
        assert!(be16(buf[6], buf[7]) != 0, "prop:c08_emitted_udp_checksum_never_the_no_checksum_value");
        kani::cover!(be16(buf[6], buf[7]) == 0xffff, "computed zero transmitted as ffff");
    }

    // @harness props=C08 cfg=KW tier=q to=600 mem=4 unwind=8 opts=nomem covers=1 funcs=wire::UdpRepr::emit;wire::UdpPacket::fill_checksum bounds=4_payload_bytes;_both_IPv4_addresses_symbolic_(4_words)
    #[kani::proof]
    pub(crate) fn emit_valid_udp4_w1() {
        emit_valid_udp(false, 0xf, 0xf, 0, 0, 4, false);
    }

    // @harness props=C08 cfg=KW tier=q to=600 mem=4 unwind=8 opts=nomem covers=1 funcs=wire::UdpRepr::emit;wire::UdpPacket::fill_checksum bounds=payload_length_0..=5_symbolic;_both_ports_and_payload_0..4_symbolic
    #[kani::proof]
    pub(crate) fn emit_valid_udp4_w2() {
        emit_valid_udp(false, 0, 0, 0xf, 0x0f, 5, true);
    }

    // @harness props=C08 cfg=KW tier=q to=600 mem=4 unwind=8 opts=nomem covers=1 funcs=wire::UdpRepr::emit;wire::UdpPacket::fill_checksum bounds=7_payload_bytes_(odd_length);_payload_2..7_symbolic
    #[kani::proof]
    pub(crate) fn emit_valid_udp4_w3() {
        emit_valid_udp(false, 0, 0, 0, 0x7c, 7, false);
    }

    // @harness props=C08 cfg=KW tier=q to=600 mem=4 unwind=8 opts=nomem covers=1 funcs=wire::UdpRepr::emit;wire::UdpPacket::fill_checksum bounds=4_payload_bytes;_source_bytes_0..8_symbolic
    #[kani::proof]
    pub(crate) fn emit_valid_udp6_w1() {
        emit_valid_udp(true, 0x00ff, 0, 0, 0, 4, false);
    }

    // @harness props=C08 cfg=KW tier=q to=600 mem=4 unwind=8 opts=nomem covers=1 funcs=wire::UdpRepr::emit;wire::UdpPacket::fill_checksum bounds=4_payload_bytes;_source_bytes_8..16_symbolic
    #[kani::proof]
    pub(crate) fn emit_valid_udp6_w2() {
        emit_valid_udp(true, 0xff00, 0, 0, 0, 4, false);
    }

    // @harness props=C08 cfg=KW tier=q to=600 mem=4 unwind=8 opts=nomem covers=1 funcs=wire::UdpRepr::emit;wire::UdpPacket::fill_checksum bounds=4_payload_bytes;_destination_bytes_0..8_symbolic
    #[kani::proof]
    pub(crate) fn emit_valid_udp6_w3() {
        emit_valid_udp(true, 0, 0x00ff, 0, 0, 4, false);
    }

    // @harness props=C08 cfg=KW tier=q to=600 mem=4 unwind=8 opts=nomem covers=1 funcs=wire::UdpRepr::emit;wire::UdpPacket::fill_checksum bounds=4_payload_bytes;_destination_bytes_8..16_symbolic
    #[kani::proof]
    pub(crate) fn emit_valid_udp6_w4() {
        emit_valid_udp(true, 0, 0xff00, 0, 0, 4, false);
    }

    // @harness props=C08 cfg=KW tier=q to=600 mem=4 unwind=8 opts=nomem covers=1 funcs=wire::UdpRepr::emit;wire::UdpPacket::fill_checksum bounds=payload_length_0..=5_symbolic;_both_ports_and_payload_0..4_symbolic
    #[kani::proof]
    pub(crate) fn emit_valid_udp6_w5() {
        emit_valid_udp(true, 0, 0, 0xf, 0x0f, 5, true);
    }

    fn emit_valid_tcp(v6: bool, smask: u32, dmask: u32, fmask: u32, omask: u32, pmask: u32, shape: u8, ctl_sym: bool, plen_max: usize, plen_sym: bool) {
        let src = pick(SRC_FIX, smask);
        let dst = pick(DST_FIX, dmask);
        let plen = if plen_sym { any_le(plen_max) } else { plen_max };
        let mut buf: [u8; 48] = kani::any();
        let n = tcp_emit(v6, &src, &dst, fmask, omask, pmask, shape, ctl_sym, plen, &ChecksumCapabilities::default(), &mut buf);
        assert!(((buf[12] >> 4) as usize) * 4 + plen == n, "prop:c08_emitted_tcp_data_offset");
        assert!(ref_l4_ok(v6, &src, &dst, 6, &buf[..n]), "prop:c08_emitted_tcp_checksum_verifies");
        kani::cover!(be16(buf[16], buf[17]) == 0x0000, "emitted checksum 0000");
    }

    // @harness props=C08 cfg=KW tier=q to=600 mem=4 unwind=8 opts=nomem covers=1 funcs=wire::TcpRepr::emit;wire::TcpPacket::fill_checksum bounds=no_options,_4_payload_bytes;_both_IPv4_addresses_symbolic_(4_words)
    #[kani::proof]
    pub(crate) fn emit_valid_tcp4_w1() {
        emit_valid_tcp(false, 0xf, 0xf, 0, 0, 0, 0, false, 4, false);
    }

    // @harness props=C08 cfg=KW tier=q to=600 mem=4 unwind=8 opts=nomem covers=1 funcs=wire::TcpRepr::emit;wire::TcpPacket::fill_checksum bounds=no_options,_4_payload_bytes;_both_ports,_sequence_number,_control_flag_and_ACK_presence_symbolic
    #[kani::proof]
    pub(crate) fn emit_valid_tcp4_w2() {
        emit_valid_tcp(false, 0, 0, 0x00ff, 0, 0, 0, true, 4, false);
    }

    // @harness props=C08 cfg=KW tier=q to=600 mem=4 unwind=8 opts=nomem covers=1 funcs=wire::TcpRepr::emit;wire::TcpPacket::fill_checksum bounds=no_options,_payload_length_0..=5_symbolic;_acknowledgement_number,_window_and_payload_0..2_symbolic
    #[kani::proof]
    pub(crate) fn emit_valid_tcp4_w3() {
        emit_valid_tcp(false, 0, 0, 0x3f00, 0, 0x03, 0, false, 5, true);
    }

    // @harness props=C08 cfg=KW tier=q to=600 mem=4 unwind=14 opts=nomem covers=1 funcs=wire::TcpRepr::emit;wire::TcpPacket::fill_checksum;wire::TcpOption::emit bounds=MSS+WS+SACK-permitted+timestamp_options,_5_payload_bytes;_MSS,_WS_and_payload_2..5_symbolic
    #[kani::proof]
    pub(crate) fn emit_valid_tcp4_w4() {
        emit_valid_tcp(false, 0, 0, 0, 0x007, 0x1c, 1, false, 5, false);
    }

    // @harness props=C08 cfg=KW tier=q to=600 mem=4 unwind=14 opts=nomem covers=1 funcs=wire::TcpRepr::emit;wire::TcpPacket::fill_checksum;wire::TcpOption::emit bounds=MSS+WS+SACK-permitted+timestamp_options,_2_payload_bytes;_TSval,_TSecr,_control_flag_symbolic
    #[kani::proof]
    pub(crate) fn emit_valid_tcp4_w5() {
        emit_valid_tcp(false, 0, 0, 0, 0x7f8, 0, 1, true, 2, false);
    }

    // @harness props=C08 cfg=KW tier=q to=600 mem=4 unwind=14 opts=nomem covers=1 funcs=wire::TcpRepr::emit;wire::TcpPacket::fill_checksum;wire::TcpOption::emit bounds=two_SACK_blocks_(slots_0_and_2),_3_payload_bytes;_first_block_symbolic_(4_words)
    #[kani::proof]
    pub(crate) fn emit_valid_tcp4_w6() {
        emit_valid_tcp(false, 0, 0, 0, 0x00ff, 0, 2, false, 3, false);
    }

    // @harness props=C08 cfg=KW tier=q to=600 mem=4 unwind=14 opts=nomem covers=1 funcs=wire::TcpRepr::emit;wire::TcpPacket::fill_checksum;wire::TcpOption::emit bounds=two_SACK_blocks,_3_payload_bytes;_second_block_and_control_flag_symbolic_(4_words)
    #[kani::proof]
    pub(crate) fn emit_valid_tcp4_w7() {
        emit_valid_tcp(false, 0, 0, 0, 0xff00, 0, 2, true, 3, false);
    }

    // @harness props=C08 cfg=KW tier=q to=600 mem=4 unwind=8 opts=nomem covers=1 funcs=wire::TcpRepr::emit;wire::TcpPacket::fill_checksum bounds=no_options,_4_payload_bytes;_source_bytes_0..8_symbolic
    #[kani::proof]
    pub(crate) fn emit_valid_tcp6_w1() {
        emit_valid_tcp(true, 0x00ff, 0, 0, 0, 0, 0, false, 4, false);
    }

    // @harness props=C08 cfg=KW tier=q to=600 mem=4 unwind=8 opts=nomem covers=1 funcs=wire::TcpRepr::emit;wire::TcpPacket::fill_checksum bounds=no_options,_4_payload_bytes;_source_bytes_8..16_symbolic
    #[kani::proof]
    pub(crate) fn emit_valid_tcp6_w2() {
        emit_valid_tcp(true, 0xff00, 0, 0, 0, 0, 0, false, 4, false);
    }

    // @harness props=C08 cfg=KW tier=q to=600 mem=4 unwind=8 opts=nomem covers=1 funcs=wire::TcpRepr::emit;wire::TcpPacket::fill_checksum bounds=no_options,_4_payload_bytes;_destination_bytes_0..8_symbolic
    #[kani::proof]
    pub(crate) fn emit_valid_tcp6_w3() {
        emit_valid_tcp(true, 0, 0x00ff, 0, 0, 0, 0, false, 4, false);
    }

    // @harness props=C08 cfg=KW tier=q to=600 mem=4 unwind=8 opts=nomem covers=1 funcs=wire::TcpRepr::emit;wire::TcpPacket::fill_checksum bounds=no_options,_4_payload_bytes;_destination_bytes_8..16_symbolic
    #[kani::proof]
    pub(crate) fn emit_valid_tcp6_w4() {
        emit_valid_tcp(true, 0, 0xff00, 0, 0, 0, 0, false, 4, false);
    }

    // @harness props=C08 cfg=KW tier=q to=600 mem=4 unwind=8 opts=nomem covers=1 funcs=wire::TcpRepr::emit;wire::TcpPacket::fill_checksum bounds=no_options,_payload_length_0..=5_symbolic;_both_ports,_payload_0..4_and_control_flag_symbolic
    #[kani::proof]
    pub(crate) fn emit_valid_tcp6_w5() {
        emit_valid_tcp(true, 0, 0, 0x000f, 0, 0x0f, 0, true, 5, true);
    }

    // ---- thorough tier: every field of a small packet symbolic at once (probe 10c style)

    // @harness props=C08 cfg=KW tier=t to=1200 mem=8 unwind=8 opts=nomem covers=1 funcs=wire::UdpRepr::emit;wire::UdpPacket::fill_checksum bounds=both_IPv4_addresses,_both_ports_and_4_payload_bytes_symbolic_(8_words)
    #[kani::proof]
    pub(crate) fn emit_valid_udp4_full() {
        emit_valid_udp(false, 0xf, 0xf, 0xf, 0x0f, 4, false);
    }

    // (an ICMPv4 echo with ident, seq and 8 data bytes symbolic gave no answer in 40 min: not kept)

    // @harness props=C08 cfg=KW tier=t to=1200 mem=8 unwind=8 opts=nomem covers=1 funcs=wire::TcpRepr::emit;wire::TcpPacket::fill_checksum bounds=no_options,_fixed_IPv4_addresses;_ports,_seq,_ack,_window,_control_flag,_ACK_presence_and_4_payload_bytes_symbolic_(9_words)
    #[kani::proof]
    pub(crate) fn emit_valid_tcp4_full() {
        emit_valid_tcp(false, 0, 0, 0x3fff, 0, 0x0f, 0, true, 4, false);
    }

    // transmit checksumming switched off: the crate documents "a consistently zeroed checksum"
    // @harness props=C08 cfg=KW tier=q to=600 mem=4 unwind=8 opts=nomem covers=1 funcs=wire::Ipv4Repr::emit;wire::Icmpv4Repr::emit;wire::Icmpv6Repr::emit;wire::UdpRepr::emit;wire::TcpRepr::emit bounds=per_protocol_Checksum::None_or_Checksum::Rx;_arbitrary_stale_buffer_contents;_ports/ident/seq_symbolic;_UDP/TCP/ICMP_over_a_symbolic_choice_of_IPv4_or_IPv6
    #[kani::proof]
    pub(crate) fn caps_tx_off_zero_field() {
        let v6: bool = kani::any();
        let src = SRC_FIX;
        let dst = DST_FIX;
        let mut caps = ChecksumCapabilities::default();
        caps.ipv4 = tx_off();
        caps.icmpv4 = tx_off();
        caps.icmpv6 = tx_off();
        caps.udp = tx_off();
        caps.tcp = tx_off();
        let b = ipv4_emit(0xf00, false, &caps);
        assert!(b[10] == 0 && b[11] == 0, "prop:c08_tx_off_ipv4_checksum_field_zeroed");
        let mut e: [u8; 16] = kani::any();
        echo_emit(v6, 2, &src, &dst, 0xf, 0, 4, &caps, &mut e);
        assert!(e[2] == 0 && e[3] == 0, "prop:c08_tx_off_icmp_checksum_field_zeroed");
        let mut u: [u8; 16] = kani::any();
        udp_emit(v6, &src, &dst, 0xf, 0, 4, &caps, &mut u);
        assert!(u[6] == 0 && u[7] == 0, "prop:c08_tx_off_udp_checksum_field_zeroed");
        let mut t: [u8; 48] = kani::any();
        tcp_emit(v6, &src, &dst, 0xf, 0, 0, 0, true, 4, &caps, &mut t);
        assert!(t[16] == 0 && t[17] == 0, "prop:c08_tx_off_tcp_checksum_field_zeroed");
        kani::cover!(v6 && matches!(caps.udp, Checksum::Rx) && matches!(caps.tcp, Checksum::None), "mixed settings over IPv6");
    }

    // receive checksumming switched off ("ignore checksum"): any checksum field is accepted
    fn caps_rx_off(v6: bool) {
        let src = SRC_FIX;
        let dst = DST_FIX;
        let tx = ChecksumCapabilities::ignored();
        let mut caps = ChecksumCapabilities::default();
        caps.ipv4 = rx_off();
        caps.icmpv4 = rx_off();
        caps.icmpv6 = rx_off();
        caps.udp = rx_off();
        caps.tcp = rx_off();
        let c: [u8; 2] = kani::any();
        if !v6 {
            let mut b = ipv4_emit(0, true, &tx);
            b[10] = c[0];
            b[11] = c[1];
            assert!(Ipv4Repr::parse(&Ipv4Packet::new_unchecked(&b[..]), &caps).is_ok(), "prop:c08_rx_off_ipv4_checksum_ignored");
        }
        let mut e = [0u8; 16];
        let n = echo_emit(v6, 0, &src, &dst, 0, 0, 4, &tx, &mut e);
        e[2] = c[0];
        e[3] = c[1];
        assert!(echo_parse_ok(v6, &src, &dst, &e[..n], &caps), "prop:c08_rx_off_icmp_checksum_ignored");
        let mut u = [0u8; 16];
        let n = udp_emit(v6, &src, &dst, 0, 0, 4, &tx, &mut u);
        u[6] = c[0];
        u[7] = c[1];
        assert!(udp_parse_ok(v6, &src, &dst, &u[..n], &caps), "prop:c08_rx_off_udp_checksum_ignored");
        let mut t = [0u8; 48];
        let n = tcp_emit(v6, &src, &dst, 0, 0, 0, 0, false, 4, &tx, &mut t);
        t[16] = c[0];
        t[17] = c[1];
        assert!(tcp_parse_ok(v6, &src, &dst, &t[..n], &caps), "prop:c08_rx_off_tcp_checksum_ignored");
        kani::cover!(c[0] == 0x5a && matches!(caps.tcp, Checksum::Tx), "arbitrary field, Checksum::Tx");
    }

    // @harness props=C08 cfg=KW tier=q to=600 mem=4 unwind=8 opts=nomem covers=1 funcs=wire::Ipv4Repr::parse;wire::Icmpv4Repr::parse;wire::UdpRepr::parse;wire::TcpRepr::parse bounds=per_protocol_Checksum::None_or_Checksum::Tx;_arbitrary_checksum_field;_fixed_well-formed_packets_over_IPv4
    #[kani::proof]
    pub(crate) fn caps_rx_off_accepts_any_field_v4() {
        caps_rx_off(false);
    }

    // @harness props=C08 cfg=KW tier=q to=600 mem=4 unwind=8 opts=nomem covers=1 funcs=wire::Icmpv6Repr::parse;wire::UdpRepr::parse;wire::TcpRepr::parse bounds=per_protocol_Checksum::None_or_Checksum::Tx;_arbitrary_checksum_field;_fixed_well-formed_packets_over_IPv6
    #[kani::proof]
    pub(crate) fn caps_rx_off_accepts_any_field_v6() {
        caps_rx_off(true);
    }

    // ================================================================== (c) receive side

    /// strict = parse with checksums on, lax = parse with checksums ignored, ok = reference verdict
    fn rx_obligations(ok: bool, strict: bool, lax: bool) {
        kani::cover!(!ok && lax, "checksum wrong on an otherwise acceptable packet");
        kani::cover!(ok && strict, "parse Ok reached");
        assert!(ok || !strict, "prop:c08_packet_with_bad_checksum_rejected");
        assert!(!(ok && lax) || strict, "prop:c08_valid_checksum_not_rejected");
        assert!(lax || !strict, "prop:c08_checksum_check_only_rejects");
    }

    fn rx_ipv4(mask: u32, arbitrary_field: bool) {
        let mut buf = ipv4_emit(mask, true, &ChecksumCapabilities::default());
        if arbitrary_field {
            buf[10] = kani::any();
            buf[11] = kani::any();
        } else {
            corrupt(&mut buf, upto(20));
        }
        let ok = ref_ipv4_ok(&buf);
        let strict = Ipv4Repr::parse(&Ipv4Packet::new_unchecked(&buf[..]), &ChecksumCapabilities::default()).is_ok();
        let lax = Ipv4Repr::parse(&Ipv4Packet::new_unchecked(&buf[..]), &ChecksumCapabilities::ignored()).is_ok();
        rx_obligations(ok, strict, lax);
    }

    // @harness props=C08 cfg=KW tier=q to=600 mem=4 unwind=10 opts=nomem covers=2 funcs=wire::Ipv4Repr::parse;wire::Ipv4Packet::verify_checksum bounds=emitted_header_(source_address_symbolic)_+_8_payload_bytes;_non-zero_XOR_mask_on_1_or_2_header_bytes_at_symbolic_positions_0..20_(IHL_may_grow_into_the_payload)
    #[kani::proof]
    pub(crate) fn reject_invalid_ipv4() {
        rx_ipv4(0x00f, false);
    }

    // @harness props=C08 cfg=KW tier=q to=600 mem=4 unwind=10 opts=nomem covers=2 funcs=wire::Ipv4Repr::parse;wire::Ipv4Packet::verify_checksum bounds=emitted_header_(destination,_protocol,_hop_limit_symbolic)_+_8_payload_bytes;_arbitrary_checksum_field
    #[kani::proof]
    pub(crate) fn accept_implies_valid_ipv4() {
        rx_ipv4(0x3f0, true);
    }

    /// proto 1 = ICMP echo request (ICMPv4 / ICMPv6), 17 = UDP, 6 = TCP without options; 4 payload bytes
    fn rx_l4(proto: u8, v6: bool, smask: u32, dmask: u32, fmask: u32, arbitrary_field: bool, allowed: u32) {
        rx_l4x(proto, v6, smask, dmask, fmask, arbitrary_field, allowed, allowed, 4);
    }

    fn rx_l4x(proto: u8, v6: bool, smask: u32, dmask: u32, fmask: u32, arbitrary_field: bool, allowed: u32, allowed2: u32, plen: usize) {
        let (ok, strict, lax) = rx_l4_eval(proto, v6, smask, dmask, fmask, arbitrary_field, allowed, allowed2, plen, true);
        rx_obligations(ok, strict, lax);
    }

    /// the second (checksum-ignoring) parse is skipped and only "accepted implies verifies" is
    /// asserted (halves the symbolic execution of heavy parsers)
    fn rx_l4_nolax(proto: u8, v6: bool, smask: u32, dmask: u32, fmask: u32, allowed: u32, allowed2: u32, plen: usize) {
        let (ok, strict, _) = rx_l4_eval(proto, v6, smask, dmask, fmask, false, allowed, allowed2, plen, false);
        kani::cover!(!ok, "corruption detected by the reference");
        kani::cover!(ok && strict, "parse Ok reached");
        assert!(ok || !strict, "prop:c08_packet_with_bad_checksum_rejected");
    }

    /// returns (reference verdict, parse with checksums on is Ok, parse with checksums ignored is Ok)
    fn rx_l4_eval(proto: u8, v6: bool, smask: u32, dmask: u32, fmask: u32, arbitrary_field: bool, allowed: u32, allowed2: u32, plen: usize, with_lax: bool) -> (bool, bool, bool) {
        let src = pick(SRC_FIX, smask);
        let dst = pick(DST_FIX, dmask);
        let caps = ChecksumCapabilities::default();
        let lax_caps = ChecksumCapabilities::ignored();
        let mut small = [0u8; 16];
        let mut big = [0u8; 48];
        let (n, cks) = match proto {
            1 => (echo_emit(v6, 0, &src, &dst, fmask, 0, plen, &caps, &mut small), 2),
            17 => (udp_emit(v6, &src, &dst, fmask, 0, plen, &caps, &mut small), 6),
            _ => (tcp_emit(v6, &src, &dst, fmask, 0, 0, 0, false, plen, &caps, &mut big), 16),
        };
        if proto == 6 {
            // data offset 5, reserved bits clear.  `header_len()` reads bytes 12 and 13 as one
            // word, so the data offset is concrete for the symbolic executor only while `corrupt`
            // touches neither of them.
            assert!(big[12] == 0x50, "prop:c08_harness_shape_tcp_data_offset");
        }
        let seg: &mut [u8] = if proto == 6 { &mut big[..n] } else { &mut small[..n] };
        if arbitrary_field {
            seg[cks] = kani::any();
            seg[cks + 1] = kani::any();
        } else {
            corrupt2(seg, allowed, allowed2);
        }
        let field = be16(seg[cks], seg[cks + 1]);
        let (ok, strict, lax) = match proto {
            1 => {
                let strict = echo_parse_ok(v6, &src, &dst, seg, &caps);
                (ref_echo_ok(v6, &src, &dst, seg), strict, if with_lax { echo_parse_ok(v6, &src, &dst, seg, &lax_caps) } else { strict })
            }
            17 => {
                // the 'no checksum' value: allowed over IPv4 (checked here), forbidden over IPv6
                // (obligation of `udp6_zero_checksum_rejected`, excluded here so that one defect
                // shows up in one harness)
                if v6 {
                    kani::assume(field != 0);
                }
                let r = ref_udp_ok(v6, &src, &dst, seg) || (!v6 && field == 0 && ref_udp_len_ok(seg));
                (r, udp_parse_ok(v6, &src, &dst, seg, &caps), udp_parse_ok(v6, &src, &dst, seg, &lax_caps))
            }
            _ => {
                let strict = tcp_parse_ok(v6, &src, &dst, seg, &caps);
                (ref_l4_ok(v6, &src, &dst, 6, seg), strict, if with_lax { tcp_parse_ok(v6, &src, &dst, seg, &lax_caps) } else { strict })
            }
        };
        (ok, strict, lax)
    }

    // @harness props=C08 cfg=KW tier=q to=600 mem=4 unwind=8 opts=nomem covers=2 funcs=wire::Icmpv4Repr::parse;wire::Icmpv4Packet::verify_checksum bounds=emitted_echo_request_(ident_symbolic,_4_data_bytes);_non-zero_XOR_mask_on_1_or_2_bytes_at_symbolic_positions_0..12
    #[kani::proof]
    pub(crate) fn reject_invalid_icmpv4() {
        rx_l4(1, false, 0, 0, 0x3, false, upto(12));
    }

    // @harness props=C08 cfg=KW tier=q to=600 mem=4 unwind=8 opts=nomem covers=2 funcs=wire::Icmpv6Repr::parse;wire::Icmpv6Packet::verify_checksum bounds=emitted_echo_request_(ident_symbolic,_4_data_bytes);_non-zero_XOR_mask_on_1_or_2_bytes_at_symbolic_positions_1..12_(type_byte:_see_verify_agrees_icmpv6_type)
    #[kani::proof]
    pub(crate) fn reject_invalid_icmpv6() {
        rx_l4(1, true, 0, 0, 0x3, false, upto(12) & !1);
    }

    // @harness props=C08 cfg=KW tier=q to=600 mem=4 unwind=8 opts=nomem covers=2 funcs=wire::UdpRepr::parse;wire::UdpPacket::verify_checksum bounds=emitted_datagram_(source_port_symbolic,_4_payload_bytes);_non-zero_XOR_mask_on_1_or_2_bytes_at_symbolic_positions_0..12
    #[kani::proof]
    pub(crate) fn reject_invalid_udp4() {
        rx_l4(17, false, 0, 0, 0x3, false, upto(12));
    }

    // @harness props=C08 cfg=KW tier=q to=600 mem=4 unwind=8 opts=nomem covers=2 funcs=wire::UdpRepr::parse;wire::UdpPacket::verify_checksum bounds=emitted_datagram_(source_port_symbolic,_4_payload_bytes);_non-zero_XOR_mask_on_1_or_2_bytes_at_symbolic_positions_0..12;_resulting_checksum_field_non-zero
    #[kani::proof]
    pub(crate) fn reject_invalid_udp6() {
        rx_l4(17, true, 0, 0, 0x3, false, upto(12));
    }

    // @harness props=C08 cfg=KW tier=q to=600 mem=4 unwind=8 opts=nomem covers=2 funcs=wire::TcpRepr::parse;wire::TcpPacket::verify_checksum bounds=emitted_header-only_segment_(source_port_symbolic,_no_options);_non-zero_XOR_mask_on_1_byte_at_a_symbolic_position_0..20_except_12,_13_plus_optionally_1_byte_of_the_checksum_field_(two_free_positions:_no_answer_in_600_s;_bytes_12,_13:_reject_invalid_tcp4_offset;_payload:_reject_invalid_tcp4_payload)
    #[kani::proof]
    pub(crate) fn reject_invalid_tcp4() {
        rx_l4x(6, false, 0, 0, 0x3, false, upto(20) & !(3 << 12), 3 << 16, 0);
    }

    // @harness props=C08 cfg=KW tier=q to=600 mem=4 unwind=8 opts=nomem covers=2 funcs=wire::TcpRepr::parse;wire::TcpPacket::verify_checksum bounds=emitted_header-only_segment_(source_port_symbolic,_no_options);_non-zero_XOR_mask_on_1_byte_at_a_symbolic_position_0..20_except_12,_13_plus_optionally_1_byte_of_the_checksum_field
    #[kani::proof]
    pub(crate) fn reject_invalid_tcp6() {
        rx_l4x(6, true, 0, 0, 0x3, false, upto(20) & !(3 << 12), 3 << 16, 0);
    }

    // @harness props=C08 cfg=KW tier=q to=600 mem=4 unwind=8 opts=nomem covers=2 funcs=wire::Icmpv4Repr::parse;wire::Icmpv4Packet::verify_checksum bounds=emitted_echo_request_(ident,_seq_symbolic,_4_data_bytes);_arbitrary_checksum_field
    #[kani::proof]
    pub(crate) fn accept_implies_valid_icmpv4() {
        rx_l4(1, false, 0, 0, 0xf, true, 0);
    }

    // @harness props=C08 cfg=KW tier=q to=600 mem=4 unwind=8 opts=nomem covers=2 funcs=wire::Icmpv6Repr::parse;wire::Icmpv6Packet::verify_checksum bounds=emitted_echo_request_(ident,_seq,_source_bytes_14..16,_destination_bytes_0..2_symbolic,_4_data_bytes);_arbitrary_checksum_field
    #[kani::proof]
    pub(crate) fn accept_implies_valid_icmpv6() {
        rx_l4(1, true, 0xc000, 0x0003, 0xf, true, 0);
    }

    // @harness props=C08 cfg=KW tier=q to=600 mem=4 unwind=8 opts=nomem covers=2 funcs=wire::UdpRepr::parse;wire::UdpPacket::verify_checksum bounds=emitted_datagram_(ports,_source_bytes_2..4,_destination_bytes_0..2_symbolic,_4_payload_bytes);_arbitrary_checksum_field_(zero_accepted_over_IPv4)
    #[kani::proof]
    pub(crate) fn accept_implies_valid_udp4() {
        rx_l4(17, false, 0xc, 0x3, 0xf, true, 0);
    }

    // @harness props=C08 cfg=KW tier=q to=600 mem=4 unwind=8 opts=nomem covers=2 funcs=wire::UdpRepr::parse;wire::UdpPacket::verify_checksum bounds=emitted_datagram_(ports,_source_bytes_14..16,_destination_bytes_0..2_symbolic,_4_payload_bytes);_arbitrary_non-zero_checksum_field
    #[kani::proof]
    pub(crate) fn accept_implies_valid_udp6() {
        rx_l4(17, true, 0xc000, 0x0003, 0xf, true, 0);
    }

    // @harness props=C08 cfg=KW tier=q to=600 mem=4 unwind=8 opts=nomem covers=2 funcs=wire::TcpRepr::parse;wire::TcpPacket::verify_checksum bounds=emitted_segment_(ports,_source_bytes_2..4,_destination_bytes_0..2_symbolic,_no_options,_4_payload_bytes);_arbitrary_checksum_field
    #[kani::proof]
    pub(crate) fn accept_implies_valid_tcp4() {
        rx_l4(6, false, 0xc, 0x3, 0xf, true, 0);
    }

    // @harness props=C08 cfg=KW tier=q to=600 mem=4 unwind=8 opts=nomem covers=2 funcs=wire::TcpRepr::parse;wire::TcpPacket::verify_checksum bounds=emitted_segment_(ports,_source_bytes_14..16,_destination_bytes_0..2_symbolic,_no_options,_4_payload_bytes);_arbitrary_checksum_field
    #[kani::proof]
    pub(crate) fn accept_implies_valid_tcp6() {
        rx_l4(6, true, 0xc000, 0x0003, 0xf, true, 0);
    }

    // @harness props=C08 cfg=KW tier=q to=600 mem=4 unwind=8 opts=nomem covers=2 funcs=wire::TcpRepr::parse;wire::TcpPacket::verify_checksum bounds=emitted_segment_(source_port_symbolic,_no_options,_4_payload_bytes);_non-zero_XOR_mask_on_1_or_2_of_the_bytes_16,_17_(checksum_field),_20..24_(payload)
    #[kani::proof]
    pub(crate) fn reject_invalid_tcp4_payload() {
        rx_l4x(6, false, 0, 0, 0x3, false, (3 << 16) | (0xf << 20), (3 << 16) | (0xf << 20), 4);
    }

    // data-offset byte corrupted (the payload may become options), optionally compensated in the checksum field
    // @harness props=C08 cfg=KW tier=q to=600 mem=6 unwind=8 opts=nomem covers=2 funcs=wire::TcpRepr::parse;wire::TcpPacket::verify_checksum;wire::TcpOption::parse bounds=emitted_segment_(source_port_symbolic,_no_options,_4_payload_bytes);_non-zero_XOR_mask_on_1_or_2_of_the_bytes_12,_13_(data_offset,_flags),_16,_17_(checksum_field);_only_accepted-implies-verifies_is_asserted
    #[kani::proof]
    pub(crate) fn reject_invalid_tcp4_offset() {
        rx_l4_nolax(6, false, 0, 0, 0x3, (3 << 12) | (3 << 16), (3 << 12) | (3 << 16), 4);
    }

    // ICMPv6 type byte corrupted: `Icmpv6Repr::parse` with a symbolic message type explores every
    // NDISC / MLD parser (out of memory at 6 GB), so the gate `parse` uses is checked directly.
    // @harness props=C08 cfg=KW tier=q to=600 mem=4 unwind=8 opts=nomem covers=2 funcs=wire::Icmpv6Packet::verify_checksum bounds=emitted_echo_request_(ident_symbolic,_4_data_bytes);_non-zero_XOR_mask_on_1_or_2_of_the_bytes_0_(type),_1_(code),_2,_3_(checksum_field);_verify_checksum_only
    #[kani::proof]
    pub(crate) fn verify_agrees_icmpv6_type() {
        let src = SRC_FIX;
        let dst = DST_FIX;
        let mut buf = [0u8; 16];
        let n = echo_emit(true, 0, &src, &dst, 0x3, 0, 4, &ChecksumCapabilities::default(), &mut buf);
        corrupt(&mut buf[..n], 0xf);
        let ok = ref_echo_ok(true, &src, &dst, &buf[..n]);
        let got = Icmpv6Packet::new_unchecked(&buf[..n]).verify_checksum(&Ipv6Address::from(src), &Ipv6Address::from(dst));
        kani::cover!(ok && buf[0] != 0x80, "type changed, checksum field compensates");
        kani::cover!(!ok, "corruption detected");
        assert!(got == ok, "prop:c08_icmpv6_verify_checksum_agrees_with_reference");
    }

    // thorough: two free corruption positions over a 24-byte TCP segment (quick tier: no answer in 600 s)
    // @harness props=C08 cfg=KW tier=t to=1200 mem=8 unwind=8 opts=nomem covers=2 funcs=wire::TcpRepr::parse;wire::TcpPacket::verify_checksum bounds=emitted_segment_(source_port_symbolic,_no_options,_4_payload_bytes);_non-zero_XOR_mask_on_1_or_2_bytes_at_symbolic_positions_0..24_except_12,_13
    #[kani::proof]
    pub(crate) fn reject_invalid_tcp4_anypair() {
        rx_l4x(6, false, 0, 0, 0x3, false, upto(24) & !(3 << 12), upto(24) & !(3 << 12), 4);
    }

    // thorough: ICMPv6 with the type byte corruptible, through the real `parse` (every NDISC / MLD parser is explored)
    // @harness props=C08 cfg=KW tier=t to=1200 mem=16 unwind=8 opts=nomem covers=2 funcs=wire::Icmpv6Repr::parse;wire::Icmpv6Packet::verify_checksum;wire::NdiscRepr::parse;wire::MldRepr::parse bounds=emitted_echo_request_(ident_symbolic,_4_data_bytes);_non-zero_XOR_mask_on_1_or_2_of_the_bytes_0_(type),_1_(code),_2,_3_(checksum_field);_only_accepted-implies-verifies_is_asserted
    #[kani::proof]
    pub(crate) fn reject_invalid_icmpv6_anytype() {
        rx_l4_nolax(1, true, 0, 0, 0x3, 0xf, 0xf, 4);
    }

    // RFC 8200 section 8.1: over IPv6 the UDP checksum is not optional; a datagram whose checksum
    // field is zero must be discarded.  Only UDP over IPv4 may carry the 'no checksum' value.
    // @harness props=C08 cfg=KW tier=q to=600 mem=4 unwind=8 opts=nomem covers=1 kind=finding funcs=wire::UdpRepr::parse;wire::UdpPacket::verify_checksum bounds=emitted_datagram_(ports_symbolic,_4_payload_bytes);_checksum_field_zero;_IPv4_or_IPv6_(symbolic)
    #[kani::proof]
    pub(crate) fn udp6_zero_checksum_rejected() {
        let v6: bool = kani::any();
        let src = SRC_FIX;
        let dst = DST_FIX;
        let caps = ChecksumCapabilities::default();
        let mut buf = [0u8; 16];
        let n = udp_emit(v6, &src, &dst, 0xf, 0, 4, &caps, &mut buf);
        buf[6] = 0;
        buf[7] = 0;
        let strict = udp_parse_ok(v6, &src, &dst, &buf[..n], &caps);
        kani::cover!(v6, "zero checksum field over IPv6");
        if v6 {
            assert!(!strict, "prop:c08_only_udp_over_ipv4_may_omit_checksum");
        } else {
            assert!(strict, "prop:c08_udp_over_ipv4_may_omit_checksum");
        }
    }
}
