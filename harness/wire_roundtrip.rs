// C06 — Wire representations survive emit-then-parse unchanged.
// Spliced at the crate root (public wire API only), build configuration KW.
//
// Pattern (one harness per Repr type and per concrete shape; every field VALUE is symbolic):
//   n = declared length; emit into b1[..n] (zero-filled) and b2[..n] (symbolic garbage);
//   b1[k] == b2[k] at a symbolic k < n; new_checked(b1[..n]) is Ok; parse(b1[..n]) == repr (fieldwise,
//   payload bytes at a symbolic index).  `reparse_*`: arbitrary bytes, parse == Ok(r) => parse(emit(r)) == Ok(r).
// Checksums are ignored() everywhere (C08's subject).
// Enum-with-unknown fields are generated with `T::from(raw)` — `Unknown(x)` with x a known code is not a
// value the crate ever produces (the From<u8/u16> impls are the only constructors used by parsers).
// `finding_*` harnesses: those marked kind=finding assert inside a region where the crate still fails (the matching
// `rt_*` harness stays outside it); the others are regression checks for defects that have been fixed (fix: commits).
#[cfg(all(
    feature = "medium-ethernet",
    feature = "medium-ieee802154",
    feature = "proto-sixlowpan",
    feature = "proto-dhcpv4",
    feature = "proto-dns",
    feature = "proto-ipv4",
    feature = "proto-ipv6"
))]
#[allow(dead_code, unused_imports, unused_variables, unused_mut, unused_macros)]
mod v_wire_roundtrip {
    use crate::phy::ChecksumCapabilities;
    use crate::time::Duration;
    use crate::verif_common::*;
    use crate::wire::*;

    const INDEP: &str = "prop:c06_emit_independent_of_prior_buffer_contents";

    fn caps() -> ChecksumCapabilities {
        ChecksumCapabilities::ignored()
    }
    fn any_v4() -> Ipv4Address {
        Ipv4Address::from_octets(kani::any())
    }
    fn any_v6() -> Ipv6Address {
        Ipv6Address::from_octets(kani::any())
    }
    fn any_eth() -> EthernetAddress {
        EthernetAddress(kani::any())
    }
    fn any_proto() -> IpProtocol {
        IpProtocol::from(kani::any::<u8>())
    }
    /// Ipv4Repr inside its documented range: total length (20 + payload_len) fits the 16-bit field.
    fn any_ipv4_repr(max_payload: usize) -> Ipv4Repr {
        let payload_len: usize = kani::any();
        kani::assume(payload_len <= max_payload);
        Ipv4Repr { src_addr: any_v4(), dst_addr: any_v4(), next_header: any_proto(), payload_len, hop_limit: kani::any() }
    }
    /// Ipv6Repr inside its documented range: payload_len fits the 16-bit field.
    fn any_ipv6_repr(max_payload: usize) -> Ipv6Repr {
        let payload_len: usize = kani::any();
        kani::assume(payload_len <= max_payload);
        Ipv6Repr { src_addr: any_v6(), dst_addr: any_v6(), next_header: any_proto(), payload_len, hop_limit: kani::any() }
    }

    /// b1 (was zero) and b2 (was garbage) agree at a symbolic position below n
    macro_rules! indep {
        ($b1:expr, $b2:expr, $n:expr) => {{
            let k: usize = kani::any();
            kani::assume(k < $n);
            assert!($b1[k] == $b2[k], "prop:c06_emit_independent_of_prior_buffer_contents");
        }};
        // same, restricted to positions satisfying `$keep` (bytes outside are the subject of a finding_* harness)
        ($b1:expr, $b2:expr, $n:expr, $k:ident => $keep:expr) => {{
            let $k: usize = kani::any();
            kani::assume($k < $n);
            kani::assume($keep);
            assert!($b1[$k] == $b2[$k], "prop:c06_emit_independent_of_prior_buffer_contents");
        }};
    }
    /// slice `$got` has length `$len` and equals `$want[..$len]` (checked at a symbolic index)
    macro_rules! same_bytes {
        ($got:expr, $want:expr, $len:expr, $msg:expr) => {{
            assert!($got.len() == $len, $msg);
            if $len > 0 {
                let j: usize = kani::any();
                kani::assume(j < $len);
                assert!($got[j] == $want[j], $msg);
            }
        }};
    }
    const RT: &str = "prop:c06_parse_of_emit_is_identity";
    const CHK: &str = "prop:c06_emitted_packet_passes_new_checked";
    const RE: &str = "prop:c06_reparse_of_parsed_is_identity";

    // ------------------------------------------------------------------ Ethernet

    // @harness props=C06 cfg=KW tier=q to=300 mem=4 unwind=8 opts=nomem covers=1 funcs=wire::ethernet::Repr::emit;wire::ethernet::Repr::parse;wire::ethernet::Repr::buffer_len bounds=all_field_values
    #[kani::proof]
    pub(crate) fn rt_ethernet() {
        let repr = EthernetRepr { src_addr: any_eth(), dst_addr: any_eth(), ethertype: EthernetProtocol::from(kani::any::<u16>()) };
        let n = repr.buffer_len();
        let mut b1 = [0u8; 14];
        let mut b2: [u8; 14] = kani::any();
        repr.emit(&mut EthernetFrame::new_unchecked(&mut b1[..n]));
        repr.emit(&mut EthernetFrame::new_unchecked(&mut b2[..n]));
        indep!(b1, b2, n);
        let f = EthernetFrame::new_checked(&b1[..n]);
        assert!(f.is_ok(), "prop:c06_emitted_packet_passes_new_checked");
        let back = EthernetRepr::parse(&f.unwrap());
        assert!(back == Ok(repr), "prop:c06_parse_of_emit_is_identity");
        kani::cover!(matches!(back, Ok(EthernetRepr { ethertype: EthernetProtocol::Unknown(_), .. })), "unknown ethertype round-trips");
    }

    // @harness props=C06 cfg=KW tier=q to=300 mem=4 unwind=8 opts=nomem covers=1 funcs=wire::ethernet::Repr::parse;wire::ethernet::Repr::emit bounds=arbitrary_bytes_len_0..=16
    #[kani::proof]
    pub(crate) fn reparse_ethernet() {
        let bytes: [u8; 16] = kani::any();
        let len = any_le(16);
        if let Ok(f) = EthernetFrame::new_checked(&bytes[..len]) {
            if let Ok(r) = EthernetRepr::parse(&f) {
                let mut b = [0u8; 14];
                let n = r.buffer_len();
                r.emit(&mut EthernetFrame::new_unchecked(&mut b[..n]));
                let back = EthernetRepr::parse(&EthernetFrame::new_unchecked(&b[..n]));
                assert!(back == Ok(r), "prop:c06_reparse_of_parsed_is_identity");
                kani::cover!(r.ethertype == EthernetProtocol::Arp, "parsed an ARP frame header");
            }
        }
    }

    // deliberately false twin (./check --self-test): the runner must report a failure here
    // @harness props=C06 cfg=KW kind=mustfail tier=q to=300 mem=4 unwind=8 opts=nomem
    #[kani::proof]
    pub(crate) fn rt_ethernet_must_fail() {
        let repr = EthernetRepr { src_addr: any_eth(), dst_addr: any_eth(), ethertype: EthernetProtocol::from(kani::any::<u16>()) };
        let mut b1 = [0u8; 14];
        repr.emit(&mut EthernetFrame::new_unchecked(&mut b1[..]));
        let back = EthernetRepr::parse(&EthernetFrame::new_unchecked(&b1[..])).unwrap();
        assert!(back.src_addr == repr.dst_addr, "prop:deliberately_false_source_and_destination_swapped");
    }

    // ------------------------------------------------------------------ ARP

    // @harness props=C06 cfg=KW tier=q to=300 mem=4 unwind=8 opts=nomem covers=1 funcs=wire::arp::Repr::emit;wire::arp::Repr::parse;wire::arp::Repr::buffer_len bounds=all_field_values
    #[kani::proof]
    pub(crate) fn rt_arp() {
        let repr = ArpRepr::EthernetIpv4 {
            operation: ArpOperation::from(kani::any::<u16>()),
            source_hardware_addr: any_eth(),
            source_protocol_addr: any_v4(),
            target_hardware_addr: any_eth(),
            target_protocol_addr: any_v4(),
        };
        let n = repr.buffer_len();
        let mut b1 = [0u8; 28];
        let mut b2: [u8; 28] = kani::any();
        repr.emit(&mut ArpPacket::new_unchecked(&mut b1[..n]));
        repr.emit(&mut ArpPacket::new_unchecked(&mut b2[..n]));
        indep!(b1, b2, n);
        let p = ArpPacket::new_checked(&b1[..n]);
        assert!(p.is_ok(), "prop:c06_emitted_packet_passes_new_checked");
        let back = ArpRepr::parse(&p.unwrap());
        assert!(back == Ok(repr), "prop:c06_parse_of_emit_is_identity");
        kani::cover!(matches!(back, Ok(ArpRepr::EthernetIpv4 { operation: ArpOperation::Reply, .. })), "reply round-trips");
    }

    // @harness props=C06 cfg=KW tier=q to=300 mem=4 unwind=8 opts=nomem covers=1 funcs=wire::arp::Repr::parse;wire::arp::Repr::emit bounds=arbitrary_bytes_len_0..=30
    #[kani::proof]
    pub(crate) fn reparse_arp() {
        let bytes: [u8; 30] = kani::any();
        let len = any_le(30);
        if let Ok(p) = ArpPacket::new_checked(&bytes[..len]) {
            if let Ok(r) = ArpRepr::parse(&p) {
                let mut b = [0u8; 28];
                let n = r.buffer_len();
                r.emit(&mut ArpPacket::new_unchecked(&mut b[..n]));
                let back = ArpRepr::parse(&ArpPacket::new_unchecked(&b[..n]));
                assert!(back == Ok(r), "prop:c06_reparse_of_parsed_is_identity");
                kani::cover!(len == 30, "parsed a packet with trailing bytes");
            }
        }
    }

    // ------------------------------------------------------------------ IPv4

    // The header is emitted into exactly buffer_len() = 20 bytes; parsing needs the whole datagram
    // (check_len compares against total_len), so the parse step is done for payload_len <= 8 on 20+payload_len bytes.
    // @harness props=C06 cfg=KW tier=q to=300 mem=4 unwind=8 opts=nomem covers=2 funcs=wire::ipv4::Repr::emit;wire::ipv4::Repr::parse;wire::ipv4::Repr::buffer_len bounds=payload_len_0..=65515_for_emit;_0..=8_for_parse
    #[kani::proof]
    pub(crate) fn rt_ipv4() {
        // documented range: total length fits u16
        let repr = any_ipv4_repr(65535 - 20);
        let n = repr.buffer_len();
        let mut b1 = [0u8; 28];
        let mut b2: [u8; 28] = kani::any();
        repr.emit(&mut Ipv4Packet::new_unchecked(&mut b1[..n]), &caps());
        repr.emit(&mut Ipv4Packet::new_unchecked(&mut b2[..n]), &caps());
        indep!(b1, b2, n);
        let view = Ipv4Packet::new_unchecked(&b1[..n]);
        assert!(view.total_len() as usize == 20 + repr.payload_len && view.header_len() == 20, "prop:c06_parse_of_emit_is_identity");
        if repr.payload_len <= 8 {
            let p = Ipv4Packet::new_checked(&b1[..n + repr.payload_len]);
            assert!(p.is_ok(), "prop:c06_emitted_packet_passes_new_checked");
            let back = Ipv4Repr::parse(&p.unwrap(), &caps());
            assert!(back == Ok(repr), "prop:c06_parse_of_emit_is_identity");
            kani::cover!(repr.payload_len == 8 && back.is_ok(), "header with payload parsed back");
        }
        kani::cover!(repr.payload_len == 65515, "largest datagram header emitted");
    }

    // @harness props=C06 cfg=KW tier=q to=300 mem=4 unwind=8 opts=nomem covers=2 funcs=wire::ipv4::Repr::parse;wire::ipv4::Repr::emit bounds=arbitrary_bytes_len_0..=32
    #[kani::proof]
    pub(crate) fn reparse_ipv4() {
        let bytes: [u8; 32] = kani::any();
        let len = any_le(32);
        if let Ok(p) = Ipv4Packet::new_checked(&bytes[..len]) {
            if let Ok(r) = Ipv4Repr::parse(&p, &caps()) {
                let mut b = [0u8; 32];
                let n = r.buffer_len();
                assert!(n + r.payload_len <= 32, "prop:c06_reparse_of_parsed_is_identity");
                r.emit(&mut Ipv4Packet::new_unchecked(&mut b[..n]), &caps());
                let back = Ipv4Repr::parse(&Ipv4Packet::new_unchecked(&b[..n + r.payload_len]), &caps());
                assert!(back == Ok(r), "prop:c06_reparse_of_parsed_is_identity");
                kani::cover!(p.header_len() == 24, "parsed a header with options (re-emitted without)");
                kani::cover!(r.payload_len == 12, "parsed a header with 12 payload bytes");
            }
        }
    }

    // ------------------------------------------------------------------ IPv6

    // @harness props=C06 cfg=KW tier=q to=300 mem=4 unwind=20 opts=nomem covers=2 funcs=wire::ipv6::Repr::emit;wire::ipv6::Repr::parse;wire::ipv6::Repr::buffer_len bounds=payload_len_0..=65535_for_emit;_0..=8_for_parse
    #[kani::proof]
    pub(crate) fn rt_ipv6() {
        // documented range: payload length fits u16
        let repr = any_ipv6_repr(65535);
        let n = repr.buffer_len();
        let mut b1 = [0u8; 48];
        let mut b2: [u8; 48] = kani::any();
        repr.emit(&mut Ipv6Packet::new_unchecked(&mut b1[..n]));
        repr.emit(&mut Ipv6Packet::new_unchecked(&mut b2[..n]));
        indep!(b1, b2, n);
        let view = Ipv6Packet::new_unchecked(&b1[..n]);
        assert!(view.payload_len() as usize == repr.payload_len, "prop:c06_parse_of_emit_is_identity");
        if repr.payload_len <= 8 {
            let p = Ipv6Packet::new_checked(&b1[..n + repr.payload_len]);
            assert!(p.is_ok(), "prop:c06_emitted_packet_passes_new_checked");
            let back = Ipv6Repr::parse(&p.unwrap());
            assert!(back == Ok(repr), "prop:c06_parse_of_emit_is_identity");
            kani::cover!(repr.payload_len == 8 && back.is_ok(), "header with payload parsed back");
        }
        kani::cover!(repr.payload_len == 65535, "largest payload length emitted");
    }

    // @harness props=C06 cfg=KW tier=q to=300 mem=4 unwind=20 opts=nomem covers=1 funcs=wire::ipv6::Repr::parse;wire::ipv6::Repr::emit bounds=arbitrary_bytes_len_0..=48
    #[kani::proof]
    pub(crate) fn reparse_ipv6() {
        let bytes: [u8; 48] = kani::any();
        let len = any_le(48);
        if let Ok(p) = Ipv6Packet::new_checked(&bytes[..len]) {
            if let Ok(r) = Ipv6Repr::parse(&p) {
                let mut b = [0u8; 48];
                let n = r.buffer_len();
                assert!(n + r.payload_len <= 48, "prop:c06_reparse_of_parsed_is_identity");
                r.emit(&mut Ipv6Packet::new_unchecked(&mut b[..n]));
                let back = Ipv6Repr::parse(&Ipv6Packet::new_unchecked(&b[..n + r.payload_len]));
                assert!(back == Ok(r), "prop:c06_reparse_of_parsed_is_identity");
                kani::cover!(r.payload_len == 8 && p.traffic_class() != 0, "parsed a header with traffic class and payload");
            }
        }
    }

    // ------------------------------------------------------------------ UDP

    // @harness props=C06 cfg=KW tier=q to=300 mem=4 unwind=12 opts=nomem covers=2 funcs=wire::udp::Repr::emit;wire::udp::Repr::parse;wire::udp::Repr::header_len bounds=payload_0..=8_bytes;_IPv4_and_IPv6_pseudo_header_addresses
    #[kani::proof]
    pub(crate) fn rt_udp() {
        let repr = UdpRepr { src_port: kani::any(), dst_port: kani::any() };
        // documented: "Destination port cannot be omitted (but source port can be)"
        kani::assume(repr.dst_port != 0);
        let payload: [u8; 8] = kani::any();
        let pl = any_le(8);
        let v6: bool = kani::any();
        let (src, dst) = if v6 { (IpAddress::Ipv6(any_v6()), IpAddress::Ipv6(any_v6())) } else { (IpAddress::Ipv4(any_v4()), IpAddress::Ipv4(any_v4())) };
        let n = repr.header_len() + pl;
        let mut b1 = [0u8; 16];
        let mut b2: [u8; 16] = kani::any();
        repr.emit(&mut UdpPacket::new_unchecked(&mut b1[..n]), &src, &dst, pl, |buf| buf.copy_from_slice(&payload[..pl]), &caps());
        repr.emit(&mut UdpPacket::new_unchecked(&mut b2[..n]), &src, &dst, pl, |buf| buf.copy_from_slice(&payload[..pl]), &caps());
        indep!(b1, b2, n);
        let p = UdpPacket::new_checked(&b1[..n]);
        assert!(p.is_ok(), "prop:c06_emitted_packet_passes_new_checked");
        let p = p.unwrap();
        let back = UdpRepr::parse(&p, &src, &dst, &caps());
        assert!(back == Ok(repr), "prop:c06_parse_of_emit_is_identity");
        same_bytes!(p.payload(), payload, pl, "prop:c06_parse_of_emit_is_identity");
        kani::cover!(pl == 8 && repr.src_port == 0, "full payload, source port omitted");
        kani::cover!(pl == 0 && v6, "empty datagram over IPv6");
    }

    // @harness props=C06 cfg=KW tier=q to=300 mem=4 unwind=12 opts=nomem covers=1 funcs=wire::udp::Repr::parse;wire::udp::Repr::emit bounds=arbitrary_bytes_len_0..=16
    #[kani::proof]
    pub(crate) fn reparse_udp() {
        let bytes: [u8; 16] = kani::any();
        let len = any_le(16);
        let src = IpAddress::Ipv4(any_v4());
        let dst = IpAddress::Ipv4(any_v4());
        if let Ok(p) = UdpPacket::new_checked(&bytes[..len]) {
            if let Ok(r) = UdpRepr::parse(&p, &src, &dst, &caps()) {
                let pl = p.payload().len();
                let mut b = [0u8; 16];
                let n = r.header_len() + pl;
                r.emit(&mut UdpPacket::new_unchecked(&mut b[..n]), &src, &dst, pl, |buf| buf.copy_from_slice(p.payload()), &caps());
                let q = UdpPacket::new_unchecked(&b[..n]);
                let back = UdpRepr::parse(&q, &src, &dst, &caps());
                assert!(back == Ok(r), "prop:c06_reparse_of_parsed_is_identity");
                same_bytes!(q.payload(), p.payload(), pl, "prop:c06_reparse_of_parsed_is_identity");
                kani::cover!(pl == 5 && len == 16, "length field shorter than the buffer");
            }
        }
    }

    // ------------------------------------------------------------------ IGMP

    /// RFC 3376 4.1.1 decoding of the Max Resp Code (tenths of a second), written from the RFC
    fn igmp_code_to_duration(code: u8) -> Duration {
        let c = code as u64;
        let ds = if c < 128 { c } else { ((c & 0xf) | 0x10) << (((c >> 4) & 7) + 3) };
        Duration::from_millis(ds * 100)
    }

    fn igmp_roundtrip(repr: IgmpRepr) {
        let n = repr.buffer_len();
        let mut b1 = [0u8; 8];
        let mut b2: [u8; 8] = kani::any();
        repr.emit(&mut IgmpPacket::new_unchecked(&mut b1[..n]));
        repr.emit(&mut IgmpPacket::new_unchecked(&mut b2[..n]));
        // every byte, including the checksum (bytes 2..4) computed over the whole message
        indep!(b1, b2, n);
        let p = IgmpPacket::new_checked(&b1[..n]);
        assert!(p.is_ok(), "prop:c06_emitted_packet_passes_new_checked");
        let back = IgmpRepr::parse(&p.unwrap());
        assert!(back == Ok(repr), "prop:c06_parse_of_emit_is_identity");
    }

    /// group address accepted by parse: unspecified (general query) or multicast
    fn any_group() -> Ipv4Address {
        let a = any_v4();
        kani::assume(a.is_unspecified() || a.is_multicast());
        a
    }

    // @harness props=C06 cfg=KW tier=q to=300 mem=4 unwind=12 opts=nomem covers=2 funcs=wire::igmp::Repr::emit;wire::igmp::Repr::parse;wire::igmp::Repr::buffer_len bounds=every_max_resp_code_1..=255;_IGMPv1_query_with_zero_time
    #[kani::proof]
    pub(crate) fn rt_igmp_query() {
        // documented: IGMPv1 queries carry no response time (code 0); an IGMPv2 max_resp_time is one of the
        // 255 durations the 8-bit code can express (the encoding is lossy by design for other durations)
        let code: u8 = kani::any();
        let (version, max_resp_time) = if code == 0 { (IgmpVersion::Version1, Duration::from_millis(0)) } else { (IgmpVersion::Version2, igmp_code_to_duration(code)) };
        let repr = IgmpRepr::MembershipQuery { max_resp_time, group_addr: any_group(), version };
        igmp_roundtrip(repr);
        kani::cover!(code == 0xff, "largest floating-point code");
        kani::cover!(code == 0, "IGMPv1 query");
    }

    // @harness props=C06 cfg=KW tier=q to=300 mem=4 unwind=12 opts=nomem covers=2 funcs=wire::igmp::Repr::emit;wire::igmp::Repr::parse bounds=report_v1_v2;_leave
    #[kani::proof]
    pub(crate) fn rt_igmp_report_leave() {
        let leave: bool = kani::any();
        let v1: bool = kani::any();
        let repr = if leave {
            IgmpRepr::LeaveGroup { group_addr: any_group() }
        } else {
            IgmpRepr::MembershipReport { group_addr: any_group(), version: if v1 { IgmpVersion::Version1 } else { IgmpVersion::Version2 } }
        };
        igmp_roundtrip(repr);
        kani::cover!(leave, "leave group");
        kani::cover!(!leave && v1, "IGMPv1 report");
    }

    // regression: LeaveGroup emit used not to write the Max Resp Code byte (offset 1)
    // @harness props=C06 cfg=KW tier=q to=300 mem=4 unwind=12 opts=nomem covers=1 funcs=wire::igmp::Repr::emit bounds=leave_group;_byte_1
    #[kani::proof]
    pub(crate) fn finding_igmp_leave_stale_max_resp_code() {
        let repr = IgmpRepr::LeaveGroup { group_addr: any_group() };
        let mut b1 = [0u8; 8];
        let mut b2: [u8; 8] = kani::any();
        repr.emit(&mut IgmpPacket::new_unchecked(&mut b1[..]));
        repr.emit(&mut IgmpPacket::new_unchecked(&mut b2[..]));
        kani::cover!(true, "emitted");
        assert!(b1[1] == b2[1], "prop:c06_emit_independent_of_prior_buffer_contents");
    }

    // @harness props=C06 cfg=KW tier=q to=300 mem=4 unwind=12 opts=nomem covers=2 funcs=wire::igmp::Repr::parse;wire::igmp::Repr::emit bounds=arbitrary_bytes_len_0..=10
    #[kani::proof]
    pub(crate) fn reparse_igmp() {
        let bytes: [u8; 10] = kani::any();
        let len = any_le(10);
        if let Ok(p) = IgmpPacket::new_checked(&bytes[..len]) {
            if let Ok(r) = IgmpRepr::parse(&p) {
                let mut b = [0u8; 8];
                let n = r.buffer_len();
                r.emit(&mut IgmpPacket::new_unchecked(&mut b[..n]));
                let back = IgmpRepr::parse(&IgmpPacket::new_unchecked(&b[..n]));
                kani::cover!(matches!(r, IgmpRepr::MembershipQuery { version: IgmpVersion::Version2, .. }) && bytes[1] >= 128, "query with exponent-coded time");
                kani::cover!(matches!(r, IgmpRepr::LeaveGroup { .. }), "leave");
                assert!(back == Ok(r), "prop:c06_reparse_of_parsed_is_identity");
            }
        }
    }

    // ------------------------------------------------------------------ ICMPv4

    // @harness props=C06 cfg=KW tier=q to=300 mem=4 unwind=12 opts=nomem covers=2 funcs=wire::icmpv4::Repr::emit;wire::icmpv4::Repr::parse;wire::icmpv4::Repr::buffer_len bounds=echo_request_and_reply;_data_0..=8_bytes
    #[kani::proof]
    pub(crate) fn rt_icmpv4_echo() {
        let data: [u8; 8] = kani::any();
        let dl = any_le(8);
        let ident: u16 = kani::any();
        let seq_no: u16 = kani::any();
        let reply: bool = kani::any();
        let repr = if reply { Icmpv4Repr::EchoReply { ident, seq_no, data: &data[..dl] } } else { Icmpv4Repr::EchoRequest { ident, seq_no, data: &data[..dl] } };
        let n = repr.buffer_len();
        let mut b1 = [0u8; 16];
        let mut b2: [u8; 16] = kani::any();
        repr.emit(&mut Icmpv4Packet::new_unchecked(&mut b1[..n]), &caps());
        repr.emit(&mut Icmpv4Packet::new_unchecked(&mut b2[..n]), &caps());
        indep!(b1, b2, n);
        let p = Icmpv4Packet::new_checked(&b1[..n]);
        assert!(p.is_ok(), "prop:c06_emitted_packet_passes_new_checked");
        match Icmpv4Repr::parse(&p.unwrap(), &caps()) {
            Ok(Icmpv4Repr::EchoReply { ident: i, seq_no: s, data: d }) => {
                assert!(reply && i == ident && s == seq_no, "prop:c06_parse_of_emit_is_identity");
                same_bytes!(d, data, dl, "prop:c06_parse_of_emit_is_identity");
            }
            Ok(Icmpv4Repr::EchoRequest { ident: i, seq_no: s, data: d }) => {
                assert!(!reply && i == ident && s == seq_no, "prop:c06_parse_of_emit_is_identity");
                same_bytes!(d, data, dl, "prop:c06_parse_of_emit_is_identity");
            }
            _ => assert!(false, "prop:c06_parse_of_emit_is_identity"),
        }
        kani::cover!(reply && dl == 8, "echo reply with 8 data bytes");
        kani::cover!(!reply && dl == 0, "echo request without data");
    }

    /// DstUnreachable / TimeExceeded carrying an IPv4 header + 8 bytes of the offending datagram.
    /// `hdr_payload_len`: payload length recorded in the embedded header (that of the original datagram, which is
    /// normally longer than the quoted bytes).
    fn icmpv4_error<'a>(time_exceeded: bool, data: &'a [u8], hdr_payload_len: usize) -> Icmpv4Repr<'a> {
        let header = Ipv4Repr { src_addr: any_v4(), dst_addr: any_v4(), next_header: any_proto(), payload_len: hdr_payload_len, hop_limit: kani::any() };
        if time_exceeded {
            Icmpv4Repr::TimeExceeded { reason: Icmpv4TimeExceeded::from(kani::any::<u8>()), header, data }
        } else {
            Icmpv4Repr::DstUnreachable { reason: Icmpv4DstUnreachable::from(kani::any::<u8>()), header, data }
        }
    }

    // @harness props=C06 cfg=KW tier=q to=300 mem=4 unwind=12 opts=nomem covers=2 funcs=wire::icmpv4::Repr::emit;wire::icmpv4::Repr::parse;wire::icmpv4::Repr::buffer_len bounds=dst_unreachable_and_time_exceeded;_embedded_header_(any_payload_len)_plus_exactly_8_quoted_bytes
    #[kani::proof]
    pub(crate) fn rt_icmpv4_error() {
        // RFC 792 / Repr::parse: at least eight bytes of the offending datagram follow the embedded header
        let data: [u8; 8] = kani::any();
        let te: bool = kani::any();
        // embedded header: any payload length whose total length fits the 16-bit field
        let hl = any_le(65535 - 20);
        let repr = icmpv4_error(te, &data[..], hl);
        let n = repr.buffer_len();
        assert!(n == 36, "prop:c06_parse_of_emit_is_identity");
        let mut b1 = [0u8; 36];
        let mut b2: [u8; 36] = kani::any();
        repr.emit(&mut Icmpv4Packet::new_unchecked(&mut b1[..n]), &caps());
        repr.emit(&mut Icmpv4Packet::new_unchecked(&mut b2[..n]), &caps());
        indep!(b1, b2, n);
        let p = Icmpv4Packet::new_checked(&b1[..n]);
        assert!(p.is_ok(), "prop:c06_emitted_packet_passes_new_checked");
        let back = Icmpv4Repr::parse(&p.unwrap(), &caps());
        assert!(back == Ok(repr), "prop:c06_parse_of_emit_is_identity");
        kani::cover!(te, "time exceeded");
        kani::cover!(matches!(back, Ok(Icmpv4Repr::DstUnreachable { reason: Icmpv4DstUnreachable::PortUnreachable, .. })), "port unreachable");
    }

    // regression: DstUnreachable/TimeExceeded emit used not to write the 4 "unused" bytes after the checksum
    // @harness props=C06 cfg=KW tier=q to=300 mem=4 unwind=12 opts=nomem covers=1 funcs=wire::icmpv4::Repr::emit bounds=dst_unreachable_and_time_exceeded;_bytes_4..8
    #[kani::proof]
    pub(crate) fn finding_icmpv4_error_unused_stale() {
        let data: [u8; 8] = kani::any();
        let te: bool = kani::any();
        let repr = icmpv4_error(te, &data[..], 8);
        let mut b1 = [0u8; 36];
        let mut b2: [u8; 36] = kani::any();
        repr.emit(&mut Icmpv4Packet::new_unchecked(&mut b1[..]), &caps());
        repr.emit(&mut Icmpv4Packet::new_unchecked(&mut b2[..]), &caps());
        let k = 4 + any_lt(4);
        kani::cover!(true, "emitted");
        assert!(b1[k] == b2[k], "prop:c06_emit_independent_of_prior_buffer_contents");
    }

    // regression: an error message about a datagram longer than the quoted 8 bytes (what Interface::icmpv4_reply builds:
    // header = the offending datagram's Ipv4Repr, data = its first bytes) is emitted with total_len > bytes present,
    // and Repr::parse used to reject it (Ipv4Packet::new_checked wanted the whole embedded datagram).
    // @harness props=C06 cfg=KW tier=q to=300 mem=4 unwind=12 opts=nomem covers=1 funcs=wire::icmpv4::Repr::emit;wire::icmpv4::Repr::parse bounds=embedded_header_payload_len_9..=1480;_8_quoted_bytes
    #[kani::proof]
    pub(crate) fn finding_icmpv4_error_cut_payload() {
        let data: [u8; 8] = kani::any();
        let te: bool = kani::any();
        let hl: usize = kani::any();
        kani::assume(hl > 8 && hl <= 1480);
        let repr = icmpv4_error(te, &data[..], hl);
        let n = repr.buffer_len();
        let mut b1 = [0u8; 36];
        repr.emit(&mut Icmpv4Packet::new_unchecked(&mut b1[..n]), &caps());
        let p = Icmpv4Packet::new_checked(&b1[..n]);
        kani::cover!(p.is_ok(), "emitted");
        let back = Icmpv4Repr::parse(&p.unwrap(), &caps());
        assert!(back == Ok(repr), "prop:c06_parse_of_emit_is_identity");
    }

    // @harness props=C06 cfg=KW tier=q to=300 mem=4 unwind=20 opts=nomem covers=1 funcs=wire::icmpv4::Repr::parse;wire::icmpv4::Repr::emit bounds=arbitrary_bytes_len_0..=16_(echo_forms)
    #[kani::proof]
    pub(crate) fn reparse_icmpv4() {
        let bytes: [u8; 16] = kani::any();
        let len = any_le(16);
        if let Ok(p) = Icmpv4Packet::new_checked(&bytes[..len]) {
            if let Ok(r) = Icmpv4Repr::parse(&p, &caps()) {
                let mut b = [0u8; 16];
                let n = r.buffer_len();
                assert!(n <= 16, "prop:c06_reparse_of_parsed_is_identity");
                r.emit(&mut Icmpv4Packet::new_unchecked(&mut b[..n]), &caps());
                let back = Icmpv4Repr::parse(&Icmpv4Packet::new_unchecked(&b[..n]), &caps());
                kani::cover!(matches!(r, Icmpv4Repr::EchoRequest { data, .. } if data.len() == 8), "echo request with 8 data bytes");
                assert!(back == Ok(r), "prop:c06_reparse_of_parsed_is_identity");
            }
        }
    }

    // @harness props=C06 cfg=KW tier=t to=600 mem=6 unwind=42 opts=nomem covers=1 funcs=wire::icmpv4::Repr::parse;wire::icmpv4::Repr::emit bounds=arbitrary_bytes_len_36..=40_(error_forms)
    #[kani::proof]
    pub(crate) fn reparse_icmpv4_error() {
        let bytes: [u8; 40] = kani::any();
        let len = 36 + any_le(4);
        kani::assume(bytes[0] == 3 || bytes[0] == 11);
        if let Ok(p) = Icmpv4Packet::new_checked(&bytes[..len]) {
            if let Ok(r) = Icmpv4Repr::parse(&p, &caps()) {
                let mut b = [0u8; 40];
                let n = r.buffer_len();
                assert!(n <= 40, "prop:c06_reparse_of_parsed_is_identity");
                r.emit(&mut Icmpv4Packet::new_unchecked(&mut b[..n]), &caps());
                let back = Icmpv4Repr::parse(&Icmpv4Packet::new_unchecked(&b[..n]), &caps());
                kani::cover!(matches!(r, Icmpv4Repr::TimeExceeded { data, .. } if data.len() == 12), "time exceeded quoting 12 bytes");
                assert!(back == Ok(r), "prop:c06_reparse_of_parsed_is_identity");
            }
        }
    }

    // ------------------------------------------------------------------ ICMPv6
    // Lengths are concrete per harness: a copy of symbolic length into the packet buffer makes CBMC forget the
    // (concrete) message-type byte, and Repr::parse then explores the NDISC/MLD parsers as well (out of memory).

    macro_rules! icmpv6_echo_rt {
        ($reply:expr, $dl:expr) => {{
            const REPLY: bool = $reply;
            const DL: usize = $dl;
            let data: [u8; DL] = kani::any();
            let ident: u16 = kani::any();
            let seq_no: u16 = kani::any();
            let (src, dst) = (any_v6(), any_v6());
            let repr = if REPLY { Icmpv6Repr::EchoReply { ident, seq_no, data: &data[..] } } else { Icmpv6Repr::EchoRequest { ident, seq_no, data: &data[..] } };
            let n = repr.buffer_len();
            assert!(n == 8 + DL, "prop:c06_parse_of_emit_is_identity");
            let mut b1 = [0u8; 16];
            let mut b2: [u8; 16] = kani::any();
            repr.emit(&src, &dst, &mut Icmpv6Packet::new_unchecked(&mut b1[..8 + DL]), &caps());
            repr.emit(&src, &dst, &mut Icmpv6Packet::new_unchecked(&mut b2[..8 + DL]), &caps());
            indep!(b1, b2, 8 + DL);
            let p = Icmpv6Packet::new_checked(&b1[..8 + DL]);
            assert!(p.is_ok(), "prop:c06_emitted_packet_passes_new_checked");
            match Icmpv6Repr::parse(&src, &dst, &p.unwrap(), &caps()) {
                Ok(Icmpv6Repr::EchoReply { ident: i, seq_no: s, data: d }) => {
                    assert!(REPLY && i == ident && s == seq_no, "prop:c06_parse_of_emit_is_identity");
                    same_bytes!(d, data, DL, "prop:c06_parse_of_emit_is_identity");
                }
                Ok(Icmpv6Repr::EchoRequest { ident: i, seq_no: s, data: d }) => {
                    assert!(!REPLY && i == ident && s == seq_no, "prop:c06_parse_of_emit_is_identity");
                    same_bytes!(d, data, DL, "prop:c06_parse_of_emit_is_identity");
                }
                _ => assert!(false, "prop:c06_parse_of_emit_is_identity"),
            }
            kani::cover!(ident == 0xffff && b1[7] == 1, "echo with the largest identifier emitted and parsed back");
        }};
    }

    // @harness props=C06 cfg=KW tier=q to=300 mem=4 unwind=20 opts=nomem covers=1 funcs=wire::icmpv6::Repr::emit;wire::icmpv6::Repr::parse;wire::icmpv6::Repr::buffer_len bounds=echo_request;_8_data_bytes
    #[kani::proof]
    pub(crate) fn rt_icmpv6_echo_request() {
        icmpv6_echo_rt!(false, 8);
    }

    // @harness props=C06 cfg=KW tier=q to=300 mem=4 unwind=20 opts=nomem covers=1 funcs=wire::icmpv6::Repr::emit;wire::icmpv6::Repr::parse;wire::icmpv6::Repr::buffer_len bounds=echo_reply;_no_data
    #[kani::proof]
    pub(crate) fn rt_icmpv6_echo_reply_empty() {
        icmpv6_echo_rt!(true, 0);
    }

    // @harness props=C06 cfg=KW tier=t to=300 mem=4 unwind=20 opts=nomem covers=1 funcs=wire::icmpv6::Repr::emit;wire::icmpv6::Repr::parse bounds=echo_reply;_5_data_bytes
    #[kani::proof]
    pub(crate) fn rt_icmpv6_echo_reply() {
        icmpv6_echo_rt!(true, 5);
    }

    /// KIND: 0 DstUnreachable, 1 PktTooBig, 2 TimeExceeded, 3 ParamProblem; DL quoted payload bytes
    macro_rules! icmpv6_error_rt {
        ($kind:expr, $dl:expr) => {{
            const KIND: u8 = $kind;
            const DL: usize = $dl;
            let data: [u8; DL] = kani::any();
            let (src, dst) = (any_v6(), any_v6());
            // the embedded header's payload_len is an independent 16-bit field (the quoted payload may be cut)
            let header = any_ipv6_repr(65535);
            let code: u8 = kani::any();
            let word: u32 = kani::any();
            let repr = match KIND {
                0 => Icmpv6Repr::DstUnreachable { reason: Icmpv6DstUnreachable::from(code), header, data: &data[..] },
                1 => Icmpv6Repr::PktTooBig { mtu: word, header, data: &data[..] },
                2 => Icmpv6Repr::TimeExceeded { reason: Icmpv6TimeExceeded::from(code), header, data: &data[..] },
                _ => Icmpv6Repr::ParamProblem { reason: Icmpv6ParamProblem::from(code), pointer: word, header, data: &data[..] },
            };
            let n = repr.buffer_len();
            assert!(n == 48 + DL, "prop:c06_parse_of_emit_is_identity");
            let mut b1 = [0u8; 56];
            let mut b2: [u8; 56] = kani::any();
            repr.emit(&src, &dst, &mut Icmpv6Packet::new_unchecked(&mut b1[..48 + DL]), &caps());
            repr.emit(&src, &dst, &mut Icmpv6Packet::new_unchecked(&mut b2[..48 + DL]), &caps());
            indep!(b1, b2, 48 + DL);
            let p = Icmpv6Packet::new_checked(&b1[..48 + DL]);
            assert!(p.is_ok(), "prop:c06_emitted_packet_passes_new_checked");
            let (h, d) = match Icmpv6Repr::parse(&src, &dst, &p.unwrap(), &caps()) {
                Ok(Icmpv6Repr::DstUnreachable { reason, header: h, data: d }) => {
                    assert!(KIND == 0 && reason == Icmpv6DstUnreachable::from(code), "prop:c06_parse_of_emit_is_identity");
                    (h, d)
                }
                Ok(Icmpv6Repr::PktTooBig { mtu, header: h, data: d }) => {
                    assert!(KIND == 1 && mtu == word, "prop:c06_parse_of_emit_is_identity");
                    (h, d)
                }
                Ok(Icmpv6Repr::TimeExceeded { reason, header: h, data: d }) => {
                    assert!(KIND == 2 && reason == Icmpv6TimeExceeded::from(code), "prop:c06_parse_of_emit_is_identity");
                    (h, d)
                }
                Ok(Icmpv6Repr::ParamProblem { reason, pointer, header: h, data: d }) => {
                    assert!(KIND == 3 && reason == Icmpv6ParamProblem::from(code) && pointer == word, "prop:c06_parse_of_emit_is_identity");
                    (h, d)
                }
                _ => {
                    assert!(false, "prop:c06_parse_of_emit_is_identity");
                    return;
                }
            };
            assert!(h == header, "prop:c06_parse_of_emit_is_identity");
            same_bytes!(d, data, DL, "prop:c06_parse_of_emit_is_identity");
            kani::cover!(h.payload_len == 1280 && code == 4, "error about a 1280-byte payload parsed back");
        }};
    }

    // @harness props=C06 cfg=KW tier=q to=300 mem=4 unwind=20 opts=nomem covers=1 funcs=wire::icmpv6::Repr::emit;wire::icmpv6::Repr::parse;wire::icmpv6::Repr::buffer_len bounds=dst_unreachable;_embedded_header_plus_8_bytes
    #[kani::proof]
    pub(crate) fn rt_icmpv6_dst_unreachable() {
        icmpv6_error_rt!(0, 8);
    }

    // @harness props=C06 cfg=KW tier=t to=300 mem=4 unwind=20 opts=nomem covers=1 funcs=wire::icmpv6::Repr::emit;wire::icmpv6::Repr::parse bounds=pkt_too_big;_embedded_header_plus_8_bytes
    #[kani::proof]
    pub(crate) fn rt_icmpv6_pkt_too_big() {
        icmpv6_error_rt!(1, 8);
    }

    // @harness props=C06 cfg=KW tier=t to=300 mem=4 unwind=20 opts=nomem covers=1 funcs=wire::icmpv6::Repr::emit;wire::icmpv6::Repr::parse bounds=time_exceeded;_embedded_header_only
    #[kani::proof]
    pub(crate) fn rt_icmpv6_time_exceeded() {
        icmpv6_error_rt!(2, 0);
    }

    // @harness props=C06 cfg=KW tier=q to=300 mem=4 unwind=20 opts=nomem covers=1 funcs=wire::icmpv6::Repr::emit;wire::icmpv6::Repr::parse bounds=param_problem;_embedded_header_plus_3_bytes
    #[kani::proof]
    pub(crate) fn rt_icmpv6_param_problem() {
        icmpv6_error_rt!(3, 3);
    }

    // regression: DstUnreachable/TimeExceeded emit used not to write the 4 "unused" bytes after the checksum
    // @harness props=C06 cfg=KW tier=q to=300 mem=4 unwind=20 opts=nomem covers=1 funcs=wire::icmpv6::Repr::emit bounds=dst_unreachable;_bytes_4..8
    #[kani::proof]
    pub(crate) fn finding_icmpv6_error_unused_stale() {
        let data: [u8; 8] = kani::any();
        let (src, dst) = (any_v6(), any_v6());
        let repr = Icmpv6Repr::DstUnreachable { reason: Icmpv6DstUnreachable::from(kani::any::<u8>()), header: any_ipv6_repr(65535), data: &data[..] };
        let mut b1 = [0u8; 56];
        let mut b2: [u8; 56] = kani::any();
        repr.emit(&src, &dst, &mut Icmpv6Packet::new_unchecked(&mut b1[..]), &caps());
        repr.emit(&src, &dst, &mut Icmpv6Packet::new_unchecked(&mut b2[..]), &caps());
        let k = 4 + any_lt(4);
        kani::cover!(true, "emitted");
        assert!(b1[k] == b2[k], "prop:c06_emit_independent_of_prior_buffer_contents");
    }

    // @harness props=C06 cfg=KW tier=q to=600 mem=6 unwind=20 opts=nomem covers=1 funcs=wire::icmpv6::Repr::parse;wire::icmpv6::Repr::emit bounds=arbitrary_16_bytes_with_type_echo_request
    #[kani::proof]
    pub(crate) fn reparse_icmpv6_echo() {
        let mut bytes: [u8; 16] = kani::any();
        // concrete message type: a symbolic one sends symbolic execution through the NDISC and MLD parsers
        bytes[0] = 128;
        let (src, dst) = (any_v6(), any_v6());
        if let Ok(p) = Icmpv6Packet::new_checked(&bytes[..]) {
            match Icmpv6Repr::parse(&src, &dst, &p, &caps()) {
                Ok(Icmpv6Repr::EchoRequest { ident, seq_no, data }) => {
                    // rebuilt in place: CBMC loses the discriminant of the large enum when it is moved out of the Result
                    assert!(data.len() == 8, "prop:c06_reparse_of_parsed_is_identity");
                    let data = &data[..8];
                    let r = Icmpv6Repr::EchoRequest { ident, seq_no, data };
                    let mut b = [0u8; 16];
                    assert!(r.buffer_len() == 16, "prop:c06_reparse_of_parsed_is_identity");
                    r.emit(&src, &dst, &mut Icmpv6Packet::new_unchecked(&mut b[..]), &caps());
                    match Icmpv6Repr::parse(&src, &dst, &Icmpv6Packet::new_unchecked(&b[..]), &caps()) {
                        Ok(Icmpv6Repr::EchoRequest { ident: i, seq_no: s, data: d }) => {
                            assert!(ident == i && seq_no == s, "prop:c06_reparse_of_parsed_is_identity");
                            same_bytes!(d, data, 8, "prop:c06_reparse_of_parsed_is_identity");
                            kani::cover!(ident == 7, "echo request re-parsed");
                        }
                        _ => assert!(false, "prop:c06_reparse_of_parsed_is_identity"),
                    }
                }
                Ok(_) => assert!(false, "prop:c06_reparse_of_parsed_is_identity"),
                Err(_) => {}
            }
        }
    }

    // ------------------------------------------------------------------ NDISC (through wire::ndisc::Repr on an ICMPv6 packet)
    // NdiscRepr::emit leaves the checksum (bytes 2..4) to Icmpv6Repr::emit, so those two bytes are excluded here;
    // rt_icmpv6_ndisc_ns_parse_wrapped parses through Icmpv6Repr; rt_icmpv6_mld_query_wrapped checks every byte of an MLD message.
    // Link-layer addresses: 6 bytes (Ethernet) and 8 bytes (IEEE 802.15.4 extended) — the lengths the crate produces.

    fn ll_eth() -> RawHardwareAddress {
        RawHardwareAddress::from(EthernetAddress(kani::any()))
    }
    fn ll_ieee() -> RawHardwareAddress {
        RawHardwareAddress::from(Ieee802154Address::Extended(kani::any()))
    }
    fn any_router_flags() -> NdiscRouterFlags {
        NdiscRouterFlags::from_bits_truncate(kani::any())
    }
    /// A 32-bit wire quantity that the Repr holds as a Duration: 0..=255 symbolic, or one of 1800, 65535,
    /// 2592000 (30 days), 0xffffffff ("infinity").  (Duration stores microseconds; a wider symbolic range puts a
    /// 64-bit multiply/divide pair into the query that CaDiCaL does not finish.)
    fn any_wire_u32() -> u64 {
        match kani::any::<u8>() {
            0 => kani::any::<u8>() as u64,
            1 => 1800,
            2 => 65535,
            3 => 2_592_000,
            _ => u32::MAX as u64,
        }
    }
    /// same for a 16-bit second count
    fn any_wire_u16() -> u64 {
        match kani::any::<u8>() {
            0 => kani::any::<u8>() as u64,
            1 => 1800,
            _ => 65535,
        }
    }
    fn any_prefix_info() -> NdiscPrefixInformation {
        // lifetimes are 32-bit second counts on the wire
        NdiscPrefixInformation {
            prefix_len: kani::any(),
            flags: NdiscPrefixInfoFlags::from_bits_truncate(kani::any()),
            valid_lifetime: Duration::from_secs(any_wire_u32()),
            preferred_lifetime: Duration::from_secs(any_wire_u32()),
            prefix: any_v6(),
        }
    }

    /// emit `$repr` (an NdiscRepr of declared length `$n`) into a zeroed and a garbage buffer and compare
    macro_rules! ndisc_indep {
        ($repr:expr, $n:expr, $k:ident => $keep:expr) => {{
            let repr: NdiscRepr = $repr;
            assert!(repr.buffer_len() == $n, "prop:c06_parse_of_emit_is_identity");
            let mut b1 = [0u8; $n];
            let mut b2: [u8; $n] = kani::any();
            repr.emit(&mut Icmpv6Packet::new_unchecked(&mut b1[..]));
            repr.emit(&mut Icmpv6Packet::new_unchecked(&mut b2[..]));
            indep!(b1, b2, $n, $k => ($k < 2 || $k >= 4) && $keep);
            kani::cover!(b1[$n - 7] != 0, "emitted, a byte of the last option non-zero");
        }};
    }
    /// emit `$repr` into a buffer of its declared length `$n` and parse it back
    macro_rules! ndisc_emit_parse {
        ($repr:expr, $n:expr) => {{
            let repr: NdiscRepr = $repr;
            assert!(repr.buffer_len() == $n, "prop:c06_parse_of_emit_is_identity");
            let mut b1 = [0u8; $n];
            repr.emit(&mut Icmpv6Packet::new_unchecked(&mut b1[..]));
            let p = Icmpv6Packet::new_checked(&b1[..]);
            assert!(p.is_ok(), "prop:c06_emitted_packet_passes_new_checked");
            let p = p.unwrap();
            let back = NdiscRepr::parse(&p);
            assert!(back == Ok(repr), "prop:c06_parse_of_emit_is_identity");
            kani::cover!(back.is_ok() && b1[$n - 7] != 0, "parsed back, a byte of the last option/field non-zero");
        }};
    }
    /// both of the above in one harness (small messages)
    macro_rules! ndisc_tail {
        ($repr:expr, $n:expr, $k:ident => $keep:expr) => {{
            let repr: NdiscRepr = $repr;
            let n = repr.buffer_len();
            assert!(n == $n, "prop:c06_parse_of_emit_is_identity");
            let mut b1 = [0u8; $n];
            let mut b2: [u8; $n] = kani::any();
            repr.emit(&mut Icmpv6Packet::new_unchecked(&mut b1[..]));
            repr.emit(&mut Icmpv6Packet::new_unchecked(&mut b2[..]));
            indep!(b1, b2, $n, $k => ($k < 2 || $k >= 4) && $keep);
            let p = Icmpv6Packet::new_checked(&b1[..]);
            assert!(p.is_ok(), "prop:c06_emitted_packet_passes_new_checked");
            let p = p.unwrap();
            let back = NdiscRepr::parse(&p);
            assert!(back == Ok(repr), "prop:c06_parse_of_emit_is_identity");
            kani::cover!(back.is_ok() && b1[$n - 7] != 0, "parsed back, a byte of the last option/field non-zero");
        }};
    }

    // @harness props=C06 cfg=KW tier=t to=300 mem=4 unwind=20 opts=nomem covers=1 funcs=wire::ndisc::Repr::emit;wire::ndisc::Repr::parse;wire::ndisc::Repr::buffer_len bounds=router_solicit;_ethernet_lladdr
    #[kani::proof]
    pub(crate) fn rt_ndisc_rs_eth() {
        ndisc_tail!(NdiscRepr::RouterSolicit { lladdr: Some(ll_eth()) }, 16, k => true);
    }

    // @harness props=C06 cfg=KW tier=t to=300 mem=4 unwind=20 opts=nomem covers=1 funcs=wire::ndisc::Repr::emit;wire::ndisc::Repr::parse bounds=router_solicit;_802.15.4_lladdr
    #[kani::proof]
    pub(crate) fn rt_ndisc_rs_ieee() {
        ndisc_tail!(NdiscRepr::RouterSolicit { lladdr: Some(ll_ieee()) }, 24, k => true);
    }

    // @harness props=C06 cfg=KW tier=t to=300 mem=4 unwind=20 opts=nomem covers=1 funcs=wire::ndisc::Repr::emit;wire::ndisc::Repr::parse bounds=router_solicit;_no_option
    #[kani::proof]
    pub(crate) fn rt_ndisc_rs_none() {
        let repr = NdiscRepr::RouterSolicit { lladdr: None };
        let mut b1 = [0u8; 8];
        let mut b2: [u8; 8] = kani::any();
        assert!(repr.buffer_len() == 8, "prop:c06_parse_of_emit_is_identity");
        repr.emit(&mut Icmpv6Packet::new_unchecked(&mut b1[..]));
        repr.emit(&mut Icmpv6Packet::new_unchecked(&mut b2[..]));
        indep!(b1, b2, 8, k => k < 2 || k >= 4);
        let p = Icmpv6Packet::new_checked(&b1[..]);
        assert!(p.is_ok(), "prop:c06_emitted_packet_passes_new_checked");
        let back = NdiscRepr::parse(&p.unwrap());
        assert!(back == Ok(repr), "prop:c06_parse_of_emit_is_identity");
        kani::cover!(back.is_ok(), "parsed back");
    }

    // Icmpv6Repr::emit of an Ndisc(..) value copies the inner NdiscRepr out of `*self`, CBMC loses its discriminant and
    // explores every NDISC emitter (out of memory at 10 GB); so only the parse side goes through Icmpv6Repr here
    // (the MLD wrapper, rt_icmpv6_mld_query_wrapped, does both directions).
    // @harness props=C06 cfg=KW tier=q to=300 mem=4 unwind=20 opts=nomem covers=1 funcs=wire::icmpv6::Repr::parse;wire::ndisc::Repr::emit;wire::ndisc::Repr::parse bounds=neighbor_solicit_with_ethernet_lladdr;_emitted_by_NdiscRepr;_parsed_through_Icmpv6Repr
    #[kani::proof]
    pub(crate) fn rt_icmpv6_ndisc_ns_parse_wrapped() {
        let (src, dst) = (any_v6(), any_v6());
        let inner = NdiscRepr::NeighborSolicit { target_addr: any_v6(), lladdr: Some(ll_eth()) };
        let mut b1 = [0u8; 32];
        inner.emit(&mut Icmpv6Packet::new_unchecked(&mut b1[..]));
        let p = Icmpv6Packet::new_checked(&b1[..]);
        assert!(p.is_ok(), "prop:c06_emitted_packet_passes_new_checked");
        match Icmpv6Repr::parse(&src, &dst, &p.unwrap(), &caps()) {
            Ok(Icmpv6Repr::Ndisc(NdiscRepr::NeighborSolicit { target_addr, lladdr })) => {
                assert!(NdiscRepr::NeighborSolicit { target_addr, lladdr } == inner, "prop:c06_parse_of_emit_is_identity");
                kani::cover!(true, "neighbor solicitation parsed back");
            }
            _ => assert!(false, "prop:c06_parse_of_emit_is_identity"),
        }
    }

    // @harness props=C06 cfg=KW tier=q to=300 mem=4 unwind=20 opts=nomem covers=1 funcs=wire::ndisc::Repr::emit;wire::ndisc::Repr::parse;wire::ndisc::Repr::buffer_len;wire::ndiscoption::Repr::emit;wire::ndiscoption::Repr::parse bounds=neighbor_solicit;_ethernet_lladdr
    #[kani::proof]
    pub(crate) fn rt_ndisc_ns_eth() {
        ndisc_tail!(NdiscRepr::NeighborSolicit { target_addr: any_v6(), lladdr: Some(ll_eth()) }, 32, k => true);
    }

    // @harness props=C06 cfg=KW tier=t to=300 mem=4 unwind=20 opts=nomem covers=1 funcs=wire::ndisc::Repr::emit;wire::ndisc::Repr::parse bounds=neighbor_solicit;_802.15.4_lladdr
    #[kani::proof]
    pub(crate) fn rt_ndisc_ns_ieee() {
        ndisc_tail!(NdiscRepr::NeighborSolicit { target_addr: any_v6(), lladdr: Some(ll_ieee()) }, 40, k => true);
    }

    // @harness props=C06 cfg=KW tier=q to=300 mem=4 unwind=20 opts=nomem covers=1 funcs=wire::ndisc::Repr::emit;wire::ndisc::Repr::parse;wire::ndisc::Repr::buffer_len bounds=neighbor_advert;_ethernet_lladdr;_all_flag_values
    #[kani::proof]
    pub(crate) fn rt_ndisc_na_eth() {
        ndisc_tail!(NdiscRepr::NeighborAdvert { flags: NdiscNeighborFlags::from_bits_truncate(kani::any()), target_addr: any_v6(), lladdr: Some(ll_eth()) }, 32, k => true);
    }

    // @harness props=C06 cfg=KW tier=t to=300 mem=4 unwind=20 opts=nomem covers=1 funcs=wire::ndisc::Repr::emit;wire::ndisc::Repr::parse bounds=neighbor_advert;_no_option
    #[kani::proof]
    pub(crate) fn rt_ndisc_na_none() {
        ndisc_tail!(NdiscRepr::NeighborAdvert { flags: NdiscNeighborFlags::from_bits_truncate(kani::any()), target_addr: any_v6(), lladdr: None }, 24, k => true);
    }

    /// Router advertisement header fields in their wire ranges: lifetime = 16-bit seconds, timers = 32-bit milliseconds
    macro_rules! any_ra {
        ($lladdr:expr, $mtu:expr, $prefix:expr) => {
            NdiscRepr::RouterAdvert {
                hop_limit: kani::any(),
                flags: any_router_flags(),
                router_lifetime: Duration::from_secs(any_wire_u16()),
                reachable_time: Duration::from_millis(any_wire_u32()),
                retrans_time: Duration::from_millis(any_wire_u32()),
                lladdr: $lladdr,
                mtu: $mtu,
                prefix_info: $prefix,
            }
        };
    }

    // @harness props=C06 cfg=KW tier=t to=300 mem=4 unwind=20 opts=nomem covers=1 funcs=wire::ndisc::Repr::emit;wire::ndisc::Repr::parse bounds=router_advert;_no_option
    #[kani::proof]
    pub(crate) fn rt_ndisc_ra_none() {
        ndisc_tail!(any_ra!(None, None, None), 16, k => true);
    }

    // @harness props=C06 cfg=KW tier=q to=600 mem=4 unwind=20 opts=nomem covers=1 funcs=wire::ndisc::Repr::emit;wire::ndisc::Repr::parse;wire::ndisc::Repr::buffer_len;wire::ndiscoption::Repr::emit;wire::ndiscoption::Repr::parse bounds=router_advert;_ethernet_lladdr+MTU+prefix_information;_timers_and_lifetimes_0..=255_or_1800|65535|2592000|0xffffffff
    #[kani::proof]
    pub(crate) fn rt_ndisc_ra_all() {
        ndisc_tail!(any_ra!(Some(ll_eth()), Some(kani::any()), Some(any_prefix_info())), 64, k => true);
    }

    // @harness props=C06 cfg=KW tier=t to=600 mem=4 unwind=20 opts=nomem covers=1 funcs=wire::ndisc::Repr::emit;wire::ndisc::Repr::parse bounds=router_advert;_802.15.4_lladdr+prefix_information
    #[kani::proof]
    pub(crate) fn rt_ndisc_ra_ieee_prefix() {
        ndisc_tail!(any_ra!(Some(ll_ieee()), None, Some(any_prefix_info())), 64, k => true);
    }

    // @harness props=C06 cfg=KW tier=t to=300 mem=4 unwind=20 opts=nomem covers=1 funcs=wire::ndisc::Repr::emit;wire::ndisc::Repr::parse bounds=router_advert;_MTU_only
    #[kani::proof]
    pub(crate) fn rt_ndisc_ra_mtu() {
        ndisc_tail!(any_ra!(None, Some(kani::any()), None), 24, k => true);
    }

    // @harness props=C06 cfg=KW tier=t to=1200 mem=8 unwind=20 opts=nomem covers=1 funcs=wire::ndisc::Repr::emit;wire::ndisc::Repr::parse bounds=redirect;_no_option
    #[kani::proof]
    pub(crate) fn rt_ndisc_redirect_none() {
        ndisc_tail!(NdiscRepr::Redirect { target_addr: any_v6(), dest_addr: any_v6(), lladdr: None, redirected_hdr: None }, 40, k => true);
    }

    // Redirect with options.  Repr::emit copies the Option<RedirectedHeader> out of `*self`; CBMC then no longer knows that
    // it is None/Some and explores the redirected-header emitter with a symbolic copy length, after which nothing in the
    // buffer is concrete for the parser (emit+parse in one query: out of memory at 12 GB).  So the round trip is cut at the
    // bytes with a template written from RFC 4861 4.5 / 4.6.1 / 4.6.3: emit(repr) == template(fields) and
    // parse(template(fields)) == repr.

    /// Redirect with both options; the redirected header describes exactly the bytes that follow it (emit copies
    /// data into the embedded packet's payload(), whose length is header.payload_len)
    macro_rules! ndisc_redirect_full {
        ($data:expr) => {{
            let mut header = any_ipv6_repr(8);
            header.payload_len = 8;
            NdiscRepr::Redirect { target_addr: any_v6(), dest_addr: any_v6(), lladdr: Some(ll_eth()), redirected_hdr: Some(NdiscRedirectedHeader { header, data: $data }) }
        }};
    }

    /// RFC 4861 layout of a Redirect carrying a Target Link-Layer Address option (Ethernet) and a Redirected Header option
    /// quoting an IPv6 header + 8 bytes; checksum left zero (Icmpv6Repr::emit's job)
    fn redirect_template(target: &Ipv6Address, dest: &Ipv6Address, ll: &[u8], header: &Ipv6Repr, data: &[u8; 8]) -> [u8; 104] {
        let mut t = [0u8; 104];
        t[0] = 137;
        let (ta, da, sa, ha) = (target.octets(), dest.octets(), header.src_addr.octets(), header.dst_addr.octets());
        let mut i = 0;
        while i < 16 {
            t[8 + i] = ta[i];
            t[24 + i] = da[i];
            t[64 + i] = sa[i];
            t[80 + i] = ha[i];
            i += 1;
        }
        // option 2 (target link-layer address), length 1 x 8 octets
        t[40] = 2;
        t[41] = 1;
        let mut i = 0;
        while i < 6 {
            t[42 + i] = ll[i];
            i += 1;
        }
        // option 4 (redirected header), length 7 x 8 octets, 6 reserved bytes
        t[48] = 4;
        t[49] = 7;
        t[56] = 0x60;
        t[60] = (header.payload_len >> 8) as u8;
        t[61] = header.payload_len as u8;
        t[62] = header.next_header.into();
        t[63] = header.hop_limit;
        let mut i = 0;
        while i < 8 {
            t[96 + i] = data[i];
            i += 1;
        }
        t
    }

    // @harness props=C06 cfg=KW tier=q to=600 mem=6 unwind=20 opts=nomem,fs128 covers=1 funcs=wire::ndisc::Repr::emit;wire::ndisc::Repr::buffer_len;wire::ndiscoption::Repr::emit bounds=redirect;_ethernet_lladdr+redirected_header_with_8_payload_bytes;_emit_equals_RFC_template
    #[kani::proof]
    pub(crate) fn rt_ndisc_redirect_emit_template() {
        let data: [u8; 8] = kani::any();
        let eth = any_eth();
        let (target_addr, dest_addr) = (any_v6(), any_v6());
        let mut header = any_ipv6_repr(8);
        header.payload_len = 8;
        let repr = NdiscRepr::Redirect { target_addr, dest_addr, lladdr: Some(RawHardwareAddress::from(eth)), redirected_hdr: Some(NdiscRedirectedHeader { header, data: &data[..] }) };
        assert!(repr.buffer_len() == 104, "prop:c06_parse_of_emit_is_identity");
        let mut b1 = [0u8; 104];
        repr.emit(&mut Icmpv6Packet::new_unchecked(&mut b1[..]));
        let t = redirect_template(&target_addr, &dest_addr, eth.as_bytes(), &header, &data);
        let k = any_lt(104);
        assert!(b1[k] == t[k], "prop:c06_parse_of_emit_is_identity");
        kani::cover!(b1[103] != 0 && b1[47] != 0, "emitted, last bytes of both options non-zero");
    }

    // @harness props=C06 cfg=KW tier=q to=600 mem=6 unwind=20 opts=nomem,fs128 covers=1 funcs=wire::ndisc::Repr::parse;wire::ndiscoption::Repr::parse;wire::icmpv6::Packet::new_checked bounds=redirect;_ethernet_lladdr+redirected_header_with_8_payload_bytes;_parse_of_RFC_template
    #[kani::proof]
    pub(crate) fn rt_ndisc_redirect_parse_template() {
        let data: [u8; 8] = kani::any();
        let eth = any_eth();
        let (target_addr, dest_addr) = (any_v6(), any_v6());
        let mut header = any_ipv6_repr(8);
        header.payload_len = 8;
        let t = redirect_template(&target_addr, &dest_addr, eth.as_bytes(), &header, &data);
        let p = Icmpv6Packet::new_checked(&t[..]);
        assert!(p.is_ok(), "prop:c06_emitted_packet_passes_new_checked");
        let p = p.unwrap();
        match NdiscRepr::parse(&p) {
            Ok(NdiscRepr::Redirect { target_addr: ta, dest_addr: da, lladdr, redirected_hdr }) => {
                assert!(ta == target_addr && da == dest_addr, "prop:c06_parse_of_emit_is_identity");
                assert!(lladdr == Some(RawHardwareAddress::from(eth)), "prop:c06_parse_of_emit_is_identity");
                match redirected_hdr {
                    Some(NdiscRedirectedHeader { header: h, data: d }) => {
                        assert!(h == header, "prop:c06_parse_of_emit_is_identity");
                        same_bytes!(d, data, 8, "prop:c06_parse_of_emit_is_identity");
                        kani::cover!(h.hop_limit == 64, "redirected header parsed back");
                    }
                    None => assert!(false, "prop:c06_parse_of_emit_is_identity"),
                }
            }
            _ => assert!(false, "prop:c06_parse_of_emit_is_identity"),
        }
    }

    // @harness props=C06 cfg=KW tier=q to=600 mem=6 unwind=20 opts=nomem,fs128 covers=1 funcs=wire::ndisc::Repr::emit;wire::ndiscoption::Repr::emit bounds=redirect;_ethernet_lladdr+redirected_header_with_8_payload_bytes;_stale_buffer_check
    #[kani::proof]
    pub(crate) fn indep_ndisc_redirect_full() {
        let data: [u8; 8] = kani::any();
        ndisc_indep!(ndisc_redirect_full!(&data[..]), 104, k => true);
    }

    // ------------------------------------------------------------------ NDISC options on their own

    macro_rules! ndiscopt_tail {
        ($repr:expr, $n:expr, $k:ident => $keep:expr) => {{
            let repr: NdiscOptionRepr = $repr;
            let n = repr.buffer_len();
            assert!(n == $n, "prop:c06_parse_of_emit_is_identity");
            let mut b1 = [0u8; $n];
            let mut b2: [u8; $n] = kani::any();
            repr.emit(&mut NdiscOption::new_unchecked(&mut b1[..]));
            repr.emit(&mut NdiscOption::new_unchecked(&mut b2[..]));
            indep!(b1, b2, $n, $k => $keep);
            let p = NdiscOption::new_checked(&b1[..]);
            assert!(p.is_ok(), "prop:c06_emitted_packet_passes_new_checked");
            let p = p.unwrap();
            let back = NdiscOptionRepr::parse(&p);
            assert!(back == Ok(repr), "prop:c06_parse_of_emit_is_identity");
            kani::cover!(back.is_ok() && b1[$n - 7] != 0, "parsed back, a byte of the last option/field non-zero");
        }};
    }

    // @harness props=C06 cfg=KW tier=q to=300 mem=4 unwind=20 opts=nomem covers=1 funcs=wire::ndiscoption::Repr::emit;wire::ndiscoption::Repr::parse;wire::ndiscoption::Repr::buffer_len bounds=source_lladdr;_ethernet
    #[kani::proof]
    pub(crate) fn rt_ndiscopt_sll_eth() {
        ndiscopt_tail!(NdiscOptionRepr::SourceLinkLayerAddr(ll_eth()), 8, k => true);
    }

    // @harness props=C06 cfg=KW tier=t to=300 mem=4 unwind=20 opts=nomem covers=1 funcs=wire::ndiscoption::Repr::emit;wire::ndiscoption::Repr::parse bounds=target_lladdr;_802.15.4_extended
    #[kani::proof]
    pub(crate) fn rt_ndiscopt_tll_ieee() {
        ndiscopt_tail!(NdiscOptionRepr::TargetLinkLayerAddr(ll_ieee()), 16, k => true);
    }

    // @harness props=C06 cfg=KW tier=q to=300 mem=4 unwind=20 opts=nomem covers=1 funcs=wire::ndiscoption::Repr::emit;wire::ndiscoption::Repr::parse;wire::ndiscoption::Repr::buffer_len bounds=prefix_information;_lifetimes_0..=255_s_or_1800|65535|2592000|0xffffffff;_all_other_field_values
    #[kani::proof]
    pub(crate) fn rt_ndiscopt_prefix() {
        ndiscopt_tail!(NdiscOptionRepr::PrefixInformation(any_prefix_info()), 32, k => true);
    }

    // @harness props=C06 cfg=KW tier=t to=300 mem=4 unwind=20 opts=nomem covers=1 funcs=wire::ndiscoption::Repr::emit;wire::ndiscoption::Repr::parse bounds=MTU
    #[kani::proof]
    pub(crate) fn rt_ndiscopt_mtu() {
        ndiscopt_tail!(NdiscOptionRepr::Mtu(kani::any()), 8, k => true);
    }

    // @harness props=C06 cfg=KW tier=q to=300 mem=4 unwind=20 opts=nomem covers=1 funcs=wire::ndiscoption::Repr::emit;wire::ndiscoption::Repr::parse;wire::ndiscoption::Repr::buffer_len bounds=redirected_header;_8_payload_bytes
    #[kani::proof]
    pub(crate) fn rt_ndiscopt_redirected() {
        let data: [u8; 8] = kani::any();
        let mut header = any_ipv6_repr(8);
        header.payload_len = 8;
        ndiscopt_tail!(NdiscOptionRepr::RedirectedHeader(NdiscRedirectedHeader { header, data: &data[..] }), 56, k => true);
    }

    // @harness props=C06 cfg=KW tier=t to=300 mem=4 unwind=20 opts=nomem covers=1 funcs=wire::ndiscoption::Repr::emit;wire::ndiscoption::Repr::parse bounds=unknown_option_type;_length_2_(14_data_bytes)
    #[kani::proof]
    pub(crate) fn rt_ndiscopt_unknown() {
        let data: [u8; 14] = kani::any();
        let type_: u8 = kani::any();
        // an Unknown option carries a type the crate does not know, and `length` (units of 8 octets) describes data
        kani::assume(matches!(NdiscOptionType::from(type_), NdiscOptionType::Unknown(_)));
        ndiscopt_tail!(NdiscOptionRepr::Unknown { type_, length: 2, data: &data[..] }, 16, k => true);
    }

    // regression: 8-byte link-layer address: the option is 16 bytes, emit used to write 10 and leave the 6 padding bytes
    // @harness props=C06 cfg=KW tier=q to=300 mem=4 unwind=20 opts=nomem covers=1 funcs=wire::ndiscoption::Repr::emit bounds=lladdr_option_with_802.15.4_address;_bytes_10..16
    #[kani::proof]
    pub(crate) fn finding_ndiscopt_lladdr_padding_stale() {
        let repr = NdiscOptionRepr::SourceLinkLayerAddr(ll_ieee());
        let mut b1 = [0u8; 16];
        let mut b2: [u8; 16] = kani::any();
        repr.emit(&mut NdiscOption::new_unchecked(&mut b1[..]));
        repr.emit(&mut NdiscOption::new_unchecked(&mut b2[..]));
        let k = 10 + any_lt(6);
        kani::cover!(true, "emitted");
        assert!(b1[k] == b2[k], "prop:c06_emit_independent_of_prior_buffer_contents");
    }

    // regression: MTU option: the two reserved bytes used not to be written
    // @harness props=C06 cfg=KW tier=q to=300 mem=4 unwind=20 opts=nomem covers=1 funcs=wire::ndiscoption::Repr::emit bounds=MTU_option;_bytes_2..4
    #[kani::proof]
    pub(crate) fn finding_ndiscopt_mtu_reserved_stale() {
        let repr = NdiscOptionRepr::Mtu(kani::any());
        let mut b1 = [0u8; 8];
        let mut b2: [u8; 8] = kani::any();
        repr.emit(&mut NdiscOption::new_unchecked(&mut b1[..]));
        repr.emit(&mut NdiscOption::new_unchecked(&mut b2[..]));
        let k = 2 + any_lt(2);
        kani::cover!(true, "emitted");
        assert!(b1[k] == b2[k], "prop:c06_emit_independent_of_prior_buffer_contents");
    }

    // regression: redirected header whose length is not a multiple of 8: the padding after the quoted packet used not to be written
    // @harness props=C06 cfg=KW tier=q to=300 mem=4 unwind=20 opts=nomem covers=1 funcs=wire::ndiscoption::Repr::emit bounds=redirected_header_with_4_payload_bytes;_bytes_52..56
    #[kani::proof]
    pub(crate) fn finding_ndiscopt_redirected_padding_stale() {
        let data: [u8; 4] = kani::any();
        let mut header = any_ipv6_repr(4);
        header.payload_len = 4;
        let repr = NdiscOptionRepr::RedirectedHeader(NdiscRedirectedHeader { header, data: &data[..] });
        assert!(repr.buffer_len() == 56, "prop:c06_parse_of_emit_is_identity");
        let mut b1 = [0u8; 56];
        let mut b2: [u8; 56] = kani::any();
        repr.emit(&mut NdiscOption::new_unchecked(&mut b1[..]));
        repr.emit(&mut NdiscOption::new_unchecked(&mut b2[..]));
        let k = 52 + any_lt(4);
        kani::cover!(true, "emitted");
        assert!(b1[k] == b2[k], "prop:c06_emit_independent_of_prior_buffer_contents");
    }

    // ------------------------------------------------------------------ MLD (through wire::mld::Repr on an ICMPv6 packet; checksum bytes 2..4 belong to Icmpv6Repr::emit)

    // @harness props=C06 cfg=KW tier=q to=300 mem=4 unwind=20 opts=nomem covers=1 funcs=wire::mld::Repr::emit;wire::mld::Repr::parse;wire::mld::Repr::buffer_len bounds=query;_one_16-byte_source_address;_qrv_0..=7
    #[kani::proof]
    pub(crate) fn rt_mld_query() {
        let data: [u8; 16] = kani::any();
        let qrv: u8 = kani::any();
        // documented by set_qrv's assertion: a 3-bit field
        kani::assume(qrv < 8);
        let repr = MldRepr::Query { max_resp_code: kani::any(), mcast_addr: any_v6(), s_flag: kani::any(), qrv, qqic: kani::any(), num_srcs: kani::any(), data: &data[..] };
        assert!(repr.buffer_len() == 44, "prop:c06_parse_of_emit_is_identity");
        let mut b1 = [0u8; 44];
        let mut b2: [u8; 44] = kani::any();
        repr.emit(&mut Icmpv6Packet::new_unchecked(&mut b1[..]));
        repr.emit(&mut Icmpv6Packet::new_unchecked(&mut b2[..]));
        indep!(b1, b2, 44, k => k < 2 || k >= 4);
        let p = Icmpv6Packet::new_checked(&b1[..]);
        assert!(p.is_ok(), "prop:c06_emitted_packet_passes_new_checked");
        let p = p.unwrap();
        let back = MldRepr::parse(&p);
        assert!(back == Ok(repr), "prop:c06_parse_of_emit_is_identity");
        kani::cover!(matches!(back, Ok(MldRepr::Query { s_flag: true, qrv: 7, .. })), "query with S flag and QRV 7");
    }

    // @harness props=C06 cfg=KW tier=t to=300 mem=4 unwind=24 opts=nomem covers=1 funcs=wire::mld::Repr::emit;wire::mld::Repr::parse bounds=report_with_raw_record_bytes;_20_bytes
    #[kani::proof]
    pub(crate) fn rt_mld_report() {
        let data: [u8; 20] = kani::any();
        let repr = MldRepr::Report { nr_mcast_addr_rcrds: kani::any(), data: &data[..] };
        assert!(repr.buffer_len() == 28, "prop:c06_parse_of_emit_is_identity");
        let mut b1 = [0u8; 28];
        let mut b2: [u8; 28] = kani::any();
        repr.emit(&mut Icmpv6Packet::new_unchecked(&mut b1[..]));
        repr.emit(&mut Icmpv6Packet::new_unchecked(&mut b2[..]));
        indep!(b1, b2, 28, k => k < 2 || k >= 4);
        let p = Icmpv6Packet::new_checked(&b1[..]);
        assert!(p.is_ok(), "prop:c06_emitted_packet_passes_new_checked");
        let p = p.unwrap();
        let back = MldRepr::parse(&p);
        assert!(back == Ok(repr), "prop:c06_parse_of_emit_is_identity");
        kani::cover!(matches!(back, Ok(MldRepr::Report { nr_mcast_addr_rcrds: 1, .. })), "report parsed back");
    }

    fn any_mld_record<'a>() -> MldAddressRecordRepr<'a> {
        let mcast_addr = any_v6();
        // documented by set_mcast_addr's assertion
        kani::assume(mcast_addr.is_multicast());
        // source lists / auxiliary data are not emitted by AddressRecordRepr (buffer_len is the fixed 20 bytes):
        // records are generated the way AddressRecordRepr::new builds them, with the counters symbolic
        MldAddressRecordRepr { record_type: MldRecordType::from(kani::any::<u8>()), aux_data_len: kani::any(), num_srcs: kani::any(), mcast_addr, payload: &[] }
    }

    // ReportRecordReprs is an emit-only form (parse yields Report); buffer_len() = 8-byte header + 20 per record.
    // @harness props=C06 cfg=KW tier=q to=300 mem=4 unwind=24 opts=nomem covers=1 funcs=wire::mld::Repr::emit;wire::mld::Repr::parse;wire::mld::AddressRecordRepr::emit;wire::mld::AddressRecordRepr::parse bounds=report_built_from_2_address_records
    #[kani::proof]
    pub(crate) fn rt_mld_report_records() {
        let records = [any_mld_record(), any_mld_record()];
        let repr = MldRepr::ReportRecordReprs(&records[..]);
        let n = repr.buffer_len();
        assert!(n == 48 && n == 8 + records[0].buffer_len() + records[1].buffer_len(), "prop:c06_parse_of_emit_is_identity");
        let mut b1 = [0u8; 48];
        let mut b2: [u8; 48] = kani::any();
        repr.emit(&mut Icmpv6Packet::new_unchecked(&mut b1[..]));
        repr.emit(&mut Icmpv6Packet::new_unchecked(&mut b2[..]));
        indep!(b1, b2, 48, k => k < 2 || k >= 4);
        let p = Icmpv6Packet::new_checked(&b1[..]);
        assert!(p.is_ok(), "prop:c06_emitted_packet_passes_new_checked");
        let p = p.unwrap();
        match MldRepr::parse(&p) {
            Ok(MldRepr::Report { nr_mcast_addr_rcrds, data }) => {
                assert!(nr_mcast_addr_rcrds == 2 && data.len() == 40, "prop:c06_parse_of_emit_is_identity");
                let second: bool = kani::any();
                let (off, want) = if second { (20, records[1]) } else { (0, records[0]) };
                let rec = MldAddressRecord::new_checked(&data[off..off + 20]);
                assert!(rec.is_ok(), "prop:c06_emitted_packet_passes_new_checked");
                let got = MldAddressRecordRepr::parse(&rec.unwrap());
                assert!(got == Ok(want), "prop:c06_parse_of_emit_is_identity");
                kani::cover!(second && got.is_ok(), "second record parsed back");
            }
            _ => assert!(false, "prop:c06_parse_of_emit_is_identity"),
        }
    }

    // regression: MldRepr::ReportRecordReprs::buffer_len() used to ignore the records that emit writes, so emit
    // panicked on a buffer of exactly buffer_len() bytes as soon as there was one record
    // @harness props=C06 cfg=KW tier=q to=300 mem=4 unwind=24 opts=nomem covers=1 funcs=wire::mld::Repr::emit;wire::mld::Repr::buffer_len bounds=report_built_from_1_address_record;_buffer_of_buffer_len()_bytes
    #[kani::proof]
    pub(crate) fn finding_mld_report_records_buffer_len() {
        let records = [any_mld_record()];
        let repr = MldRepr::ReportRecordReprs(&records[..]);
        let n = repr.buffer_len();
        kani::cover!(n == 28, "declared length covers the record");
        kani::assume(n <= 28);
        let mut b1 = [0u8; 28];
        // "prop:c06_emit_does_not_panic_on_declared_length": the obligation is the absence of a panic inside emit
        repr.emit(&mut Icmpv6Packet::new_unchecked(&mut b1[..n]));
    }

    // @harness props=C06 cfg=KW tier=q to=300 mem=4 unwind=20 opts=nomem covers=1 funcs=wire::icmpv6::Repr::emit;wire::icmpv6::Repr::parse;wire::mld::Repr::emit;wire::mld::Repr::parse bounds=query_without_sources_through_Icmpv6Repr;_every_byte_compared
    #[kani::proof]
    pub(crate) fn rt_icmpv6_mld_query_wrapped() {
        let (src, dst) = (any_v6(), any_v6());
        let qrv: u8 = kani::any();
        kani::assume(qrv < 8);
        let (max_resp_code, mcast_addr, s_flag, qqic, num_srcs): (u16, Ipv6Address, bool, u8, u16) = (kani::any(), any_v6(), kani::any(), kani::any(), kani::any());
        let inner = MldRepr::Query { max_resp_code, mcast_addr, s_flag, qrv, qqic, num_srcs, data: &[] };
        let repr = Icmpv6Repr::Mld(MldRepr::Query { max_resp_code, mcast_addr, s_flag, qrv, qqic, num_srcs, data: &[] });
        assert!(repr.buffer_len() == 28, "prop:c06_parse_of_emit_is_identity");
        let mut b1 = [0u8; 28];
        let mut b2: [u8; 28] = kani::any();
        repr.emit(&src, &dst, &mut Icmpv6Packet::new_unchecked(&mut b1[..]), &caps());
        repr.emit(&src, &dst, &mut Icmpv6Packet::new_unchecked(&mut b2[..]), &caps());
        indep!(b1, b2, 28);
        let p = Icmpv6Packet::new_checked(&b1[..]);
        assert!(p.is_ok(), "prop:c06_emitted_packet_passes_new_checked");
        match Icmpv6Repr::parse(&src, &dst, &p.unwrap(), &caps()) {
            Ok(Icmpv6Repr::Mld(back)) => {
                assert!(back == inner, "prop:c06_parse_of_emit_is_identity");
                kani::cover!(true, "query parsed back");
            }
            _ => assert!(false, "prop:c06_parse_of_emit_is_identity"),
        }
    }

    // ------------------------------------------------------------------ IPv6 extension headers and options

    // Ipv6ExtHeaderRepr::emit writes the two fixed bytes (header_len() == 2); the body is written by the specific
    // header Repr through payload_mut(), which the harness does with `data` as Interface does.
    macro_rules! ipv6_ext_header_rt {
        ($length:expr) => {{
            const L: usize = $length;
            let data: [u8; L * 8 + 6] = kani::any();
            let repr = Ipv6ExtHeaderRepr { next_header: any_proto(), length: L as u8, data: &data[..] };
            assert!(repr.header_len() == 2, "prop:c06_parse_of_emit_is_identity");
            let mut b1 = [0u8; L * 8 + 8];
            let mut b2: [u8; L * 8 + 8] = kani::any();
            repr.emit(&mut Ipv6ExtHeader::new_unchecked(&mut b1[..]));
            repr.emit(&mut Ipv6ExtHeader::new_unchecked(&mut b2[..]));
            indep!(b1, b2, 2);
            Ipv6ExtHeader::new_unchecked(&mut b1[..]).payload_mut().copy_from_slice(&data[..]);
            let h = Ipv6ExtHeader::new_checked(&b1[..]);
            assert!(h.is_ok(), "prop:c06_emitted_packet_passes_new_checked");
            let h = h.unwrap();
            match Ipv6ExtHeaderRepr::parse(&h) {
                Ok(back) => {
                    assert!(back.next_header == repr.next_header && back.length == repr.length, "prop:c06_parse_of_emit_is_identity");
                    same_bytes!(back.data, data, L * 8 + 6, "prop:c06_parse_of_emit_is_identity");
                    kani::cover!(back.next_header == IpProtocol::Icmpv6, "header followed by ICMPv6");
                }
                Err(_) => assert!(false, "prop:c06_parse_of_emit_is_identity"),
            }
        }};
    }

    // @harness props=C06 cfg=KW tier=q to=300 mem=4 unwind=20 opts=nomem covers=1 funcs=wire::ipv6ext_header::Repr::emit;wire::ipv6ext_header::Repr::parse;wire::ipv6ext_header::Repr::header_len bounds=length_0_(8-byte_header)
    #[kani::proof]
    pub(crate) fn rt_ipv6_ext_header() {
        ipv6_ext_header_rt!(0);
    }

    // @harness props=C06 cfg=KW tier=t to=300 mem=4 unwind=20 opts=nomem covers=1 funcs=wire::ipv6ext_header::Repr::emit;wire::ipv6ext_header::Repr::parse bounds=length_1_(16-byte_header)
    #[kani::proof]
    pub(crate) fn rt_ipv6_ext_header_16() {
        ipv6_ext_header_rt!(1);
    }

    /// an option type the crate has no variant for (Type::Rpl is parsed as Unknown without proto-rpl)
    fn any_unknown_opt_type() -> Ipv6OptionType {
        let t = Ipv6OptionType::from(kani::any::<u8>());
        kani::assume(!matches!(t, Ipv6OptionType::Pad1 | Ipv6OptionType::PadN | Ipv6OptionType::RouterAlert));
        t
    }

    // @harness props=C06 cfg=KW tier=q to=300 mem=4 unwind=12 opts=nomem covers=2 funcs=wire::ipv6option::Repr::emit;wire::ipv6option::Repr::parse;wire::ipv6option::Repr::buffer_len bounds=Pad1;_PadN_0..=4;_RouterAlert_any_value
    #[kani::proof]
    pub(crate) fn rt_ipv6_option_small() {
        let which: u8 = kani::any();
        let padn = any_le(4) as u8;
        let repr = match which {
            0 => Ipv6OptionRepr::Pad1,
            1 => Ipv6OptionRepr::PadN(padn),
            _ => Ipv6OptionRepr::RouterAlert(Ipv6OptionRouterAlert::from(kani::any::<u16>())),
        };
        let n = repr.buffer_len();
        let mut b1 = [0u8; 6];
        let mut b2: [u8; 6] = kani::any();
        repr.emit(&mut Ipv6Option::new_unchecked(&mut b1[..n]));
        repr.emit(&mut Ipv6Option::new_unchecked(&mut b2[..n]));
        indep!(b1, b2, n);
        let o = Ipv6Option::new_checked(&b1[..n]);
        assert!(o.is_ok(), "prop:c06_emitted_packet_passes_new_checked");
        let back = Ipv6OptionRepr::parse(&o.unwrap());
        assert!(back == Ok(repr), "prop:c06_parse_of_emit_is_identity");
        kani::cover!(matches!(back, Ok(Ipv6OptionRepr::PadN(4))), "PadN(4)");
        kani::cover!(matches!(back, Ok(Ipv6OptionRepr::RouterAlert(Ipv6OptionRouterAlert::Unknown(_)))), "router alert with an unassigned value");
    }

    // @harness props=C06 cfg=KW tier=t to=300 mem=4 unwind=12 opts=nomem covers=1 funcs=wire::ipv6option::Repr::emit;wire::ipv6option::Repr::parse bounds=Unknown_option_with_4_data_bytes
    #[kani::proof]
    pub(crate) fn rt_ipv6_option_unknown() {
        let data: [u8; 4] = kani::any();
        // `length` is the number of data bytes
        let repr = Ipv6OptionRepr::Unknown { type_: any_unknown_opt_type(), length: 4, data: &data[..] };
        assert!(repr.buffer_len() == 6, "prop:c06_parse_of_emit_is_identity");
        let mut b1 = [0u8; 6];
        let mut b2: [u8; 6] = kani::any();
        repr.emit(&mut Ipv6Option::new_unchecked(&mut b1[..]));
        repr.emit(&mut Ipv6Option::new_unchecked(&mut b2[..]));
        indep!(b1, b2, 6);
        let o = Ipv6Option::new_checked(&b1[..]);
        assert!(o.is_ok(), "prop:c06_emitted_packet_passes_new_checked");
        let back = Ipv6OptionRepr::parse(&o.unwrap());
        assert!(back == Ok(repr), "prop:c06_parse_of_emit_is_identity");
        kani::cover!(matches!(back, Ok(Ipv6OptionRepr::Unknown { type_: Ipv6OptionType::Rpl, .. })), "RPL option kept as Unknown");
    }

    // @harness props=C06 cfg=KW tier=q to=300 mem=4 unwind=12 opts=nomem covers=1 funcs=wire::ipv6hbh::Repr::emit;wire::ipv6hbh::Repr::parse;wire::ipv6hbh::Repr::buffer_len bounds=RouterAlert+PadN(0)_(the_MLDv2_report_header)
    #[kani::proof]
    pub(crate) fn rt_ipv6_hbh_mld() {
        let mut options = heapless::Vec::new();
        let ra = Ipv6OptionRepr::RouterAlert(Ipv6OptionRouterAlert::from(kani::any::<u16>()));
        options.push(ra).unwrap();
        options.push(Ipv6OptionRepr::PadN(0)).unwrap();
        let repr = Ipv6HopByHopRepr { options };
        assert!(repr.buffer_len() == 6, "prop:c06_parse_of_emit_is_identity");
        let mut b1 = [0u8; 6];
        let mut b2: [u8; 6] = kani::any();
        repr.emit(&mut Ipv6HopByHopHeader::new_unchecked(&mut b1[..]));
        repr.emit(&mut Ipv6HopByHopHeader::new_unchecked(&mut b2[..]));
        indep!(b1, b2, 6);
        let h = Ipv6HopByHopHeader::new_checked(&b1[..]);
        assert!(h.is_ok(), "prop:c06_emitted_packet_passes_new_checked");
        let h = h.unwrap();
        match Ipv6HopByHopRepr::parse(&h) {
            Ok(back) => {
                assert!(back.options.len() == 2 && back.options[0] == ra && back.options[1] == Ipv6OptionRepr::PadN(0), "prop:c06_parse_of_emit_is_identity");
                kani::cover!(true, "two options parsed back");
            }
            Err(_) => assert!(false, "prop:c06_parse_of_emit_is_identity"),
        }
    }

    // @harness props=C06 cfg=KW tier=q to=600 mem=4 unwind=12 opts=nomem covers=1 funcs=wire::ipv6hbh::Repr::emit;wire::ipv6hbh::Repr::parse;wire::ipv6hbh::Repr::buffer_len;wire::ipv6option::Repr::emit;wire::ipv6option::Repr::parse bounds=4_options_(the_configured_maximum):_Pad1;_PadN(4);_RouterAlert;_Unknown_with_4_data_bytes
    #[kani::proof]
    pub(crate) fn rt_ipv6_hbh_max() {
        let data: [u8; 4] = kani::any();
        let mut options = heapless::Vec::new();
        let ra = Ipv6OptionRepr::RouterAlert(Ipv6OptionRouterAlert::from(kani::any::<u16>()));
        let unk = Ipv6OptionRepr::Unknown { type_: any_unknown_opt_type(), length: 4, data: &data[..] };
        options.push(Ipv6OptionRepr::Pad1).unwrap();
        options.push(Ipv6OptionRepr::PadN(4)).unwrap();
        options.push(ra).unwrap();
        options.push(unk).unwrap();
        let repr = Ipv6HopByHopRepr { options };
        assert!(repr.buffer_len() == 17, "prop:c06_parse_of_emit_is_identity");
        let mut b1 = [0u8; 17];
        let mut b2: [u8; 17] = kani::any();
        repr.emit(&mut Ipv6HopByHopHeader::new_unchecked(&mut b1[..]));
        repr.emit(&mut Ipv6HopByHopHeader::new_unchecked(&mut b2[..]));
        indep!(b1, b2, 17);
        let h = Ipv6HopByHopHeader::new_checked(&b1[..]);
        assert!(h.is_ok(), "prop:c06_emitted_packet_passes_new_checked");
        let h = h.unwrap();
        match Ipv6HopByHopRepr::parse(&h) {
            Ok(back) => {
                assert!(back.options.len() == 4, "prop:c06_parse_of_emit_is_identity");
                assert!(back.options[0] == Ipv6OptionRepr::Pad1 && back.options[1] == Ipv6OptionRepr::PadN(4), "prop:c06_parse_of_emit_is_identity");
                assert!(back.options[2] == ra && back.options[3] == unk, "prop:c06_parse_of_emit_is_identity");
                kani::cover!(true, "four options parsed back");
            }
            Err(_) => assert!(false, "prop:c06_parse_of_emit_is_identity"),
        }
    }

    // @harness props=C06 cfg=KW tier=q to=300 mem=4 unwind=20 opts=nomem covers=1 funcs=wire::ipv6routing::Repr::emit;wire::ipv6routing::Repr::parse;wire::ipv6routing::Repr::buffer_len bounds=Type2;_all_field_values
    #[kani::proof]
    pub(crate) fn rt_ipv6_routing_type2() {
        let repr = Ipv6RoutingRepr::Type2 { segments_left: kani::any(), home_address: any_v6() };
        assert!(repr.buffer_len() == 22, "prop:c06_parse_of_emit_is_identity");
        let mut b1 = [0u8; 22];
        let mut b2: [u8; 22] = kani::any();
        repr.emit(&mut Ipv6RoutingHeader::new_unchecked(&mut b1[..]));
        repr.emit(&mut Ipv6RoutingHeader::new_unchecked(&mut b2[..]));
        indep!(b1, b2, 22);
        let h = Ipv6RoutingHeader::new_checked(&b1[..]);
        assert!(h.is_ok(), "prop:c06_emitted_packet_passes_new_checked");
        let h = h.unwrap();
        let back = Ipv6RoutingRepr::parse(&h);
        assert!(back == Ok(repr), "prop:c06_parse_of_emit_is_identity");
        kani::cover!(matches!(back, Ok(Ipv6RoutingRepr::Type2 { segments_left: 1, .. })), "one segment left");
    }

    // @harness props=C06 cfg=KW tier=t to=300 mem=4 unwind=20 opts=nomem covers=1 funcs=wire::ipv6routing::Repr::emit;wire::ipv6routing::Repr::parse bounds=Rpl_source_route;_16_address_bytes;_4-bit_cmpr_and_pad_fields
    #[kani::proof]
    pub(crate) fn rt_ipv6_routing_rpl() {
        let addresses: [u8; 16] = kani::any();
        let (cmpr_i, cmpr_e, pad): (u8, u8, u8) = (kani::any(), kani::any(), kani::any());
        // RFC 6554: CmprI, CmprE and Pad are 4-bit fields
        kani::assume(cmpr_i < 16 && cmpr_e < 16 && pad < 16);
        let repr = Ipv6RoutingRepr::Rpl { segments_left: kani::any(), cmpr_i, cmpr_e, pad, addresses: &addresses[..] };
        assert!(repr.buffer_len() == 22, "prop:c06_parse_of_emit_is_identity");
        let mut b1 = [0u8; 22];
        let mut b2: [u8; 22] = kani::any();
        repr.emit(&mut Ipv6RoutingHeader::new_unchecked(&mut b1[..]));
        repr.emit(&mut Ipv6RoutingHeader::new_unchecked(&mut b2[..]));
        indep!(b1, b2, 22);
        let h = Ipv6RoutingHeader::new_checked(&b1[..]);
        assert!(h.is_ok(), "prop:c06_emitted_packet_passes_new_checked");
        let h = h.unwrap();
        let back = Ipv6RoutingRepr::parse(&h);
        assert!(back == Ok(repr), "prop:c06_parse_of_emit_is_identity");
        kani::cover!(matches!(back, Ok(Ipv6RoutingRepr::Rpl { cmpr_i: 15, cmpr_e: 14, pad: 5, .. })), "compressed source route");
    }

    // @harness props=C06 cfg=KW tier=q to=300 mem=4 unwind=8 opts=nomem covers=1 funcs=wire::ipv6fragment::Repr::emit;wire::ipv6fragment::Repr::parse;wire::ipv6fragment::Repr::buffer_len bounds=13-bit_offset;_all_other_field_values
    #[kani::proof]
    pub(crate) fn rt_ipv6_fragment() {
        let frag_offset: u16 = kani::any();
        // the fragment offset is a 13-bit field (in 8-octet units)
        kani::assume(frag_offset < (1 << 13));
        let repr = Ipv6FragmentRepr { frag_offset, more_frags: kani::any(), ident: kani::any() };
        assert!(repr.buffer_len() == 6, "prop:c06_parse_of_emit_is_identity");
        let mut b1 = [0u8; 6];
        let mut b2: [u8; 6] = kani::any();
        repr.emit(&mut Ipv6FragmentHeader::new_unchecked(&mut b1[..]));
        repr.emit(&mut Ipv6FragmentHeader::new_unchecked(&mut b2[..]));
        indep!(b1, b2, 6);
        let h = Ipv6FragmentHeader::new_checked(&b1[..]);
        assert!(h.is_ok(), "prop:c06_emitted_packet_passes_new_checked");
        let back = Ipv6FragmentRepr::parse(&h.unwrap());
        assert!(back == Ok(repr), "prop:c06_parse_of_emit_is_identity");
        kani::cover!(matches!(back, Ok(Ipv6FragmentRepr { frag_offset: 0x1fff, more_frags: true, .. })), "largest offset with M flag");
    }


    // ------------------------------------------------------------------ TCP

    const fn tcp_hlen(mss: bool, ws: bool, sackperm: bool, nsack: usize, ts: bool) -> usize {
        let mut l = 20;
        if mss { l += 4; }
        if ws { l += 3; }
        if sackperm { l += 2; }
        if nsack > 0 { l += 2 + 8 * nsack; }
        if ts { l += 10; }
        (l + 3) / 4 * 4
    }

    /// One option shape per instantiation; every field value symbolic.  Documented validity of a TcpRepr:
    /// ports non-zero (parse: "Source and destination ports must be present"), window_scale <= 14 (RFC 1323, parse
    /// clamps), SACK ranges only on segments that carry an ACK and not SACK-permitted (emit's condition), ranges
    /// filled from the front (emit compacts them), options fit the 40 option bytes.
    macro_rules! tcp_rt {
        (mss=$mss:expr, ws=$ws:expr, sackperm=$sp:expr, sack=$ns:expr, ts=$ts:expr, pl=$pl:expr) => {{
            const PL: usize = $pl;
            const H: usize = tcp_hlen($mss, $ws, $sp, $ns, $ts);
            const N: usize = H + PL;
            let payload: [u8; PL] = kani::any();
            let control = match kani::any::<u8>() {
                0 => TcpControl::None,
                1 => TcpControl::Psh,
                2 => TcpControl::Syn,
                3 => TcpControl::Fin,
                _ => TcpControl::Rst,
            };
            let src_port: u16 = kani::any();
            let dst_port: u16 = kani::any();
            kani::assume(src_port != 0 && dst_port != 0);
            let wsv: u8 = kani::any();
            kani::assume(wsv <= 14);
            let ack_number = if $ns > 0 || kani::any() { Some(TcpSeqNumber(kani::any())) } else { None };
            let sack_ranges = [
                if $ns >= 1 { Some((kani::any::<u32>(), kani::any::<u32>())) } else { None },
                if $ns >= 2 { Some((kani::any::<u32>(), kani::any::<u32>())) } else { None },
                if $ns >= 3 { Some((kani::any::<u32>(), kani::any::<u32>())) } else { None },
            ];
            let repr = TcpRepr {
                src_port,
                dst_port,
                control,
                seq_number: TcpSeqNumber(kani::any()),
                ack_number,
                window_len: kani::any(),
                window_scale: if $ws { Some(wsv) } else { None },
                max_seg_size: if $mss { Some(kani::any()) } else { None },
                sack_permitted: $sp,
                sack_ranges,
                timestamp: if $ts { Some(TcpTimestampRepr::new(kani::any(), kani::any())) } else { None },
                payload: &payload[..],
            };
            // the addresses only feed the checksum (ignored here)
            let (src, dst) = (IpAddress::Ipv4(any_v4()), IpAddress::Ipv4(any_v4()));
            assert!(repr.header_len() == H && repr.buffer_len() == N, "prop:c06_parse_of_emit_is_identity");
            let mut b1 = [0u8; N];
            let mut b2: [u8; N] = kani::any();
            repr.emit(&mut TcpPacket::new_unchecked(&mut b1[..]), &src, &dst, &caps());
            repr.emit(&mut TcpPacket::new_unchecked(&mut b2[..]), &src, &dst, &caps());
            indep!(b1, b2, N);
            let p = TcpPacket::new_checked(&b1[..]);
            assert!(p.is_ok(), "prop:c06_emitted_packet_passes_new_checked");
            let p = p.unwrap();
            match TcpRepr::parse(&p, &src, &dst, &caps()) {
                Ok(back) => {
                    assert!(back.src_port == repr.src_port && back.dst_port == repr.dst_port, "prop:c06_parse_of_emit_is_identity");
                    assert!(back.control == repr.control && back.seq_number == repr.seq_number && back.ack_number == repr.ack_number, "prop:c06_parse_of_emit_is_identity");
                    assert!(back.window_len == repr.window_len && back.window_scale == repr.window_scale, "prop:c06_parse_of_emit_is_identity");
                    assert!(back.max_seg_size == repr.max_seg_size && back.sack_permitted == repr.sack_permitted, "prop:c06_parse_of_emit_is_identity");
                    assert!(back.timestamp == repr.timestamp, "prop:c06_parse_of_emit_is_identity");
                    assert!(back.sack_ranges[0] == repr.sack_ranges[0] && back.sack_ranges[1] == repr.sack_ranges[1] && back.sack_ranges[2] == repr.sack_ranges[2], "prop:c06_parse_of_emit_is_identity");
                    same_bytes!(back.payload, payload, PL, "prop:c06_parse_of_emit_is_identity");
                    kani::cover!(back.control == TcpControl::Fin && back.window_len == 0xffff, "FIN segment with the largest window parsed back");
                }
                Err(_) => assert!(false, "prop:c06_parse_of_emit_is_identity"),
            }
        }};
    }

    // @harness props=C06 cfg=KW tier=q to=900 mem=6 unwind=7 opts=nomem covers=1 funcs=wire::tcp::Repr::emit;wire::tcp::Repr::parse;wire::tcp::Repr::buffer_len;wire::tcp::Repr::header_len bounds=no_options;_ACK_present_or_absent;_6_payload_bytes
    #[kani::proof]
    pub(crate) fn rt_tcp_plain() {
        tcp_rt!(mss = false, ws = false, sackperm = false, sack = 0, ts = false, pl = 6);
    }

    // @harness props=C06 cfg=KW tier=q to=900 mem=6 unwind=7 opts=nomem covers=1 funcs=wire::tcp::Repr::emit;wire::tcp::Repr::parse;wire::tcp::TcpOption::emit;wire::tcp::TcpOption::parse bounds=MSS+WS+SACK-permitted+timestamp;_4_payload_bytes
    #[kani::proof]
    pub(crate) fn rt_tcp_syn_all() {
        tcp_rt!(mss = true, ws = true, sackperm = true, sack = 0, ts = true, pl = 4);
    }

    // @harness props=C06 cfg=KW tier=q to=900 mem=6 unwind=7 opts=nomem covers=1 funcs=wire::tcp::Repr::emit;wire::tcp::Repr::parse;wire::tcp::TcpOption::emit;wire::tcp::TcpOption::parse bounds=MSS+WS+SACK-permitted_without_timestamps_(the_SYN_the_stack_sends_by_default:_9_option_octets,_3_padding_octets);_4_payload_bytes
    #[kani::proof]
    pub(crate) fn rt_tcp_syn_nots() {
        tcp_rt!(mss = true, ws = true, sackperm = true, sack = 0, ts = false, pl = 4);
    }

    // @harness props=C06 cfg=KW tier=q to=900 mem=6 unwind=7 opts=nomem covers=1 funcs=wire::tcp::Repr::emit;wire::tcp::Repr::parse;wire::tcp::TcpOption::emit;wire::tcp::TcpOption::parse bounds=3_SACK_blocks+timestamp;_6_payload_bytes
    #[kani::proof]
    pub(crate) fn rt_tcp_sack3_ts() {
        tcp_rt!(mss = false, ws = false, sackperm = false, sack = 3, ts = true, pl = 6);
    }

    // @harness props=C06 cfg=KW tier=t to=900 mem=6 unwind=7 opts=nomem covers=1 funcs=wire::tcp::Repr::emit;wire::tcp::Repr::parse bounds=MSS_only;_6_payload_bytes
    #[kani::proof]
    pub(crate) fn rt_tcp_mss() {
        tcp_rt!(mss = true, ws = false, sackperm = false, sack = 0, ts = false, pl = 6);
    }

    // @harness props=C06 cfg=KW tier=t to=900 mem=6 unwind=7 opts=nomem covers=1 funcs=wire::tcp::Repr::emit;wire::tcp::Repr::parse bounds=window_scale_only_(1_padding_byte);_6_payload_bytes
    #[kani::proof]
    pub(crate) fn rt_tcp_ws() {
        tcp_rt!(mss = false, ws = true, sackperm = false, sack = 0, ts = false, pl = 6);
    }

    // @harness props=C06 cfg=KW tier=q to=900 mem=6 unwind=7 opts=nomem covers=1 funcs=wire::tcp::Repr::emit;wire::tcp::Repr::parse bounds=SACK-permitted_only;_no_payload
    #[kani::proof]
    pub(crate) fn rt_tcp_sackperm() {
        tcp_rt!(mss = false, ws = false, sackperm = true, sack = 0, ts = false, pl = 0);
    }

    // @harness props=C06 cfg=KW tier=t to=900 mem=6 unwind=7 opts=nomem covers=1 funcs=wire::tcp::Repr::emit;wire::tcp::Repr::parse bounds=timestamp_only;_6_payload_bytes
    #[kani::proof]
    pub(crate) fn rt_tcp_ts() {
        tcp_rt!(mss = false, ws = false, sackperm = false, sack = 0, ts = true, pl = 6);
    }

    // @harness props=C06 cfg=KW tier=t to=900 mem=6 unwind=7 opts=nomem covers=1 funcs=wire::tcp::Repr::emit;wire::tcp::Repr::parse bounds=MSS+WS+timestamp;_6_payload_bytes
    #[kani::proof]
    pub(crate) fn rt_tcp_mss_ws_ts() {
        tcp_rt!(mss = true, ws = true, sackperm = false, sack = 0, ts = true, pl = 6);
    }

    // @harness props=C06 cfg=KW tier=t to=900 mem=6 unwind=7 opts=nomem covers=1 funcs=wire::tcp::Repr::emit;wire::tcp::Repr::parse bounds=1_SACK_block;_6_payload_bytes
    #[kani::proof]
    pub(crate) fn rt_tcp_sack1() {
        tcp_rt!(mss = false, ws = false, sackperm = false, sack = 1, ts = false, pl = 6);
    }

    // @harness props=C06 cfg=KW tier=t to=900 mem=6 unwind=7 opts=nomem covers=1 funcs=wire::tcp::Repr::emit;wire::tcp::Repr::parse bounds=1_SACK_block+timestamp;_6_payload_bytes
    #[kani::proof]
    pub(crate) fn rt_tcp_sack1_ts() {
        tcp_rt!(mss = false, ws = false, sackperm = false, sack = 1, ts = true, pl = 6);
    }

    // @harness props=C06 cfg=KW tier=t to=900 mem=6 unwind=7 opts=nomem covers=1 funcs=wire::tcp::Repr::emit;wire::tcp::Repr::parse bounds=2_SACK_blocks;_6_payload_bytes
    #[kani::proof]
    pub(crate) fn rt_tcp_sack2() {
        tcp_rt!(mss = false, ws = false, sackperm = false, sack = 2, ts = false, pl = 6);
    }

    // @harness props=C06 cfg=KW tier=t to=900 mem=6 unwind=7 opts=nomem covers=1 funcs=wire::tcp::Repr::emit;wire::tcp::Repr::parse bounds=3_SACK_blocks;_6_payload_bytes
    #[kani::proof]
    pub(crate) fn rt_tcp_sack3() {
        tcp_rt!(mss = false, ws = false, sackperm = false, sack = 3, ts = false, pl = 6);
    }

    // @harness props=C06 cfg=KW tier=t to=900 mem=6 unwind=7 opts=nomem covers=1 funcs=wire::tcp::Repr::emit;wire::tcp::Repr::parse bounds=MSS+3_SACK_blocks+timestamp_(all_40_option_bytes);_4_payload_bytes
    #[kani::proof]
    pub(crate) fn rt_tcp_mss_sack3_ts() {
        tcp_rt!(mss = true, ws = false, sackperm = false, sack = 3, ts = true, pl = 4);
    }

    /// arbitrary segment bytes with a concrete data offset (OPT option bytes) and PL payload bytes
    macro_rules! tcp_reparse {
        ($opt:expr, $pl:expr) => {{
            const N: usize = 20 + $opt + $pl;
            let mut bytes: [u8; N] = kani::any();
            // the whole byte is concrete (reserved bits and NS flag zero): CBMC does not fold `((x & 0x0f) | 0x50) >> 4`,
            // and a symbolic header length unrolls every option loop
            bytes[12] = (((20 + $opt) / 4) as u8) << 4;
            let src = IpAddress::Ipv4(any_v4());
            let dst = IpAddress::Ipv4(any_v4());
            if let Ok(p) = TcpPacket::new_checked(&bytes[..]) {
                if let Ok(r) = TcpRepr::parse(&p, &src, &dst, &caps()) {
                    // same proviso as tcp_rt: SACK ranges and SACK-permitted do not occur together, ranges need an ACK
                    let has_sack = r.sack_ranges[0].is_some();
                    kani::assume(!has_sack || (r.ack_number.is_some() && !r.sack_permitted));
                    let n = r.buffer_len();
                    assert!(n <= N, "prop:c06_reparse_of_parsed_is_identity");
                    let mut b = [0u8; N];
                    r.emit(&mut TcpPacket::new_unchecked(&mut b[..n]), &src, &dst, &caps());
                    match TcpRepr::parse(&TcpPacket::new_unchecked(&b[..n]), &src, &dst, &caps()) {
                        Ok(back) => {
                            assert!(back.src_port == r.src_port && back.dst_port == r.dst_port, "prop:c06_reparse_of_parsed_is_identity");
                            assert!(back.control == r.control && back.seq_number == r.seq_number && back.ack_number == r.ack_number, "prop:c06_reparse_of_parsed_is_identity");
                            assert!(back.window_len == r.window_len && back.window_scale == r.window_scale, "prop:c06_reparse_of_parsed_is_identity");
                            assert!(back.max_seg_size == r.max_seg_size && back.sack_permitted == r.sack_permitted, "prop:c06_reparse_of_parsed_is_identity");
                            assert!(back.timestamp == r.timestamp, "prop:c06_reparse_of_parsed_is_identity");
                            assert!(back.sack_ranges[0] == r.sack_ranges[0] && back.sack_ranges[1] == r.sack_ranges[1] && back.sack_ranges[2] == r.sack_ranges[2], "prop:c06_reparse_of_parsed_is_identity");
                            same_bytes!(back.payload, r.payload, $pl, "prop:c06_reparse_of_parsed_is_identity");
                            kani::cover!(r.control == TcpControl::Syn && (r.max_seg_size.is_some() || $opt == 0), "parsed a SYN (with an MSS option when there is room for one)");
                        }
                        Err(_) => assert!(false, "prop:c06_reparse_of_parsed_is_identity"),
                    }
                }
            }
        }};
    }

    // @harness props=C06 cfg=KW tier=q to=900 mem=8 unwind=7 opts=nomem covers=1 funcs=wire::tcp::Repr::parse;wire::tcp::Repr::emit bounds=arbitrary_24_bytes_(data-offset_byte_fixed_to_0x50):_header_without_options;_4_payload_bytes
    #[kani::proof]
    pub(crate) fn reparse_tcp() {
        tcp_reparse!(0, 4);
    }

    // @harness props=C06 cfg=KW tier=t to=1800 mem=16 unwind=7 opts=nomem covers=1 funcs=wire::tcp::Repr::parse;wire::tcp::Repr::emit;wire::tcp::TcpOption::parse bounds=arbitrary_26_bytes_(data-offset_byte_fixed_to_0x60):_header;_4_option_bytes;_2_payload_bytes
    #[kani::proof]
    pub(crate) fn reparse_tcp_opt4() {
        tcp_reparse!(4, 2);
    }

    // ------------------------------------------------------------------ DHCPv4

    /// fieldwise comparison of a parsed DhcpRepr with the emitted one; additional_options are documented as
    /// emit-only ("When returned from parse, this field will be None")
    macro_rules! dhcp_same {
        ($back:expr, $repr:expr) => {{
            let (b, r) = (&$back, &$repr);
            assert!(b.message_type == r.message_type && b.transaction_id == r.transaction_id && b.secs == r.secs, "prop:c06_parse_of_emit_is_identity");
            assert!(b.client_hardware_address == r.client_hardware_address && b.client_ip == r.client_ip && b.your_ip == r.your_ip, "prop:c06_parse_of_emit_is_identity");
            assert!(b.server_ip == r.server_ip && b.relay_agent_ip == r.relay_agent_ip && b.broadcast == r.broadcast, "prop:c06_parse_of_emit_is_identity");
            assert!(b.router == r.router && b.subnet_mask == r.subnet_mask && b.requested_ip == r.requested_ip, "prop:c06_parse_of_emit_is_identity");
            assert!(b.client_identifier == r.client_identifier && b.server_identifier == r.server_identifier, "prop:c06_parse_of_emit_is_identity");
            assert!(b.max_size == r.max_size && b.lease_duration == r.lease_duration, "prop:c06_parse_of_emit_is_identity");
            assert!(b.renew_duration == r.renew_duration && b.rebind_duration == r.rebind_duration, "prop:c06_parse_of_emit_is_identity");
            assert!(b.parameter_request_list == r.parameter_request_list, "prop:c06_parse_of_emit_is_identity");
            assert!(b.dns_servers == r.dns_servers, "prop:c06_parse_of_emit_is_identity");
            assert!(b.additional_options.is_empty(), "prop:c06_parse_of_emit_is_identity");
        }};
    }

    macro_rules! dhcp_rt {
        ($repr:expr, $n:expr, $b:ident => $check:block) => {{
            let repr: DhcpRepr = $repr;
            assert!(repr.buffer_len() == $n, "prop:c06_parse_of_emit_is_identity");
            let mut b1 = [0u8; $n];
            let mut b2: [u8; $n] = kani::any();
            let e1 = repr.emit(&mut DhcpPacket::new_unchecked(&mut b1[..]));
            let e2 = repr.emit(&mut DhcpPacket::new_unchecked(&mut b2[..]));
            assert!(e1.is_ok() && e2.is_ok(), "prop:c06_emit_succeeds_on_declared_length");
            indep!(b1, b2, $n);
            let p = DhcpPacket::new_checked(&b1[..]);
            assert!(p.is_ok(), "prop:c06_emitted_packet_passes_new_checked");
            let p = p.unwrap();
            match DhcpRepr::parse(&p) {
                Ok(back) => {
                    dhcp_same!(back, repr);
                    kani::cover!(back.broadcast && back.secs == 7, "parsed back with broadcast flag");
                }
                Err(_) => assert!(false, "prop:c06_parse_of_emit_is_identity"),
            }
            let $b = &b1;
            $check
        }};
    }

    fn dhcp_base<'a>() -> DhcpRepr<'a> {
        DhcpRepr {
            message_type: DhcpMessageType::from(kani::any::<u8>()),
            transaction_id: kani::any(),
            secs: kani::any(),
            client_hardware_address: any_eth(),
            client_ip: any_v4(),
            your_ip: any_v4(),
            server_ip: any_v4(),
            router: None,
            subnet_mask: None,
            relay_agent_ip: any_v4(),
            broadcast: kani::any(),
            requested_ip: None,
            client_identifier: None,
            server_identifier: None,
            parameter_request_list: None,
            dns_servers: None,
            max_size: None,
            lease_duration: None,
            renew_duration: None,
            rebind_duration: None,
            additional_options: &[],
        }
    }

    // @harness props=C06 cfg=KW tier=q to=900 mem=6 unwind=132 opts=nomem,fs320 covers=1 funcs=wire::dhcpv4::Repr::emit;wire::dhcpv4::Repr::parse;wire::dhcpv4::Repr::buffer_len;wire::dhcpv4::DhcpOptionWriter::emit bounds=discover-like:_client_id;_max_size;_3-entry_parameter_request_list;_any_message_type
    #[kani::proof]
    pub(crate) fn rt_dhcp_discover() {
        let prl: [u8; 3] = kani::any();
        let mut repr = dhcp_base();
        repr.client_identifier = Some(any_eth());
        repr.max_size = Some(kani::any());
        repr.parameter_request_list = Some(&prl[..]);
        dhcp_rt!(repr, 240 + 4 + 9 + 4 + 5, b => {});
    }

    // @harness props=C06 cfg=KW tier=t to=900 mem=6 unwind=132 opts=nomem,fs320 covers=2 funcs=wire::dhcpv4::Repr::emit;wire::dhcpv4::Repr::parse;wire::dhcpv4::Repr::buffer_len;wire::dhcpv4::DhcpOptionWriter::emit bounds=request-like:_client_id;_requested_ip;_server_id;_max_size;_4-entry_parameter_request_list;_1_additional_option_with_3_data_bytes
    #[kani::proof]
    pub(crate) fn rt_dhcp_request() {
        let prl: [u8; 4] = kani::any();
        let host: [u8; 3] = kani::any();
        // additional_options: "should contain only additional DHCP options not known to smoltcp": host name (12)
        let extra = [DhcpOption { kind: 12, data: &host[..] }];
        let mut repr = dhcp_base();
        repr.client_identifier = Some(any_eth());
        repr.requested_ip = Some(any_v4());
        repr.server_identifier = Some(any_v4());
        repr.max_size = Some(kani::any());
        repr.parameter_request_list = Some(&prl[..]);
        repr.additional_options = &extra[..];
        dhcp_rt!(repr, 240 + 4 + 9 + 6 + 6 + 4 + 6 + 5, b => {
            // the additional option is on the wire: it is the last option before END
            const E: usize = 240 + 4 + 9 + 6 + 6 + 4 + 6 + 5;
            kani::cover!(b[E - 6] == 12, "additional option emitted");
            assert!(b[E - 6] == 12 && b[E - 5] == 3 && b[E - 4] == host[0] && b[E - 2] == host[2] && b[E - 1] == 255, "prop:c06_additional_option_emitted");
        });
    }

    // @harness props=C06 cfg=KW tier=q to=900 mem=6 unwind=132 opts=nomem,fs320 covers=1 funcs=wire::dhcpv4::Repr::emit;wire::dhcpv4::Repr::parse;wire::dhcpv4::Repr::buffer_len;wire::dhcpv4::DhcpOptionWriter::emit bounds=ack-like:_server_id;_router;_subnet_mask;_lease_duration;_3_DNS_servers_(the_capacity)
    #[kani::proof]
    pub(crate) fn rt_dhcp_ack() {
        let mut dns = heapless::Vec::new();
        dns.push(any_v4()).unwrap();
        dns.push(any_v4()).unwrap();
        dns.push(any_v4()).unwrap();
        let mut repr = dhcp_base();
        repr.server_identifier = Some(any_v4());
        repr.router = Some(any_v4());
        repr.subnet_mask = Some(any_v4());
        repr.lease_duration = Some(kani::any());
        repr.dns_servers = Some(dns);
        dhcp_rt!(repr, 240 + 4 + 6 + 6 + 6 + 6 + 14, b => {});
    }

    // @harness props=C06 cfg=KW tier=t to=900 mem=6 unwind=132 opts=nomem,fs320 covers=1 funcs=wire::dhcpv4::Repr::emit;wire::dhcpv4::Repr::parse;wire::dhcpv4::Repr::buffer_len bounds=no_optional_field
    #[kani::proof]
    pub(crate) fn rt_dhcp_minimal() {
        let repr = dhcp_base();
        dhcp_rt!(repr, 240 + 4, b => {});
    }

    // @harness props=C06 cfg=KW tier=t to=900 mem=6 unwind=132 opts=nomem,fs320 covers=1 funcs=wire::dhcpv4::Repr::emit;wire::dhcpv4::Repr::parse;wire::dhcpv4::Repr::buffer_len bounds=empty_DNS_server_list;_empty_parameter_request_list
    #[kani::proof]
    pub(crate) fn rt_dhcp_empty_lists() {
        let mut repr = dhcp_base();
        repr.dns_servers = Some(heapless::Vec::new());
        repr.parameter_request_list = Some(&[]);
        dhcp_rt!(repr, 240 + 4 + 2 + 2, b => {});
    }

    // T1/T2: parse fills renew_duration / rebind_duration, emit and buffer_len ignore them
    // @harness props=C06 cfg=KW tier=q kind=finding to=900 mem=6 unwind=132 opts=nomem,fs320 covers=1 funcs=wire::dhcpv4::Repr::emit;wire::dhcpv4::Repr::parse;wire::dhcpv4::Repr::buffer_len bounds=ack-like_with_lease;_renew_and_rebind_durations
    #[kani::proof]
    pub(crate) fn finding_dhcp_renew_rebind_lost() {
        let mut repr = dhcp_base();
        repr.lease_duration = Some(kani::any());
        repr.renew_duration = Some(kani::any());
        repr.rebind_duration = Some(kani::any());
        let n = repr.buffer_len();
        let mut b1 = [0u8; 240 + 4 + 6 + 12];
        kani::assume(n <= 240 + 4 + 6 + 12);
        let e = repr.emit(&mut DhcpPacket::new_unchecked(&mut b1[..n]));
        kani::cover!(e.is_ok(), "emitted");
        let p = DhcpPacket::new_unchecked(&b1[..n]);
        match DhcpRepr::parse(&p) {
            Ok(back) => {
                assert!(back.lease_duration == repr.lease_duration, "prop:c06_parse_of_emit_is_identity");
                assert!(back.renew_duration == repr.renew_duration && back.rebind_duration == repr.rebind_duration, "prop:c06_parse_of_emit_is_identity");
            }
            Err(_) => assert!(false, "prop:c06_parse_of_emit_is_identity"),
        }
    }

    // ------------------------------------------------------------------ DNS (DnsRepr is emit-only: the packet view and Question::parse read it back)

    // @harness props=C06 cfg=KW tier=q to=300 mem=4 unwind=12 opts=nomem covers=1 funcs=wire::dns::Repr::emit;wire::dns::Repr::buffer_len;wire::dns::Question::emit;wire::dns::Question::parse bounds=query;_name_of_two_labels_(3_and_2_bytes);_4-bit_opcode
    #[kani::proof]
    pub(crate) fn rt_dns_query() {
        let l: [u8; 5] = kani::any();
        // a well-formed name: length-prefixed labels ending with the root label
        let name = [3, l[0], l[1], l[2], 2, l[3], l[4], 0];
        let opcode: u8 = kani::any();
        // the opcode is a 4-bit field
        kani::assume(opcode < 16);
        let repr = DnsRepr {
            transaction_id: kani::any(),
            opcode: DnsOpcode::from(opcode),
            flags: DnsFlags::from_bits_truncate(kani::any()),
            question: DnsQuestion { name: &name[..], type_: DnsQueryType::from(kani::any::<u16>()) },
        };
        assert!(repr.buffer_len() == 24, "prop:c06_parse_of_emit_is_identity");
        let mut b1 = [0u8; 24];
        let mut b2: [u8; 24] = kani::any();
        repr.emit(&mut DnsPacket::new_unchecked(&mut b1[..]));
        repr.emit(&mut DnsPacket::new_unchecked(&mut b2[..]));
        indep!(b1, b2, 24);
        let p = DnsPacket::new_checked(&b1[..]);
        assert!(p.is_ok(), "prop:c06_emitted_packet_passes_new_checked");
        let p = p.unwrap();
        assert!(p.transaction_id() == repr.transaction_id && p.opcode() == repr.opcode && p.flags() == repr.flags, "prop:c06_parse_of_emit_is_identity");
        assert!(p.question_count() == 1 && p.answer_record_count() == 0 && p.authority_record_count() == 0 && p.additional_record_count() == 0, "prop:c06_parse_of_emit_is_identity");
        match DnsQuestion::parse(p.payload()) {
            Ok((rest, q)) => {
                assert!(rest.is_empty() && q.type_ == repr.question.type_, "prop:c06_parse_of_emit_is_identity");
                same_bytes!(q.name, name, 8, "prop:c06_parse_of_emit_is_identity");
                kani::cover!(q.type_ == DnsQueryType::Aaaa, "AAAA question parsed back");
            }
            Err(_) => assert!(false, "prop:c06_parse_of_emit_is_identity"),
        }
    }

    // regression: set_flags / set_opcode keep the bits they do not own: RCODE, Z and the top opcode bit used to come from the old buffer
    // @harness props=C06 cfg=KW tier=q to=300 mem=4 unwind=12 opts=nomem covers=1 funcs=wire::dns::Repr::emit bounds=query;_bytes_2..4
    #[kani::proof]
    pub(crate) fn finding_dns_flags_word_stale() {
        let name = [0u8];
        let opcode: u8 = kani::any();
        kani::assume(opcode < 16);
        let repr = DnsRepr {
            transaction_id: kani::any(),
            opcode: DnsOpcode::from(opcode),
            flags: DnsFlags::from_bits_truncate(kani::any()),
            question: DnsQuestion { name: &name[..], type_: DnsQueryType::A },
        };
        let mut b1 = [0u8; 17];
        let mut b2: [u8; 17] = kani::any();
        repr.emit(&mut DnsPacket::new_unchecked(&mut b1[..]));
        repr.emit(&mut DnsPacket::new_unchecked(&mut b2[..]));
        kani::cover!(true, "emitted");
        assert!(b1[2] == b2[2] && b1[3] == b2[3], "prop:c06_emit_independent_of_prior_buffer_contents");
    }


    // ------------------------------------------------------------------ IEEE 802.15.4
    // Repr::emit lays the addressing fields out as: dst PAN id, dst address, [src PAN id unless compressed], src address.
    // Fixed by the harness (not expressible / not supported by emit): security_enabled = false (the Repr cannot carry the
    // auxiliary security header the flag announces), a sequence number is present, dst_pan_id is Some.

    const fn ieee_len(dst_ext: bool, src: u8, compressed: bool) -> usize {
        3 + 2 + (if dst_ext { 8 } else { 2 }) + (if compressed { 0 } else { 2 }) + (match src { 0 => 0, 1 => 2, _ => 8 })
    }

    /// version: 0 = 2003, 1 = 2006, 2 = 2015 ; src: 0 absent, 1 short, 2 extended
    macro_rules! ieee802154_rt {
        (version=$ver:expr, dst_ext=$dext:expr, src=$src:expr, compressed=$comp:expr) => {{
            const N: usize = ieee_len($dext, $src, $comp);
            let frame_type = match kani::any::<u8>() {
                0 => Ieee802154FrameType::Beacon,
                1 => Ieee802154FrameType::MacCommand,
                _ => Ieee802154FrameType::Data,
            };
            let repr = Ieee802154Repr {
                frame_type,
                security_enabled: false,
                frame_pending: kani::any(),
                ack_request: kani::any(),
                sequence_number: Some(kani::any()),
                pan_id_compression: $comp,
                frame_version: match $ver {
                    0 => Ieee802154FrameVersion::Ieee802154_2003,
                    1 => Ieee802154FrameVersion::Ieee802154_2006,
                    _ => Ieee802154FrameVersion::Ieee802154,
                },
                dst_pan_id: Some(Ieee802154Pan(kani::any())),
                dst_addr: Some(if $dext { Ieee802154Address::Extended(kani::any()) } else { Ieee802154Address::Short(kani::any()) }),
                src_pan_id: if $comp { None } else { Some(Ieee802154Pan(kani::any())) },
                src_addr: Some(match $src {
                    0 => Ieee802154Address::Absent,
                    1 => Ieee802154Address::Short(kani::any()),
                    _ => Ieee802154Address::Extended(kani::any()),
                }),
            };
            assert!(repr.buffer_len() == N, "prop:c06_parse_of_emit_is_identity");
            let mut b1 = [0u8; N];
            let mut b2: [u8; N] = kani::any();
            repr.emit(&mut Ieee802154Frame::new_unchecked(&mut b1[..]));
            repr.emit(&mut Ieee802154Frame::new_unchecked(&mut b2[..]));
            indep!(b1, b2, N);
            let f = Ieee802154Frame::new_checked(&b1[..]);
            assert!(f.is_ok(), "prop:c06_emitted_packet_passes_new_checked");
            let back = Ieee802154Repr::parse(&f.unwrap());
            kani::cover!(matches!(back, Ok(Ieee802154Repr { ack_request: true, frame_type: Ieee802154FrameType::Data, .. })), "data frame with ack request emitted and parsed");
            assert!(back == Ok(repr), "prop:c06_parse_of_emit_is_identity");
        }};
    }

    // @harness props=C06 cfg=KW tier=q to=600 mem=6 unwind=12 opts=nomem covers=1 funcs=wire::ieee802154::Repr::emit;wire::ieee802154::Repr::parse;wire::ieee802154::Repr::buffer_len bounds=2003_frame;_extended_dst+src;_PAN_id_compression_(what_Interface_emits)
    #[kani::proof]
    pub(crate) fn rt_ieee802154_2003_ext_ext_comp() {
        ieee802154_rt!(version = 0, dst_ext = true, src = 2, compressed = true);
    }

    // @harness props=C06 cfg=KW tier=q to=600 mem=6 unwind=12 opts=nomem covers=1 funcs=wire::ieee802154::Repr::emit;wire::ieee802154::Repr::parse;wire::ieee802154::Repr::buffer_len bounds=2006_frame;_extended_dst+src;_both_PAN_ids_(longest_header)
    #[kani::proof]
    pub(crate) fn rt_ieee802154_2006_ext_ext_full() {
        ieee802154_rt!(version = 1, dst_ext = true, src = 2, compressed = false);
    }

    // @harness props=C06 cfg=KW tier=t to=600 mem=6 unwind=12 opts=nomem covers=1 funcs=wire::ieee802154::Repr::emit;wire::ieee802154::Repr::parse bounds=2003_frame;_short_dst;_extended_src;_PAN_id_compression
    #[kani::proof]
    pub(crate) fn rt_ieee802154_2003_short_ext_comp() {
        ieee802154_rt!(version = 0, dst_ext = false, src = 2, compressed = true);
    }

    // @harness props=C06 cfg=KW tier=t to=600 mem=6 unwind=12 opts=nomem covers=1 funcs=wire::ieee802154::Repr::emit;wire::ieee802154::Repr::parse bounds=2003_frame;_short_dst+src;_both_PAN_ids
    #[kani::proof]
    pub(crate) fn rt_ieee802154_2003_short_short_full() {
        ieee802154_rt!(version = 0, dst_ext = false, src = 1, compressed = false);
    }

    // @harness props=C06 cfg=KW tier=t to=600 mem=6 unwind=12 opts=nomem covers=1 funcs=wire::ieee802154::Repr::emit;wire::ieee802154::Repr::parse bounds=2006_frame;_extended_dst;_short_src;_PAN_id_compression
    #[kani::proof]
    pub(crate) fn rt_ieee802154_2006_ext_short_comp() {
        ieee802154_rt!(version = 1, dst_ext = true, src = 1, compressed = true);
    }

    // @harness props=C06 cfg=KW tier=t to=600 mem=6 unwind=12 opts=nomem covers=1 funcs=wire::ieee802154::Repr::emit;wire::ieee802154::Repr::parse bounds=2003_frame;_extended_dst;_src_absent;_PAN_id_compression_bit_set
    #[kani::proof]
    pub(crate) fn rt_ieee802154_2003_ext_absent_comp() {
        ieee802154_rt!(version = 0, dst_ext = true, src = 0, compressed = true);
    }

    // @harness props=C06 cfg=KW tier=t to=600 mem=6 unwind=12 opts=nomem covers=1 funcs=wire::ieee802154::Repr::emit;wire::ieee802154::Repr::parse bounds=2015_frame;_short_dst+src;_both_PAN_ids
    #[kani::proof]
    pub(crate) fn rt_ieee802154_2015_short_short_full() {
        ieee802154_rt!(version = 2, dst_ext = false, src = 1, compressed = false);
    }

    // @harness props=C06 cfg=KW tier=t to=600 mem=6 unwind=12 opts=nomem covers=1 funcs=wire::ieee802154::Repr::emit;wire::ieee802154::Repr::parse bounds=2015_frame;_short_dst;_extended_src;_PAN_id_compression
    #[kani::proof]
    pub(crate) fn rt_ieee802154_2015_short_ext_comp() {
        ieee802154_rt!(version = 2, dst_ext = false, src = 2, compressed = true);
    }

    // IEEE 802.15.4-2015 table 7-2: extended+extended without compression carries the dst PAN id only, with
    // compression no PAN id at all; Repr::emit / buffer_len use the 2003 layout for every version
    // @harness props=C06 cfg=KW tier=t kind=finding to=600 mem=6 unwind=12 opts=nomem covers=1 funcs=wire::ieee802154::Repr::emit;wire::ieee802154::Repr::parse;wire::ieee802154::Repr::buffer_len bounds=2015_frame;_extended_dst+src;_PAN_id_compression
    #[kani::proof]
    pub(crate) fn finding_ieee802154_2015_ext_ext_comp() {
        ieee802154_rt!(version = 2, dst_ext = true, src = 2, compressed = true);
    }

    // regression: the frame-control setters used to only OR bits in (set_fc_bit_field) and bits 7..9 were never written
    // @harness props=C06 cfg=KW tier=q to=600 mem=6 unwind=12 opts=nomem covers=1 funcs=wire::ieee802154::Repr::emit bounds=2003_frame;_extended_dst+src;_frame_control_bytes_0..2
    #[kani::proof]
    pub(crate) fn finding_ieee802154_frame_control_stale() {
        let repr = Ieee802154Repr {
            frame_type: Ieee802154FrameType::Data,
            security_enabled: false,
            frame_pending: false,
            ack_request: kani::any(),
            sequence_number: Some(kani::any()),
            pan_id_compression: true,
            frame_version: Ieee802154FrameVersion::Ieee802154_2003,
            dst_pan_id: Some(Ieee802154Pan(kani::any())),
            dst_addr: Some(Ieee802154Address::Extended(kani::any())),
            src_pan_id: None,
            src_addr: Some(Ieee802154Address::Extended(kani::any())),
        };
        let mut b1 = [0u8; 21];
        let mut b2: [u8; 21] = kani::any();
        repr.emit(&mut Ieee802154Frame::new_unchecked(&mut b1[..]));
        repr.emit(&mut Ieee802154Frame::new_unchecked(&mut b2[..]));
        kani::cover!(true, "emitted");
        assert!(b1[0] == b2[0] && b1[1] == b2[1], "prop:c06_emit_independent_of_prior_buffer_contents");
    }

    // ------------------------------------------------------------------ 6LoWPAN fragment headers

    // @harness props=C06 cfg=KW tier=q to=300 mem=4 unwind=8 opts=nomem covers=2 funcs=wire::sixlowpan::frag::Repr::emit;wire::sixlowpan::frag::Repr::parse;wire::sixlowpan::frag::Repr::buffer_len bounds=FRAG1_and_FRAGN;_11-bit_datagram_size
    #[kani::proof]
    pub(crate) fn rt_sixlowpan_frag() {
        let size: u16 = kani::any();
        // the datagram size is an 11-bit field
        kani::assume(size < (1 << 11));
        let first: bool = kani::any();
        let repr = if first { SixlowpanFragRepr::FirstFragment { size, tag: kani::any() } } else { SixlowpanFragRepr::Fragment { size, tag: kani::any(), offset: kani::any() } };
        let n = repr.buffer_len();
        let mut b1 = [0u8; 5];
        let mut b2: [u8; 5] = kani::any();
        repr.emit(&mut SixlowpanFragPacket::new_unchecked(&mut b1[..n]));
        repr.emit(&mut SixlowpanFragPacket::new_unchecked(&mut b2[..n]));
        indep!(b1, b2, n);
        let p = SixlowpanFragPacket::new_checked(&b1[..n]);
        assert!(p.is_ok(), "prop:c06_emitted_packet_passes_new_checked");
        let back = SixlowpanFragRepr::parse(&p.unwrap());
        assert!(back == Ok(repr), "prop:c06_parse_of_emit_is_identity");
        kani::cover!(matches!(back, Ok(SixlowpanFragRepr::FirstFragment { size: 2047, .. })), "first fragment of the largest datagram");
        kani::cover!(matches!(back, Ok(SixlowpanFragRepr::Fragment { offset: 255, .. })), "fragment at the largest offset");
    }

    // ------------------------------------------------------------------ 6LoWPAN NHC extension header

    fn any_ext_header_id() -> SixlowpanExtHeaderId {
        match kani::any::<u8>() {
            0 => SixlowpanExtHeaderId::HopByHopHeader,
            1 => SixlowpanExtHeaderId::RoutingHeader,
            2 => SixlowpanExtHeaderId::FragmentHeader,
            3 => SixlowpanExtHeaderId::DestinationOptionsHeader,
            4 => SixlowpanExtHeaderId::MobilityHeader,
            5 => SixlowpanExtHeaderId::Reserved,
            _ => SixlowpanExtHeaderId::Header,
        }
    }

    // @harness props=C06 cfg=KW tier=q to=300 mem=4 unwind=8 opts=nomem covers=1 funcs=wire::sixlowpan::nhc::ExtHeaderRepr::emit;wire::sixlowpan::nhc::ExtHeaderRepr::parse;wire::sixlowpan::nhc::ExtHeaderRepr::buffer_len bounds=every_header_id;_next_header_inline
    #[kani::proof]
    pub(crate) fn rt_sixlowpan_ext_header_inline() {
        let repr = SixlowpanExtHeaderRepr { ext_header_id: any_ext_header_id(), next_header: SixlowpanNextHeader::Uncompressed(any_proto()), length: kani::any() };
        assert!(repr.buffer_len() == 3, "prop:c06_parse_of_emit_is_identity");
        // the header announces `length` octets of extension-header content, which follow it in the frame and which
        // a checked view requires to be present (bound: length <= 8)
        kani::assume(repr.length <= 8);
        let mut b1 = [0u8; 3 + 8];
        let mut b2: [u8; 3 + 8] = kani::any();
        repr.emit(&mut SixlowpanExtHeaderPacket::new_unchecked(&mut b1[..3]));
        repr.emit(&mut SixlowpanExtHeaderPacket::new_unchecked(&mut b2[..3]));
        indep!(b1, b2, 3);
        let p = SixlowpanExtHeaderPacket::new_checked(&b1[..3 + repr.length as usize]);
        assert!(p.is_ok(), "prop:c06_emitted_packet_passes_new_checked");
        let back = SixlowpanExtHeaderRepr::parse(&p.unwrap());
        assert!(back == Ok(repr), "prop:c06_parse_of_emit_is_identity");
        kani::cover!(matches!(back, Ok(SixlowpanExtHeaderRepr { ext_header_id: SixlowpanExtHeaderId::Header, .. })), "IPv6-header id parsed back");
    }

    // @harness props=C06 cfg=KW tier=t to=300 mem=4 unwind=8 opts=nomem covers=1 funcs=wire::sixlowpan::nhc::ExtHeaderRepr::emit;wire::sixlowpan::nhc::ExtHeaderRepr::parse bounds=every_header_id;_next_header_compressed
    #[kani::proof]
    pub(crate) fn rt_sixlowpan_ext_header_compressed() {
        let repr = SixlowpanExtHeaderRepr { ext_header_id: any_ext_header_id(), next_header: SixlowpanNextHeader::Compressed, length: kani::any() };
        assert!(repr.buffer_len() == 2, "prop:c06_parse_of_emit_is_identity");
        // the header announces `length` octets of extension-header content, which follow it in the frame and which
        // a checked view requires to be present (bound: length <= 8)
        kani::assume(repr.length <= 8);
        let mut b1 = [0u8; 2 + 8];
        let mut b2: [u8; 2 + 8] = kani::any();
        repr.emit(&mut SixlowpanExtHeaderPacket::new_unchecked(&mut b1[..2]));
        repr.emit(&mut SixlowpanExtHeaderPacket::new_unchecked(&mut b2[..2]));
        indep!(b1, b2, 2);
        let p = SixlowpanExtHeaderPacket::new_checked(&b1[..2 + repr.length as usize]);
        assert!(p.is_ok(), "prop:c06_emitted_packet_passes_new_checked");
        let back = SixlowpanExtHeaderRepr::parse(&p.unwrap());
        assert!(back == Ok(repr), "prop:c06_parse_of_emit_is_identity");
        kani::cover!(matches!(back, Ok(SixlowpanExtHeaderRepr { ext_header_id: SixlowpanExtHeaderId::RoutingHeader, length: 8, .. })), "routing header of 8 bytes");
    }

    // ------------------------------------------------------------------ 6LoWPAN UDP NHC
    // With tx checksums off (ignored(), as everywhere in C06) emit writes a zero checksum and clears the C bit.

    /// class 0: no port compressible; 1: src in 0xf0xx; 2: dst in 0xf0xx (src not); 3: both in 0xf0bx
    macro_rules! udp_nhc_rt {
        ($class:expr, $hlen:expr) => {{
            const H: usize = $hlen;
            const N: usize = H + 4;
            let payload: [u8; 4] = kani::any();
            let sp: u16 = kani::any();
            let dp: u16 = kani::any();
            match $class {
                0 => kani::assume(sp & 0xff00 != 0xf000 && dp & 0xff00 != 0xf000),
                1 => kani::assume(sp & 0xff00 == 0xf000 && !(sp & 0xfff0 == 0xf0b0 && dp & 0xfff0 == 0xf0b0)),
                2 => kani::assume(sp & 0xff00 != 0xf000 && dp & 0xff00 == 0xf000),
                _ => kani::assume(sp & 0xfff0 == 0xf0b0 && dp & 0xfff0 == 0xf0b0),
            }
            let repr = SixlowpanUdpNhcRepr(UdpRepr { src_port: sp, dst_port: dp });
            let (src, dst) = (any_v6(), any_v6());
            assert!(repr.header_len() == H, "prop:c06_parse_of_emit_is_identity");
            let mut b1 = [0u8; N];
            let mut b2: [u8; N] = kani::any();
            repr.emit(&mut SixlowpanUdpNhcPacket::new_unchecked(&mut b1[..]), &src, &dst, 4, |buf| buf.copy_from_slice(&payload[..]), &caps());
            repr.emit(&mut SixlowpanUdpNhcPacket::new_unchecked(&mut b2[..]), &src, &dst, 4, |buf| buf.copy_from_slice(&payload[..]), &caps());
            indep!(b1, b2, N);
            let p = SixlowpanUdpNhcPacket::new_checked(&b1[..]);
            assert!(p.is_ok(), "prop:c06_emitted_packet_passes_new_checked");
            let p = p.unwrap();
            let back = SixlowpanUdpNhcRepr::parse(&p, &src, &dst, &caps());
            kani::cover!(back.is_ok(), "parsed");
            assert!(back == Ok(repr), "prop:c06_parse_of_emit_is_identity");
            same_bytes!(p.payload(), payload, 4, "prop:c06_parse_of_emit_is_identity");
        }};
    }

    // @harness props=C06 cfg=KW tier=q to=300 mem=4 unwind=20 opts=nomem covers=1 funcs=wire::sixlowpan::nhc::UdpNhcRepr::emit;wire::sixlowpan::nhc::UdpNhcRepr::parse;wire::sixlowpan::nhc::UdpNhcRepr::header_len bounds=both_ports_inline;_4_payload_bytes
    #[kani::proof]
    pub(crate) fn rt_sixlowpan_udp_nhc_inline() {
        udp_nhc_rt!(0, 7);
    }

    // @harness props=C06 cfg=KW tier=q to=300 mem=4 unwind=20 opts=nomem covers=1 funcs=wire::sixlowpan::nhc::UdpNhcRepr::emit;wire::sixlowpan::nhc::UdpNhcRepr::parse;wire::sixlowpan::nhc::UdpNhcRepr::header_len bounds=source_port_in_0xf0xx_(8_bits_inline);_4_payload_bytes
    #[kani::proof]
    pub(crate) fn rt_sixlowpan_udp_nhc_src_f0() {
        udp_nhc_rt!(1, 6);
    }

    // regression: destination port in 0xf0xx, source not: UdpNhcPacket::dst_port used to read the first port byte instead of the third
    // @harness props=C06 cfg=KW tier=q to=300 mem=4 unwind=20 opts=nomem covers=1 funcs=wire::sixlowpan::nhc::UdpNhcRepr::emit;wire::sixlowpan::nhc::UdpNhcRepr::parse;wire::sixlowpan::nhc::UdpNhcPacket::dst_port bounds=destination_port_in_0xf0xx;_4_payload_bytes
    #[kani::proof]
    pub(crate) fn finding_sixlowpan_udp_nhc_dst_f0() {
        udp_nhc_rt!(2, 6);
    }

    // regression: both ports in 0xf0bx: set_ports used to combine the nibbles with `&` instead of `|`, dst_port masked with 0xff instead of 0x0f
    // @harness props=C06 cfg=KW tier=q to=300 mem=4 unwind=20 opts=nomem covers=1 funcs=wire::sixlowpan::nhc::UdpNhcRepr::emit;wire::sixlowpan::nhc::UdpNhcRepr::parse;wire::sixlowpan::nhc::UdpNhcPacket::set_ports;wire::sixlowpan::nhc::UdpNhcPacket::dst_port bounds=both_ports_in_0xf0bx;_4_payload_bytes
    #[kani::proof]
    pub(crate) fn finding_sixlowpan_udp_nhc_both_f0b() {
        udp_nhc_rt!(3, 4);
    }

    // regression: with tx checksums off the C ("checksum elided") bit and the checksum bytes used to keep the old
    // buffer contents; a stale C bit shifted the payload seen by the receiver by two bytes
    // @harness props=C06 cfg=KW tier=q to=300 mem=4 unwind=20 opts=nomem covers=1 funcs=wire::sixlowpan::nhc::UdpNhcRepr::emit bounds=both_ports_inline;_byte_0_and_the_checksum_bytes
    #[kani::proof]
    pub(crate) fn finding_sixlowpan_udp_nhc_checksum_stale() {
        let payload: [u8; 4] = kani::any();
        let repr = SixlowpanUdpNhcRepr(UdpRepr { src_port: 1000, dst_port: 2000 });
        let (src, dst) = (any_v6(), any_v6());
        let mut b1 = [0u8; 11];
        let mut b2: [u8; 11] = kani::any();
        repr.emit(&mut SixlowpanUdpNhcPacket::new_unchecked(&mut b1[..]), &src, &dst, 4, |buf| buf.copy_from_slice(&payload[..]), &caps());
        repr.emit(&mut SixlowpanUdpNhcPacket::new_unchecked(&mut b2[..]), &src, &dst, 4, |buf| buf.copy_from_slice(&payload[..]), &caps());
        kani::cover!(true, "emitted");
        assert!(b1[0] == b2[0], "prop:c06_emit_independent_of_prior_buffer_contents");
        assert!(b1[5] == b2[5] && b1[6] == b2[6], "prop:c06_emit_independent_of_prior_buffer_contents");
    }

    // ------------------------------------------------------------------ 6LoWPAN IPHC
    // Traffic class / flow label: emit always elides them ("FIXME: we don't set anything from the traffic flow"),
    // so ecn/dscp/flow_label are None, which is also what Interface builds.

    /// IPv6 address of a concrete shape with symbolic content.
    /// 0 unspecified; 1 fe80::ff:fe00:XXXX (ll = Short(XXXX)); 2 same IID, no link-layer address; 3 fe80::EUI-64 of ll = Extended;
    /// 4 fe80::<8 symbolic bytes>, no ll; 5 global 20XX:..; 6 ff02::00XX; 7 ffXX::00XX:XXXX; 8 ffXX::00XX:XXXX:XXXX; 9 ffXX:<14 symbolic bytes>; 10 fe80::ff:fe00:XXXX with ll = Extended(02:00:00:ff:fe:00:XX:XX)
    macro_rules! iphc_addr {
        ($kind:expr) => {{
            let r: [u8; 16] = kani::any();
            let e: [u8; 8] = kani::any();
            let (a, ll): ([u8; 16], Option<Ieee802154Address>) = match $kind {
                0 => ([0; 16], None),
                1 => ([0xfe, 0x80, 0, 0, 0, 0, 0, 0, 0, 0, 0, 0xff, 0xfe, 0, r[14], r[15]], Some(Ieee802154Address::Short([r[14], r[15]]))),
                2 => ([0xfe, 0x80, 0, 0, 0, 0, 0, 0, 0, 0, 0, 0xff, 0xfe, 0, r[14], r[15]], None),
                3 => {
                    // an EUI-64 that happens to look like the short-address IID (02-00-00-ff-fe-00-xx-xx) takes the 16-bit form instead
                    kani::assume(!(e[0] == 2 && e[1] == 0 && e[2] == 0 && e[3] == 0xff && e[4] == 0xfe && e[5] == 0));
                    ([0xfe, 0x80, 0, 0, 0, 0, 0, 0, e[0] ^ 2, e[1], e[2], e[3], e[4], e[5], e[6], e[7]], Some(Ieee802154Address::Extended(e)))
                }
                4 => ([0xfe, 0x80, 0, 0, 0, 0, 0, 0, r[8], r[9], r[10], 0x11, r[12], r[13], r[14], r[15]], None),
                5 => ([0x20, r[1], r[2], r[3], r[4], r[5], r[6], r[7], r[8], r[9], r[10], r[11], r[12], r[13], r[14], r[15]], None),
                6 => ([0xff, 0x02, 0, 0, 0, 0, 0, 0, 0, 0, 0, 0, 0, 0, 0, r[15]], None),
                7 => {
                    // every address of the 32-bit form that is not of the 8-bit form ff02::00XX
                    kani::assume(!(r[1] == 2 && r[13] == 0 && r[14] == 0));
                    ([0xff, r[1], 0, 0, 0, 0, 0, 0, 0, 0, 0, 0, 0, r[13], r[14], r[15]], None)
                }
                8 => {
                    // every address of the 48-bit form that is not of the 32-bit form (octets 11, 12 not both zero)
                    kani::assume(r[11] != 0 || r[12] != 0);
                    ([0xff, r[1], 0, 0, 0, 0, 0, 0, 0, 0, 0, r[11], r[12], r[13], r[14], r[15]], None)
                }
                10 => {
                    // the corner shape 3 leaves out: an extended link-layer address whose EUI-64 IS the short-address
                    // IID 0000:00ff:fe00:XXXX - both "elide, derive from the link-layer address" and "16 bits in-line"
                    // would describe it, emit and buffer_len must pick the same one
                    ([0xfe, 0x80, 0, 0, 0, 0, 0, 0, 0, 0, 0, 0xff, 0xfe, 0, r[14], r[15]], Some(Ieee802154Address::Extended([2, 0, 0, 0xff, 0xfe, 0, r[14], r[15]])))
                }
                _ => ([0xff, r[1], 0x80 | r[2], r[3], r[4], r[5], r[6], r[7], r[8], r[9], r[10], r[11], r[12], r[13], r[14], r[15]], None),
            };
            (Ipv6Address::from_octets(a), ll)
        }};
    }

    macro_rules! iphc_rt {
        (src=$sk:expr, dst=$dk:expr, nh_inline=$nhi:expr, hl_inline=$hli:expr, n=$n:expr) => {{
            const N: usize = $n;
            let (src_addr, ll_src_addr) = iphc_addr!($sk);
            let (dst_addr, ll_dst_addr) = iphc_addr!($dk);
            let hop_limit: u8 = kani::any();
            if $hli {
                kani::assume(hop_limit != 1 && hop_limit != 64 && hop_limit != 255);
            } else {
                kani::assume(hop_limit == 1 || hop_limit == 64 || hop_limit == 255);
            }
            let repr = SixlowpanIphcRepr {
                src_addr,
                ll_src_addr,
                dst_addr,
                ll_dst_addr,
                next_header: if $nhi { SixlowpanNextHeader::Uncompressed(any_proto()) } else { SixlowpanNextHeader::Compressed },
                hop_limit,
                ecn: None,
                dscp: None,
                flow_label: None,
            };
            assert!(repr.buffer_len() == N, "prop:c06_parse_of_emit_is_identity");
            let mut b1 = [0u8; N];
            let mut b2: [u8; N] = kani::any();
            repr.emit(&mut SixlowpanIphcPacket::new_unchecked(&mut b1[..]));
            repr.emit(&mut SixlowpanIphcPacket::new_unchecked(&mut b2[..]));
            indep!(b1, b2, N);
            let p = SixlowpanIphcPacket::new_checked(&b1[..]);
            assert!(p.is_ok(), "prop:c06_emitted_packet_passes_new_checked");
            let p = p.unwrap();
            kani::cover!(b1[N - 1] != 0, "emitted and accepted by new_checked, last byte non-zero");
            assert!(p.header_len() == N, "prop:c06_parse_of_emit_is_identity");
            let back = SixlowpanIphcRepr::parse(&p, ll_src_addr, ll_dst_addr, &[]);
            assert!(back == Ok(repr), "prop:c06_parse_of_emit_is_identity");
        }};
    }

    // @harness props=C06 cfg=KW tier=q to=600 mem=8 unwind=20 opts=nomem covers=1 funcs=wire::sixlowpan::iphc::Repr::emit;wire::sixlowpan::iphc::Repr::parse;wire::sixlowpan::iphc::Repr::buffer_len bounds=src_link-local_elided_from_extended_lladdr;_dst_ff02::XX;_next_header_compressed;_hop_limit_1|64|255
    #[kani::proof]
    pub(crate) fn rt_iphc_eui64_mcast8() {
        iphc_rt!(src = 3, dst = 6, nh_inline = false, hl_inline = false, n = 3);
    }

    // @harness props=C06 cfg=KW tier=q to=600 mem=8 unwind=20 opts=nomem covers=1 funcs=wire::sixlowpan::iphc::Repr::emit;wire::sixlowpan::iphc::Repr::parse;wire::sixlowpan::iphc::Repr::buffer_len bounds=global_src_and_dst_(both_inline);_next_header_and_hop_limit_inline_(longest_header)
    #[kani::proof]
    pub(crate) fn rt_iphc_global_global() {
        iphc_rt!(src = 5, dst = 5, nh_inline = true, hl_inline = true, n = 36);
    }

    // @harness props=C06 cfg=KW tier=t to=600 mem=8 unwind=20 opts=nomem covers=1 funcs=wire::sixlowpan::iphc::Repr::emit;wire::sixlowpan::iphc::Repr::parse bounds=unspecified_src;_dst_ffXX::XX:XXXX_(32_bits_inline);_next_header_inline
    #[kani::proof]
    pub(crate) fn rt_iphc_unspec_mcast32() {
        iphc_rt!(src = 0, dst = 7, nh_inline = true, hl_inline = false, n = 7);
    }

    // @harness props=C06 cfg=KW tier=t to=600 mem=8 unwind=20 opts=nomem covers=1 funcs=wire::sixlowpan::iphc::Repr::emit;wire::sixlowpan::iphc::Repr::parse bounds=src_and_dst_link-local_elided_from_short_lladdr;_hop_limit_inline
    #[kani::proof]
    pub(crate) fn rt_iphc_short_short() {
        iphc_rt!(src = 1, dst = 1, nh_inline = false, hl_inline = true, n = 3);
    }

    // @harness props=C06 cfg=KW tier=t to=600 mem=8 unwind=20 opts=nomem covers=1 funcs=wire::sixlowpan::iphc::Repr::emit;wire::sixlowpan::iphc::Repr::parse bounds=src_and_dst_link-local_with_16_bits_inline
    #[kani::proof]
    pub(crate) fn rt_iphc_ll16_ll16() {
        iphc_rt!(src = 2, dst = 2, nh_inline = false, hl_inline = false, n = 6);
    }

    // @harness props=C06 cfg=KW tier=t to=600 mem=8 unwind=20 opts=nomem covers=1 funcs=wire::sixlowpan::iphc::Repr::emit;wire::sixlowpan::iphc::Repr::parse bounds=src_link-local_with_64_bits_inline;_dst_link-local_elided_from_extended_lladdr
    #[kani::proof]
    pub(crate) fn rt_iphc_ll64_eui64() {
        iphc_rt!(src = 4, dst = 3, nh_inline = true, hl_inline = false, n = 11);
    }

    // @harness props=C06 cfg=KW tier=t to=600 mem=8 unwind=20 opts=nomem covers=1 funcs=wire::sixlowpan::iphc::Repr::emit;wire::sixlowpan::iphc::Repr::parse bounds=global_src;_dst_link-local_with_64_bits_inline
    #[kani::proof]
    pub(crate) fn rt_iphc_global_ll64() {
        iphc_rt!(src = 5, dst = 4, nh_inline = false, hl_inline = false, n = 26);
    }

    // @harness props=C06 cfg=KW tier=q to=600 mem=8 unwind=20 opts=nomem covers=1 funcs=wire::sixlowpan::iphc::Repr::emit;wire::sixlowpan::iphc::Repr::parse bounds=global_src;_dst_ffXX::XX:XXXX:XXXX_(48_bits_inline)
    #[kani::proof]
    pub(crate) fn rt_iphc_global_mcast48() {
        iphc_rt!(src = 5, dst = 8, nh_inline = false, hl_inline = false, n = 24);
    }

    // @harness props=C06 cfg=KW tier=q to=600 mem=8 unwind=20 opts=nomem covers=1 funcs=wire::sixlowpan::iphc::Repr::emit;wire::sixlowpan::iphc::Repr::parse bounds=src_and_dst_fe80::ff:fe00:XXXX_with_an_extended_link-layer_address_whose_EUI-64_is_that_short-form_IID_(emit_and_buffer_len_must_agree_on_the_form)
    #[kani::proof]
    pub(crate) fn rt_iphc_eui64_is_shortform() {
        iphc_rt!(src = 10, dst = 10, nh_inline = false, hl_inline = false, n = 6);
    }

    // regression: a multicast destination that fits none of the compressed forms is written in full (16 bytes) but used
    // to be flagged DAM=0b11 (8-bit form), so the receiver read one byte: set_dst_address, last multicast branch
    // @harness props=C06 cfg=KW tier=q to=600 mem=8 unwind=20 opts=nomem covers=1 funcs=wire::sixlowpan::iphc::Repr::emit;wire::sixlowpan::iphc::Repr::parse;wire::sixlowpan::iphc::Repr::buffer_len bounds=link-local_src_elided;_dst_any_multicast_address_with_a_non-zero_third_byte
    #[kani::proof]
    pub(crate) fn finding_iphc_multicast_full() {
        iphc_rt!(src = 3, dst = 9, nh_inline = false, hl_inline = false, n = 18);
    }

    // <<END>>
}

// Stubs for the other build configurations: the replay dispatcher that ./check generates for this file names every
// harness and is compiled in every configuration (this file sits at the crate root).  No annotation => not harnesses.
#[cfg(not(all(
    feature = "medium-ethernet",
    feature = "medium-ieee802154",
    feature = "proto-sixlowpan",
    feature = "proto-dhcpv4",
    feature = "proto-dns",
    feature = "proto-ipv4",
    feature = "proto-ipv6"
)))]
#[allow(dead_code)]
mod v_wire_roundtrip {
    macro_rules! stubs {
        ($($n:ident)*) => { $(pub(crate) fn $n() {})* };
    }
    stubs! {
        rt_ethernet reparse_ethernet rt_ethernet_must_fail rt_arp
        reparse_arp rt_ipv4 reparse_ipv4 rt_ipv6
        reparse_ipv6 rt_udp reparse_udp rt_igmp_query
        rt_igmp_report_leave finding_igmp_leave_stale_max_resp_code reparse_igmp rt_icmpv4_echo
        rt_icmpv4_error finding_icmpv4_error_unused_stale finding_icmpv4_error_cut_payload reparse_icmpv4
        reparse_icmpv4_error rt_icmpv6_echo_request rt_icmpv6_echo_reply_empty rt_icmpv6_echo_reply
        rt_icmpv6_dst_unreachable rt_icmpv6_pkt_too_big rt_icmpv6_time_exceeded rt_icmpv6_param_problem
        finding_icmpv6_error_unused_stale reparse_icmpv6_echo rt_ndisc_rs_eth rt_ndisc_rs_ieee
        rt_ndisc_rs_none rt_icmpv6_ndisc_ns_parse_wrapped rt_ndisc_ns_eth rt_ndisc_ns_ieee
        rt_ndisc_na_eth rt_ndisc_na_none rt_ndisc_ra_none rt_ndisc_ra_all
        rt_ndisc_ra_ieee_prefix rt_ndisc_ra_mtu rt_ndisc_redirect_none rt_ndisc_redirect_emit_template
        rt_ndisc_redirect_parse_template indep_ndisc_redirect_full rt_ndiscopt_sll_eth rt_ndiscopt_tll_ieee
        rt_ndiscopt_prefix rt_ndiscopt_mtu rt_ndiscopt_redirected rt_ndiscopt_unknown
        finding_ndiscopt_lladdr_padding_stale finding_ndiscopt_mtu_reserved_stale finding_ndiscopt_redirected_padding_stale rt_mld_query
        rt_mld_report rt_mld_report_records finding_mld_report_records_buffer_len rt_icmpv6_mld_query_wrapped
        rt_ipv6_ext_header rt_ipv6_ext_header_16 rt_ipv6_option_small rt_ipv6_option_unknown
        rt_ipv6_hbh_mld rt_ipv6_hbh_max rt_ipv6_routing_type2 rt_ipv6_routing_rpl
        rt_ipv6_fragment rt_tcp_plain rt_tcp_syn_all rt_tcp_sack3_ts
        rt_tcp_mss rt_tcp_ws rt_tcp_sackperm rt_tcp_ts
        rt_tcp_mss_ws_ts rt_tcp_sack1 rt_tcp_sack1_ts rt_tcp_sack2
        rt_tcp_sack3 rt_tcp_mss_sack3_ts reparse_tcp reparse_tcp_opt4
        rt_dhcp_discover rt_dhcp_request rt_dhcp_ack rt_dhcp_minimal
        rt_dhcp_empty_lists finding_dhcp_renew_rebind_lost rt_dns_query finding_dns_flags_word_stale
        rt_ieee802154_2003_ext_ext_comp rt_ieee802154_2006_ext_ext_full rt_ieee802154_2003_short_ext_comp rt_ieee802154_2003_short_short_full
        rt_ieee802154_2006_ext_short_comp rt_ieee802154_2003_ext_absent_comp rt_ieee802154_2015_short_short_full rt_ieee802154_2015_short_ext_comp
        finding_ieee802154_2015_ext_ext_comp finding_ieee802154_frame_control_stale rt_sixlowpan_frag rt_sixlowpan_ext_header_inline
        rt_sixlowpan_ext_header_compressed rt_sixlowpan_udp_nhc_inline rt_sixlowpan_udp_nhc_src_f0 finding_sixlowpan_udp_nhc_dst_f0
        finding_sixlowpan_udp_nhc_both_f0b finding_sixlowpan_udp_nhc_checksum_stale rt_iphc_eui64_mcast8 rt_iphc_global_global
        rt_iphc_unspec_mcast32 rt_iphc_short_short rt_iphc_ll16_ll16 rt_iphc_ll64_eui64
        rt_iphc_global_ll64 rt_iphc_global_mcast48 finding_iphc_multicast_full
    }
}
