// C06 — Wire representations survive emit-then-parse unchanged.
// Spliced at the crate root (public wire API only), build configuration KW.
//
// Pattern (one harness per Repr type and per concrete shape; every field VALUE is symbolic):
//   n = declared length; emit into b1[..n] (zero-filled) and b2[..n] (symbolic garbage);
//   b1[k] == b2[k] at a symbolic k < n; new_checked(b1[..n]) is Ok; parse(b1[..n]) == repr (fieldwise,
//   payload bytes at a symbolic index).  `reparse_*`: arbitrary bytes, parse == Ok(r) => parse(emit(r)) == Ok(r).
// Checksums are ignored() everywhere (C08's subject).
// Enum-with-unknown fields are generated with `T::from(raw)` — `Unknown(x)` with x a known code is not a
// value the crate ever produces (the From<u8/u16> impls are the only constructors used by parsers).
// `finding_*` harnesses (kind=finding) assert inside a region where the unchanged crate is expected to fail;
// the matching `rt_*` harness excludes exactly that region.
#[cfg(all(
    feature = "medium-ethernet",
    feature = "medium-ieee802154",
    feature = "proto-sixlowpan",
    feature = "proto-dhcpv4",
    feature = "proto-dns",
    feature = "proto-ipv4",
    feature = "proto-ipv6"
))]
#[allow(dead_code, unused_imports, unused_variables, unused_mut, unused_macros)]
mod v_wire_roundtrip {
    use crate::phy::ChecksumCapabilities;
    use crate::time::Duration;
    use crate::verif_common::*;
    use crate::wire::*;

    const INDEP: &str = "prop:c06_emit_independent_of_prior_buffer_contents";

    fn caps() -> ChecksumCapabilities {
        ChecksumCapabilities::ignored()
    }
    fn any_v4() -> Ipv4Address {
        Ipv4Address::from_octets(kani::any())
    }
    fn any_v6() -> Ipv6Address {
        Ipv6Address::from_octets(kani::any())
    }
    fn any_eth() -> EthernetAddress {
        EthernetAddress(kani::any())
    }
    fn any_proto() -> IpProtocol {
        IpProtocol::from(kani::any::<u8>())
    }
    /// Ipv4Repr inside its documented range: total length (20 + payload_len) fits the 16-bit field.
    fn any_ipv4_repr(max_payload: usize) -> Ipv4Repr {
        let payload_len: usize = kani::any();
        kani::assume(payload_len <= max_payload);
        Ipv4Repr { src_addr: any_v4(), dst_addr: any_v4(), next_header: any_proto(), payload_len, hop_limit: kani::any() }
    }
    /// Ipv6Repr inside its documented range: payload_len fits the 16-bit field.
    fn any_ipv6_repr(max_payload: usize) -> Ipv6Repr {
        let payload_len: usize = kani::any();
        kani::assume(payload_len <= max_payload);
        Ipv6Repr { src_addr: any_v6(), dst_addr: any_v6(), next_header: any_proto(), payload_len, hop_limit: kani::any() }
    }

    /// b1 (was zero) and b2 (was garbage) agree at a symbolic position below n
    macro_rules! indep {
        ($b1:expr, $b2:expr, $n:expr) => {{
            let k: usize = kani::any();
            kani::assume(k < $n);
            assert!($b1[k] == $b2[k], "prop:c06_emit_independent_of_prior_buffer_contents");
        }};
        // same, restricted to positions satisfying `$keep` (bytes outside are the subject of a finding_* harness)
        ($b1:expr, $b2:expr, $n:expr, $k:ident => $keep:expr) => {{
            let $k: usize = kani::any();
            kani::assume($k < $n);
            kani::assume($keep);
            assert!($b1[$k] == $b2[$k], "prop:c06_emit_independent_of_prior_buffer_contents");
        }};
    }
    /// slice `$got` has length `$len` and equals `$want[..$len]` (checked at a symbolic index)
    macro_rules! same_bytes {
        ($got:expr, $want:expr, $len:expr, $msg:expr) => {{
            assert!($got.len() == $len, $msg);
            if $len > 0 {
                let j: usize = kani::any();
                kani::assume(j < $len);
                assert!($got[j] == $want[j], $msg);
            }
        }};
    }
    const RT: &str = "prop:c06_parse_of_emit_is_identity";
    const CHK: &str = "prop:c06_emitted_packet_passes_new_checked";
    const RE: &str = "prop:c06_reparse_of_parsed_is_identity";

    // ------------------------------------------------------------------ Ethernet

    // @harness props=C06 cfg=KW tier=q to=300 mem=4 unwind=8 opts=nomem covers=1 funcs=wire::ethernet::Repr::emit;wire::ethernet::Repr::parse;wire::ethernet::Repr::buffer_len bounds=all_field_values
    #[kani::proof]
    pub(crate) fn rt_ethernet() {
        let repr = EthernetRepr { src_addr: any_eth(), dst_addr: any_eth(), ethertype: EthernetProtocol::from(kani::any::<u16>()) };
        let n = repr.buffer_len();
        let mut b1 = [0u8; 14];
        let mut b2: [u8; 14] = kani::any();
        repr.emit(&mut EthernetFrame::new_unchecked(&mut b1[..n]));
        repr.emit(&mut EthernetFrame::new_unchecked(&mut b2[..n]));
        indep!(b1, b2, n);
        let f = EthernetFrame::new_checked(&b1[..n]);
        assert!(f.is_ok(), "prop:c06_emitted_packet_passes_new_checked");
        let back = EthernetRepr::parse(&f.unwrap());
        assert!(back == Ok(repr), "prop:c06_parse_of_emit_is_identity");
        kani::cover!(matches!(back, Ok(EthernetRepr { ethertype: EthernetProtocol::Unknown(_), .. })), "unknown ethertype round-trips");
    }

    // @harness props=C06 cfg=KW tier=q to=300 mem=4 unwind=8 opts=nomem covers=1 funcs=wire::ethernet::Repr::parse;wire::ethernet::Repr::emit bounds=arbitrary_bytes_len_0..=16
    #[kani::proof]
    pub(crate) fn reparse_ethernet() {
        let bytes: [u8; 16] = kani::any();
        let len = any_le(16);
        if let Ok(f) = EthernetFrame::new_checked(&bytes[..len]) {
            if let Ok(r) = EthernetRepr::parse(&f) {
                let mut b = [0u8; 14];
                let n = r.buffer_len();
                r.emit(&mut EthernetFrame::new_unchecked(&mut b[..n]));
                let back = EthernetRepr::parse(&EthernetFrame::new_unchecked(&b[..n]));
                assert!(back == Ok(r), "prop:c06_reparse_of_parsed_is_identity");
                kani::cover!(r.ethertype == EthernetProtocol::Arp, "parsed an ARP frame header");
            }
        }
    }

    // ------------------------------------------------------------------ ARP

    // @harness props=C06 cfg=KW tier=q to=300 mem=4 unwind=8 opts=nomem covers=1 funcs=wire::arp::Repr::emit;wire::arp::Repr::parse;wire::arp::Repr::buffer_len bounds=all_field_values
    #[kani::proof]
    pub(crate) fn rt_arp() {
        let repr = ArpRepr::EthernetIpv4 {
            operation: ArpOperation::from(kani::any::<u16>()),
            source_hardware_addr: any_eth(),
            source_protocol_addr: any_v4(),
            target_hardware_addr: any_eth(),
            target_protocol_addr: any_v4(),
        };
        let n = repr.buffer_len();
        let mut b1 = [0u8; 28];
        let mut b2: [u8; 28] = kani::any();
        repr.emit(&mut ArpPacket::new_unchecked(&mut b1[..n]));
        repr.emit(&mut ArpPacket::new_unchecked(&mut b2[..n]));
        indep!(b1, b2, n);
        let p = ArpPacket::new_checked(&b1[..n]);
        assert!(p.is_ok(), "prop:c06_emitted_packet_passes_new_checked");
        let back = ArpRepr::parse(&p.unwrap());
        assert!(back == Ok(repr), "prop:c06_parse_of_emit_is_identity");
        kani::cover!(matches!(back, Ok(ArpRepr::EthernetIpv4 { operation: ArpOperation::Reply, .. })), "reply round-trips");
    }

    // @harness props=C06 cfg=KW tier=q to=300 mem=4 unwind=8 opts=nomem covers=1 funcs=wire::arp::Repr::parse;wire::arp::Repr::emit bounds=arbitrary_bytes_len_0..=30
    #[kani::proof]
    pub(crate) fn reparse_arp() {
        let bytes: [u8; 30] = kani::any();
        let len = any_le(30);
        if let Ok(p) = ArpPacket::new_checked(&bytes[..len]) {
            if let Ok(r) = ArpRepr::parse(&p) {
                let mut b = [0u8; 28];
                let n = r.buffer_len();
                r.emit(&mut ArpPacket::new_unchecked(&mut b[..n]));
                let back = ArpRepr::parse(&ArpPacket::new_unchecked(&b[..n]));
                assert!(back == Ok(r), "prop:c06_reparse_of_parsed_is_identity");
                kani::cover!(len == 30, "parsed a packet with trailing bytes");
            }
        }
    }

    // ------------------------------------------------------------------ IPv4

    // The header is emitted into exactly buffer_len() = 20 bytes; parsing needs the whole datagram
    // (check_len compares against total_len), so the parse step is done for payload_len <= 8 on 20+payload_len bytes.
    // @harness props=C06 cfg=KW tier=q to=300 mem=4 unwind=8 opts=nomem covers=2 funcs=wire::ipv4::Repr::emit;wire::ipv4::Repr::parse;wire::ipv4::Repr::buffer_len bounds=payload_len_0..=65515_for_emit;_0..=8_for_parse
    #[kani::proof]
    pub(crate) fn rt_ipv4() {
        // documented range: total length fits u16
        let repr = any_ipv4_repr(65535 - 20);
        let n = repr.buffer_len();
        let mut b1 = [0u8; 28];
        let mut b2: [u8; 28] = kani::any();
        repr.emit(&mut Ipv4Packet::new_unchecked(&mut b1[..n]), &caps());
        repr.emit(&mut Ipv4Packet::new_unchecked(&mut b2[..n]), &caps());
        indep!(b1, b2, n);
        let view = Ipv4Packet::new_unchecked(&b1[..n]);
        assert!(view.total_len() as usize == 20 + repr.payload_len && view.header_len() == 20, "prop:c06_parse_of_emit_is_identity");
        if repr.payload_len <= 8 {
            let p = Ipv4Packet::new_checked(&b1[..n + repr.payload_len]);
            assert!(p.is_ok(), "prop:c06_emitted_packet_passes_new_checked");
            let back = Ipv4Repr::parse(&p.unwrap(), &caps());
            assert!(back == Ok(repr), "prop:c06_parse_of_emit_is_identity");
            kani::cover!(repr.payload_len == 8 && back.is_ok(), "header with payload parsed back");
        }
        kani::cover!(repr.payload_len == 65515, "largest datagram header emitted");
    }

    // @harness props=C06 cfg=KW tier=q to=300 mem=4 unwind=8 opts=nomem covers=2 funcs=wire::ipv4::Repr::parse;wire::ipv4::Repr::emit bounds=arbitrary_bytes_len_0..=32
    #[kani::proof]
    pub(crate) fn reparse_ipv4() {
        let bytes: [u8; 32] = kani::any();
        let len = any_le(32);
        if let Ok(p) = Ipv4Packet::new_checked(&bytes[..len]) {
            if let Ok(r) = Ipv4Repr::parse(&p, &caps()) {
                let mut b = [0u8; 32];
                let n = r.buffer_len();
                assert!(n + r.payload_len <= 32, "prop:c06_reparse_of_parsed_is_identity");
                r.emit(&mut Ipv4Packet::new_unchecked(&mut b[..n]), &caps());
                let back = Ipv4Repr::parse(&Ipv4Packet::new_unchecked(&b[..n + r.payload_len]), &caps());
                assert!(back == Ok(r), "prop:c06_reparse_of_parsed_is_identity");
                kani::cover!(p.header_len() == 24, "parsed a header with options (re-emitted without)");
                kani::cover!(r.payload_len == 12, "parsed a header with 12 payload bytes");
            }
        }
    }

    // ------------------------------------------------------------------ IPv6

    // @harness props=C06 cfg=KW tier=q to=300 mem=4 unwind=20 opts=nomem covers=2 funcs=wire::ipv6::Repr::emit;wire::ipv6::Repr::parse;wire::ipv6::Repr::buffer_len bounds=payload_len_0..=65535_for_emit;_0..=8_for_parse
    #[kani::proof]
    pub(crate) fn rt_ipv6() {
        // documented range: payload length fits u16
        let repr = any_ipv6_repr(65535);
        let n = repr.buffer_len();
        let mut b1 = [0u8; 48];
        let mut b2: [u8; 48] = kani::any();
        repr.emit(&mut Ipv6Packet::new_unchecked(&mut b1[..n]));
        repr.emit(&mut Ipv6Packet::new_unchecked(&mut b2[..n]));
        indep!(b1, b2, n);
        let view = Ipv6Packet::new_unchecked(&b1[..n]);
        assert!(view.payload_len() as usize == repr.payload_len, "prop:c06_parse_of_emit_is_identity");
        if repr.payload_len <= 8 {
            let p = Ipv6Packet::new_checked(&b1[..n + repr.payload_len]);
            assert!(p.is_ok(), "prop:c06_emitted_packet_passes_new_checked");
            let back = Ipv6Repr::parse(&p.unwrap());
            assert!(back == Ok(repr), "prop:c06_parse_of_emit_is_identity");
            kani::cover!(repr.payload_len == 8 && back.is_ok(), "header with payload parsed back");
        }
        kani::cover!(repr.payload_len == 65535, "largest payload length emitted");
    }

    // @harness props=C06 cfg=KW tier=q to=300 mem=4 unwind=20 opts=nomem covers=1 funcs=wire::ipv6::Repr::parse;wire::ipv6::Repr::emit bounds=arbitrary_bytes_len_0..=48
    #[kani::proof]
    pub(crate) fn reparse_ipv6() {
        let bytes: [u8; 48] = kani::any();
        let len = any_le(48);
        if let Ok(p) = Ipv6Packet::new_checked(&bytes[..len]) {
            if let Ok(r) = Ipv6Repr::parse(&p) {
                let mut b = [0u8; 48];
                let n = r.buffer_len();
                assert!(n + r.payload_len <= 48, "prop:c06_reparse_of_parsed_is_identity");
                r.emit(&mut Ipv6Packet::new_unchecked(&mut b[..n]));
                let back = Ipv6Repr::parse(&Ipv6Packet::new_unchecked(&b[..n + r.payload_len]));
                assert!(back == Ok(r), "prop:c06_reparse_of_parsed_is_identity");
                kani::cover!(r.payload_len == 8 && p.traffic_class() != 0, "parsed a header with traffic class and payload");
            }
        }
    }

    // ------------------------------------------------------------------ UDP

    // @harness props=C06 cfg=KW tier=q to=300 mem=4 unwind=12 opts=nomem covers=2 funcs=wire::udp::Repr::emit;wire::udp::Repr::parse;wire::udp::Repr::header_len bounds=payload_0..=8_bytes;_IPv4_and_IPv6_pseudo_header_addresses
    #[kani::proof]
    pub(crate) fn rt_udp() {
        let repr = UdpRepr { src_port: kani::any(), dst_port: kani::any() };
        // documented: "Destination port cannot be omitted (but source port can be)"
        kani::assume(repr.dst_port != 0);
        let payload: [u8; 8] = kani::any();
        let pl = any_le(8);
        let v6: bool = kani::any();
        let (src, dst) = if v6 { (IpAddress::Ipv6(any_v6()), IpAddress::Ipv6(any_v6())) } else { (IpAddress::Ipv4(any_v4()), IpAddress::Ipv4(any_v4())) };
        let n = repr.header_len() + pl;
        let mut b1 = [0u8; 16];
        let mut b2: [u8; 16] = kani::any();
        repr.emit(&mut UdpPacket::new_unchecked(&mut b1[..n]), &src, &dst, pl, |buf| buf.copy_from_slice(&payload[..pl]), &caps());
        repr.emit(&mut UdpPacket::new_unchecked(&mut b2[..n]), &src, &dst, pl, |buf| buf.copy_from_slice(&payload[..pl]), &caps());
        indep!(b1, b2, n);
        let p = UdpPacket::new_checked(&b1[..n]);
        assert!(p.is_ok(), "prop:c06_emitted_packet_passes_new_checked");
        let p = p.unwrap();
        let back = UdpRepr::parse(&p, &src, &dst, &caps());
        assert!(back == Ok(repr), "prop:c06_parse_of_emit_is_identity");
        same_bytes!(p.payload(), payload, pl, "prop:c06_parse_of_emit_is_identity");
        kani::cover!(pl == 8 && repr.src_port == 0, "full payload, source port omitted");
        kani::cover!(pl == 0 && v6, "empty datagram over IPv6");
    }

    // @harness props=C06 cfg=KW tier=q to=300 mem=4 unwind=12 opts=nomem covers=1 funcs=wire::udp::Repr::parse;wire::udp::Repr::emit bounds=arbitrary_bytes_len_0..=16
    #[kani::proof]
    pub(crate) fn reparse_udp() {
        let bytes: [u8; 16] = kani::any();
        let len = any_le(16);
        let src = IpAddress::Ipv4(any_v4());
        let dst = IpAddress::Ipv4(any_v4());
        if let Ok(p) = UdpPacket::new_checked(&bytes[..len]) {
            if let Ok(r) = UdpRepr::parse(&p, &src, &dst, &caps()) {
                let pl = p.payload().len();
                let mut b = [0u8; 16];
                let n = r.header_len() + pl;
                r.emit(&mut UdpPacket::new_unchecked(&mut b[..n]), &src, &dst, pl, |buf| buf.copy_from_slice(p.payload()), &caps());
                let q = UdpPacket::new_unchecked(&b[..n]);
                let back = UdpRepr::parse(&q, &src, &dst, &caps());
                assert!(back == Ok(r), "prop:c06_reparse_of_parsed_is_identity");
                same_bytes!(q.payload(), p.payload(), pl, "prop:c06_reparse_of_parsed_is_identity");
                kani::cover!(pl == 5 && len == 16, "length field shorter than the buffer");
            }
        }
    }

    // ------------------------------------------------------------------ IGMP

    /// RFC 3376 4.1.1 decoding of the Max Resp Code (tenths of a second), written from the RFC
    fn igmp_code_to_duration(code: u8) -> Duration {
        let c = code as u64;
        let ds = if c < 128 { c } else { ((c & 0xf) | 0x10) << (((c >> 4) & 7) + 3) };
        Duration::from_millis(ds * 100)
    }

    fn igmp_roundtrip(repr: IgmpRepr, stale_byte1_excluded: bool) {
        let n = repr.buffer_len();
        let mut b1 = [0u8; 8];
        let mut b2: [u8; 8] = kani::any();
        repr.emit(&mut IgmpPacket::new_unchecked(&mut b1[..n]));
        repr.emit(&mut IgmpPacket::new_unchecked(&mut b2[..n]));
        // bytes 2..4 are the checksum over the whole message (C08): compared too unless byte 1 is excluded
        if stale_byte1_excluded {
            indep!(b1, b2, n, k => k != 1 && k != 2 && k != 3);
        } else {
            indep!(b1, b2, n);
        }
        let p = IgmpPacket::new_checked(&b1[..n]);
        assert!(p.is_ok(), "prop:c06_emitted_packet_passes_new_checked");
        let back = IgmpRepr::parse(&p.unwrap());
        assert!(back == Ok(repr), "prop:c06_parse_of_emit_is_identity");
    }

    /// group address accepted by parse: unspecified (general query) or multicast
    fn any_group() -> Ipv4Address {
        let a = any_v4();
        kani::assume(a.is_unspecified() || a.is_multicast());
        a
    }

    // @harness props=C06 cfg=KW tier=q to=300 mem=4 unwind=12 opts=nomem covers=2 funcs=wire::igmp::Repr::emit;wire::igmp::Repr::parse;wire::igmp::Repr::buffer_len bounds=every_max_resp_code_1..=255;_IGMPv1_query_with_zero_time
    #[kani::proof]
    pub(crate) fn rt_igmp_query() {
        // documented: IGMPv1 queries carry no response time (code 0); an IGMPv2 max_resp_time is one of the
        // 255 durations the 8-bit code can express (the encoding is lossy by design for other durations)
        let code: u8 = kani::any();
        let (version, max_resp_time) = if code == 0 { (IgmpVersion::Version1, Duration::from_millis(0)) } else { (IgmpVersion::Version2, igmp_code_to_duration(code)) };
        let repr = IgmpRepr::MembershipQuery { max_resp_time, group_addr: any_group(), version };
        igmp_roundtrip(repr, false);
        kani::cover!(code == 0xff, "largest floating-point code");
        kani::cover!(code == 0, "IGMPv1 query");
    }

    // @harness props=C06 cfg=KW tier=q to=300 mem=4 unwind=12 opts=nomem covers=2 funcs=wire::igmp::Repr::emit;wire::igmp::Repr::parse bounds=report_v1_v2;_leave_(byte_1_excluded_from_the_stale_buffer_check_for_leave)
    #[kani::proof]
    pub(crate) fn rt_igmp_report_leave() {
        let leave: bool = kani::any();
        let v1: bool = kani::any();
        let repr = if leave {
            IgmpRepr::LeaveGroup { group_addr: any_group() }
        } else {
            IgmpRepr::MembershipReport { group_addr: any_group(), version: if v1 { IgmpVersion::Version1 } else { IgmpVersion::Version2 } }
        };
        igmp_roundtrip(repr, leave);
        kani::cover!(leave, "leave group");
        kani::cover!(!leave && v1, "IGMPv1 report");
    }

    // LeaveGroup: emit never writes the Max Resp Code byte (offset 1), so it keeps the old buffer contents
    // @harness props=C06 cfg=KW tier=q kind=finding to=300 mem=4 unwind=12 opts=nomem covers=1 funcs=wire::igmp::Repr::emit bounds=leave_group;_byte_1
    #[kani::proof]
    pub(crate) fn finding_igmp_leave_stale_max_resp_code() {
        let repr = IgmpRepr::LeaveGroup { group_addr: any_group() };
        let mut b1 = [0u8; 8];
        let mut b2: [u8; 8] = kani::any();
        repr.emit(&mut IgmpPacket::new_unchecked(&mut b1[..]));
        repr.emit(&mut IgmpPacket::new_unchecked(&mut b2[..]));
        kani::cover!(true, "emitted");
        assert!(b1[1] == b2[1], "prop:c06_emit_independent_of_prior_buffer_contents");
    }

    // @harness props=C06 cfg=KW tier=q to=300 mem=4 unwind=12 opts=nomem covers=2 funcs=wire::igmp::Repr::parse;wire::igmp::Repr::emit bounds=arbitrary_bytes_len_0..=10
    #[kani::proof]
    pub(crate) fn reparse_igmp() {
        let bytes: [u8; 10] = kani::any();
        let len = any_le(10);
        if let Ok(p) = IgmpPacket::new_checked(&bytes[..len]) {
            if let Ok(r) = IgmpRepr::parse(&p) {
                let mut b = [0u8; 8];
                let n = r.buffer_len();
                r.emit(&mut IgmpPacket::new_unchecked(&mut b[..n]));
                let back = IgmpRepr::parse(&IgmpPacket::new_unchecked(&b[..n]));
                kani::cover!(matches!(r, IgmpRepr::MembershipQuery { version: IgmpVersion::Version2, .. }) && bytes[1] >= 128, "query with exponent-coded time");
                kani::cover!(matches!(r, IgmpRepr::LeaveGroup { .. }), "leave");
                assert!(back == Ok(r), "prop:c06_reparse_of_parsed_is_identity");
            }
        }
    }

    // ------------------------------------------------------------------ ICMPv4

    // @harness props=C06 cfg=KW tier=q to=300 mem=4 unwind=12 opts=nomem covers=2 funcs=wire::icmpv4::Repr::emit;wire::icmpv4::Repr::parse;wire::icmpv4::Repr::buffer_len bounds=echo_request_and_reply;_data_0..=8_bytes
    #[kani::proof]
    pub(crate) fn rt_icmpv4_echo() {
        let data: [u8; 8] = kani::any();
        let dl = any_le(8);
        let ident: u16 = kani::any();
        let seq_no: u16 = kani::any();
        let reply: bool = kani::any();
        let repr = if reply { Icmpv4Repr::EchoReply { ident, seq_no, data: &data[..dl] } } else { Icmpv4Repr::EchoRequest { ident, seq_no, data: &data[..dl] } };
        let n = repr.buffer_len();
        let mut b1 = [0u8; 16];
        let mut b2: [u8; 16] = kani::any();
        repr.emit(&mut Icmpv4Packet::new_unchecked(&mut b1[..n]), &caps());
        repr.emit(&mut Icmpv4Packet::new_unchecked(&mut b2[..n]), &caps());
        indep!(b1, b2, n);
        let p = Icmpv4Packet::new_checked(&b1[..n]);
        assert!(p.is_ok(), "prop:c06_emitted_packet_passes_new_checked");
        match Icmpv4Repr::parse(&p.unwrap(), &caps()) {
            Ok(Icmpv4Repr::EchoReply { ident: i, seq_no: s, data: d }) => {
                assert!(reply && i == ident && s == seq_no, "prop:c06_parse_of_emit_is_identity");
                same_bytes!(d, data, dl, "prop:c06_parse_of_emit_is_identity");
            }
            Ok(Icmpv4Repr::EchoRequest { ident: i, seq_no: s, data: d }) => {
                assert!(!reply && i == ident && s == seq_no, "prop:c06_parse_of_emit_is_identity");
                same_bytes!(d, data, dl, "prop:c06_parse_of_emit_is_identity");
            }
            _ => assert!(false, "prop:c06_parse_of_emit_is_identity"),
        }
        kani::cover!(reply && dl == 8, "echo reply with 8 data bytes");
        kani::cover!(!reply && dl == 0, "echo request without data");
    }

    /// DstUnreachable / TimeExceeded carrying an IPv4 header + 8 bytes of the offending datagram.
    /// `hdr_payload_len`: payload length recorded in the embedded header; parse() re-derives it from the bytes
    /// present, so identity is only claimed for hdr_payload_len == data.len() (see finding_icmpv4_error_cut_payload).
    fn icmpv4_error<'a>(time_exceeded: bool, data: &'a [u8], hdr_payload_len: usize) -> Icmpv4Repr<'a> {
        let header = Ipv4Repr { src_addr: any_v4(), dst_addr: any_v4(), next_header: any_proto(), payload_len: hdr_payload_len, hop_limit: kani::any() };
        if time_exceeded {
            Icmpv4Repr::TimeExceeded { reason: Icmpv4TimeExceeded::from(kani::any::<u8>()), header, data }
        } else {
            Icmpv4Repr::DstUnreachable { reason: Icmpv4DstUnreachable::from(kani::any::<u8>()), header, data }
        }
    }

    // @harness props=C06 cfg=KW tier=q to=300 mem=4 unwind=12 opts=nomem covers=2 funcs=wire::icmpv4::Repr::emit;wire::icmpv4::Repr::parse;wire::icmpv4::Repr::buffer_len bounds=dst_unreachable_and_time_exceeded;_embedded_header_plus_exactly_8_payload_bytes;_unused_bytes_4..8_excluded_from_stale_check
    #[kani::proof]
    pub(crate) fn rt_icmpv4_error() {
        // RFC 792 / Repr::parse: at least eight bytes of the offending datagram follow the embedded header
        let data: [u8; 8] = kani::any();
        let te: bool = kani::any();
        let repr = icmpv4_error(te, &data[..], 8);
        let n = repr.buffer_len();
        assert!(n == 36, "prop:c06_parse_of_emit_is_identity");
        let mut b1 = [0u8; 36];
        let mut b2: [u8; 36] = kani::any();
        repr.emit(&mut Icmpv4Packet::new_unchecked(&mut b1[..n]), &caps());
        repr.emit(&mut Icmpv4Packet::new_unchecked(&mut b2[..n]), &caps());
        indep!(b1, b2, n, k => k < 4 || k >= 8);
        let p = Icmpv4Packet::new_checked(&b1[..n]);
        assert!(p.is_ok(), "prop:c06_emitted_packet_passes_new_checked");
        let back = Icmpv4Repr::parse(&p.unwrap(), &caps());
        assert!(back == Ok(repr), "prop:c06_parse_of_emit_is_identity");
        kani::cover!(te, "time exceeded");
        kani::cover!(matches!(back, Ok(Icmpv4Repr::DstUnreachable { reason: Icmpv4DstUnreachable::PortUnreachable, .. })), "port unreachable");
    }

    // DstUnreachable/TimeExceeded: the 4 "unused" bytes after the checksum are never written
    // @harness props=C06 cfg=KW tier=q kind=finding to=300 mem=4 unwind=12 opts=nomem covers=1 funcs=wire::icmpv4::Repr::emit bounds=dst_unreachable_and_time_exceeded;_bytes_4..8
    #[kani::proof]
    pub(crate) fn finding_icmpv4_error_unused_stale() {
        let data: [u8; 8] = kani::any();
        let te: bool = kani::any();
        let repr = icmpv4_error(te, &data[..], 8);
        let mut b1 = [0u8; 36];
        let mut b2: [u8; 36] = kani::any();
        repr.emit(&mut Icmpv4Packet::new_unchecked(&mut b1[..]), &caps());
        repr.emit(&mut Icmpv4Packet::new_unchecked(&mut b2[..]), &caps());
        kani::cover!(true, "emitted");
        let k = 4 + any_lt(4);
        assert!(b1[k] == b2[k], "prop:c06_emit_independent_of_prior_buffer_contents");
    }

    // An error message about a datagram longer than the quoted 8 bytes (what Interface::icmpv4_reply builds:
    // header = the offending datagram's Ipv4Repr, data = its first bytes) is emitted with total_len > bytes present,
    // and Repr::parse rejects it (Ipv4Packet::new_checked wants the whole embedded datagram).
    // @harness props=C06 cfg=KW tier=q kind=finding to=300 mem=4 unwind=12 opts=nomem covers=1 funcs=wire::icmpv4::Repr::emit;wire::icmpv4::Repr::parse bounds=embedded_header_payload_len_9..=1480;_8_quoted_bytes
    #[kani::proof]
    pub(crate) fn finding_icmpv4_error_cut_payload() {
        let data: [u8; 8] = kani::any();
        let te: bool = kani::any();
        let hl: usize = kani::any();
        kani::assume(hl > 8 && hl <= 1480);
        let repr = icmpv4_error(te, &data[..], hl);
        let n = repr.buffer_len();
        let mut b1 = [0u8; 36];
        repr.emit(&mut Icmpv4Packet::new_unchecked(&mut b1[..n]), &caps());
        let p = Icmpv4Packet::new_checked(&b1[..n]);
        kani::cover!(p.is_ok(), "emitted");
        let back = Icmpv4Repr::parse(&p.unwrap(), &caps());
        assert!(back.is_ok(), "prop:c06_parse_of_emit_is_identity");
    }

    // @harness props=C06 cfg=KW tier=q to=300 mem=4 unwind=20 opts=nomem covers=1 funcs=wire::icmpv4::Repr::parse;wire::icmpv4::Repr::emit bounds=arbitrary_bytes_len_0..=16_(echo_forms)
    #[kani::proof]
    pub(crate) fn reparse_icmpv4() {
        let bytes: [u8; 16] = kani::any();
        let len = any_le(16);
        if let Ok(p) = Icmpv4Packet::new_checked(&bytes[..len]) {
            if let Ok(r) = Icmpv4Repr::parse(&p, &caps()) {
                let mut b = [0u8; 16];
                let n = r.buffer_len();
                assert!(n <= 16, "prop:c06_reparse_of_parsed_is_identity");
                r.emit(&mut Icmpv4Packet::new_unchecked(&mut b[..n]), &caps());
                let back = Icmpv4Repr::parse(&Icmpv4Packet::new_unchecked(&b[..n]), &caps());
                kani::cover!(matches!(r, Icmpv4Repr::EchoRequest { data, .. } if data.len() == 8), "echo request with 8 data bytes");
                assert!(back == Ok(r), "prop:c06_reparse_of_parsed_is_identity");
            }
        }
    }

    // @harness props=C06 cfg=KW tier=t to=600 mem=6 unwind=42 opts=nomem covers=1 funcs=wire::icmpv4::Repr::parse;wire::icmpv4::Repr::emit bounds=arbitrary_bytes_len_36..=40_(error_forms)
    #[kani::proof]
    pub(crate) fn reparse_icmpv4_error() {
        let bytes: [u8; 40] = kani::any();
        let len = 36 + any_le(4);
        kani::assume(bytes[0] == 3 || bytes[0] == 11);
        if let Ok(p) = Icmpv4Packet::new_checked(&bytes[..len]) {
            if let Ok(r) = Icmpv4Repr::parse(&p, &caps()) {
                let mut b = [0u8; 40];
                let n = r.buffer_len();
                assert!(n <= 40, "prop:c06_reparse_of_parsed_is_identity");
                r.emit(&mut Icmpv4Packet::new_unchecked(&mut b[..n]), &caps());
                let back = Icmpv4Repr::parse(&Icmpv4Packet::new_unchecked(&b[..n]), &caps());
                kani::cover!(matches!(r, Icmpv4Repr::TimeExceeded { data, .. } if data.len() == 12), "time exceeded quoting 12 bytes");
                assert!(back == Ok(r), "prop:c06_reparse_of_parsed_is_identity");
            }
        }
    }

    // ------------------------------------------------------------------ ICMPv6
    // Lengths are concrete per harness: a copy of symbolic length into the packet buffer makes CBMC forget the
    // (concrete) message-type byte, and Repr::parse then explores the NDISC/MLD parsers as well (out of memory).

    macro_rules! icmpv6_echo_rt {
        ($reply:expr, $dl:expr) => {{
            const REPLY: bool = $reply;
            const DL: usize = $dl;
            let data: [u8; DL] = kani::any();
            let ident: u16 = kani::any();
            let seq_no: u16 = kani::any();
            let (src, dst) = (any_v6(), any_v6());
            let repr = if REPLY { Icmpv6Repr::EchoReply { ident, seq_no, data: &data[..] } } else { Icmpv6Repr::EchoRequest { ident, seq_no, data: &data[..] } };
            let n = repr.buffer_len();
            assert!(n == 8 + DL, "prop:c06_parse_of_emit_is_identity");
            let mut b1 = [0u8; 16];
            let mut b2: [u8; 16] = kani::any();
            repr.emit(&src, &dst, &mut Icmpv6Packet::new_unchecked(&mut b1[..8 + DL]), &caps());
            repr.emit(&src, &dst, &mut Icmpv6Packet::new_unchecked(&mut b2[..8 + DL]), &caps());
            indep!(b1, b2, 8 + DL);
            let p = Icmpv6Packet::new_checked(&b1[..8 + DL]);
            assert!(p.is_ok(), "prop:c06_emitted_packet_passes_new_checked");
            match Icmpv6Repr::parse(&src, &dst, &p.unwrap(), &caps()) {
                Ok(Icmpv6Repr::EchoReply { ident: i, seq_no: s, data: d }) => {
                    assert!(REPLY && i == ident && s == seq_no, "prop:c06_parse_of_emit_is_identity");
                    same_bytes!(d, data, DL, "prop:c06_parse_of_emit_is_identity");
                    kani::cover!(i == 0xffff, "echo reply parsed back");
                }
                Ok(Icmpv6Repr::EchoRequest { ident: i, seq_no: s, data: d }) => {
                    assert!(!REPLY && i == ident && s == seq_no, "prop:c06_parse_of_emit_is_identity");
                    same_bytes!(d, data, DL, "prop:c06_parse_of_emit_is_identity");
                    kani::cover!(i == 0xffff, "echo request parsed back");
                }
                _ => assert!(false, "prop:c06_parse_of_emit_is_identity"),
            }
        }};
    }

    // @harness props=C06 cfg=KW tier=q to=300 mem=4 unwind=20 opts=nomem covers=1 funcs=wire::icmpv6::Repr::emit;wire::icmpv6::Repr::parse;wire::icmpv6::Repr::buffer_len bounds=echo_request;_8_data_bytes
    #[kani::proof]
    pub(crate) fn rt_icmpv6_echo_request() {
        icmpv6_echo_rt!(false, 8);
    }

    // @harness props=C06 cfg=KW tier=q to=300 mem=4 unwind=20 opts=nomem covers=1 funcs=wire::icmpv6::Repr::emit;wire::icmpv6::Repr::parse;wire::icmpv6::Repr::buffer_len bounds=echo_reply;_no_data
    #[kani::proof]
    pub(crate) fn rt_icmpv6_echo_reply_empty() {
        icmpv6_echo_rt!(true, 0);
    }

    // @harness props=C06 cfg=KW tier=t to=300 mem=4 unwind=20 opts=nomem covers=1 funcs=wire::icmpv6::Repr::emit;wire::icmpv6::Repr::parse bounds=echo_reply;_5_data_bytes
    #[kani::proof]
    pub(crate) fn rt_icmpv6_echo_reply() {
        icmpv6_echo_rt!(true, 5);
    }

    /// KIND: 0 DstUnreachable, 1 PktTooBig, 2 TimeExceeded, 3 ParamProblem; DL quoted payload bytes
    macro_rules! icmpv6_error_rt {
        ($kind:expr, $dl:expr) => {{
            const KIND: u8 = $kind;
            const DL: usize = $dl;
            let data: [u8; DL] = kani::any();
            let (src, dst) = (any_v6(), any_v6());
            // the embedded header's payload_len is an independent 16-bit field (the quoted payload may be cut)
            let header = any_ipv6_repr(65535);
            let code: u8 = kani::any();
            let word: u32 = kani::any();
            let repr = match KIND {
                0 => Icmpv6Repr::DstUnreachable { reason: Icmpv6DstUnreachable::from(code), header, data: &data[..] },
                1 => Icmpv6Repr::PktTooBig { mtu: word, header, data: &data[..] },
                2 => Icmpv6Repr::TimeExceeded { reason: Icmpv6TimeExceeded::from(code), header, data: &data[..] },
                _ => Icmpv6Repr::ParamProblem { reason: Icmpv6ParamProblem::from(code), pointer: word, header, data: &data[..] },
            };
            let n = repr.buffer_len();
            assert!(n == 48 + DL, "prop:c06_parse_of_emit_is_identity");
            let mut b1 = [0u8; 56];
            let mut b2: [u8; 56] = kani::any();
            repr.emit(&src, &dst, &mut Icmpv6Packet::new_unchecked(&mut b1[..48 + DL]), &caps());
            repr.emit(&src, &dst, &mut Icmpv6Packet::new_unchecked(&mut b2[..48 + DL]), &caps());
            if KIND == 0 || KIND == 2 {
                // bytes 4..8 ("unused"): finding_icmpv6_error_unused_stale
                indep!(b1, b2, 48 + DL, k => k < 4 || k >= 8);
            } else {
                indep!(b1, b2, 48 + DL);
            }
            let p = Icmpv6Packet::new_checked(&b1[..48 + DL]);
            assert!(p.is_ok(), "prop:c06_emitted_packet_passes_new_checked");
            let (h, d) = match Icmpv6Repr::parse(&src, &dst, &p.unwrap(), &caps()) {
                Ok(Icmpv6Repr::DstUnreachable { reason, header: h, data: d }) => {
                    assert!(KIND == 0 && reason == Icmpv6DstUnreachable::from(code), "prop:c06_parse_of_emit_is_identity");
                    (h, d)
                }
                Ok(Icmpv6Repr::PktTooBig { mtu, header: h, data: d }) => {
                    assert!(KIND == 1 && mtu == word, "prop:c06_parse_of_emit_is_identity");
                    (h, d)
                }
                Ok(Icmpv6Repr::TimeExceeded { reason, header: h, data: d }) => {
                    assert!(KIND == 2 && reason == Icmpv6TimeExceeded::from(code), "prop:c06_parse_of_emit_is_identity");
                    (h, d)
                }
                Ok(Icmpv6Repr::ParamProblem { reason, pointer, header: h, data: d }) => {
                    assert!(KIND == 3 && reason == Icmpv6ParamProblem::from(code) && pointer == word, "prop:c06_parse_of_emit_is_identity");
                    (h, d)
                }
                _ => {
                    assert!(false, "prop:c06_parse_of_emit_is_identity");
                    return;
                }
            };
            assert!(h == header, "prop:c06_parse_of_emit_is_identity");
            same_bytes!(d, data, DL, "prop:c06_parse_of_emit_is_identity");
            kani::cover!(h.payload_len == 1280 && code == 4, "error about a 1280-byte payload parsed back");
        }};
    }

    // @harness props=C06 cfg=KW tier=q to=300 mem=4 unwind=20 opts=nomem covers=1 funcs=wire::icmpv6::Repr::emit;wire::icmpv6::Repr::parse;wire::icmpv6::Repr::buffer_len bounds=dst_unreachable;_embedded_header_plus_8_bytes;_unused_bytes_4..8_excluded_from_stale_check
    #[kani::proof]
    pub(crate) fn rt_icmpv6_dst_unreachable() {
        icmpv6_error_rt!(0, 8);
    }

    // @harness props=C06 cfg=KW tier=t to=300 mem=4 unwind=20 opts=nomem covers=1 funcs=wire::icmpv6::Repr::emit;wire::icmpv6::Repr::parse bounds=pkt_too_big;_embedded_header_plus_8_bytes
    #[kani::proof]
    pub(crate) fn rt_icmpv6_pkt_too_big() {
        icmpv6_error_rt!(1, 8);
    }

    // @harness props=C06 cfg=KW tier=t to=300 mem=4 unwind=20 opts=nomem covers=1 funcs=wire::icmpv6::Repr::emit;wire::icmpv6::Repr::parse bounds=time_exceeded;_embedded_header_only;_unused_bytes_4..8_excluded_from_stale_check
    #[kani::proof]
    pub(crate) fn rt_icmpv6_time_exceeded() {
        icmpv6_error_rt!(2, 0);
    }

    // @harness props=C06 cfg=KW tier=q to=300 mem=4 unwind=20 opts=nomem covers=1 funcs=wire::icmpv6::Repr::emit;wire::icmpv6::Repr::parse bounds=param_problem;_embedded_header_plus_3_bytes
    #[kani::proof]
    pub(crate) fn rt_icmpv6_param_problem() {
        icmpv6_error_rt!(3, 3);
    }

    // DstUnreachable/TimeExceeded: the 4 "unused" bytes after the checksum are never written
    // @harness props=C06 cfg=KW tier=q kind=finding to=300 mem=4 unwind=20 opts=nomem covers=1 funcs=wire::icmpv6::Repr::emit bounds=dst_unreachable;_bytes_4..8
    #[kani::proof]
    pub(crate) fn finding_icmpv6_error_unused_stale() {
        let data: [u8; 8] = kani::any();
        let (src, dst) = (any_v6(), any_v6());
        let repr = Icmpv6Repr::DstUnreachable { reason: Icmpv6DstUnreachable::from(kani::any::<u8>()), header: any_ipv6_repr(65535), data: &data[..] };
        let mut b1 = [0u8; 56];
        let mut b2: [u8; 56] = kani::any();
        repr.emit(&src, &dst, &mut Icmpv6Packet::new_unchecked(&mut b1[..]), &caps());
        repr.emit(&src, &dst, &mut Icmpv6Packet::new_unchecked(&mut b2[..]), &caps());
        kani::cover!(true, "emitted");
        let k = 4 + any_lt(4);
        assert!(b1[k] == b2[k], "prop:c06_emit_independent_of_prior_buffer_contents");
    }

    // @harness props=C06 cfg=KW tier=q to=600 mem=6 unwind=20 opts=nomem covers=1 funcs=wire::icmpv6::Repr::parse;wire::icmpv6::Repr::emit bounds=arbitrary_16_bytes_with_type_echo_request
    #[kani::proof]
    pub(crate) fn reparse_icmpv6_echo() {
        let mut bytes: [u8; 16] = kani::any();
        // concrete message type: a symbolic one sends symbolic execution through the NDISC and MLD parsers
        bytes[0] = 128;
        let (src, dst) = (any_v6(), any_v6());
        if let Ok(p) = Icmpv6Packet::new_checked(&bytes[..]) {
            if let Ok(r) = Icmpv6Repr::parse(&src, &dst, &p, &caps()) {
                let mut b = [0u8; 16];
                let n = r.buffer_len();
                assert!(n == 16, "prop:c06_reparse_of_parsed_is_identity");
                r.emit(&src, &dst, &mut Icmpv6Packet::new_unchecked(&mut b[..]), &caps());
                match (r, Icmpv6Repr::parse(&src, &dst, &Icmpv6Packet::new_unchecked(&b[..]), &caps())) {
                    (Icmpv6Repr::EchoRequest { ident, seq_no, data }, Ok(Icmpv6Repr::EchoRequest { ident: i, seq_no: s, data: d })) => {
                        assert!(ident == i && seq_no == s, "prop:c06_reparse_of_parsed_is_identity");
                        same_bytes!(d, data, 8, "prop:c06_reparse_of_parsed_is_identity");
                        kani::cover!(ident == 7, "echo request re-parsed");
                    }
                    (Icmpv6Repr::EchoReply { ident, seq_no, data }, Ok(Icmpv6Repr::EchoReply { ident: i, seq_no: s, data: d })) => {
                        assert!(ident == i && seq_no == s, "prop:c06_reparse_of_parsed_is_identity");
                        same_bytes!(d, data, 8, "prop:c06_reparse_of_parsed_is_identity");
                    }
                    _ => assert!(false, "prop:c06_reparse_of_parsed_is_identity"),
                }
            }
        }
    }

    // <<END>>
}
