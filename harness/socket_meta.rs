// Socket metadata (neighbor-wait back-off) harnesses: C13, interface-level part.
// Spliced into src/iface/socket_meta.rs: `Meta`, `NeighborState` (private) reachable.
//
// `Meta` decides two things for `Interface`: whether `socket_egress` may dispatch the socket
// (`egress_permitted`) and what the socket contributes to `Interface::poll_at` (`poll_at`).
// C13 needs the two to agree: the schedule is sufficient (whenever the socket is due and egress is
// permitted at an instant t, the advertised deadline is not later than t) and non-spinning
// (whenever egress is refused, the advertised deadline is strictly later than `now`).
#[allow(dead_code, unused_imports, unused_variables, unused_mut)]
mod v_socket_meta {
    use super::*;

    // instants are symbolic microsecond counts (the resolution of `Instant`)
    const T_MAX: i64 = 1i64 << 50;
    const SILENT: i64 = 1_000_000;

    fn any_addr() -> IpAddress {
        #[cfg(feature = "proto-ipv4")]
        {
            let b: [u8; 4] = kani::any();
            IpAddress::v4(b[0], b[1], b[2], b[3])
        }
        #[cfg(not(feature = "proto-ipv4"))]
        {
            let w: [u16; 8] = kani::any();
            IpAddress::v6(w[0], w[1], w[2], w[3], w[4], w[5], w[6], w[7])
        }
    }

    fn any_instant(lo: i64, hi: i64) -> Instant {
        let t: i64 = kani::any();
        kani::assume(t >= lo && t <= hi);
        Instant::from_micros(t)
    }

    /// symbolic description of a `Meta` (it is not `Clone`; the harness builds it more than once)
    #[derive(Clone, Copy)]
    struct Desc {
        waiting: bool,
        neighbor: IpAddress,
        silent_until: Instant,
    }

    fn any_desc() -> Desc {
        Desc { waiting: kani::any(), neighbor: any_addr(), silent_until: any_instant(0, T_MAX + SILENT) }
    }

    fn build(d: &Desc) -> Meta {
        Meta {
            handle: SocketHandle::default(),
            neighbor_state: if d.waiting {
                NeighborState::Waiting { neighbor: d.neighbor, silent_until: d.silent_until }
            } else {
                NeighborState::Active
            },
        }
    }

    fn any_poll_at() -> PollAt {
        let k: u8 = kani::any();
        match k {
            0 => PollAt::Ingress,
            1 => PollAt::Now,
            _ => PollAt::Time(any_instant(0, T_MAX + 100 * SILENT)),
        }
    }

    /// the socket itself has work at instant `t`
    fn due(p: PollAt, t: Instant) -> bool {
        match p {
            PollAt::Now => true,
            PollAt::Time(s) => s <= t,
            PollAt::Ingress => false,
        }
    }

    /// `t` is strictly earlier than the advertised deadline
    fn before(t: Instant, d: PollAt) -> bool {
        match d {
            PollAt::Now => false,
            PollAt::Time(s) => t < s,
            PollAt::Ingress => true,
        }
    }

    // @harness props=C13 cfg=KI4,KI6 tier=q to=300 mem=4 unwind=18 opts=nomem covers=5 funcs=Meta::poll_at;Meta::egress_permitted;Meta::neighbor_missing bounds=every_NeighborState_(Active/Waiting_with_any_address_and_any_silent_until);_every_socket_PollAt;_now_and_probe_instant_any_value_below_2^50_us;_neighbor-cache_answer_symbolic_per_address
    #[kani::proof]
    pub(crate) fn meta_poll_vs_egress() {
        let d = any_desc();
        let now = any_instant(0, T_MAX);
        let spa = any_poll_at();
        // answer of the neighbor cache: `hn` for the awaited neighbor, `other` for any other address
        let hn: bool = kani::any();
        let other: bool = kani::any();
        let nb = d.neighbor;
        let has = move |a: IpAddress| if a == nb { hn } else { other };

        let m0 = build(&d);
        let dl = m0.poll_at(spa, has, now);
        let mut m1 = build(&d);
        let perm = m1.egress_permitted(now, has);
        crate::vdump!("state waiting={} neighbor={} silent_until={} now={} socket_poll_at={:?} has_neighbor={} -> poll_at={:?} egress_permitted={}",
            d.waiting, d.neighbor, d.silent_until, now, spa, hn, dl, perm);

        // ---- non-spinning: refused egress comes with a deadline strictly in the future
        if !perm {
            assert!(before(now, dl), "prop:c13_meta_refused_egress_has_future_deadline");
            assert!(dl == PollAt::Time(d.silent_until), "prop:c13_meta_refused_egress_waits_for_silence_end");
            assert!(d.waiting && !hn, "prop:c13_meta_refuses_only_while_waiting_for_unknown_neighbor");
        }
        // ---- sufficient schedule: a due socket advertised as due is really let through, and permitted egress passes the socket's own deadline on
        if due(spa, now) && !before(now, dl) {
            assert!(perm, "prop:c13_meta_due_deadline_implies_egress_permitted");
        }
        if perm {
            assert!(dl == spa, "prop:c13_meta_permitted_egress_keeps_socket_deadline");
        }
        // ---- not earlier: at any probe instant before the advertised deadline the socket would not be dispatched
        let t = any_instant(0, T_MAX);
        kani::assume(t >= now);
        let mut m2 = build(&d);
        let perm_t = m2.egress_permitted(t, has);
        if before(t, dl) {
            assert!(!(perm_t && due(spa, t)), "prop:c13_meta_nothing_dispatched_before_poll_at");
        }
        // the deadline itself is honoured: at the advertised instant the silence is over
        if let PollAt::Time(s) = dl {
            if !perm {
                let mut m3 = build(&d);
                assert!(m3.egress_permitted(s, has), "prop:c13_meta_egress_permitted_at_deadline");
            }
        }
        // ---- a discovered neighbor ends the wait
        if d.waiting && hn {
            assert!(perm && matches!(m1.neighbor_state, NeighborState::Active), "prop:c13_meta_active_once_neighbor_found");
        }
        if !d.waiting || !hn {
            // nothing else changes the state
            match m1.neighbor_state {
                NeighborState::Active => assert!(!d.waiting, "prop:c13_meta_state_kept"),
                NeighborState::Waiting { neighbor, silent_until } => {
                    assert!(d.waiting && neighbor == d.neighbor && silent_until == d.silent_until, "prop:c13_meta_state_kept")
                }
            }
        }

        // ---- neighbor_missing: one second of silence, counted from the failed dispatch
        let miss = any_addr();
        let mut m4 = build(&d);
        m4.neighbor_missing(now, miss);
        let one_s = Instant::from_micros(now.total_micros() + SILENT);
        match m4.neighbor_state {
            NeighborState::Waiting { neighbor, silent_until } => {
                assert!(neighbor == miss, "prop:c13_meta_waits_for_the_missing_neighbor");
                assert!(silent_until == one_s, "prop:c13_meta_silence_is_one_second");
            }
            NeighborState::Active => assert!(false, "prop:c13_meta_missing_neighbor_silences"),
        }
        assert!(Meta::DISCOVERY_SILENT_TIME == Duration::from_millis(1000), "prop:c13_meta_silence_is_one_second");
        let none = |_a: IpAddress| false;
        let dl4 = m4.poll_at(spa, none, t);
        if t < one_s {
            assert!(dl4 == PollAt::Time(one_s), "prop:c13_meta_silenced_socket_polls_at_silence_end");
            assert!(!m4.egress_permitted(t, none), "prop:c13_meta_silenced_socket_not_dispatched");
        } else {
            assert!(dl4 == spa, "prop:c13_meta_silence_over_keeps_socket_deadline");
            assert!(m4.egress_permitted(t, none), "prop:c13_meta_silence_over_permits_egress");
        }
        let found = move |a: IpAddress| a == miss;
        assert!(m4.poll_at(spa, found, t) == spa, "prop:c13_meta_found_neighbor_keeps_socket_deadline");
        assert!(m4.egress_permitted(t, found) && matches!(m4.neighbor_state, NeighborState::Active), "prop:c13_meta_active_once_neighbor_found");

        kani::cover!(!perm && spa == PollAt::Now, "due socket silenced");
        kani::cover!(d.waiting && perm && !hn && due(spa, now), "silence expired, rediscovery allowed");
        kani::cover!(d.waiting && hn && other != hn, "neighbor found (cache asked about the awaited address)");
        kani::cover!(before(t, dl) && t > now && matches!(spa, PollAt::Time(_)) && perm, "probe before a timed socket deadline");
        kani::cover!(t >= one_s && dl4 == PollAt::Now, "silence after neighbor_missing is over");
    }

    // @harness props=C13 kind=mustfail cfg=KI4,KI6 tier=q to=300 mem=4 unwind=18 opts=nomem
    #[kani::proof]
    pub(crate) fn meta_must_fail() {
        let d = any_desc();
        let now = any_instant(0, T_MAX);
        let hn: bool = kani::any();
        let has = move |_a: IpAddress| hn;
        let mut m = build(&d);
        assert!(m.egress_permitted(now, has), "prop:deliberately_false_egress_always_permitted");
    }
}
