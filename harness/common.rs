// Shared helpers for the spliced Kani harnesses (crate root: `crate::verif_common`).
#[allow(dead_code)]
pub(crate) mod verif_common {
    /// symbolic usize in 0..=n
    pub(crate) fn any_le(n: usize) -> usize {
        let v: usize = kani::any();
        kani::assume(v <= n);
        v
    }
    /// symbolic usize in 0..n
    pub(crate) fn any_lt(n: usize) -> usize {
        let v: usize = kani::any();
        kani::assume(v < n);
        v
    }
    /// A `fmt::Write` that discards everything (pretty-printer harnesses run the real core::fmt).
    pub(crate) struct NoopSink;
    impl core::fmt::Write for NoopSink {
        fn write_str(&mut self, _s: &str) -> core::fmt::Result {
            Ok(())
        }
    }
}

/// Devices for harnesses that need an `Interface` (context, MTU, capture of transmitted frames).
#[allow(dead_code)]
pub(crate) mod verif_dev {
    use crate::phy::{Device, DeviceCapabilities, Medium, RxToken, TxToken, ChecksumCapabilities};
    use crate::time::Instant;

    /// A device that never receives and never offers a transmit token: only supplies capabilities.
    pub(crate) struct NullDev {
        pub(crate) medium: Medium,
        pub(crate) mtu: usize,
        pub(crate) checksum: ChecksumCapabilities,
    }
    pub(crate) struct NoRx;
    pub(crate) struct NoTx;
    impl RxToken for NoRx {
        fn consume<R, F: FnOnce(&[u8]) -> R>(self, f: F) -> R {
            f(&[])
        }
    }
    impl TxToken for NoTx {
        fn consume<R, F: FnOnce(&mut [u8]) -> R>(self, _len: usize, f: F) -> R {
            f(&mut [])
        }
    }
    impl Device for NullDev {
        type RxToken<'a> = NoRx;
        type TxToken<'a> = NoTx;
        fn capabilities(&self) -> DeviceCapabilities {
            let mut c = DeviceCapabilities::default();
            c.medium = self.medium;
            c.max_transmission_unit = self.mtu;
            c.checksum = self.checksum.clone();
            c
        }
        fn receive(&mut self, _t: Instant) -> Option<(NoRx, NoTx)> {
            None
        }
        fn transmit(&mut self, _t: Instant) -> Option<NoTx> {
            None
        }
    }
}

/// `crate::vdump!(..)`: eprintln! in the native replay build only (decoding counterexamples), nothing under Kani.
#[cfg(verif_replay)]
macro_rules! vdump {
    ($($t:tt)*) => {{
        extern crate std as vdump_std;
        vdump_std::eprintln!($($t)*);
    }};
}
#[cfg(not(verif_replay))]
macro_rules! vdump {
    ($($t:tt)*) => {{}};
}
#[allow(unused_imports)]
pub(crate) use vdump;
