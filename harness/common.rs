// Shared helpers for the spliced Kani harnesses (crate root: `crate::verif_common`).
#[allow(dead_code)]
pub(crate) mod verif_common {
    /// symbolic usize in 0..=n
    pub(crate) fn any_le(n: usize) -> usize {
        let v: usize = kani::any();
        kani::assume(v <= n);
        v
    }
    /// symbolic usize in 0..n
    pub(crate) fn any_lt(n: usize) -> usize {
        let v: usize = kani::any();
        kani::assume(v < n);
        v
    }
    /// A `fmt::Write` that discards everything (pretty-printer harnesses run the real core::fmt).
    pub(crate) struct NoopSink;
    impl core::fmt::Write for NoopSink {
        fn write_str(&mut self, _s: &str) -> core::fmt::Result {
            Ok(())
        }
    }
}

/// Devices for harnesses that need an `Interface` (context, MTU, capture of transmitted frames).
#[allow(dead_code)]
pub(crate) mod verif_dev {
    use crate::phy::{Device, DeviceCapabilities, Medium, RxToken, TxToken, ChecksumCapabilities};
    use crate::time::Instant;

    /// A device that never receives and never offers a transmit token: only supplies capabilities.
    pub(crate) struct NullDev {
        pub(crate) medium: Medium,
        pub(crate) mtu: usize,
        pub(crate) checksum: ChecksumCapabilities,
    }
    pub(crate) struct NoRx;
    pub(crate) struct NoTx;
    impl RxToken for NoRx {
        fn consume<R, F: FnOnce(&[u8]) -> R>(self, f: F) -> R {
            f(&[])
        }
    }
    impl TxToken for NoTx {
        fn consume<R, F: FnOnce(&mut [u8]) -> R>(self, _len: usize, f: F) -> R {
            f(&mut [])
        }
    }
    /// Capture of transmitted frames: the first two frames handed to `TxToken::consume` are kept
    /// in flat buffers (harness hygiene: no 2-D arrays indexed by counters), all are counted.
    pub(crate) struct TxState<const N: usize> {
        pub(crate) frames: usize,
        pub(crate) len0: usize,
        pub(crate) len1: usize,
        pub(crate) buf0: [u8; N],
        pub(crate) buf1: [u8; N],
    }
    impl<const N: usize> TxState<N> {
        pub(crate) fn new() -> Self {
            TxState { frames: 0, len0: 0, len1: 0, buf0: [0; N], buf1: [0; N] }
        }
    }
    pub(crate) struct CapTx<'a, const N: usize> {
        pub(crate) st: &'a mut TxState<N>,
    }
    impl<'a, const N: usize> TxToken for CapTx<'a, N> {
        fn consume<R, F: FnOnce(&mut [u8]) -> R>(self, len: usize, f: F) -> R {
            let st = self.st;
            let r;
            if st.frames == 0 {
                st.len0 = len;
                r = f(&mut st.buf0[..len]);
            } else {
                st.len1 = len;
                r = f(&mut st.buf1[..len]);
            }
            st.frames += 1;
            r
        }
    }
    pub(crate) struct CapRx<'a> {
        pub(crate) frame: &'a [u8],
    }
    impl<'a> RxToken for CapRx<'a> {
        fn consume<R, F: FnOnce(&[u8]) -> R>(self, f: F) -> R {
            f(self.frame)
        }
    }
    /// A device with one optional pending receive frame, symbolic transmit back-pressure (`tx_ok`)
    /// and capture of what is transmitted.
    pub(crate) struct CapDev<const N: usize> {
        pub(crate) medium: Medium,
        pub(crate) mtu: usize,
        pub(crate) checksum: ChecksumCapabilities,
        pub(crate) tx_ok: bool,
        pub(crate) rx_pending: bool,
        pub(crate) rx_len: usize,
        pub(crate) rx: [u8; N],
        pub(crate) tx: TxState<N>,
    }
    impl<const N: usize> CapDev<N> {
        pub(crate) fn new(medium: Medium, mtu: usize, checksum: ChecksumCapabilities) -> Self {
            CapDev { medium, mtu, checksum, tx_ok: true, rx_pending: false, rx_len: 0, rx: [0; N], tx: TxState::new() }
        }
    }
    impl<const N: usize> Device for CapDev<N> {
        type RxToken<'a> = CapRx<'a>;
        type TxToken<'a> = CapTx<'a, N>;
        fn capabilities(&self) -> DeviceCapabilities {
            let mut c = DeviceCapabilities::default();
            c.medium = self.medium;
            c.max_transmission_unit = self.mtu;
            c.checksum = self.checksum.clone();
            c
        }
        fn receive(&mut self, _t: Instant) -> Option<(CapRx<'_>, CapTx<'_, N>)> {
            if !self.rx_pending {
                return None;
            }
            self.rx_pending = false;
            let CapDev { rx, rx_len, tx, .. } = self;
            Some((CapRx { frame: &rx[..*rx_len] }, CapTx { st: tx }))
        }
        fn transmit(&mut self, _t: Instant) -> Option<CapTx<'_, N>> {
            if self.tx_ok {
                Some(CapTx { st: &mut self.tx })
            } else {
                None
            }
        }
    }

    /// A device whose TxToken carries NO pointer: frames are captured in a static.  A token holding
    /// `&mut TxState` that travels through the `Option` returned by `Device::transmit()` costs CBMC its
    /// points-to precision (measured: `Interface::socket_egress` out of memory at 8 GB with `CapDev`,
    /// 40 s with this one).  Single-threaded harnesses only.
    #[allow(unsafe_code)]
    pub(crate) mod gdev {
        use super::*;
        pub(crate) const GN: usize = 128;
        pub(crate) static mut G: TxState<GN> = TxState { frames: 0, len0: 0, len1: 0, buf0: [0; GN], buf1: [0; GN] };
        pub(crate) struct GTx;
        impl TxToken for GTx {
            fn consume<R, F: FnOnce(&mut [u8]) -> R>(self, len: usize, f: F) -> R {
                let st: &mut TxState<GN> = unsafe { &mut *core::ptr::addr_of_mut!(G) };
                let r;
                if st.frames == 0 {
                    st.len0 = len;
                    r = f(&mut st.buf0[..len]);
                } else {
                    st.len1 = len;
                    r = f(&mut st.buf1[..len]);
                }
                st.frames += 1;
                r
            }
        }
        pub(crate) fn captured() -> &'static TxState<GN> {
            unsafe { &*core::ptr::addr_of!(G) }
        }
        pub(crate) struct GDev {
            pub(crate) medium: Medium,
            pub(crate) mtu: usize,
            pub(crate) checksum: ChecksumCapabilities,
            pub(crate) tx_ok: bool,
        }
        impl Device for GDev {
            type RxToken<'a> = NoRx;
            type TxToken<'a> = GTx;
            fn capabilities(&self) -> DeviceCapabilities {
                let mut c = DeviceCapabilities::default();
                c.medium = self.medium;
                c.max_transmission_unit = self.mtu;
                c.checksum = self.checksum.clone();
                c
            }
            fn receive(&mut self, _t: Instant) -> Option<(NoRx, GTx)> {
                None
            }
            fn transmit(&mut self, _t: Instant) -> Option<GTx> {
                if self.tx_ok { Some(GTx) } else { None }
            }
        }
    }

    impl Device for NullDev {
        type RxToken<'a> = NoRx;
        type TxToken<'a> = NoTx;
        fn capabilities(&self) -> DeviceCapabilities {
            let mut c = DeviceCapabilities::default();
            c.medium = self.medium;
            c.max_transmission_unit = self.mtu;
            c.checksum = self.checksum.clone();
            c
        }
        fn receive(&mut self, _t: Instant) -> Option<(NoRx, NoTx)> {
            None
        }
        fn transmit(&mut self, _t: Instant) -> Option<NoTx> {
            None
        }
    }
}

/// `crate::vdump!(..)`: eprintln! in the native replay build only (decoding counterexamples), nothing under Kani.
#[cfg(verif_replay)]
macro_rules! vdump {
    ($($t:tt)*) => {{
        extern crate std as vdump_std;
        vdump_std::eprintln!($($t)*);
    }};
}
#[cfg(not(verif_replay))]
macro_rules! vdump {
    ($($t:tt)*) => {{}};
}
#[allow(unused_imports)]
pub(crate) use vdump;

/// `crate::vassert!(cond, "label")`: a plain `assert!` under Kani; in the native replay build a failed
/// obligation is printed and recorded but execution continues, so one replay shows every violated label
/// (the replay dispatcher panics at the end if anything was recorded).
#[cfg(verif_replay)]
pub(crate) static VERIF_VIOLATED: core::sync::atomic::AtomicBool = core::sync::atomic::AtomicBool::new(false);
#[cfg(verif_replay)]
macro_rules! vassert {
    ($c:expr, $m:expr) => {{
        if !($c) {
            extern crate std as vassert_std;
            vassert_std::eprintln!("VIOLATED {} at {}:{}", $m, file!(), line!());
            crate::VERIF_VIOLATED.store(true, core::sync::atomic::Ordering::SeqCst);
        }
    }};
}
#[cfg(not(verif_replay))]
macro_rules! vassert {
    ($c:expr, $m:expr) => {{
        assert!($c, $m);
    }};
}
#[allow(unused_imports)]
pub(crate) use vassert;
