// Interface ingress, IPv6 over raw-IP medium: C11 (addressing / no errors to multicast), C10 (reply source), C03.
// Spliced into src/iface/interface/mod.rs (child of iface::interface).
#[cfg(all(feature = "proto-ipv6", feature = "medium-ip"))]
#[allow(dead_code, unused_imports, unused_variables, unused_mut)]
mod v_iface_ingress6 {
    use super::*;
    use crate::iface::{SocketHandle, SocketStorage};
    use crate::phy::ChecksumCapabilities;
    #[cfg(feature = "socket-icmp")]
    use crate::socket::icmp;
    #[cfg(feature = "socket-tcp")]
    use crate::socket::tcp;
    #[cfg(feature = "socket-udp")]
    use crate::socket::udp;
    use crate::verif_common::*;
    use crate::verif_dev::{CapDev, CapTx, TxState};

    /// own addresses: fe80::1/64 and 2001:db8::1/64
    const LL: [u8; 16] = [0xfe, 0x80, 0, 0, 0, 0, 0, 0, 0, 0, 0, 0, 0, 0, 0, 1];
    const GL: [u8; 16] = [0x20, 0x01, 0x0d, 0xb8, 0, 0, 0, 0, 0, 0, 0, 0, 0, 0, 0, 1];
    const ALL_NODES: [u8; 16] = [0xff, 0x02, 0, 0, 0, 0, 0, 0, 0, 0, 0, 0, 0, 0, 0, 1];
    /// solicited-node multicast address of both own addresses (low 24 bits 00:00:01)
    const SOL_NODE: [u8; 16] = [0xff, 0x02, 0, 0, 0, 0, 0, 0, 0, 0, 0, 1, 0xff, 0, 0, 1];
    const LOOPBACK: [u8; 16] = [0, 0, 0, 0, 0, 0, 0, 0, 0, 0, 0, 0, 0, 0, 0, 1];
    const TCP_PORT: u16 = 80;
    const UDP_PORT: u16 = 53;

    fn is_own(a: &[u8; 16]) -> bool {
        *a == LL || *a == GL
    }
    fn is_mcast(a: &[u8; 16]) -> bool {
        a[0] == 0xff
    }
    fn is_unspec(a: &[u8; 16]) -> bool {
        *a == [0u8; 16]
    }
    /// addressed to the interface: own unicast, or a group it listens to (all-nodes, its solicited-node address)
    fn addressed(a: &[u8; 16]) -> bool {
        is_own(a) || *a == ALL_NODES || *a == SOL_NODE
    }
    fn unicast_src(a: &[u8; 16]) -> bool {
        !is_mcast(a) && !is_unspec(a)
    }

    /// destination with 9 symbolic octets (0-3, 11-15), the rest zero: covers both own addresses, all-nodes, the
    /// solicited-node group, ::1, other multicast groups and foreign unicast addresses (16 free octets exhausted 8 GB)
    fn any_dst() -> [u8; 16] {
        let mut a = [0u8; 16];
        a[0] = kani::any();
        a[1] = kani::any();
        a[2] = kani::any();
        a[3] = kani::any();
        a[11] = kani::any();
        a[12] = kani::any();
        a[13] = kani::any();
        a[14] = kani::any();
        a[15] = kani::any();
        a
    }
    /// source with 4 symbolic octets (0, 1, 14, 15): unspecified, multicast, link-local, global
    fn any_src() -> [u8; 16] {
        let mut a = [0u8; 16];
        a[0] = kani::any();
        a[1] = kani::any();
        a[14] = kani::any();
        a[15] = kani::any();
        a
    }

    fn put16(b: &mut [u8], o: usize, v: u16) {
        b[o] = (v >> 8) as u8;
        b[o + 1] = v as u8;
    }
    fn put32(b: &mut [u8], o: usize, v: u32) {
        b[o] = (v >> 24) as u8;
        b[o + 1] = (v >> 16) as u8;
        b[o + 2] = (v >> 8) as u8;
        b[o + 3] = v as u8;
    }
    fn ipv6_header(b: &mut [u8], payload_len: usize, nh: u8, hop: u8, src: &[u8; 16], dst: &[u8; 16]) {
        b[0] = 0x60;
        b[1] = 0;
        b[2] = 0;
        b[3] = 0;
        put16(b, 4, payload_len as u16);
        b[6] = nh;
        b[7] = hop;
        let mut i = 0;
        while i < 16 {
            b[8 + i] = src[i];
            b[24 + i] = dst[i];
            i += 1;
        }
    }

    // One socket per harness: with three sockets in the set CBMC ran out of memory (the `Socket` enum is moved by
    // byte copies and every downcast then explores every variant); cross-kind delivery is therefore outside the claim.
    macro_rules! env6_tcp {
        ($iface:ident, $sockets:ident, $h:ident) => {
            let mut dev = CapDev::<96>::new(Medium::Ip, 1500, ChecksumCapabilities::ignored());
            let now: i64 = kani::any();
            kani::assume(now >= 0 && now < (1i64 << 40));
            let mut $iface = Interface::new(Config::new(HardwareAddress::Ip), &mut dev, Instant::from_millis(now));
            $iface.update_ip_addrs(|a| {
                a.push(IpCidr::new(IpAddress::Ipv6(Ipv6Address::from(LL)), 64)).unwrap();
                a.push(IpCidr::new(IpAddress::Ipv6(Ipv6Address::from(GL)), 64)).unwrap();
            });
            let mut trx = [0u8; 8];
            let mut ttx = [0u8; 8];
            let mut tsock = tcp::Socket::new(tcp::SocketBuffer::new(&mut trx[..]), tcp::SocketBuffer::new(&mut ttx[..]));
            tsock.listen(TCP_PORT).unwrap();
            let mut storage = [SocketStorage::EMPTY];
            let mut $sockets = SocketSet::new(&mut storage[..]);
            let $h = $sockets.add(tsock);
        };
    }
    macro_rules! env6_udp {
        ($iface:ident, $sockets:ident, $h:ident) => {
            let mut dev = CapDev::<96>::new(Medium::Ip, 1500, ChecksumCapabilities::ignored());
            let now: i64 = kani::any();
            kani::assume(now >= 0 && now < (1i64 << 40));
            let mut $iface = Interface::new(Config::new(HardwareAddress::Ip), &mut dev, Instant::from_millis(now));
            $iface.update_ip_addrs(|a| {
                a.push(IpCidr::new(IpAddress::Ipv6(Ipv6Address::from(LL)), 64)).unwrap();
                a.push(IpCidr::new(IpAddress::Ipv6(Ipv6Address::from(GL)), 64)).unwrap();
            });
            let mut urm = [udp::PacketMetadata::EMPTY; 2];
            let mut urp = [0u8; 16];
            let mut utm = [udp::PacketMetadata::EMPTY; 2];
            let mut utp = [0u8; 16];
            let mut usock = udp::Socket::new(udp::PacketBuffer::new(&mut urm[..], &mut urp[..]), udp::PacketBuffer::new(&mut utm[..], &mut utp[..]));
            usock.bind(UDP_PORT).unwrap();
            let mut storage = [SocketStorage::EMPTY];
            let mut $sockets = SocketSet::new(&mut storage[..]);
            let $h = $sockets.add(usock);
        };
    }
    macro_rules! env6_icmp {
        ($iface:ident, $sockets:ident, $h:ident) => {
            let mut dev = CapDev::<96>::new(Medium::Ip, 1500, ChecksumCapabilities::ignored());
            let now: i64 = kani::any();
            kani::assume(now >= 0 && now < (1i64 << 40));
            let mut $iface = Interface::new(Config::new(HardwareAddress::Ip), &mut dev, Instant::from_millis(now));
            $iface.update_ip_addrs(|a| {
                a.push(IpCidr::new(IpAddress::Ipv6(Ipv6Address::from(LL)), 64)).unwrap();
                a.push(IpCidr::new(IpAddress::Ipv6(Ipv6Address::from(GL)), 64)).unwrap();
            });
            let mut irm = [icmp::PacketMetadata::EMPTY; 2];
            let mut irp = [0u8; 32];
            let mut itm = [icmp::PacketMetadata::EMPTY; 2];
            let mut itp = [0u8; 32];
            let mut isock = icmp::Socket::new(icmp::PacketBuffer::new(&mut irm[..], &mut irp[..]), icmp::PacketBuffer::new(&mut itm[..], &mut itp[..]));
            isock.bind(icmp::Endpoint::Ident(0x1234)).unwrap();
            let mut storage = [SocketStorage::EMPTY];
            let mut $sockets = SocketSet::new(&mut storage[..]);
            let $h = $sockets.add(isock);
        };
    }

    #[cfg(feature = "socket-tcp")]
    fn tcp_untouched(sockets: &SocketSet, th: SocketHandle) -> bool {
        let t = sockets.get::<tcp::Socket>(th);
        t.state() == tcp::State::Listen && t.remote_endpoint().is_none() && t.local_endpoint().is_none()
    }
    #[cfg(feature = "socket-udp")]
    fn udp_untouched(sockets: &SocketSet, uh: SocketHandle) -> bool {
        !sockets.get::<udp::Socket>(uh).can_recv()
    }
    fn reply_src(p: &Packet) -> [u8; 16] {
        match p.ip_repr() {
            IpRepr::Ipv6(r) => r.src_addr.octets(),
            #[allow(unreachable_patterns)]
            _ => [0; 16],
        }
    }
    #[cfg(feature = "socket-tcp")]
    fn reply_is_tcp_rst(p: &Packet) -> bool {
        match p.payload() {
            IpPayload::Tcp(t) => t.control == TcpControl::Rst,
            _ => false,
        }
    }
    fn reply_is_icmp_error(p: &Packet) -> bool {
        match p.payload() {
            IpPayload::Icmpv6(Icmpv6Repr::DstUnreachable { .. })
            | IpPayload::Icmpv6(Icmpv6Repr::TimeExceeded { .. })
            | IpPayload::Icmpv6(Icmpv6Repr::ParamProblem { .. })
            | IpPayload::Icmpv6(Icmpv6Repr::PktTooBig { .. }) => true,
            _ => false,
        }
    }

    #[cfg(feature = "socket-tcp")]
    fn tcp_case(finding_region: bool) {
        env6_tcp!(iface, sockets, th);
        // (finding region: the finding is identified by one concrete shape - a SYN to ::1 port 80 from a global
        // source - which keeps the failing harness, its trace generation and its two native replays cheap)
        let src = if finding_region { [0x20, 0x01, 0x0d, 0xb8, 0, 0, 0, 0, 0, 0, 0, 0, 0, 0, 0, 2] } else { any_src() };
        let dst = if finding_region { LOOPBACK } else { any_dst() };
        let sport: u16 = kani::any();
        let dport: u16 = if finding_region { TCP_PORT } else { kani::any() };
        let flags: u8 = if finding_region { 0x02 } else { kani::any() };
        kani::assume(flags & 0xc0 == 0);
        let mut b = [0u8; 60];
        ipv6_header(&mut b, 20, 6, 64, &src, &dst);
        put16(&mut b, 40, sport);
        put16(&mut b, 42, dport);
        put32(&mut b, 44, kani::any());
        put32(&mut b, 48, kani::any());
        b[52] = 0x50;
        b[53] = flags;
        put16(&mut b, 54, kani::any());
        // the loopback destination is known finding F-C11-ipv6-loopback-from-network: excluded here, checked by finding_ipv6_loopback_tcp
        kani::assume((dst == LOOPBACK) == finding_region);
        let reply = iface.inner.process_ip(&mut sockets, PacketMeta::default(), &b[..], &mut iface.fragments);
        let untouched = tcp_untouched(&sockets, th);
        let own = is_own(&dst);
        let rst_in = flags & 0x04 != 0;
        if finding_region {
            // known finding F-C11-ipv6-loopback-from-network: ::1 is accepted although it is not configured
            crate::vassert!(untouched, "prop:c11_tcp_to_loopback_from_network_changes_no_socket");
            return;
        }
        if !own {
            crate::vassert!(untouched, "prop:c11_tcp_to_non_own_destination_changes_no_socket");
        }
        if !addressed(&dst) {
            crate::vassert!(reply.is_none(), "prop:c11_foreign_destination_not_answered");
        }
        if dport != TCP_PORT {
            crate::vassert!(untouched, "prop:c11_socket_only_receives_matching_endpoint");
        }
        if let Some(p) = &reply {
            crate::vassert!(!(reply_is_tcp_rst(p) || reply_is_icmp_error(p)) || (own && unicast_src(&src)), "prop:c11_no_rst_or_error_for_non_unicast");
            crate::vassert!(!rst_in, "prop:c11_no_reply_to_rst");
            crate::vassert!(is_own(&reply_src(p)), "prop:c10_reply_source_is_own_unicast_address");
        }
        kani::cover!(!untouched && own, "SYN to own address accepted by the listener");
        kani::cover!(reply.is_some() && own && dport != TCP_PORT, "RST for a closed port");
        kani::cover!(reply.is_none() && dst == ALL_NODES && dport == TCP_PORT && flags == 0x02, "SYN to all-nodes multicast");
    }

    // @harness props=C11,C10:t cfg=KI6t tier=q to=1500 mem=12 unwind=20 opts=nomem covers=3 funcs=InterfaceInner::process_ip;InterfaceInner::process_ipv6;InterfaceInner::process_tcp;InterfaceInner::has_multicast_group;InterfaceInner::has_solicited_node;tcp::Socket::accepts bounds=raw-IP_medium;_own_fe80::1_and_2001:db8::1;_source_with_4_and_destination_with_9_symbolic_octets_(all_address_classes);_any_ports,_flags
    #[cfg(feature = "socket-tcp")]
    #[kani::proof]
    pub(crate) fn ipv6_addr_tcp() {
        tcp_case(false);
    }

    // @harness props=C11 kind=finding cfg=KI6t tier=q to=600 mem=8 unwind=20 opts=nomem funcs=InterfaceInner::process_ipv6;InterfaceInner::process_tcp bounds=destination_::1_(not_configured),_any_source,_ports,_flags
    #[cfg(feature = "socket-tcp")]
    #[kani::proof]
    pub(crate) fn finding_ipv6_loopback_tcp() {
        tcp_case(true);
    }

    // @harness props=C11,C10,C09 cfg=KI6 tier=q to=1500 mem=12 unwind=20 opts=nomem covers=3 funcs=InterfaceInner::process_ip;InterfaceInner::process_ipv6;InterfaceInner::process_udp;InterfaceInner::icmpv6_reply;udp::Socket::accepts;udp::Socket::process bounds=raw-IP_medium;_own_fe80::1_and_2001:db8::1;_any_128-bit_source_and_destination;_any_ports;_4_payload_bytes
    #[cfg(feature = "socket-udp")]
    #[kani::proof]
    pub(crate) fn ipv6_addr_udp() {
        env6_udp!(iface, sockets, uh);
        let src: [u8; 16] = kani::any();
        let dst: [u8; 16] = kani::any();
        // ::1 is accepted although not configured: known finding F-C11-ipv6-loopback-from-network (checked by finding_ipv6_loopback_tcp)
        kani::assume(dst != LOOPBACK);
        let sport: u16 = kani::any();
        let dport: u16 = kani::any();
        let pl: [u8; 4] = kani::any();
        let mut b = [0u8; 52];
        ipv6_header(&mut b, 12, 17, 64, &src, &dst);
        put16(&mut b, 40, sport);
        put16(&mut b, 42, dport);
        put16(&mut b, 44, 12);
        put16(&mut b, 46, 0x1234);
        b[48] = pl[0];
        b[49] = pl[1];
        b[50] = pl[2];
        b[51] = pl[3];
        let reply = iface.inner.process_ip(&mut sockets, PacketMeta::default(), &b[..], &mut iface.fragments);
        let own = is_own(&dst);
        let delivered = !udp_untouched(&sockets, uh);
        if !addressed(&dst) && dst != LOOPBACK {
            crate::vassert!(!delivered && reply.is_none(), "prop:c11_foreign_destination_not_delivered_or_answered");
        }
        if delivered {
            crate::vassert!(dport == UDP_PORT, "prop:c11_socket_only_receives_matching_endpoint");
            crate::vassert!(reply.is_none(), "prop:c09_delivered_datagram_not_answered");
            let s = sockets.get_mut::<udp::Socket>(uh);
            let mut buf = [0u8; 8];
            let (n, meta) = s.recv_slice(&mut buf[..]).unwrap();
            crate::vassert!(n == 4 && buf[0] == pl[0] && buf[3] == pl[3], "prop:c09_delivered_payload_exact");
            crate::vassert!(meta.endpoint.port == sport && meta.endpoint.addr == IpAddress::Ipv6(Ipv6Address::from(src)), "prop:c09_delivered_source_metadata");
            crate::vassert!(!s.can_recv(), "prop:c09_delivered_exactly_once");
        }
        if let Some(p) = &reply {
            crate::vassert!(own && unicast_src(&src), "prop:c11_no_rst_or_error_for_non_unicast");
            crate::vassert!(is_own(&reply_src(p)), "prop:c10_reply_source_is_own_unicast_address");
        }
        kani::cover!(delivered && own, "unicast datagram delivered");
        kani::cover!(delivered && dst == ALL_NODES, "multicast datagram delivered");
        kani::cover!(reply.is_some() && own, "port unreachable sent");
    }

    // One harness per ICMPv6 type octet: with a symbolic type the symbolic execution explores every message parser
    // for every type and ran out of 12 GB (same observation as in wire_views.rs).  NDISC and MLD have their own harnesses.
    #[cfg(feature = "socket-icmp")]
    fn icmp6_case(ty: u8, finding_region: bool) {
        env6_icmp!(iface, sockets, ih);
        // (finding region: one concrete shape, an echo request from ::1 to ff02::1)
        let src = if finding_region { LOOPBACK } else { any_src() };
        let dst = if finding_region { ALL_NODES } else { any_dst() };
        // source ::1 arriving from the network: second face of known finding F-C11-ipv6-loopback-from-network (the
        // answer to an echo request for a multicast group is sourced from ::1, get_source_address_ipv6's choice for a
        // loopback destination); excluded here, asserted in finding_ipv6_loopback_source_echo
        kani::assume((src == LOOPBACK) == finding_region);
        // ::1: known finding F-C11-ipv6-loopback-from-network
        kani::assume(dst != LOOPBACK);
        let mut b = [0u8; 52];
        ipv6_header(&mut b, 12, 58, 64, &src, &dst);
        b[40] = ty;
        b[41] = kani::any();
        put16(&mut b, 42, 0);
        put16(&mut b, 44, kani::any());
        put16(&mut b, 46, kani::any());
        put32(&mut b, 48, kani::any());
        let reply = iface.inner.process_ip(&mut sockets, PacketMeta::default(), &b[..], &mut iface.fragments);
        let own = is_own(&dst);
        if !addressed(&dst) && dst != LOOPBACK {
            crate::vassert!(reply.is_none(), "prop:c11_foreign_destination_not_answered");
            crate::vassert!(!sockets.get::<icmp::Socket>(ih).can_recv(), "prop:c11_foreign_destination_not_delivered");
        }
        if let Some(p) = &reply {
            crate::vassert!(ty == 128, "prop:c11_only_echo_request_answered");
            crate::vassert!(!reply_is_icmp_error(p), "prop:c11_no_error_in_answer_to_icmp");
            crate::vassert!(unicast_src(&src), "prop:c11_no_reply_to_non_unicast_source");
            crate::vassert!(is_own(&reply_src(p)), "prop:c10_reply_source_is_own_unicast_address");
        }
        if ty == 128 && own && unicast_src(&src) && b[41] == 0 {
            crate::vassert!(reply.is_some(), "prop:c03_echo_request_to_own_address_answered");
        }
        kani::cover!(if ty == 128 { reply.is_some() && own } else { reply.is_none() && own }, "echo request to an own address answered / other message to an own address not answered");
        kani::cover!(reply.is_none() && !addressed(&dst), "message for a foreign destination ignored");
    }

    // @harness props=C11,C10,C03 cfg=KI6i tier=q to=1500 mem=12 unwind=20 opts=nomem covers=2 funcs=InterfaceInner::process_ip;InterfaceInner::process_ipv6;InterfaceInner::process_icmpv6;InterfaceInner::icmpv6_reply bounds=raw-IP_medium;_own_fe80::1_and_2001:db8::1;_source_with_4_and_destination_with_9_symbolic_octets_(all_address_classes);_ICMPv6_echo_request_with_4_data_bytes,_any_code_and_ident/seq
    #[cfg(feature = "socket-icmp")]
    #[kani::proof]
    pub(crate) fn ipv6_addr_icmp() {
        icmp6_case(128, false);
    }

    // @harness props=C10,C11 kind=finding cfg=KI6i tier=q to=600 mem=8 unwind=20 opts=nomem covers=0 funcs=InterfaceInner::process_ip;InterfaceInner::process_ipv6;InterfaceInner::process_icmpv6;InterfaceInner::icmpv6_reply bounds=raw-IP_medium;_own_fe80::1_and_2001:db8::1;_source_::1_(from_the_network)_and_destination_with_9_symbolic_octets_(all_address_classes);_ICMPv6_echo_request_with_4_data_bytes,_any_code_and_ident/seq
    #[cfg(feature = "socket-icmp")]
    #[kani::proof]
    pub(crate) fn finding_ipv6_loopback_source_echo() {
        icmp6_case(128, true);
    }

    // @harness props=C11,C10,C03:t cfg=KI6i tier=t to=1500 mem=12 unwind=20 opts=nomem covers=2 funcs=InterfaceInner::process_ip;InterfaceInner::process_ipv6;InterfaceInner::process_icmpv6;InterfaceInner::icmpv6_reply bounds=raw-IP_medium;_own_fe80::1_and_2001:db8::1;_source_with_4_and_destination_with_9_symbolic_octets_(all_address_classes);_ICMPv6_echo_reply_with_4_data_bytes
    #[cfg(feature = "socket-icmp")]
    #[kani::proof]
    pub(crate) fn ipv6_addr_icmp_echo_reply() {
        icmp6_case(129, false);
    }

    // @harness props=C11,C10,C03:t cfg=KI6i tier=q to=1500 mem=12 unwind=20 opts=nomem covers=2 funcs=InterfaceInner::process_ip;InterfaceInner::process_ipv6;InterfaceInner::process_icmpv6;InterfaceInner::icmpv6_reply bounds=raw-IP_medium;_own_fe80::1_and_2001:db8::1;_source_with_4_and_destination_with_9_symbolic_octets_(all_address_classes);_ICMPv6_destination_unreachable_(type_1)_with_any_code_and_8_following_octets
    #[cfg(feature = "socket-icmp")]
    #[kani::proof]
    pub(crate) fn ipv6_addr_icmp_dst_unreachable() {
        icmp6_case(1, false);
    }

    // @harness props=C11,C10,C03 cfg=KI6i tier=t to=1500 mem=12 unwind=20 opts=nomem covers=2 funcs=InterfaceInner::process_ip;InterfaceInner::process_ipv6;InterfaceInner::process_icmpv6;InterfaceInner::icmpv6_reply bounds=raw-IP_medium;_own_fe80::1_and_2001:db8::1;_source_with_4_and_destination_with_9_symbolic_octets_(all_address_classes);_ICMPv6_time_exceeded_(type_3)
    #[cfg(feature = "socket-icmp")]
    #[kani::proof]
    pub(crate) fn ipv6_addr_icmp_time_exceeded() {
        icmp6_case(3, false);
    }

    // @harness props=C11,C10,C03 cfg=KI6i tier=t to=1500 mem=12 unwind=20 opts=nomem covers=2 funcs=InterfaceInner::process_ip;InterfaceInner::process_ipv6;InterfaceInner::process_icmpv6;InterfaceInner::icmpv6_reply bounds=raw-IP_medium;_own_fe80::1_and_2001:db8::1;_source_with_4_and_destination_with_9_symbolic_octets_(all_address_classes);_ICMPv6_packet_too_big_(type_2)
    #[cfg(feature = "socket-icmp")]
    #[kani::proof]
    pub(crate) fn ipv6_addr_icmp_pkt_too_big() {
        icmp6_case(2, false);
    }

    // @harness props=C11,C10,C03 cfg=KI6i tier=t to=1500 mem=12 unwind=20 opts=nomem covers=2 funcs=InterfaceInner::process_ip;InterfaceInner::process_ipv6;InterfaceInner::process_icmpv6;InterfaceInner::icmpv6_reply bounds=raw-IP_medium;_own_fe80::1_and_2001:db8::1;_source_with_4_and_destination_with_9_symbolic_octets_(all_address_classes);_ICMPv6_parameter_problem_(type_4)
    #[cfg(feature = "socket-icmp")]
    #[kani::proof]
    pub(crate) fn ipv6_addr_icmp_param_problem() {
        icmp6_case(4, false);
    }

    // unknown next header: ParamProblem only for unicast destinations (RFC 4443 2.4 e).
    // Known finding F-C11-paramproblem-multicast: the reply IS sent for multicast destinations (and /repo's own
    // test expects it); the main harness excludes multicast destinations, the finding harness checks inside.
    #[cfg(feature = "socket-udp")]
    fn unknown_nxt_hdr_case(finding_region: bool) {
        env6_udp!(iface, sockets, uh);
        // (finding region: one concrete shape, from 2001:db8::2 to ff02::1)
        let src: [u8; 16] = if finding_region { [0x20, 0x01, 0x0d, 0xb8, 0, 0, 0, 0, 0, 0, 0, 0, 0, 0, 0, 2] } else { kani::any() };
        let dst: [u8; 16] = if finding_region { ALL_NODES } else { kani::any() };
        kani::assume(is_mcast(&dst) == finding_region);
        // ::1: known finding F-C11-ipv6-loopback-from-network
        kani::assume(dst != LOOPBACK);
        let mut b = [0u8; 44];
        ipv6_header(&mut b, 4, 0x0c, 64, &src, &dst);
        let reply = iface.inner.process_ip(&mut sockets, PacketMeta::default(), &b[..], &mut iface.fragments);
        if let Some(p) = &reply {
            if finding_region {
                crate::vassert!(false, "prop:c11_no_icmp_error_for_multicast_destination");
            } else {
                crate::vassert!(unicast_src(&src), "prop:c11_no_reply_to_non_unicast_source");
                crate::vassert!(is_own(&reply_src(p)), "prop:c10_reply_source_is_own_unicast_address");
                crate::vassert!(is_own(&dst) || dst == LOOPBACK, "prop:c11_foreign_destination_not_answered");
            }
        }
        if !finding_region {
            kani::cover!(reply.is_some() && is_own(&dst), "parameter problem sent for a unicast destination");
            kani::cover!(reply.is_none() && !is_own(&dst), "foreign unicast destination ignored");
        }
    }

    // @harness props=C11,C10 cfg=KI6 tier=q to=1500 mem=12 unwind=20 opts=nomem covers=2 funcs=InterfaceInner::process_ipv6;InterfaceInner::process_nxt_hdr;InterfaceInner::icmpv6_reply bounds=raw-IP_medium;_unknown_next_header_value;_any_source;_any_non-multicast_destination
    #[cfg(feature = "socket-udp")]
    #[kani::proof]
    pub(crate) fn ipv6_unknown_nxt_hdr() {
        unknown_nxt_hdr_case(false);
    }

    // @harness props=C11 kind=finding cfg=KI6 tier=q to=600 mem=8 unwind=20 opts=nomem funcs=InterfaceInner::process_ipv6;InterfaceInner::process_nxt_hdr;InterfaceInner::icmpv6_reply bounds=raw-IP_medium;_unknown_next_header_value;_any_source;_any_multicast_destination
    #[cfg(feature = "socket-udp")]
    #[kani::proof]
    pub(crate) fn finding_ipv6_unknown_nxt_hdr_multicast() {
        unknown_nxt_hdr_case(true);
    }

    // C03: arbitrary bytes as an IPv6 packet never panic.  One harness per next-header octet (see ipv4_free_case in
    // iface_ingress.rs: a symbolic next header explores every upper-layer parser and did not finish in 30 minutes).
    // ICMPv6 (58) is the subject of ipv6_addr_icmp* (concrete type octet each) and of the NDISC harnesses of C16.
    #[cfg(feature = "socket-tcp")]
    fn ipv6_free_case(nh: u8) {
        env6_tcp!(iface, sockets, th);
        // IPv6 header concrete (to 2001:db8::1 or ff02::1 from a source with 4 symbolic octets; hop limit free): a
        // version with traffic class, flow label and payload length free as well did not finish in 15 minutes for any
        // next header.  The 24 octets after the header are free.
        let src = any_src();
        kani::assume(src != LOOPBACK); // known finding F-C10-ipv6-loopback-source-echo / F-C11-ipv6-loopback-from-network
        let mut b: [u8; 64] = kani::any();
        let to_mcast: bool = kani::any();
        let hop = b[7];
        ipv6_header(&mut b, 24, nh, hop, &src, if to_mcast { &ALL_NODES } else { &GL });
        if nh == 0 {
            // hop-by-hop options header of 8 octets (length octet 0) followed by "no next header": (a free
            // length octet and inner next header, and six free option octets, did not finish in 25 minutes; option
            // walks over free bytes of any length are view_ipv6_hbh / view_ipv6_options_iter's subject)
            b[40] = 59;
            b[41] = 0;
            // one option of 4 data octets with a free type octet (its two high bits select skip / discard /
            // discard-and-report) and free data
            b[43] = 4;
        }
        let reply = iface.inner.process_ip(&mut sockets, PacketMeta::default(), &b[..], &mut iface.fragments);
        kani::cover!(reply.is_some(), "a reply was produced");
        if let Some(p) = &reply {
            crate::vassert!(is_own(&reply_src(p)), "prop:c10_reply_source_is_own_unicast_address");
        }
    }

    // (removed: ipv6_bytes_free = ipv6_free_case(0), a hop-by-hop options header in front of "no next header".  With a
    // free length octet and inner next header, with six free option octets, and with a single option of free type and
    // four free data octets it did not finish in 25 minutes each.  Option walks over free bytes are decided at the wire
    // level (view_ipv6_hbh, view_ipv6_options_iter, view_ipv6_option); InterfaceInner::process_hopbyhop itself is not
    // reached by any harness: stated in MANIFEST level_note of C03.)


    // @harness props=C03,C10 cfg=KI6t tier=t to=1500 mem=12 unwind=24 opts=nomem covers=1 funcs=InterfaceInner::process_ip;InterfaceInner::process_ipv6;InterfaceInner::process_hopbyhop;InterfaceInner::process_nxt_hdr;InterfaceInner::process_tcp;InterfaceInner::icmpv6_reply bounds=raw-IP_medium,_one_listening_TCP_socket;_own_fe80::1_and_2001:db8::1;_concrete_40-octet_header_(hop_limit_free),_source_with_4_symbolic_octets,_destination_2001:db8::1_or_ff02::1;_24_free_octets_after_the_header;_next_header_6_(TCP):_every_TCP_header_octet_free
    #[cfg(feature = "socket-tcp")]
    #[kani::proof]
    pub(crate) fn ipv6_bytes_free_tcp() {
        ipv6_free_case(6);
    }

    // @harness props=C03,C10 cfg=KI6t tier=q to=900 mem=8 unwind=24 opts=nomem covers=1 funcs=InterfaceInner::process_ip;InterfaceInner::process_ipv6;InterfaceInner::process_hopbyhop;InterfaceInner::process_nxt_hdr;InterfaceInner::process_tcp;InterfaceInner::icmpv6_reply bounds=raw-IP_medium,_one_listening_TCP_socket;_own_fe80::1_and_2001:db8::1;_concrete_40-octet_header_(hop_limit_free),_source_with_4_symbolic_octets,_destination_2001:db8::1_or_ff02::1;_24_free_octets_after_the_header;_next_header_17_(UDP,_no_UDP_socket)
    #[cfg(feature = "socket-tcp")]
    #[kani::proof]
    pub(crate) fn ipv6_bytes_free_udp() {
        ipv6_free_case(17);
    }

    // @harness props=C03,C10 cfg=KI6t tier=q to=900 mem=8 unwind=24 opts=nomem covers=1 funcs=InterfaceInner::process_ip;InterfaceInner::process_ipv6;InterfaceInner::process_hopbyhop;InterfaceInner::process_nxt_hdr;InterfaceInner::process_tcp;InterfaceInner::icmpv6_reply bounds=raw-IP_medium,_one_listening_TCP_socket;_own_fe80::1_and_2001:db8::1;_concrete_40-octet_header_(hop_limit_free),_source_with_4_symbolic_octets,_destination_2001:db8::1_or_ff02::1;_24_free_octets_after_the_header;_next_header_44_(fragment_header,_not_supported)
    #[cfg(feature = "socket-tcp")]
    #[kani::proof]
    pub(crate) fn ipv6_bytes_free_frag() {
        ipv6_free_case(44);
    }

    // @harness props=C03,C10 cfg=KI6t tier=q to=900 mem=8 unwind=24 opts=nomem covers=1 funcs=InterfaceInner::process_ip;InterfaceInner::process_ipv6;InterfaceInner::process_hopbyhop;InterfaceInner::process_nxt_hdr;InterfaceInner::process_tcp;InterfaceInner::icmpv6_reply bounds=raw-IP_medium,_one_listening_TCP_socket;_own_fe80::1_and_2001:db8::1;_concrete_40-octet_header_(hop_limit_free),_source_with_4_symbolic_octets,_destination_2001:db8::1_or_ff02::1;_24_free_octets_after_the_header;_next_header_43_(routing_header)
    #[cfg(feature = "socket-tcp")]
    #[kani::proof]
    pub(crate) fn ipv6_bytes_free_routing() {
        ipv6_free_case(43);
    }

    // @harness props=C03,C10 cfg=KI6t tier=t to=900 mem=8 unwind=24 opts=nomem covers=1 funcs=InterfaceInner::process_ip;InterfaceInner::process_ipv6;InterfaceInner::process_hopbyhop;InterfaceInner::process_nxt_hdr;InterfaceInner::process_tcp;InterfaceInner::icmpv6_reply bounds=raw-IP_medium,_one_listening_TCP_socket;_own_fe80::1_and_2001:db8::1;_concrete_40-octet_header_(hop_limit_free),_source_with_4_symbolic_octets,_destination_2001:db8::1_or_ff02::1;_24_free_octets_after_the_header;_next_header_60_(destination_options)
    #[cfg(feature = "socket-tcp")]
    #[kani::proof]
    pub(crate) fn ipv6_bytes_free_dstopts() {
        ipv6_free_case(60);
    }

    // @harness props=C03,C10 cfg=KI6t tier=q to=900 mem=8 unwind=24 opts=nomem covers=1 funcs=InterfaceInner::process_ip;InterfaceInner::process_ipv6;InterfaceInner::process_hopbyhop;InterfaceInner::process_nxt_hdr;InterfaceInner::process_tcp;InterfaceInner::icmpv6_reply bounds=raw-IP_medium,_one_listening_TCP_socket;_own_fe80::1_and_2001:db8::1;_concrete_40-octet_header_(hop_limit_free),_source_with_4_symbolic_octets,_destination_2001:db8::1_or_ff02::1;_24_free_octets_after_the_header;_next_header_253_(unknown)
    #[cfg(feature = "socket-tcp")]
    #[kani::proof]
    pub(crate) fn ipv6_bytes_free_other() {
        ipv6_free_case(253);
    }

    // @harness props=C11 kind=mustfail cfg=KI6 tier=q to=900 mem=8 unwind=20 opts=nomem
    #[cfg(feature = "socket-tcp")]
    #[kani::proof]
    pub(crate) fn iface_ingress6_must_fail() {
        env6_tcp!(iface, sockets, th);
        let src: [u8; 16] = kani::any();
        let mut b = [0u8; 60];
        ipv6_header(&mut b, 20, 6, 64, &src, &GL);
        put16(&mut b, 40, 1000);
        put16(&mut b, 42, TCP_PORT);
        b[52] = 0x50;
        b[53] = 0x02;
        let _ = iface.inner.process_ip(&mut sockets, PacketMeta::default(), &b[..], &mut iface.fragments);
        crate::vassert!(tcp_untouched(&sockets, th), "prop:deliberately_false_listener_never_accepts");
    }
}
