// C09 (socket layer) and C13 (poll_at) — udp::Socket never merges, splits, truncates, duplicates or
// reorders datagrams.  Spliced into src/socket/udp.rs (private fields of `Socket` reachable).
//
// Model-based one-step checks: the socket's PacketBuffers (<= 3 metadata slots, <= 8 payload bytes,
// both symbolic) are brought into a pre-state by <= 3 symbolic public-API steps (send_slice / send_with /
// dispatch, or process / recv), shadowed by a ghost FIFO of (tag, len, endpoint, local address); payload
// byte i of a datagram with tag t is pat(t, i).  Then ONE operation under test, then the whole queue is
// drained through the public API and compared with the ghost.
#[cfg(all(feature = "proto-ipv4", feature = "medium-ip"))]
#[allow(dead_code, unused_imports, unused_variables, unused_mut, unused_assignments)]
mod v_socket_udp {
    use super::*;
    use crate::iface::{Config, Interface};
    use crate::phy::{ChecksumCapabilities, Medium};
    use crate::time::Instant;
    use crate::verif_common::*;
    use crate::verif_dev::NullDev;
    use crate::wire::{HardwareAddress, IpCidr, Ipv4Address};
    #[cfg(feature = "proto-ipv6")]
    use crate::wire::Ipv6Address;

    const LOCAL: Ipv4Address = Ipv4Address::new(192, 168, 1, 1);
    const MC: usize = 3; // metadata slots: 1..=3 symbolic
    const PC: usize = 8; // payload ring: 0..=8 symbolic
    const DL: usize = PC + 1; // datagram sizes: 0..=9 (9 > any capacity: always refused)
    const V6: bool = true; // IPv6 addresses among the symbolic endpoints

    fn pat(tag: u8, i: usize) -> u8 {
        tag.wrapping_mul(7).wrapping_add(i as u8)
    }

    fn pattern(tag: u8) -> [u8; DL] {
        [pat(tag, 0), pat(tag, 1), pat(tag, 2), pat(tag, 3), pat(tag, 4), pat(tag, 5), pat(tag, 6), pat(tag, 7), pat(tag, 8)]
    }

    fn fill(buf: &mut [u8], tag: u8) {
        let mut i = 0;
        while i < DL {
            if i < buf.len() {
                buf[i] = pat(tag, i);
            }
            i += 1;
        }
    }

    // ---------------------------------------------------------------- symbolic addresses
    fn any_addr() -> IpAddress {
        #[cfg(feature = "proto-ipv6")]
        {
            if V6 && kani::any() {
                let a: u16 = kani::any();
                let b: u16 = kani::any();
                return IpAddress::Ipv6(Ipv6Address::new(a, 0, 0, 0, 0, 0, 0, b));
            }
        }
        let o: [u8; 4] = kani::any();
        IpAddress::Ipv4(Ipv4Address::new(o[0], o[1], o[2], o[3]))
    }

    fn any_ep() -> IpEndpoint {
        IpEndpoint { addr: any_addr(), port: kani::any() }
    }

    fn any_opt_addr() -> Option<IpAddress> {
        if kani::any() { Some(any_addr()) } else { None }
    }

    fn is_v4(a: &IpAddress) -> bool {
        matches!(a, IpAddress::Ipv4(_))
    }

    /// independent of the crate's predicates
    fn unspec(a: &IpAddress) -> bool {
        match a {
            IpAddress::Ipv4(x) => x.octets() == [0, 0, 0, 0],
            #[cfg(feature = "proto-ipv6")]
            IpAddress::Ipv6(x) => x.octets() == [0u8; 16],
        }
    }

    fn multicast(a: &IpAddress) -> bool {
        match a {
            IpAddress::Ipv4(x) => x.octets()[0] >= 224 && x.octets()[0] <= 239,
            #[cfg(feature = "proto-ipv6")]
            IpAddress::Ipv6(x) => x.octets()[0] == 0xff,
        }
    }

    /// limited broadcast or the directed broadcast of the interface's only network 192.168.1.0/24
    fn broadcast(a: &IpAddress) -> bool {
        match a {
            IpAddress::Ipv4(x) => x.octets() == [255, 255, 255, 255] || x.octets() == [192, 168, 1, 255],
            #[cfg(feature = "proto-ipv6")]
            IpAddress::Ipv6(_) => false,
        }
    }

    /// The source the documented rule selects has the destination's IP version (a datagram whose explicit
    /// local address / bound address has the other version is examined by `udp_version_mismatch` only).
    fn version_ok(bound: &IpListenEndpoint, dst: &IpAddress, local: &Option<IpAddress>) -> bool {
        match (local, bound.addr) {
            (Some(l), _) => is_v4(l) == is_v4(dst),
            (None, Some(b)) => is_v4(&b) == is_v4(dst),
            (None, None) => true,
        }
    }

    fn mk_meta(ep: IpEndpoint, local: Option<IpAddress>) -> UdpMetadata {
        UdpMetadata { endpoint: ep, local_address: local, meta: PacketMeta::default() }
    }

    // ---------------------------------------------------------------- ghost FIFO
    #[derive(Clone, Copy)]
    struct G {
        valid: bool,
        /// the datagram offered by the `process` under test: may have been dropped as a whole
        opt: bool,
        tag: u8,
        len: usize,
        ep: IpEndpoint,
        local: Option<IpAddress>,
    }
    const GE: G = G {
        valid: false,
        opt: false,
        tag: 0,
        len: 0,
        ep: IpEndpoint { addr: IpAddress::Ipv4(Ipv4Address::new(0, 0, 0, 0)), port: 0 },
        local: None,
    };

    struct Ghost {
        q: [G; MC],
        overflow: bool,
        popped: bool,
    }
    impl Ghost {
        fn new() -> Ghost {
            Ghost { q: [GE; MC], overflow: false, popped: false }
        }
        fn push(&mut self, tag: u8, len: usize, ep: IpEndpoint, local: Option<IpAddress>, opt: bool) {
            let g = G { valid: true, opt, tag, len, ep, local };
            if !self.q[0].valid { self.q[0] = g; }
            else if !self.q[1].valid { self.q[1] = g; }
            else if !self.q[2].valid { self.q[2] = g; }
            else { self.overflow = true; }
        }
        fn pop(&mut self) {
            if self.q[0].valid { self.popped = true; }
            self.q[0] = self.q[1];
            self.q[1] = self.q[2];
            self.q[2] = GE;
        }
        fn count(&self) -> usize {
            self.q[0].valid as usize + self.q[1].valid as usize + self.q[2].valid as usize
        }
        fn bytes(&self) -> usize {
            (if self.q[0].valid { self.q[0].len } else { 0 })
                + (if self.q[1].valid { self.q[1].len } else { 0 })
                + (if self.q[2].valid { self.q[2].len } else { 0 })
        }
    }

    // ---------------------------------------------------------------- environment
    macro_rules! env {
        ($dev:ident, $iface:ident, $cx:ident) => {
            let mut $dev = NullDev { medium: Medium::Ip, mtu: 1500, checksum: ChecksumCapabilities::ignored() };
            let mut $iface = Interface::new(Config::new(HardwareAddress::Ip), &mut $dev, Instant::from_millis(0));
            $iface.update_ip_addrs(|a| {
                a.push(IpCidr::new(IpAddress::Ipv4(LOCAL), 24)).unwrap();
            });
            let $cx = $iface.context();
        };
    }

    macro_rules! sock {
        ($s:ident, $rmc:expr, $rpc:expr, $tmc:expr, $tpc:expr) => {
            let mut rxm = [PacketMetadata::EMPTY; MC];
            let mut rxp = [0u8; PC];
            let mut txm = [PacketMetadata::EMPTY; MC];
            let mut txp = [0u8; PC];
            let (rmc, rpc, tmc, tpc): (usize, usize, usize, usize) = ($rmc, $rpc, $tmc, $tpc);
            let mut $s = Socket::new(
                PacketBuffer::new(&mut rxm[..rmc], &mut rxp[..rpc]),
                PacketBuffer::new(&mut txm[..tmc], &mut txp[..tpc]),
            );
        };
    }

    fn any_slots() -> usize {
        let v = any_le(MC);
        kani::assume(v >= 1);
        v
    }

    /// bind to a symbolic endpoint with a non-zero port (address: none, IPv4 or IPv6)
    fn bind_any(s: &mut Socket<'_>) -> IpListenEndpoint {
        let ep = IpListenEndpoint { addr: any_opt_addr(), port: kani::any() };
        kani::assume(ep.port != 0);
        assert!(s.bind(ep).is_ok(), "prop:c09_udp_bind_fresh_socket");
        ep
    }

    fn any_hop(s: &mut Socket<'_>) -> u8 {
        if kani::any() {
            let h: u8 = kani::any();
            kani::assume(h != 0);
            s.set_hop_limit(Some(h));
            h
        } else {
            64
        }
    }

    // ---------------------------------------------------------------- transmit side: script steps
    const VIA_SEND: u8 = 0;
    const VIA_SLICE: u8 = 1;
    const VIA_WITH: u8 = 2;

    /// One send of a symbolic datagram (size 0..=9: refused when it does not fit, so the step may be a
    /// no-op) through the API variant `how` (concrete at every call site).
    fn step_send(s: &mut Socket<'_>, g: &mut Ghost, bound: &IpListenEndpoint, how: u8) -> bool {
        let size = any_le(DL);
        let tag: u8 = kani::any();
        let ep = any_ep();
        let local = any_opt_addr();
        kani::assume(version_ok(bound, &ep.addr, &local));
        let ok = if how == VIA_SEND {
            match s.send(size, mk_meta(ep, local)) {
                Ok(buf) => {
                    fill(buf, tag);
                    true
                }
                Err(_) => false,
            }
        } else if how == VIA_SLICE {
            let data = pattern(tag);
            s.send_slice(&data[..size], mk_meta(ep, local)).is_ok()
        } else {
            let max = any_le(DL);
            kani::assume(size <= max);
            s.send_with(max, mk_meta(ep, local), |b| {
                fill(&mut b[..size], tag);
                size
            })
            .is_ok()
        };
        if ok {
            g.push(tag, size, ep, local, false);
        }
        ok
    }

    /// One dispatch whose emit succeeds or fails (symbolic); returns whether emit reported success.
    fn step_dispatch(s: &mut Socket<'_>, cx: &mut Context, g: &mut Ghost) -> bool {
        let ok: bool = kani::any();
        let _ = s.dispatch(cx, |_cx, _pm, _p| if ok { Ok(()) } else { Err(()) });
        if ok {
            g.pop();
        }
        ok
    }

    /// source address the documented rule selects: the datagram's explicit local address, else the
    /// address the socket is bound to, else the interface's choice for this destination
    fn expected_src(cx: &mut Context, e: &G, bound: &IpListenEndpoint) -> Option<IpAddress> {
        if !e.valid {
            return None;
        }
        match (e.local, bound.addr) {
            (Some(l), _) => Some(l),
            (None, Some(b)) => Some(b),
            (None, None) => cx.get_source_address(&e.ep.addr),
        }
    }

    /// what one `dispatch` hands to `emit`, compared with the ghost entry `e`
    struct Seen {
        seen: bool,
        dst: bool,
        src: bool,
        len: bool,
        hdr: bool,
        byte: bool,
    }

    fn dispatch_recording(
        s: &mut Socket<'_>,
        cx: &mut Context,
        e: &G,
        bound: &IpListenEndpoint,
        hop: u8,
        emit_ok: bool,
    ) -> (Seen, Result<(), ()>) {
        let exp_src = expected_src(cx, e, bound);
        let mut o = Seen { seen: false, dst: false, src: false, len: false, hdr: false, byte: false };
        let k = any_lt(DL);
        let r = s.dispatch(cx, |_cx, _pm, (ip, udp, payload)| {
            o.seen = true;
            o.dst = ip.dst_addr() == e.ep.addr && udp.dst_port == e.ep.port;
            o.src = Some(ip.src_addr()) == exp_src && udp.src_port == bound.port;
            o.len = payload.len() == e.len && ip.payload_len() == 8 + e.len;
            o.hdr = ip.next_header() == IpProtocol::Udp && ip.hop_limit() == hop;
            o.byte = k >= payload.len() || payload[k] == pat(e.tag, k);
            if emit_ok { Ok(()) } else { Err(()) }
        });
        // with a single IPv4 address on the interface the IPv4 heuristic always answers LOCAL
        if e.valid && e.local.is_none() && bound.addr.is_none() && is_v4(&e.ep.addr) {
            assert!(exp_src == Some(IpAddress::Ipv4(LOCAL)), "prop:c09_udp_tx_source_is_interface_address");
        }
        (o, r)
    }

    fn assert_emitted_is(o: &Seen, e: &G) {
        assert!(e.valid, "prop:c09_udp_tx_no_extra_datagram");
        assert!(o.len, "prop:c09_udp_tx_datagram_whole_not_merged_not_split");
        assert!(o.byte, "prop:c09_udp_tx_payload_bytes_unmodified");
        assert!(o.dst, "prop:c09_udp_tx_destination_endpoint");
        assert!(o.src, "prop:c09_udp_tx_source_per_documented_rule");
        assert!(o.hdr, "prop:c09_udp_tx_protocol_and_hop_limit");
    }

    /// The transmit queue equals the ghost: MC dispatches emit exactly the ghost's entries, each once, whole,
    /// in order (there are at most MC metadata slots, so nothing can hide behind the MC-th entry).
    fn drain_tx(s: &mut Socket<'_>, cx: &mut Context, g: &Ghost, bound: &IpListenEndpoint, hop: u8) {
        assert!(!g.overflow, "prop:c09_udp_tx_more_datagrams_than_metadata_slots");
        let mut i = 0;
        while i < MC {
            let e = g.q[i];
            let (o, r) = dispatch_recording(s, cx, &e, bound, hop, true);
            assert!(r.is_ok(), "prop:c09_udp_dispatch_error_only_from_emit");
            if e.valid {
                // a source is always found here (explicit, bound, or the interface's IPv4 / IPv6 choice)
                assert!(o.seen, "prop:c09_udp_tx_no_datagram_lost");
                assert_emitted_is(&o, &e);
            } else {
                assert!(!o.seen, "prop:c09_udp_tx_no_extra_datagram");
            }
            i += 1;
        }
    }

    macro_rules! tx_setup {
        ($dev:ident, $iface:ident, $cx:ident, $s:ident, $g:ident, $bound:ident, $hop:ident) => {
            env!($dev, $iface, $cx);
            sock!($s, 1, 0, any_slots(), any_le(PC));
            let $bound = bind_any(&mut $s);
            let $hop = any_hop(&mut $s);
            let mut $g = Ghost::new();
        };
    }

    // @harness props=C09 cfg=KG tier=q to=900 mem=8 unwind=17 opts=nomem covers=4 funcs=udp::Socket::send_slice;udp::Socket::send;udp::Socket::send_with;udp::Socket::dispatch;PacketBuffer::enqueue;PacketBuffer::dequeue_with bounds=tx_metadata_slots_1..=3;_payload_ring_0..=8;_pre-state_=_send,_send_with,_dispatch,_dispatch_(each_may_be_a_no-op:_sizes_0..=9,_emit_Ok/Err);_datagram_under_test_0..=9_bytes;_endpoints_IPv4_(any)_or_IPv6_(2_symbolic_groups);_one_interface_address
    #[kani::proof]
    pub(crate) fn udp_send() {
        tx_setup!(dev, iface, cx, s, g, bound, hop);
        step_send(&mut s, &mut g, &bound, VIA_SEND);
        step_send(&mut s, &mut g, &bound, VIA_WITH);
        step_dispatch(&mut s, cx, &mut g);
        step_dispatch(&mut s, cx, &mut g);
        let before = g.count();
        let size = any_le(DL);
        let tag: u8 = kani::any();
        let ep = any_ep();
        let local = any_opt_addr();
        kani::assume(version_ok(&bound, &ep.addr, &local));
        let pcap = s.payload_send_capacity();
        let mcap = s.packet_send_capacity();
        let data = pattern(tag);
        let r = s.send_slice(&data[..size], mk_meta(ep, local));
        let unaddr = unspec(&ep.addr) || ep.port == 0;
        match r {
            Ok(()) => {
                assert!(!unaddr, "prop:c09_udp_send_refuses_unaddressable");
                g.push(tag, size, ep, local, false);
            }
            Err(SendError::Unaddressable) => assert!(unaddr, "prop:c09_udp_send_unaddressable_only_as_documented"),
            Err(SendError::BufferFull) => {
                // nothing queued => any datagram up to the payload capacity is accepted
                assert!(!(before == 0 && size <= pcap), "prop:c09_udp_empty_tx_accepts_up_to_capacity");
            }
        }
        kani::cover!(r.is_ok() && before == 2, "third datagram accepted");
        kani::cover!(r.is_ok() && before == 1 && g.popped && s.send_queue() > g.bytes(), "accepted behind a padding record (ring wrapped)");
        kani::cover!(r == Err(SendError::BufferFull) && before >= 1 && before < mcap && size <= pcap, "refused: payload ring too full");
        kani::cover!(r == Err(SendError::BufferFull) && before == mcap, "refused: metadata slots full");
        drain_tx(&mut s, cx, &g, &bound, hop);
    }

    // @harness props=C09 cfg=KG tier=q to=900 mem=8 unwind=17 opts=nomem covers=3 funcs=udp::Socket::send_with;udp::Socket::send_slice;udp::Socket::dispatch;PacketBuffer::enqueue_with_infallible;PacketBuffer::dequeue_with bounds=tx_metadata_slots_1..=3;_payload_ring_0..=8;_pre-state_=_send_slice,_send_with,_dispatch,_dispatch_(each_may_be_a_no-op);_max_size_0..=9,_written_size<=max_size;_endpoints_IPv4_or_IPv6
    #[kani::proof]
    pub(crate) fn udp_send_with() {
        tx_setup!(dev, iface, cx, s, g, bound, hop);
        step_send(&mut s, &mut g, &bound, VIA_SLICE);
        step_send(&mut s, &mut g, &bound, VIA_WITH);
        step_dispatch(&mut s, cx, &mut g);
        step_dispatch(&mut s, cx, &mut g);
        let before = g.count();
        let max = any_le(DL);
        let take = any_le(DL);
        kani::assume(take <= max);
        let tag: u8 = kani::any();
        let ep = any_ep();
        let local = any_opt_addr();
        kani::assume(version_ok(&bound, &ep.addr, &local));
        let pcap = s.payload_send_capacity();
        let mcap = s.packet_send_capacity();
        let mut offered = 0usize;
        let mut called = false;
        let r = s.send_with(max, mk_meta(ep, local), |b| {
            called = true;
            offered = b.len();
            fill(&mut b[..take], tag);
            take
        });
        let unaddr = unspec(&ep.addr) || ep.port == 0;
        match r {
            Ok(n) => {
                assert!(!unaddr, "prop:c09_udp_send_refuses_unaddressable");
                assert!(called && offered == max && n == take, "prop:c09_udp_send_with_offers_max_and_keeps_written_size");
                g.push(tag, take, ep, local, false);
            }
            Err(SendError::Unaddressable) => {
                assert!(unaddr && !called, "prop:c09_udp_send_unaddressable_only_as_documented");
            }
            Err(SendError::BufferFull) => {
                assert!(!called, "prop:c09_udp_send_with_callback_not_called_on_refusal");
                // nothing queued => any datagram up to the payload capacity is accepted
                assert!(!(before == 0 && max <= pcap), "prop:c09_udp_empty_tx_accepts_up_to_capacity");
            }
        }
        kani::cover!(r.is_ok() && before == 2 && take < max, "third datagram accepted and shrunk");
        kani::cover!(r.is_ok() && before == 0 && g.popped && max >= 5, "accepted on a queue emptied by dispatch (read pointer moved)");
        kani::cover!(r == Err(SendError::BufferFull) && before >= 1 && before < mcap && max <= pcap, "refused: payload ring too full");
        drain_tx(&mut s, cx, &g, &bound, hop);
    }

    // @harness props=C09 cfg=KG tier=q to=900 mem=8 unwind=17 opts=nomem covers=4 funcs=udp::Socket::dispatch;udp::Socket::send_slice;udp::Socket::send_with;PacketBuffer::dequeue_with bounds=tx_metadata_slots_1..=3;_payload_ring_0..=8;_pre-state_=_send_slice,_send_with,_dispatch,_send_slice_(each_may_be_a_no-op);_emit_returns_Ok_or_Err;_endpoints_IPv4_or_IPv6
    #[kani::proof]
    pub(crate) fn udp_dispatch() {
        tx_setup!(dev, iface, cx, s, g, bound, hop);
        step_send(&mut s, &mut g, &bound, VIA_SLICE);
        step_send(&mut s, &mut g, &bound, VIA_WITH);
        step_dispatch(&mut s, cx, &mut g);
        step_send(&mut s, &mut g, &bound, VIA_SLICE);
        let before = g.count();
        let head = g.q[0];
        let emit_ok: bool = kani::any();
        let (o, r) = dispatch_recording(&mut s, cx, &head, &bound, hop, emit_ok);
        if head.valid {
            assert!(o.seen, "prop:c09_udp_tx_no_datagram_lost");
            assert_emitted_is(&o, &head);
            assert!(r.is_ok() == emit_ok, "prop:c09_udp_dispatch_error_only_from_emit");
            if emit_ok {
                g.pop(); // exactly the head leaves the queue
            }
            // emit failed: nothing leaves the queue, the same datagram is offered again by the drain below
        } else {
            assert!(!o.seen && r.is_ok(), "prop:c09_udp_tx_no_extra_datagram");
        }
        kani::cover!(head.valid && !emit_ok && before >= 2, "emit Err path taken with two or more queued");
        kani::cover!(head.valid && emit_ok && before == 3, "emit Ok pops the head, two remain");
        kani::cover!(head.valid && emit_ok && s.send_queue() > g.bytes(), "head popped in front of a padding record");
        kani::cover!(head.valid && !is_v4(&head.ep.addr) && head.local.is_none() && bound.addr.is_none(), "IPv6 datagram, source chosen by the interface");
        drain_tx(&mut s, cx, &g, &bound, hop);
    }

    // @harness props=C09,C13 cfg=KG tier=q to=900 mem=8 unwind=17 opts=nomem covers=2 funcs=udp::Socket::poll_at;udp::Socket::send_slice;udp::Socket::send_with;udp::Socket::dispatch bounds=tx_metadata_slots_1..=3;_payload_ring_0..=8;_script_send_slice,_send_with,_dispatch,_send_slice,_dispatch,_dispatch_(each_may_be_a_no-op);_poll_at_probed_after_every_step
    #[kani::proof]
    pub(crate) fn udp_poll_at() {
        tx_setup!(dev, iface, cx, s, g, bound, hop);
        assert!(s.poll_at(cx) == PollAt::Ingress, "prop:c13_udp_poll_at_ingress_when_nothing_queued");
        step_send(&mut s, &mut g, &bound, VIA_SLICE);
        let p1 = s.poll_at(cx);
        assert!((g.count() > 0) == (p1 == PollAt::Now) && (g.count() == 0) == (p1 == PollAt::Ingress), "prop:c13_udp_poll_at_now_iff_datagram_queued");
        step_send(&mut s, &mut g, &bound, VIA_WITH);
        let p2 = s.poll_at(cx);
        assert!((g.count() > 0) == (p2 == PollAt::Now) && (g.count() == 0) == (p2 == PollAt::Ingress), "prop:c13_udp_poll_at_now_iff_datagram_queued");
        step_dispatch(&mut s, cx, &mut g);
        let p3 = s.poll_at(cx);
        assert!((g.count() > 0) == (p3 == PollAt::Now) && (g.count() == 0) == (p3 == PollAt::Ingress), "prop:c13_udp_poll_at_now_iff_datagram_queued");
        // a send that may be refused after its padding record was written, then the last datagram leaves
        let sent = step_send(&mut s, &mut g, &bound, VIA_SLICE);
        let p4 = s.poll_at(cx);
        // sufficient: a queued datagram is always announced
        assert!(g.count() == 0 || p4 == PollAt::Now, "prop:c13_udp_poll_at_now_while_datagram_queued");
        let ok = step_dispatch(&mut s, cx, &mut g);
        let p5 = s.poll_at(cx);
        assert!(g.count() == 0 || p5 == PollAt::Now, "prop:c13_udp_poll_at_now_while_datagram_queued");
        assert!(p5 == PollAt::Now || p5 == PollAt::Ingress, "prop:c13_udp_poll_at_now_or_ingress");
        // non-spinning: a dispatch that had nothing to emit leaves no deadline behind
        let mut seen = false;
        let _ = s.dispatch(cx, |_cx, _pm, _p| {
            seen = true;
            Err::<(), ()>(())
        });
        assert!(seen == (g.count() > 0), "prop:c09_udp_tx_no_datagram_lost");
        let p6 = s.poll_at(cx);
        assert!(seen || p6 == PollAt::Ingress, "prop:c13_udp_idle_dispatch_leaves_no_deadline");
        kani::cover!(p2 == PollAt::Now && p5 == PollAt::Ingress, "queue drained: Now -> Ingress");
        // (the "only a padding record left" state is unreachable since the PacketBuffer padding fix: no witness for it)
        kani::cover!(!ok && g.count() == 2, "emit failed with two queued: still Now");
    }

    // Concrete witness: a send refused for lack of a second metadata slot leaves its padding record behind;
    // once the last datagram is gone, poll_at says Now although nothing is queued, and the socket refuses a
    // datagram that fits its payload capacity although no datagram is queued.
    // @harness props=C09,C13 cfg=KG tier=q to=600 mem=4 unwind=17 opts=nomem covers=1 funcs=udp::Socket::poll_at;udp::Socket::send_slice;udp::Socket::dispatch;PacketBuffer::enqueue bounds=concrete_script:_2_metadata_slots,_8_payload_bytes;_send_4,_send_3,_dispatch,_send_2_(refused),_dispatch
    #[kani::proof]
    pub(crate) fn udp_padding_left_behind_tx() {
        env!(dev, iface, cx);
        sock!(s, 1, 0, 2, 8);
        assert!(s.bind(IpListenEndpoint { addr: None, port: 9 }).is_ok(), "prop:c09_udp_bind_fresh_socket");
        let to = mk_meta(IpEndpoint { addr: IpAddress::Ipv4(Ipv4Address::new(192, 168, 1, 2)), port: 7 }, None);
        let data = pattern(1);
        assert!(s.send_slice(&data[..4], to).is_ok() && s.send_slice(&data[..3], to).is_ok(), "prop:c09_udp_empty_tx_accepts_up_to_capacity");
        let _ = s.dispatch(cx, |_cx, _pm, _p| Ok::<(), ()>(()));
        let third = s.send_slice(&data[..2], to);
        let _ = s.dispatch(cx, |_cx, _pm, _p| Ok::<(), ()>(()));
        kani::cover!(third.is_err(), "third datagram refused");
        // both datagrams are gone, the third was refused: nothing is queued
        assert!(third.is_ok() || s.poll_at(cx) == PollAt::Ingress, "prop:c13_udp_poll_at_ingress_when_nothing_queued");
        assert!(third.is_ok() || s.send_slice(&data[..8], to).is_ok(), "prop:c09_udp_empty_tx_accepts_up_to_capacity");
    }

    // ---------------------------------------------------------------- receive side: script steps
    /// One accepted datagram (size 1..=9, dropped as a whole when it does not fit, so the step may be a
    /// no-op).  size > 0: acceptance is then visible in the byte count (a padding record alone is shorter
    /// than the datagram), which keeps the ghost exact.
    fn step_process(s: &mut Socket<'_>, cx: &mut Context, g: &mut Ghost) -> bool {
        let size = any_le(DL);
        kani::assume(size > 0);
        let tag: u8 = kani::any();
        let src = any_ep();
        let dst = any_addr();
        kani::assume(is_v4(&src.addr) == is_v4(&dst));
        let udp = UdpRepr { src_port: src.port, dst_port: kani::any() };
        let ip = IpRepr::new(src.addr, dst, IpProtocol::Udp, 8 + size, 64);
        kani::assume(s.accepts(cx, &ip, &udp));
        let before = s.recv_queue();
        let data = pattern(tag);
        s.process(cx, PacketMeta::default(), &ip, &udp, &data[..size]);
        let ok = s.recv_queue() >= before + size;
        if ok {
            g.push(tag, size, src, Some(dst), false);
        }
        ok
    }

    fn step_recv(s: &mut Socket<'_>, g: &mut Ghost) {
        if kani::any() {
            let _ = s.recv();
            g.pop();
        }
    }

    fn meta_is(m: &UdpMetadata, e: &G) -> bool {
        m.endpoint == e.ep && m.local_address == e.local
    }

    /// the receive queue equals the ghost (an `opt` tail entry may be missing as a whole): `n` = number of
    /// datagrams that can be queued at most (sends of the script, at most MC); returns whether the `opt` entry
    /// was delivered
    fn drain_rx(s: &mut Socket<'_>, g: &Ghost, n: usize) -> bool {
        assert!(!g.overflow && (n == MC || !g.q[MC - 1].valid), "prop:c09_udp_rx_more_datagrams_than_metadata_slots");
        let mut tail = false;
        let mut i = 0;
        while i < n {
            let e = g.q[i];
            match s.recv() {
                Ok((buf, m)) => {
                    assert!(e.valid, "prop:c09_udp_rx_no_extra_datagram");
                    assert!(buf.len() == e.len, "prop:c09_udp_rx_datagram_whole_not_merged_not_split");
                    let k = any_lt(DL);
                    assert!(k >= buf.len() || buf[k] == pat(e.tag, k), "prop:c09_udp_rx_payload_bytes_unmodified");
                    assert!(m.endpoint == e.ep, "prop:c09_udp_rx_source_endpoint");
                    assert!(m.local_address == e.local, "prop:c09_udp_rx_local_address");
                    if e.opt {
                        tail = true;
                    }
                }
                Err(err) => {
                    assert!(err == RecvError::Exhausted, "prop:c09_udp_recv_error_kind");
                    assert!(!e.valid || e.opt, "prop:c09_udp_rx_no_datagram_lost");
                }
            }
            i += 1;
        }
        tail
    }

    macro_rules! rx_setup {
        ($dev:ident, $iface:ident, $cx:ident, $s:ident, $g:ident, $bound:ident) => {
            env!($dev, $iface, $cx);
            sock!($s, any_slots(), any_le(PC), 1, 0);
            let $bound = bind_any(&mut $s);
            let mut $g = Ghost::new();
        };
    }

    // @harness props=C09 cfg=KG tier=q to=900 mem=8 unwind=17 opts=nomem covers=4 funcs=udp::Socket::process;udp::Socket::accepts;udp::Socket::recv;PacketBuffer::enqueue;PacketBuffer::dequeue bounds=rx_metadata_slots_1..=3;_payload_ring_0..=8;_pre-state_=_process,_process,_recv,_recv_(each_may_be_a_no-op;_sizes_1..=9);_datagram_under_test_0..=9_bytes;_IPv4_(any)_or_IPv6_(2_symbolic_groups)_addresses
    #[kani::proof]
    pub(crate) fn udp_process_recv() {
        rx_setup!(dev, iface, cx, s, g, bound);
        step_process(&mut s, cx, &mut g);
        step_process(&mut s, cx, &mut g);
        step_recv(&mut s, &mut g);
        step_recv(&mut s, &mut g);
        let before = g.count();
        let size = any_le(DL);
        let tag: u8 = kani::any();
        let src = any_ep();
        let dst = any_addr();
        kani::assume(is_v4(&src.addr) == is_v4(&dst));
        let udp = UdpRepr { src_port: src.port, dst_port: kani::any() };
        let ip = IpRepr::new(src.addr, dst, IpProtocol::Udp, 8 + size, 64);
        kani::assume(s.accepts(cx, &ip, &udp));
        let pcap = s.payload_recv_capacity();
        let mcap = s.packet_recv_capacity();
        let data = pattern(tag);
        s.process(cx, PacketMeta::default(), &ip, &udp, &data[..size]);
        // delivered exactly once with (source endpoint, destination address), or not at all
        g.push(tag, size, src, Some(dst), true);
        let bytes_after = s.recv_queue();
        let delivered = drain_rx(&mut s, &g, MC);
        if !delivered {
            assert!(!(before == 0 && size <= pcap), "prop:c09_udp_empty_rx_accepts_up_to_capacity");
        } else {
            assert!(before < mcap && size <= pcap, "prop:c09_udp_rx_delivery_within_capacity");
        }
        kani::cover!(delivered && before == 2, "third datagram delivered");
        kani::cover!(delivered && before == 1 && g.popped && bytes_after > g.bytes(), "delivered behind a padding record (ring wrapped)");
        kani::cover!(!delivered && before >= 1 && before < mcap && size <= pcap, "dropped whole: payload ring too full");
        kani::cover!(!delivered && before == mcap, "dropped whole: metadata slots full");
    }

    // @harness props=C09 cfg=KG tier=q to=900 mem=8 unwind=17 opts=nomem covers=3 funcs=udp::Socket::recv_slice;udp::Socket::recv;udp::Socket::process bounds=rx_metadata_slots_1..=3;_payload_ring_0..=8;_pre-state_=_process,_process,_recv,_process_(each_may_be_a_no-op;_sizes_1..=9);_user_buffer_0..=9_bytes
    #[kani::proof]
    pub(crate) fn udp_recv_truncated() {
        rx_setup!(dev, iface, cx, s, g, bound);
        step_process(&mut s, cx, &mut g);
        step_process(&mut s, cx, &mut g);
        step_recv(&mut s, &mut g);
        step_process(&mut s, cx, &mut g);
        let head = g.q[0];
        let ulen = any_le(DL);
        let mut ubuf = [0xEEu8; DL];
        let r = s.recv_slice(&mut ubuf[..ulen]);
        match r {
            Ok((n, m)) => {
                assert!(head.valid, "prop:c09_udp_rx_no_extra_datagram");
                assert!(n == head.len && n <= ulen, "prop:c09_udp_recv_slice_whole_datagram_or_error");
                let k = any_lt(DL);
                assert!(k >= n || ubuf[k] == pat(head.tag, k), "prop:c09_udp_rx_payload_bytes_unmodified");
                assert!(meta_is(&m, &head), "prop:c09_udp_rx_source_endpoint");
                g.pop();
            }
            Err(RecvError::Truncated) => {
                // documented: "the packet is dropped and a RecvError::Truncated error is returned"
                assert!(head.valid && ulen < head.len, "prop:c09_udp_truncated_only_when_buffer_too_small");
                g.pop();
            }
            Err(RecvError::Exhausted) => assert!(!head.valid, "prop:c09_udp_rx_no_datagram_lost"),
        }
        kani::cover!(r == Err(RecvError::Truncated) && g.count() >= 1, "short user buffer: Truncated, next datagram still queued");
        kani::cover!(matches!(r, Ok((n, _)) if n == ulen && n >= 3) && g.count() >= 1, "exact-size user buffer");
        kani::cover!(matches!(r, Ok((n, _)) if n < ulen), "larger user buffer");
        drain_rx(&mut s, &g, MC);
    }

    // @harness props=C09 cfg=KG tier=q to=900 mem=8 unwind=17 opts=nomem covers=3 funcs=udp::Socket::peek;udp::Socket::peek_slice;udp::Socket::recv;PacketBuffer::peek bounds=rx_metadata_slots_1..=3;_payload_ring_0..=8;_pre-state_=_process,_process,_recv_(each_may_be_a_no-op;_sizes_1..=9);_user_buffer_0..=9_bytes
    #[kani::proof]
    pub(crate) fn udp_peek() {
        rx_setup!(dev, iface, cx, s, g, bound);
        step_process(&mut s, cx, &mut g);
        step_process(&mut s, cx, &mut g);
        step_recv(&mut s, &mut g);
        let head = g.q[0];
        match s.peek() {
            Ok((buf, m)) => {
                assert!(head.valid, "prop:c09_udp_rx_no_extra_datagram");
                assert!(buf.len() == head.len, "prop:c09_udp_rx_datagram_whole_not_merged_not_split");
                assert!(meta_is(m, &head), "prop:c09_udp_rx_source_endpoint");
                let k = any_lt(DL);
                assert!(k >= buf.len() || buf[k] == pat(head.tag, k), "prop:c09_udp_rx_payload_bytes_unmodified");
            }
            Err(e) => assert!(e == RecvError::Exhausted && !head.valid, "prop:c09_udp_rx_no_datagram_lost"),
        }
        let ulen = any_le(DL);
        let mut ubuf = [0xEEu8; DL];
        let mut trunc = false;
        match s.peek_slice(&mut ubuf[..ulen]) {
            Ok((n, m)) => {
                assert!(head.valid, "prop:c09_udp_rx_no_extra_datagram");
                assert!(n == head.len && n <= ulen, "prop:c09_udp_peek_slice_whole_datagram_or_error");
                assert!(meta_is(m, &head), "prop:c09_udp_rx_source_endpoint");
                let k = any_lt(DL);
                assert!(k >= n || ubuf[k] == pat(head.tag, k), "prop:c09_udp_rx_payload_bytes_unmodified");
            }
            Err(RecvError::Truncated) => {
                assert!(head.valid && ulen < head.len, "prop:c09_udp_truncated_only_when_buffer_too_small");
                // documented: "no data is copied into the provided buffer"
                let k = any_lt(DL);
                assert!(ubuf[k] == 0xEE, "prop:c09_udp_peek_slice_truncated_copies_nothing");
                trunc = true;
            }
            Err(RecvError::Exhausted) => assert!(!head.valid, "prop:c09_udp_rx_no_datagram_lost"),
        }
        kani::cover!(trunc && g.count() == 2, "peek_slice Truncated with two queued");
        kani::cover!(!trunc && head.valid && head.len >= 3, "peek_slice copied the head");
        kani::cover!(head.valid && g.popped, "peek after an earlier recv");
        // peeking consumes nothing, also when it reported Truncated
        drain_rx(&mut s, &g, 2);
    }

    // Concrete witness (receive side of udp_padding_left_behind_tx): can_recv() answers true although
    // recv() has nothing to hand out.
    // @harness props=C09 cfg=KG tier=q to=600 mem=4 unwind=17 opts=nomem covers=1 funcs=udp::Socket::can_recv;udp::Socket::recv;udp::Socket::process;PacketBuffer::enqueue bounds=concrete_script:_2_metadata_slots,_8_payload_bytes;_process_4,_process_3,_recv,_process_2_(dropped),_recv
    #[kani::proof]
    pub(crate) fn udp_padding_left_behind_rx() {
        env!(dev, iface, cx);
        sock!(s, 2, 8, 1, 0);
        assert!(s.bind(IpListenEndpoint { addr: None, port: 9 }).is_ok(), "prop:c09_udp_bind_fresh_socket");
        let udp = UdpRepr { src_port: 7, dst_port: 9 };
        let data = pattern(1);
        let from = IpAddress::Ipv4(Ipv4Address::new(192, 168, 1, 2));
        let ip4 = IpRepr::new(from, IpAddress::Ipv4(LOCAL), IpProtocol::Udp, 12, 64);
        let ip3 = IpRepr::new(from, IpAddress::Ipv4(LOCAL), IpProtocol::Udp, 11, 64);
        let ip2 = IpRepr::new(from, IpAddress::Ipv4(LOCAL), IpProtocol::Udp, 10, 64);
        s.process(cx, PacketMeta::default(), &ip4, &udp, &data[..4]);
        s.process(cx, PacketMeta::default(), &ip3, &udp, &data[..3]);
        assert!(matches!(s.recv(), Ok((b, _)) if b.len() == 4), "prop:c09_udp_rx_no_datagram_lost");
        s.process(cx, PacketMeta::default(), &ip2, &udp, &data[..2]);
        assert!(matches!(s.recv(), Ok((b, _)) if b.len() == 3), "prop:c09_udp_rx_no_datagram_lost");
        let can = s.can_recv();
        let got = s.recv().is_ok();
        kani::cover!(!got, "third datagram was dropped");
        assert!(can == got, "prop:c09_udp_can_recv_iff_recv_succeeds");
    }

    // @harness props=C09 cfg=KG tier=q to=600 mem=8 unwind=17 opts=nomem covers=4 funcs=udp::Socket::accepts;udp::Socket::bind;udp::Socket::close;udp::Socket::is_open bounds=bound_endpoint_and_packet_addresses_IPv4_(any)_or_IPv6_(2_symbolic_groups);_any_ports;_close_after_2_sends_and_2_received_datagrams
    #[kani::proof]
    pub(crate) fn udp_accepts_bind_close() {
        env!(dev, iface, cx);
        sock!(s, any_slots(), any_le(PC), any_slots(), any_le(PC));
        assert!(!s.is_open(), "prop:c09_udp_new_socket_closed");
        let ep1 = IpListenEndpoint { addr: any_opt_addr(), port: kani::any() };
        let r1 = s.bind(ep1);
        // documented: Unaddressable iff port zero; fresh socket otherwise binds
        assert!(r1 == if ep1.port == 0 { Err(BindError::Unaddressable) } else { Ok(()) }, "prop:c09_udp_bind_result_as_documented");
        assert!(s.is_open() == r1.is_ok(), "prop:c09_udp_open_iff_bound");
        let src = any_ep();
        let dst = any_addr();
        kani::assume(is_v4(&src.addr) == is_v4(&dst));
        let udp = UdpRepr { src_port: src.port, dst_port: kani::any() };
        let ip = IpRepr::new(src.addr, dst, IpProtocol::Udp, 8, 64);
        let acc = s.accepts(cx, &ip, &udp);
        let mut gt = Ghost::new();
        let mut gr = Ghost::new();
        if r1.is_err() {
            // an unbound socket accepts nothing (UDP datagrams to port 0 do not exist) and sends nothing
            assert!(!acc || udp.dst_port == 0, "prop:c09_udp_unbound_socket_accepts_nothing");
            assert!(s.send_slice(&[1, 2], mk_meta(IpEndpoint { addr: IpAddress::Ipv4(LOCAL), port: 7 }, None)) == Err(SendError::Unaddressable),
                    "prop:c09_udp_unbound_socket_sends_nothing");
        } else {
            // accepts: the port, and if bound to an address that address (or a broadcast / multicast destination)
            let addr_ok = match ep1.addr {
                None => true,
                Some(a) => a == dst || broadcast(&dst) || multicast(&dst),
            };
            assert!(acc == (udp.dst_port == ep1.port && addr_ok), "prop:c09_udp_accepts_iff_bound_endpoint_matches");
            assert!(s.endpoint() == ep1, "prop:c09_udp_bind_records_endpoint");
            // binding twice is an error and changes nothing
            let ep2 = IpListenEndpoint { addr: any_opt_addr(), port: kani::any() };
            let r2 = s.bind(ep2);
            assert!(r2 == if ep2.port == 0 { Err(BindError::Unaddressable) } else { Err(BindError::InvalidState) }, "prop:c09_udp_bind_twice_errors");
            assert!(s.endpoint() == ep1, "prop:c09_udp_failed_bind_keeps_endpoint");
            // fill both directions
            step_send(&mut s, &mut gt, &ep1, VIA_SLICE);
            step_send(&mut s, &mut gt, &ep1, VIA_SLICE);
            step_process(&mut s, cx, &mut gr);
            step_process(&mut s, cx, &mut gr);
        }
        kani::cover!(r1.is_ok() && acc && ep1.addr.is_some() && ep1.addr != Some(dst), "bound to an address, broadcast/multicast destination accepted");
        kani::cover!(r1.is_ok() && !acc && udp.dst_port == ep1.port, "right port, wrong address");
        kani::cover!(r1.is_ok() && acc && !is_v4(&dst), "IPv6 datagram accepted");
        kani::cover!(gt.count() == 2 && gr.count() >= 1, "closed with datagrams queued both ways");
        s.close();
        assert!(!s.is_open() && s.endpoint() == IpListenEndpoint::default(), "prop:c09_udp_close_unbinds");
        assert!(s.send_queue() == 0 && s.recv_queue() == 0 && !s.can_recv(), "prop:c09_udp_close_empties");
        assert!(s.recv().is_err(), "prop:c09_udp_close_empties");
        let mut seen = false;
        let r = s.dispatch(cx, |_cx, _pm, _p| {
            seen = true;
            Ok::<(), ()>(())
        });
        assert!(!seen && r.is_ok(), "prop:c09_udp_close_empties");
        assert!(s.poll_at(cx) == PollAt::Ingress, "prop:c13_udp_poll_at_ingress_when_nothing_queued");
        // a closed socket can be bound again and starts with its full capacity
        let ep3 = IpListenEndpoint { addr: None, port: 9 };
        assert!(s.bind(ep3).is_ok(), "prop:c09_udp_rebind_after_close");
        let n = any_le(PC);
        kani::assume(n <= s.payload_send_capacity());
        let data = pattern(3);
        assert!(s.send_slice(&data[..n], mk_meta(IpEndpoint { addr: IpAddress::Ipv4(LOCAL), port: 7 }, None)).is_ok(),
                "prop:c09_udp_empty_tx_accepts_up_to_capacity");
    }

    // A datagram whose explicit local address (or the socket's bound address) has the other IP version than
    // its destination is accepted by `send`; `dispatch` (i.e. `Interface::poll`) must not panic on it.
    // @harness props=C09 cfg=KG tier=q to=600 mem=4 unwind=17 opts=nomem covers=2 funcs=udp::Socket::send_slice;udp::Socket::dispatch;IpRepr::new bounds=one_datagram_<=9_bytes;_local/bound_address_and_destination_of_different_IP_versions
    #[kani::proof]
    pub(crate) fn udp_version_mismatch() {
        #[cfg(feature = "proto-ipv6")]
        udp_version_mismatch_body();
    }
    #[cfg(feature = "proto-ipv6")]
    fn udp_version_mismatch_body() {
        env!(dev, iface, cx);
        sock!(s, 1, 0, 2, PC);
        let bound = bind_any(&mut s);
        let size = any_le(DL);
        let ep = any_ep();
        let local = any_opt_addr();
        kani::assume(!version_ok(&bound, &ep.addr, &local));
        let data = pattern(1);
        let sent = s.send_slice(&data[..size], mk_meta(ep, local)).is_ok();
        kani::cover!(sent && local.is_some(), "accepted: explicit local address of the other IP version");
        kani::cover!(sent && local.is_none(), "accepted: bound address of the other IP version");
        // either refused by send, or dropped / emitted by dispatch: never a panic in the poll path
        let r = s.dispatch(cx, |_cx, _pm, _p| Ok::<(), ()>(()));
        assert!(r.is_ok(), "prop:c09_udp_dispatch_error_only_from_emit");
    }

    // @harness props=C09 kind=mustfail cfg=KG tier=q to=600 mem=8 unwind=17 opts=nomem
    #[kani::proof]
    pub(crate) fn udp_must_fail() {
        tx_setup!(dev, iface, cx, s, g, bound, hop);
        step_send(&mut s, &mut g, &bound, VIA_SLICE);
        step_send(&mut s, &mut g, &bound, VIA_SLICE);
        let head = g.q[0];
        let (o, r) = dispatch_recording(&mut s, cx, &head, &bound, hop, false);
        // false: a failed emit does NOT remove the head
        g.pop();
        drain_tx(&mut s, cx, &g, &bound, hop);
    }
}

// Configurations without IPv4 or without medium-ip (this file is spliced into every configuration of a
// run): the harnesses above are not run there; the replay dispatcher only needs their names.
#[cfg(not(all(feature = "proto-ipv4", feature = "medium-ip")))]
#[allow(dead_code)]
mod v_socket_udp {
    macro_rules! stubs {
        ($($n:ident)*) => { $(pub(crate) fn $n() {})* };
    }
    stubs!(udp_send udp_send_with udp_dispatch udp_poll_at udp_padding_left_behind_tx udp_process_recv udp_recv_truncated udp_peek udp_padding_left_behind_rx udp_accepts_bind_close udp_version_mismatch udp_must_fail);
}
