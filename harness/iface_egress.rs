#[allow(dead_code, unused_imports, unused_variables, unused_mut)]
mod v_iface_egress {
    use super::*;
}
