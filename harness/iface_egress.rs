// Interface egress, IPv4 over Ethernet / raw IP: C10 (every transmitted frame is well-formed, fits the MTU,
// has a legal source), C09 (a datagram is handed to the device exactly once, unmodified; back-pressure keeps queues).
// Spliced into src/iface/interface/mod.rs (child of iface::interface).
#[cfg(all(feature = "proto-ipv4", feature = "medium-ethernet", feature = "socket-tcp", feature = "socket-udp", feature = "socket-icmp"))]
#[allow(dead_code, unused_imports, unused_variables, unused_mut)]
mod v_iface_egress {
    use super::*;
    use crate::iface::{SocketHandle, SocketStorage};
    use crate::phy::ChecksumCapabilities;
    use crate::socket::{icmp, tcp, udp};
    use crate::verif_common::*;
    use crate::verif_dev::{CapDev, CapTx, TxState};

    const OWN: Ipv4Address = Ipv4Address::new(192, 168, 1, 1);
    const PEER: Ipv4Address = Ipv4Address::new(192, 168, 1, 2);
    const OWN_MAC: [u8; 6] = [0x02, 0, 0, 0, 0, 1];
    const PEER_MAC: [u8; 6] = [0x02, 0, 0, 0, 0, 2];
    const N: usize = 96;

    fn get16(b: &[u8], o: usize) -> u16 {
        ((b[o] as u16) << 8) | b[o + 1] as u16
    }

    /// RFC 1071 reference: big-endian 16-bit words, end-around carry; `extra` = pseudo-header words
    fn ref_sum(data: &[u8], len: usize, extra: u32) -> u16 {
        let mut acc: u32 = extra;
        let mut i = 0;
        while i < N {
            if i + 1 < len {
                acc += get16(data, i) as u32;
            } else if i < len {
                acc += (data[i] as u32) << 8;
            }
            i += 2;
        }
        acc = (acc & 0xffff) + (acc >> 16);
        acc = (acc & 0xffff) + (acc >> 16);
        acc as u16
    }

    fn pseudo4(src: Ipv4Address, dst: Ipv4Address, proto: u8, len: usize) -> u32 {
        let s = src.octets();
        let d = dst.octets();
        (((s[0] as u32) << 8) | s[1] as u32) + (((s[2] as u32) << 8) | s[3] as u32)
            + (((d[0] as u32) << 8) | d[1] as u32) + (((d[2] as u32) << 8) | d[3] as u32)
            + proto as u32 + len as u32
    }

    macro_rules! env_eth {
        ($iface:ident, $tx:ident, $mtu:ident) => {
            env_eth!($iface, $tx, $mtu, ChecksumCapabilities::default());
        };
        ($iface:ident, $tx:ident, $mtu:ident, $caps:expr) => {
            // concrete MTU: a symbolic one makes CBMC encode the fragmentation branch of dispatch_ip as well
            // (measured: out of memory at 8 GB); the oversize branch is C12's harnesses' subject
            let $mtu = 1500usize;
            let mut dev = CapDev::<N>::new(Medium::Ethernet, $mtu + 14, $caps);
            // concrete time: frame layout does not depend on it, and a symbolic instant makes the neighbor-cache
            // bookkeeping (expiry comparisons, eviction) symbolic: measured 2.7 M symex steps and OOM at 8 GB
            let now: i64 = 1000;
            let mut $iface = Interface::new(Config::new(HardwareAddress::Ethernet(EthernetAddress(OWN_MAC))), &mut dev, Instant::from_millis(now));
            $iface.update_ip_addrs(|a| {
                a.push(IpCidr::new(IpAddress::Ipv4(OWN), 24)).unwrap();
            });
            $iface.inner.neighbor_cache.fill(IpAddress::Ipv4(PEER), HardwareAddress::Ethernet(EthernetAddress(PEER_MAC)), Instant::from_millis(now));
            let mut $tx = TxState::<N>::new();
        };
    }

    /// Ethernet + IPv4 header obligations shared by all payload kinds; returns the IPv4 total length
    fn check_eth_ipv4(f: &[u8], flen: usize, mtu: usize, proto: u8, hop: u8) -> usize {
        crate::vassert!(flen >= 34 && flen <= mtu + 14, "prop:c10_frame_fits_mtu");
        crate::vassert!(f[0..6] == PEER_MAC && f[6..12] == OWN_MAC, "prop:c10_ethernet_addresses");
        crate::vassert!(get16(f, 12) == 0x0800, "prop:c10_ethertype_matches_ip_version");
        let ip = &f[14..];
        crate::vassert!(ip[0] == 0x45, "prop:c10_ipv4_version_and_header_length");
        let total = get16(ip, 2) as usize;
        crate::vassert!(total == flen - 14, "prop:c10_ipv4_total_length_matches_frame");
        crate::vassert!(get16(ip, 6) & 0x3fff == 0, "prop:c10_unfragmented_packet_has_no_fragment_fields");
        crate::vassert!(ip[8] == hop && ip[9] == proto, "prop:c10_ipv4_ttl_and_protocol");
        crate::vassert!(ref_sum(ip, 20, 0) == 0xffff, "prop:c10_ipv4_header_checksum_valid");
        crate::vassert!(ip[12..16] == OWN.octets() && ip[16..20] == PEER.octets(), "prop:c10_ipv4_addresses");
        total
    }

    // @harness props=C10,C09 cfg=KI4 tier=q to=900 mem=8 unwind=50 opts=nomem covers=1 funcs=InterfaceInner::dispatch_ip;InterfaceInner::lookup_hardware_addr;Packet::emit_payload;wire::Ipv4Repr::emit;wire::UdpRepr::emit bounds=Ethernet,_MTU_1500,_tx_checksums_on;_UDP_with_any_ports,_hop_limit_and_4_payload_bytes;_neighbor_cached
    #[kani::proof]
    pub(crate) fn frame_wf_udp4() {
        env_eth!(iface, tx, mtu);
        let sport: u16 = kani::any();
        let dport: u16 = kani::any();
        let hop: u8 = kani::any();
        let pl: [u8; 4] = kani::any();
        let udp = UdpRepr { src_port: sport, dst_port: dport };
        let ip = Ipv4Repr { src_addr: OWN, dst_addr: PEER, next_header: IpProtocol::Udp, payload_len: 8 + 4, hop_limit: hop };
        let packet = Packet::new_ipv4(ip, IpPayload::Udp(udp, &pl[..]));
        let r = iface.inner.dispatch_ip(CapTx { st: &mut tx }, PacketMeta::default(), packet, &mut iface.fragmenter);
        crate::vassert!(r.is_ok() && tx.frames == 1, "prop:c09_datagram_handed_to_device_exactly_once");
        let f = &tx.buf0;
        let total = check_eth_ipv4(f, tx.len0, mtu, 17, hop);
        crate::vassert!(total == 32, "prop:c10_ipv4_total_length_matches_payload");
        let u = &f[34..];
        crate::vassert!(get16(u, 0) == sport && get16(u, 2) == dport, "prop:c10_udp_ports");
        crate::vassert!(get16(u, 4) == 12, "prop:c10_udp_length_field");
        crate::vassert!(u[8] == pl[0] && u[9] == pl[1] && u[10] == pl[2] && u[11] == pl[3], "prop:c09_payload_unmodified");
        crate::vassert!(get16(u, 6) != 0, "prop:c10_udp_checksum_present");
        crate::vassert!(ref_sum(u, 12, pseudo4(OWN, PEER, 17, 12)) == 0xffff, "prop:c10_udp_checksum_valid");
        kani::cover!(tx.frames == 1 && pl[0] == 0xaa, "frame captured");
    }

    // TCP segments
    fn frame_wf_tcp4(syn: bool, ts: bool) {
        // the TCP checksum over ~15 symbolic words does not come back from the SAT solver (measured: > 15 min);
        // it is verified with few symbolic words at a time by C08's emit_valid_tcp harnesses; here: layout only
        let mut caps = ChecksumCapabilities::default();
        caps.tcp = crate::phy::Checksum::None;
        env_eth!(iface, tx, mtu, caps);
        let ws: u8 = kani::any();
        kani::assume(ws <= 14);
        let pl: [u8; 2] = kani::any();
        let tcp = TcpRepr {
            src_port: kani::any(), dst_port: kani::any(),
            control: if syn { TcpControl::Syn } else { TcpControl::Psh },
            seq_number: TcpSeqNumber(kani::any()),
            ack_number: if syn { None } else { Some(TcpSeqNumber(kani::any())) },
            window_len: kani::any(),
            window_scale: if syn { Some(ws) } else { None },
            max_seg_size: if syn { Some(kani::any()) } else { None },
            sack_permitted: syn,
            sack_ranges: [if syn { None } else { Some((kani::any(), kani::any())) }, None, None],
            timestamp: if ts { Some(TcpTimestampRepr::new(kani::any(), kani::any())) } else { None },
            payload: if syn { &[] } else { &pl[..] },
        };
        let tlen = tcp.buffer_len();
        let ip = Ipv4Repr { src_addr: OWN, dst_addr: PEER, next_header: IpProtocol::Tcp, payload_len: tlen, hop_limit: 64 };
        let packet = Packet::new_ipv4(ip, IpPayload::Tcp(tcp));
        let r = iface.inner.dispatch_ip(CapTx { st: &mut tx }, PacketMeta::default(), packet, &mut iface.fragmenter);
        crate::vassert!(r.is_ok() && tx.frames == 1, "prop:c10_segment_handed_to_device_exactly_once");
        let f = &tx.buf0;
        let total = check_eth_ipv4(f, tx.len0, mtu, 6, 64);
        crate::vassert!(total == 20 + tlen, "prop:c10_ipv4_total_length_matches_payload");
        let t = &f[34..];
        let doff = ((t[12] >> 4) as usize) * 4;
        let plen = if syn { 0 } else { 2 };
        crate::vassert!(doff >= 20 && doff + plen == tlen, "prop:c10_tcp_data_offset_matches_segment");
        // option list: every option well-formed, list ends exactly at the data offset (END / NOP padding only)
        let mut o = 20usize;
        let mut ok = true;
        let mut ended = false;
        let mut guard = 0;
        while guard < 40 {
            if o < doff && !ended {
                let k = t[o];
                if k == 0 {
                    ended = true;
                } else if k == 1 {
                    o += 1;
                } else {
                    if o + 1 >= doff { ok = false; ended = true; } else {
                        let l = t[o + 1] as usize;
                        if l < 2 || o + l > doff { ok = false; ended = true; } else { o += l; }
                    }
                }
            }
            guard += 1;
        }
        crate::vassert!(ok, "prop:c10_tcp_options_well_formed_and_padded");
        if ended {
            // after END only zero padding
            let j = any_lt(60);
            if j >= o && j < doff {
                crate::vassert!(t[j] == 0, "prop:c10_tcp_options_well_formed_and_padded");
            }
        }
        if !syn {
            crate::vassert!(t[doff] == pl[0] && t[doff + 1] == pl[1], "prop:c10_tcp_payload_unmodified");
        }
        kani::cover!(tx.frames == 1 && t[13] & 0x02 == (if syn { 2 } else { 0 }), "segment captured");
    }

    // (shape-concrete: a symbolic choice of option shape exhausted 8 GB)
    // @harness props=C10 cfg=KI4 tier=q to=1200 mem=8 unwind=50 opts=nomem,fs300 covers=1 funcs=InterfaceInner::dispatch_ip;Packet::emit_payload;wire::TcpRepr::emit;wire::TcpRepr::buffer_len bounds=Ethernet,_MTU_1500,_IPv4_header_checksum_on_(TCP_checksum:_C08);_TCP_SYN_with_MSS+window_scale+SACK-permitted+timestamp,_all_field_values_symbolic
    #[kani::proof]
    pub(crate) fn frame_wf_tcp4_syn() {
        frame_wf_tcp4(true, true);
    }

    // @harness props=C10 cfg=KI4 tier=q to=1200 mem=8 unwind=50 opts=nomem,fs300 covers=1 funcs=InterfaceInner::dispatch_ip;Packet::emit_payload;wire::TcpRepr::emit;wire::TcpRepr::buffer_len bounds=Ethernet,_MTU_1500,_IPv4_header_checksum_on_(TCP_checksum:_C08);_TCP_data_segment_with_timestamp_and_1_SACK_block,_payload_2_bytes,_all_field_values_symbolic
    #[kani::proof]
    pub(crate) fn frame_wf_tcp4_data() {
        frame_wf_tcp4(false, true);
    }

    // @harness props=C10 cfg=KI4 tier=t to=1200 mem=8 unwind=50 opts=nomem,fs300 covers=1 funcs=InterfaceInner::dispatch_ip;wire::TcpRepr::emit bounds=as_frame_wf_tcp4_syn_without_timestamp
    #[kani::proof]
    pub(crate) fn frame_wf_tcp4_syn_nots() {
        frame_wf_tcp4(true, false);
    }

    // @harness props=C10,C03 cfg=KI4 tier=q to=900 mem=8 unwind=50 opts=nomem,fs300 covers=1 funcs=InterfaceInner::dispatch_ip;Packet::emit_payload;wire::Icmpv4Repr::emit bounds=Ethernet,_MTU_1500,_tx_checksums_on;_ICMPv4_echo_reply_with_any_ident/seq_and_4_data_bytes
    #[kani::proof]
    pub(crate) fn frame_wf_icmp4() {
        env_eth!(iface, tx, mtu);
        let data: [u8; 4] = kani::any();
        let ident: u16 = kani::any();
        let seq_no: u16 = kani::any();
        let icmp = Icmpv4Repr::EchoReply { ident, seq_no, data: &data[..] };
        let ip = Ipv4Repr { src_addr: OWN, dst_addr: PEER, next_header: IpProtocol::Icmp, payload_len: icmp.buffer_len(), hop_limit: 64 };
        let packet = Packet::new_ipv4(ip, IpPayload::Icmpv4(icmp));
        let r = iface.inner.dispatch_ip(CapTx { st: &mut tx }, PacketMeta::default(), packet, &mut iface.fragmenter);
        crate::vassert!(r.is_ok() && tx.frames == 1, "prop:c10_packet_handed_to_device_exactly_once");
        let f = &tx.buf0;
        let total = check_eth_ipv4(f, tx.len0, mtu, 1, 64);
        crate::vassert!(total == 32, "prop:c10_ipv4_total_length_matches_payload");
        let c = &f[34..];
        crate::vassert!(c[0] == 0 && c[1] == 0 && get16(c, 4) == ident && get16(c, 6) == seq_no, "prop:c10_icmp_echo_fields");
        crate::vassert!(ref_sum(c, 12, 0) == 0xffff, "prop:c10_icmp_checksum_valid");
        kani::cover!(tx.frames == 1, "frame captured");
    }

    // ARP frames: fixed fields, lengths, addresses exactly as in the representation handed to dispatch
    // (which replies are built, and from which addresses, is checked at process_arp by C16's harnesses)
    // @harness props=C10 cfg=KI4 tier=q to=900 mem=8 unwind=12 opts=nomem,fs300 covers=1 funcs=InterfaceInner::dispatch;InterfaceInner::dispatch_ethernet;wire::ArpRepr::emit bounds=Ethernet;_ARP_request_or_reply_with_symbolic_operation_and_addresses
    #[kani::proof]
    pub(crate) fn frame_wf_arp() {
        env_eth!(iface, tx, mtu);
        let reply: bool = kani::any();
        let tmac: [u8; 6] = kani::any();
        let tip: [u8; 4] = kani::any();
        let repr = ArpRepr::EthernetIpv4 {
            operation: if reply { ArpOperation::Reply } else { ArpOperation::Request },
            source_hardware_addr: EthernetAddress(OWN_MAC),
            source_protocol_addr: OWN,
            target_hardware_addr: EthernetAddress(tmac),
            target_protocol_addr: Ipv4Address::from_octets(tip),
        };
        let r = iface.inner.dispatch(CapTx { st: &mut tx }, EthernetPacket::Arp(repr), &mut iface.fragmenter);
        crate::vassert!(r.is_ok() && tx.frames == 1 && tx.len0 == 42, "prop:c10_arp_frame_length");
        let f = &tx.buf0;
        crate::vassert!(f[0..6] == tmac && f[6..12] == OWN_MAC && get16(f, 12) == 0x0806, "prop:c10_ethernet_addresses");
        let a = &f[14..];
        crate::vassert!(get16(a, 0) == 1 && get16(a, 2) == 0x0800 && a[4] == 6 && a[5] == 4 && get16(a, 6) == (if reply { 2 } else { 1 }), "prop:c10_arp_fixed_fields");
        crate::vassert!(a[8..14] == OWN_MAC && a[14..18] == OWN.octets(), "prop:c10_arp_sender_is_own_unicast_address");
        crate::vassert!(a[18..24] == tmac && a[24..28] == tip, "prop:c10_arp_target_fields");
        kani::cover!(tx.frames == 1 && reply, "ARP reply captured");
    }

    // socket egress through a device: exactly-once on success, queue untouched under back-pressure, legal source
    // @harness props=C09,C10 cfg=KI4 tier=q to=1200 mem=8 unwind=50 opts=nomem,fs300 covers=3 funcs=Interface::socket_egress;udp::Socket::dispatch;InterfaceInner::dispatch_ip;InterfaceInner::get_source_address bounds=Ethernet;_one_UDP_socket_with_one_queued_4-byte_datagram_to_a_cached_on-link_peer;_device_accepts_or_refuses_(symbolic);_second_egress_pass
    #[kani::proof]
    pub(crate) fn udp_egress_exactly_once() {
        let mtu = 1500usize;
        let mut dev = crate::verif_dev::gdev::GDev { medium: Medium::Ethernet, mtu: mtu + 14, checksum: ChecksumCapabilities::ignored(), tx_ok: true };
        let now: i64 = 1000;
        let mut iface = Interface::new(Config::new(HardwareAddress::Ethernet(EthernetAddress(OWN_MAC))), &mut dev, Instant::from_millis(now));
        iface.update_ip_addrs(|a| {
            a.push(IpCidr::new(IpAddress::Ipv4(OWN), 24)).unwrap();
        });
        iface.inner.neighbor_cache.fill(IpAddress::Ipv4(PEER), HardwareAddress::Ethernet(EthernetAddress(PEER_MAC)), Instant::from_millis(now));
        let mut urm = [udp::PacketMetadata::EMPTY; 2];
        let mut urp = [0u8; 8];
        let mut utm = [udp::PacketMetadata::EMPTY; 2];
        let mut utp = [0u8; 8];
        let mut usock = udp::Socket::new(udp::PacketBuffer::new(&mut urm[..], &mut urp[..]), udp::PacketBuffer::new(&mut utm[..], &mut utp[..]));
        let lport: u16 = kani::any();
        kani::assume(lport != 0);
        usock.bind(lport).unwrap();
        let pl: [u8; 4] = kani::any();
        let dport: u16 = kani::any();
        kani::assume(dport != 0);
        usock.send_slice(&pl[..], (IpAddress::Ipv4(PEER), dport)).unwrap();
        let mut storage = [SocketStorage::EMPTY];
        let mut sockets = SocketSet::new(&mut storage[..]);
        let uh = sockets.add(usock);
        dev.tx_ok = kani::any();
        let accepted = dev.tx_ok;
        let _ = iface.socket_egress(&mut dev, &mut sockets);
        if accepted {
            crate::vassert!(crate::verif_dev::gdev::captured().frames == 1, "prop:c09_datagram_handed_to_device_exactly_once");
            crate::vassert!(sockets.get::<udp::Socket>(uh).send_queue() == 0, "prop:c09_transmitted_datagram_leaves_queue");
            let f = &crate::verif_dev::gdev::captured().buf0;
            crate::vassert!(crate::verif_dev::gdev::captured().len0 == 14 + 20 + 8 + 4, "prop:c09_frame_carries_whole_datagram");
            crate::vassert!(f[0..6] == PEER_MAC, "prop:c16_frame_sent_to_learned_hardware_address");
            crate::vassert!(f[26..30] == OWN.octets() && f[30..34] == PEER.octets(), "prop:c10_source_is_own_unicast_address");
            crate::vassert!(get16(f, 34) == lport && get16(f, 36) == dport, "prop:c09_addressing_preserved");
            crate::vassert!(f[42] == pl[0] && f[43] == pl[1] && f[44] == pl[2] && f[45] == pl[3], "prop:c09_payload_unmodified");
        } else {
            crate::vassert!(crate::verif_dev::gdev::captured().frames == 0, "prop:c09_nothing_sent_when_device_refuses");
            crate::vassert!(sockets.get::<udp::Socket>(uh).send_queue() == 4, "prop:c09_backpressure_keeps_datagram_queued");
        }
        // a second pass on an accepting device: still exactly once overall
        dev.tx_ok = true;
        let _ = iface.socket_egress(&mut dev, &mut sockets);
        crate::vassert!(crate::verif_dev::gdev::captured().frames == 1, "prop:c09_datagram_handed_to_device_exactly_once");
        crate::vassert!(sockets.get::<udp::Socket>(uh).send_queue() == 0, "prop:c09_transmitted_datagram_leaves_queue");
        if !accepted {
            let f = &crate::verif_dev::gdev::captured().buf0;
            crate::vassert!(f[42] == pl[0] && f[43] == pl[1] && f[44] == pl[2] && f[45] == pl[3], "prop:c09_payload_unmodified");
        }
        kani::cover!(accepted, "sent in the first pass");
        kani::cover!(!accepted, "deferred by back-pressure, sent in the second pass");
        kani::cover!(crate::verif_dev::gdev::captured().frames == 1 && pl[3] == 7, "frame captured");
    }

    // @harness props=C10 kind=mustfail cfg=KI4 tier=q to=900 mem=8 unwind=50 opts=nomem,fs300
    #[kani::proof]
    pub(crate) fn iface_egress_must_fail() {
        env_eth!(iface, tx, mtu);
        let pl: [u8; 4] = kani::any();
        let udp = UdpRepr { src_port: 1, dst_port: 2 };
        let ip = Ipv4Repr { src_addr: OWN, dst_addr: PEER, next_header: IpProtocol::Udp, payload_len: 12, hop_limit: 64 };
        let packet = Packet::new_ipv4(ip, IpPayload::Udp(udp, &pl[..]));
        let _ = iface.inner.dispatch_ip(CapTx { st: &mut tx }, PacketMeta::default(), packet, &mut iface.fragmenter);
        crate::vassert!(tx.buf0[42] == 0, "prop:deliberately_false_payload_is_zero");
    }
}
