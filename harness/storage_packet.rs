// C14 (and C09's queue layer) — PacketBuffer is a faithful bounded FIFO of (header, payload) pairs.
// Spliced into src/storage/packet_buffer.rs.
#[allow(dead_code, unused_imports, unused_variables)]
mod v_storage_packet {
    use super::*;
    use crate::verif_common::*;

    const MC: usize = 3; // metadata slots explored: 0..=3 (symbolic)
    const PC: usize = 8; // payload capacity explored: 0..=8 (symbolic)

    /// payload byte i of the packet with header h (lets the ghost queue store (header, len) only)
    fn pat(h: u8, i: usize) -> u8 {
        h.wrapping_mul(7).wrapping_add(i as u8)
    }

    #[derive(Clone, Copy)]
    struct G {
        valid: bool,
        h: u8,
        len: usize,
    }
    const GE: G = G { valid: false, h: 0, len: 0 };

    /// ghost FIFO of at most 4 packets, kept shifted to the front (no index counters)
    struct Ghost {
        q: [G; 4],
        popped: bool,
    }
    impl Ghost {
        fn push(&mut self, h: u8, len: usize) {
            let g = G { valid: true, h, len };
            if !self.q[0].valid { self.q[0] = g; }
            else if !self.q[1].valid { self.q[1] = g; }
            else if !self.q[2].valid { self.q[2] = g; }
            else if !self.q[3].valid { self.q[3] = g; }
        }
        fn pop(&mut self) {
            self.q[0] = self.q[1];
            self.q[1] = self.q[2];
            self.q[2] = self.q[3];
            self.q[3] = GE;
            self.popped = true;
        }
        fn count(&self) -> usize {
            self.q[0].valid as usize + self.q[1].valid as usize + self.q[2].valid as usize + self.q[3].valid as usize
        }
    }

    fn fill(buf: &mut [u8], h: u8) {
        let mut i = 0;
        while i < PC {
            if i < buf.len() { buf[i] = pat(h, i); }
            i += 1;
        }
    }

    fn ok_payload(buf: &[u8], h: u8, len: usize) -> bool {
        if buf.len() != len { return false; }
        let mut ok = true;
        let mut i = 0;
        while i < PC {
            if i < len { ok = ok && buf[i] == pat(h, i); }
            i += 1;
        }
        ok
    }

    /// one symbolic prefix step through the public API: enqueue (size, header symbolic) or dequeue
    fn prefix_step(pb: &mut PacketBuffer<'_, u8>, g: &mut Ghost) {
        let enq: bool = kani::any();
        if enq {
            let size = any_le(PC);
            let h: u8 = kani::any();
            if let Ok(buf) = pb.enqueue(size, h) {
                fill(buf, h);
                g.push(h, size);
            }
        } else if pb.dequeue().is_ok() {
            g.pop();
        }
    }

    /// the buffer's whole contents equal the ghost queue: drain it, comparing packet by packet
    fn drain_equals(pb: &mut PacketBuffer<'_, u8>, g: &Ghost) {
        let mut i = 0;
        while i < 4 {
            let e = g.q[i];
            match pb.dequeue() {
                Ok((h, buf)) => {
                    assert!(e.valid, "prop:c14_pb_no_extra_packet");
                    assert!(h == e.h, "prop:c14_pb_header_in_fifo_order");
                    assert!(ok_payload(buf, e.h, e.len), "prop:c14_pb_payload_exact_size_and_bytes");
                }
                Err(Empty) => {
                    assert!(!e.valid, "prop:c14_pb_no_packet_lost");
                }
            }
            i += 1;
        }
        assert!(pb.is_empty(), "prop:c14_pb_empty_after_drain");
        assert!(pb.payload_bytes_count() == 0 || pb.metadata_ring.is_empty(), "prop:c14_pb_drained");
    }

    macro_rules! setup {
        ($pb:ident, $g:ident) => {
            let mut meta = [PacketMetadata::<u8>::EMPTY; MC];
            let mut pay = [0u8; PC];
            let mc = any_le(MC);
            let pc = any_le(PC);
            let mut $pb = PacketBuffer::new(&mut meta[..mc], &mut pay[..pc]);
            let mut $g = Ghost { q: [GE; 4], popped: false };
            // start: an EMPTY buffer whose two read pointers are anywhere.  Reachable through the API:
            // m cycles of enqueue(0)/dequeue move the metadata pointer, one enqueue(p)/dequeue moves the payload pointer.
            {
                let p0: usize = kani::any();
                let m0: usize = kani::any();
                kani::assume(if pc == 0 { p0 == 0 } else { p0 < pc });
                kani::assume(if mc == 0 { m0 == 0 } else { m0 < mc });
                $pb.payload_ring.verif_set(p0, 0);
                $pb.metadata_ring.verif_set(m0, 0);
                $g.popped = p0 != 0;
            }
            // then 3 symbolic public enqueue/dequeue steps
            prefix_step(&mut $pb, &mut $g);
            prefix_step(&mut $pb, &mut $g);
            prefix_step(&mut $pb, &mut $g);
        };
    }

    // @harness props=C14,C09 tier=q to=900 mem=8 unwind=10 opts=nomem covers=3 funcs=PacketBuffer::enqueue;PacketBuffer::dequeue bounds=metadata_slots_0..=3;_payload_capacity_0..=8;_state_=_empty_buffer_at_any_read_pointers_+_3_symbolic_public_enqueue/dequeue_steps
    #[kani::proof]
    pub(crate) fn pb_enqueue() {
        setup!(pb, g);
        let before = g.count();
        let size = any_le(PC + 1);
        let h: u8 = kani::any();
        let empty = pb.is_empty();
        let mcap = pb.packet_capacity();
        let pcap = pb.payload_capacity();
        let mut accepted = false;
        match pb.enqueue(size, h) {
            Ok(buf) => {
                assert!(buf.len() == size, "prop:c14_pb_enqueue_returns_exact_size");
                fill(buf, h);
                g.push(h, size);
                accepted = true;
            }
            Err(Full) => {
                assert!(!(empty && mcap >= 1 && size <= pcap), "prop:c14_pb_empty_buffer_accepts_up_to_capacity");
            }
        }
        kani::cover!(accepted && before == 2, "third packet accepted");
        kani::cover!(!accepted && before >= 1 && size <= pcap, "refused with packets queued");
        kani::cover!(accepted && pb.metadata_ring.len() > g.count(), "padding record present");
        drain_equals(&mut pb, &g);
    }

    // @harness props=C14,C09 tier=q to=900 mem=8 unwind=10 opts=nomem covers=3 funcs=PacketBuffer::enqueue_with_infallible;PacketBuffer::dequeue bounds=metadata_slots_0..=3;_payload_capacity_0..=8;_state_=_empty_buffer_at_any_read_pointers_+_3_symbolic_public_steps
    #[kani::proof]
    pub(crate) fn pb_enqueue_with_infallible() {
        setup!(pb, g);
        let before = g.count();
        let max = any_le(PC + 1);
        let take = any_le(PC + 1);
        kani::assume(take <= max);
        let h: u8 = kani::any();
        let empty = pb.is_empty();
        let mcap = pb.packet_capacity();
        let pcap = pb.payload_capacity();
        let mut offered = 0;
        let mut accepted = false;
        match pb.enqueue_with_infallible(max, h, |b| { offered = b.len(); fill(&mut b[..take], h); take }) {
            Ok(n) => {
                assert!(n == take && offered == max, "prop:c14_pb_enqueue_with_offers_max_and_keeps_returned_size");
                g.push(h, take);
                accepted = true;
            }
            Err(Full) => {
                assert!(offered == 0, "prop:c14_pb_callback_not_called_on_refusal");
                assert!(!(empty && mcap >= 1 && max <= pcap), "prop:c14_pb_empty_buffer_accepts_up_to_capacity");
            }
        }
        kani::cover!(accepted && before == 2 && take < max, "third packet accepted and shrunk");
        kani::cover!(!accepted && before >= 1 && max <= pcap, "refused with packets queued");
        kani::cover!(accepted && empty && g.popped && max >= 5, "accepted on a buffer emptied by dequeues (read pointer moved)");
        drain_equals(&mut pb, &g);
    }

    // @harness props=C14,C09 tier=q to=900 mem=8 unwind=10 opts=nomem covers=3 funcs=PacketBuffer::dequeue_with;PacketBuffer::peek;PacketBuffer::dequeue bounds=metadata_slots_0..=3;_payload_capacity_0..=8;_state_=_empty_buffer_at_any_read_pointers_+_3_symbolic_public_steps
    #[kani::proof]
    pub(crate) fn pb_dequeue_with_and_peek() {
        setup!(pb, g);
        let head = g.q[0];
        // peek shows the head and removes nothing
        match pb.peek() {
            Ok((h, buf)) => {
                assert!(head.valid && *h == head.h && ok_payload(buf, head.h, head.len), "prop:c14_pb_peek_shows_head");
            }
            Err(Empty) => assert!(!head.valid, "prop:c14_pb_peek_empty_only_when_empty"),
        }
        let decline: bool = kani::any();
        let mut seen = false;
        let r = pb.dequeue_with(|h, buf| {
            seen = true;
            let good = *h == head.h && ok_payload(buf, head.h, head.len);
            if decline { Err(good) } else { Ok(good) }
        });
        match r {
            Err(Empty) => assert!(!head.valid && !seen, "prop:c14_pb_empty_only_when_empty"),
            Ok(Ok(good)) => {
                assert!(head.valid && good && !decline, "prop:c14_pb_dequeue_with_hands_out_head");
                g.pop();
            }
            Ok(Err(good)) => {
                assert!(head.valid && good && decline, "prop:c14_pb_dequeue_with_hands_out_head");
                // declined: nothing removed
            }
        }
        kani::cover!(matches!(r, Ok(Err(_))) && g.count() >= 2, "declined with two queued");
        kani::cover!(matches!(r, Ok(Ok(_))) && g.count() >= 1, "popped, one remains");
        kani::cover!(matches!(r, Err(_)), "empty");
        drain_equals(&mut pb, &g);
    }

    // ---- states with a padding record at the HEAD of the queue (needs a 5-operation history, beyond the 3-step prefix):
    // built directly.  Reachable: enqueue A (a bytes), enqueue B (b bytes, a+b = C-k), dequeue A, enqueue P1 (l1 > k, l1 <= a:
    // pads the k tail bytes and wraps), [enqueue P2], dequeue B  =>  payload read pointer C-k, records [pad(k), P1, (P2)].
    macro_rules! setup_padded {
        ($pb:ident, $g:ident) => {
            let mut meta = [PacketMetadata::<u8>::EMPTY; MC];
            let mut pay = [0u8; PC];
            let pc = any_le(PC);
            let k = any_le(PC);
            let l1 = any_le(PC);
            let l2 = any_le(PC);
            let two: bool = kani::any();
            kani::assume(pc >= 2 && k >= 1 && k < pc && l1 > k && l1 + (if two { l2 } else { 0 }) <= pc - k);
            let h1: u8 = kani::any();
            let h2: u8 = kani::any();
            let m0 = any_lt(MC);
            let mut $pb = PacketBuffer::new(&mut meta[..], &mut pay[..pc]);
            let mut $g = Ghost { q: [GE; 4], popped: true };
            {
                let ms = $pb.metadata_ring.verif_storage();
                ms[m0] = PacketMetadata::padding(k);
                ms[(m0 + 1) % MC] = PacketMetadata::packet(l1, h1);
                if two {
                    ms[(m0 + 2) % MC] = PacketMetadata::packet(l2, h2);
                }
            }
            $pb.metadata_ring.verif_set(m0, if two { 3 } else { 2 });
            {
                let ps = $pb.payload_ring.verif_storage();
                let mut i = 0;
                while i < PC {
                    if i < l1 { ps[i] = pat(h1, i); }
                    if two && i < l2 { ps[l1 + i] = pat(h2, i); }
                    i += 1;
                }
            }
            $pb.payload_ring.verif_set(pc - k, k + l1 + (if two { l2 } else { 0 }));
            $g.push(h1, l1);
            if two { $g.push(h2, l2); }
        };
    }

    // @harness props=C14,C09 tier=q to=900 mem=8 unwind=10 opts=nomem covers=2 funcs=PacketBuffer::peek;PacketBuffer::dequeue;PacketBuffer::dequeue_padding bounds=payload_capacity_2..=8;_state_=_[padding(k),_packet,_(packet)]_with_the_padding_at_the_head_(reachable_by_a_5-operation_history)
    #[kani::proof]
    pub(crate) fn pb_peek_with_padding_at_head() {
        setup_padded!(pb, g);
        let head = g.q[0];
        match pb.peek() {
            Ok((h, buf)) => {
                assert!(*h == head.h && ok_payload(buf, head.h, head.len), "prop:c14_pb_peek_shows_head");
            }
            Err(Empty) => assert!(false, "prop:c14_pb_peek_empty_only_when_empty"),
        }
        kani::cover!(g.count() == 2, "padding, then two packets");
        kani::cover!(g.count() == 1 && head.len >= 3, "padding, then one packet");
        drain_equals(&mut pb, &g);
    }

    // @harness props=C14,C09 tier=q to=900 mem=8 unwind=10 opts=nomem covers=2 funcs=PacketBuffer::dequeue_with;PacketBuffer::dequeue;PacketBuffer::enqueue bounds=payload_capacity_2..=8;_state_=_[padding(k),_packet,_(packet)]_with_the_padding_at_the_head
    #[kani::proof]
    pub(crate) fn pb_dequeue_with_padding_at_head() {
        setup_padded!(pb, g);
        let head = g.q[0];
        let decline: bool = kani::any();
        let r = pb.dequeue_with(|h, buf| {
            let good = *h == head.h && ok_payload(buf, head.h, head.len);
            if decline { Err(good) } else { Ok(good) }
        });
        match r {
            Err(Empty) => assert!(false, "prop:c14_pb_empty_only_when_empty"),
            Ok(Ok(good)) => {
                assert!(good && !decline, "prop:c14_pb_dequeue_with_hands_out_head");
                g.pop();
            }
            Ok(Err(good)) => assert!(good && decline, "prop:c14_pb_dequeue_with_hands_out_head"),
        }
        // a further enqueue after the padding was consumed keeps FIFO order
        let size = any_le(PC);
        let h: u8 = kani::any();
        if let Ok(buf) = pb.enqueue(size, h) {
            fill(buf, h);
            g.push(h, size);
        }
        kani::cover!(decline, "declined behind a padding record");
        kani::cover!(!decline && g.count() >= 2, "popped, then another packet accepted");
        drain_equals(&mut pb, &g);
    }

    // @harness props=C14 tier=q to=600 mem=6 unwind=10 opts=nomem covers=1 funcs=PacketBuffer::reset;PacketBuffer::enqueue bounds=metadata_slots_0..=3;_payload_capacity_0..=8
    #[kani::proof]
    pub(crate) fn pb_reset() {
        setup!(pb, g);
        let had = g.count();
        pb.reset();
        assert!(pb.is_empty() && pb.payload_bytes_count() == 0, "prop:c14_pb_reset_empties");
        let size = any_le(PC);
        kani::assume(pb.packet_capacity() >= 1 && size <= pb.payload_capacity());
        assert!(pb.enqueue(size, 1).is_ok(), "prop:c14_pb_empty_buffer_accepts_up_to_capacity");
        kani::cover!(had >= 2, "reset with two queued");
    }

    // @harness props=C14 kind=mustfail tier=q to=600 mem=6 unwind=10 opts=nomem
    #[kani::proof]
    pub(crate) fn pb_must_fail() {
        setup!(pb, g);
        let size = any_le(PC);
        assert!(pb.enqueue(size, 1).is_ok(), "prop:deliberately_false_enqueue_never_refused");
    }
}
