// C16 — the neighbor cache: lookup/expiry (60 s), discovery rate limit (1 s), eviction of the oldest entry.
// Spliced into src/iface/neighbor.rs: private fields of `Cache` / `Neighbor` reachable.
//
// Pre-state (API prefix, DESIGN.md 1.6): a `Cache::new()` taken through <= 3 `fill_with_expiration` calls with
// pairwise distinct symbolic unicast keys, symbolic unicast hardware addresses and symbolic expiries, then one
// `limit_rate`.  Keys, values and slot order being symbolic, this reaches every state of the 3-slot LinearMap
// (a LinearMap holds distinct keys; `fill` debug-asserts unicast keys / values).  Stated invariant INV_nc, asserted
// `inv:` on post-states:  every `expires_at <= now + 60 s`,  `silent_until <= now + 1 s`,  len <= 3, keys unicast.
// The ghost `Model` is the list of filled entries; obligations are written against it.
// Run under KI4 (IPv4 keys, all 32 bits symbolic): the cache treats keys opaquely (`Eq` only); under KI6 the same
// harnesses (16-byte symbolic keys, every loop unrolled to the 18 that their comparison needs) run out of 4 GB.
#[allow(dead_code, unused_imports, unused_variables, unused_mut)]
mod v_neighbor_cache {
    use super::*;
    use crate::verif_common::*;
    use crate::wire::EthernetAddress;
    #[cfg(feature = "proto-ipv4")]
    use crate::wire::Ipv4Address;
    #[cfg(feature = "proto-ipv6")]
    use crate::wire::Ipv6Address;

    // the ghost model below has three slots: KI4 / KI6 build the crate with IFACE_NEIGHBOR_CACHE_COUNT=3
    const _: () = assert!(IFACE_NEIGHBOR_CACHE_COUNT == 3);

    const T_MAX: i64 = 1i64 << 50; // microseconds (about 35 years)

    #[cfg(feature = "proto-ipv4")]
    fn any_v4() -> IpAddress {
        let o: [u8; 4] = kani::any();
        IpAddress::Ipv4(Ipv4Address::from(o))
    }
    #[cfg(feature = "proto-ipv6")]
    fn any_v6() -> IpAddress {
        let o: [u8; 16] = kani::any();
        IpAddress::Ipv6(Ipv6Address::from(o))
    }
    /// any unicast protocol address of an enabled IP version
    fn any_ip() -> IpAddress {
        #[cfg(all(feature = "proto-ipv4", feature = "proto-ipv6"))]
        let a = if kani::any() { any_v4() } else { any_v6() };
        #[cfg(all(feature = "proto-ipv4", not(feature = "proto-ipv6")))]
        let a = any_v4();
        #[cfg(all(not(feature = "proto-ipv4"), feature = "proto-ipv6"))]
        let a = any_v6();
        kani::assume(a.is_unicast());
        a
    }
    fn any_hw() -> HardwareAddress {
        let o: [u8; 6] = kani::any();
        kani::assume(o[0] & 1 == 0); // unicast (hence not broadcast)
        HardwareAddress::Ethernet(EthernetAddress(o))
    }
    /// an instant in [lo, hi] with microsecond resolution
    fn any_instant(lo: i64, hi: i64) -> Instant {
        let t: i64 = kani::any();
        kani::assume(t >= lo && t <= hi);
        Instant::from_micros(t)
    }

    #[derive(Clone, Copy)]
    struct E {
        valid: bool,
        ip: IpAddress,
        hw: HardwareAddress,
        exp: Instant,
    }
    struct Model {
        e: [E; 3],
        n: usize,
        silent: Instant,
    }

    fn m_lookup(m: &Model, p: &IpAddress, t: Instant) -> Answer {
        let mut r = None;
        if m.e[0].valid && m.e[0].ip == *p && t < m.e[0].exp {
            r = Some(m.e[0].hw);
        }
        if m.e[1].valid && m.e[1].ip == *p && t < m.e[1].exp {
            r = Some(m.e[1].hw);
        }
        if m.e[2].valid && m.e[2].ip == *p && t < m.e[2].exp {
            r = Some(m.e[2].hw);
        }
        match r {
            Some(h) => Answer::Found(h),
            None if t < m.silent => Answer::RateLimited,
            None => Answer::NotFound,
        }
    }
    fn m_has_key(m: &Model, p: &IpAddress) -> bool {
        (m.e[0].valid && m.e[0].ip == *p) || (m.e[1].valid && m.e[1].ip == *p) || (m.e[2].valid && m.e[2].ip == *p)
    }

    /// arbitrary INV_nc state at time `now`, built through the public API
    fn any_cache(now: Instant) -> (Cache, Model) {
        let mut c = Cache::new();
        let n = any_le(3);
        let hi = (now + Cache::ENTRY_LIFETIME).total_micros();
        let e0 = E { valid: n >= 1, ip: any_ip(), hw: any_hw(), exp: any_instant(0, hi) };
        let e1 = E { valid: n >= 2, ip: any_ip(), hw: any_hw(), exp: any_instant(0, hi) };
        let e2 = E { valid: n >= 3, ip: any_ip(), hw: any_hw(), exp: any_instant(0, hi) };
        kani::assume(e0.ip != e1.ip && e0.ip != e2.ip && e1.ip != e2.ip);
        if e0.valid {
            c.fill_with_expiration(e0.ip, e0.hw, e0.exp);
        }
        if e1.valid {
            c.fill_with_expiration(e1.ip, e1.hw, e1.exp);
        }
        if e2.valid {
            c.fill_with_expiration(e2.ip, e2.hw, e2.exp);
        }
        // silent_until anywhere in [0, now + 1 s]: Cache::new gives 0, limit_rate(t) gives t + 1 s
        let silent = any_instant(0, (now + Cache::SILENT_TIME).total_micros());
        if silent.total_micros() != 0 {
            c.limit_rate(silent - Cache::SILENT_TIME);
        }
        (c, Model { e: [e0, e1, e2], n, silent })
    }

    fn any_now() -> Instant {
        any_instant(0, T_MAX)
    }

    /// INV_nc on a post-state
    fn assert_inv(c: &Cache, now: Instant) {
        assert!(c.storage.len() <= 3, "inv:nc_len_within_capacity");
        assert!(c.silent_until <= now + Cache::SILENT_TIME, "inv:nc_silent_until_at_most_1s_ahead");
        let k = any_lt(3);
        if let Some((ip, nb)) = c.storage.iter().nth(k) {
            assert!(nb.expires_at <= now + Cache::ENTRY_LIFETIME, "inv:nc_expiry_at_most_60s_ahead");
            assert!(ip.is_unicast() && nb.hardware_addr.is_unicast(), "inv:nc_entries_unicast");
        }
    }

    /// the entry that model slot `i` describes is still stored, bit for bit
    fn slot_kept(c: &Cache, e: &E) -> bool {
        match c.storage.get(&e.ip) {
            Some(nb) => nb.hardware_addr == e.hw && nb.expires_at == e.exp,
            None => false,
        }
    }

    // ------------------------------------------------------------------ lookup is exactly the model
    // @harness props=C16 cfg=KI4 tier=q to=600 mem=4 unwind=8 opts=nomem covers=4 funcs=neighbor::Cache::lookup;neighbor::Cache::fill;neighbor::Cache::fill_with_expiration;neighbor::Cache::limit_rate bounds=cache_of_3_slots_holding_0..=3_entries;_any_unicast_keys_(all_address_bits_symbolic),_any_unicast_Ethernet_addresses,_any_expiries_and_silent_until_(microsecond_resolution);_one_fill_at_any_time_then_one_lookup_of_any_address_at_any_time
    #[kani::proof]
    pub(crate) fn nc_fill_lookup() {
        let now = any_now();
        let (mut c, m) = any_cache(now);
        // (1) lookup on the arbitrary state
        let p = any_ip();
        let tq = any_instant(0, T_MAX);
        let got = c.lookup(&p, tq);
        let want = m_lookup(&m, &p, tq);
        match got {
            Answer::Found(h) => {
                assert!(m_has_key(&m, &p), "prop:c16_found_only_for_a_stored_key");
                assert!(want == Answer::Found(h), "prop:c16_found_only_while_unexpired_and_with_the_learned_address");
            }
            Answer::RateLimited => assert!(want == Answer::RateLimited, "prop:c16_rate_limited_iff_before_silent_until"),
            Answer::NotFound => assert!(want == Answer::NotFound, "prop:c16_not_found_iff_no_live_entry_and_not_silent"),
        }
        assert!(c.lookup(&p, tq).found() == got.found(), "prop:c16_lookup_is_pure");
        kani::cover!(matches!(got, Answer::Found(_)) && m.n == 3, "found in a full cache");
        kani::cover!(got == Answer::RateLimited && m_has_key(&m, &p), "expired entry, rate limited");
        kani::cover!(got == Answer::NotFound && m_has_key(&m, &p), "expired entry, not rate limited");

        // (2) fill(ip, hw, now) then lookup: the new mapping answers, for exactly 60 s
        let ip = any_ip();
        let hw = any_hw();
        let known = m_has_key(&m, &ip);
        c.fill(ip, hw, now);
        let t2 = any_instant(0, T_MAX);
        let a2 = c.lookup(&ip, t2);
        if t2 < now + Cache::ENTRY_LIFETIME {
            assert!(a2 == Answer::Found(hw), "prop:c16_filled_entry_answers_with_filled_address");
        } else {
            assert!(!a2.found(), "prop:c16_entry_unusable_60s_after_confirmation");
        }
        assert!(c.silent_until == m.silent, "prop:c16_fill_keeps_rate_limit");
        assert!(c.storage.len() == if known || m.n == 3 { m.n } else { m.n + 1 }, "prop:c16_fill_adds_at_most_one_entry");
        assert_inv(&c, now);
        kani::cover!(known && a2 == Answer::Found(hw), "fill replaced the address of a known neighbor");
    }

    // ------------------------------------------------------------------ 60 s lifetime, exact boundary
    // @harness props=C16 cfg=KI4 tier=q to=600 mem=4 unwind=8 opts=nomem covers=3 funcs=neighbor::Cache::fill;neighbor::Cache::lookup bounds=cache_of_3_slots_in_any_state;_fill_at_any_instant_t;_probes_at_t+60s-1us,_t+60s_and_any_later_instant
    #[kani::proof]
    pub(crate) fn nc_expiry_60s() {
        let now = any_now();
        let (mut c, m) = any_cache(now);
        let ip = any_ip();
        let hw = any_hw();
        c.fill(ip, hw, now);
        // expires_at = t + 60 s exactly
        let nb = c.storage.get(&ip);
        assert!(nb.is_some(), "prop:c16_filled_entry_stored");
        let nb = *nb.unwrap();
        assert!(nb.expires_at == now + Duration::from_millis(60_000), "prop:c16_expiry_is_fill_time_plus_60s");
        assert!(nb.hardware_addr == hw, "prop:c16_filled_entry_stored");
        let last = Instant::from_micros(now.total_micros() + 59_999_999);
        let first_dead = Instant::from_micros(now.total_micros() + 60_000_000);
        assert!(c.lookup(&ip, last) == Answer::Found(hw), "prop:c16_entry_usable_until_just_before_60s");
        assert!(!c.lookup(&ip, first_dead).found(), "prop:c16_entry_unusable_60s_after_confirmation");
        let later = any_instant(first_dead.total_micros(), T_MAX + 120_000_000);
        let a = c.lookup(&ip, later);
        assert!(!a.found(), "prop:c16_entry_unusable_60s_after_confirmation");
        assert!((a == Answer::RateLimited) == (later < m.silent), "prop:c16_rate_limited_iff_before_silent_until");
        // an expired entry is not revived by anything but a new fill / matching refresh: looking it up does not change it
        assert!(c.storage.get(&ip).unwrap().expires_at == nb.expires_at, "prop:c16_lookup_is_pure");
        kani::cover!(m_has_key(&m, &ip), "refreshed an existing neighbor");
        kani::cover!(m.n == 3 && !m_has_key(&m, &ip), "filled into a full cache");
        kani::cover!(a == Answer::NotFound && later.total_micros() == first_dead.total_micros() + 1 && m.n == 3, "probe one microsecond after expiry, full cache");
    }

    // ------------------------------------------------------------------ eviction: the oldest expiry, never another
    // @harness props=C16 cfg=KI4 tier=q to=600 mem=4 unwind=8 opts=nomem covers=3 funcs=neighbor::Cache::fill;neighbor::Cache::fill_with_expiration;neighbor::Cache::lookup bounds=cache_of_3_slots_holding_0..=3_entries_with_any_expiries_(ties_included);_one_fill_of_any_unicast_key_(new_or_known)
    #[kani::proof]
    pub(crate) fn nc_evicts_oldest() {
        let now = any_now();
        let (mut c, m) = any_cache(now);
        let ip = any_ip();
        let hw = any_hw();
        let known = m_has_key(&m, &ip);
        c.fill(ip, hw, now);
        // every old entry (other than the refilled key) is kept bit for bit, or was the oldest of a full cache
        let i = any_lt(3);
        let e = m.e[i];
        let mut evicted = false;
        if e.valid && e.ip != ip {
            if !slot_kept(&c, &e) {
                evicted = true;
                assert!(c.storage.get(&e.ip).is_none(), "prop:c16_fill_never_alters_another_entry");
                assert!(m.n == 3 && !known, "prop:c16_eviction_only_when_full_and_key_new");
                assert!(e.exp <= m.e[0].exp && e.exp <= m.e[1].exp && e.exp <= m.e[2].exp, "prop:c16_evicts_entry_with_oldest_expiry");
            }
        }
        // exactly one goes: two different old entries are never both gone
        let j = any_lt(3);
        let f = m.e[j]; // (copied out: references into a symbolically indexed array element confuse CBMC's memcmp model)
        if j != i && e.valid && f.valid && e.ip != ip && f.ip != ip {
            assert!(slot_kept(&c, &e) || slot_kept(&c, &f), "prop:c16_eviction_removes_exactly_one_entry");
        }
        assert!(c.storage.len() == if known || m.n == 3 { m.n } else { m.n + 1 }, "prop:c16_fill_adds_at_most_one_entry");
        assert!(c.lookup(&ip, now) == Answer::Found(hw), "prop:c16_filled_entry_answers_with_filled_address");
        // an address that was no key before and is not the filled one is still unknown
        let p = any_ip();
        if !m_has_key(&m, &p) && p != ip {
            assert!(c.storage.get(&p).is_none(), "prop:c16_found_only_for_a_stored_key");
        }
        assert!(c.silent_until == m.silent, "prop:c16_fill_keeps_rate_limit");
        assert_inv(&c, now);
        kani::cover!(evicted && i == 1, "middle slot evicted");
        kani::cover!(evicted && m.e[0].exp == m.e[1].exp && m.e[1].exp == m.e[2].exp, "eviction among equal expiries");
        kani::cover!(m.n == 3 && known && !evicted, "full cache, known key: nothing evicted");
    }

    // ------------------------------------------------------------------ discovery rate limit
    // @harness props=C16 cfg=KI4 tier=q to=600 mem=4 unwind=8 opts=nomem covers=4 funcs=neighbor::Cache::limit_rate;neighbor::Cache::lookup;neighbor::Cache::flush bounds=cache_of_3_slots_in_any_state;_limit_rate_at_any_instant;_lookup_of_any_address_at_any_instant;_flush
    #[kani::proof]
    pub(crate) fn nc_rate_limit() {
        let now = any_now();
        let (mut c, mut m) = any_cache(now);
        c.limit_rate(now);
        assert!(c.silent_until == now + Duration::from_millis(1_000), "prop:c16_silent_until_is_request_time_plus_1s");
        m.silent = now + Duration::from_millis(1_000);
        // entries untouched, answers follow the new silent_until
        let i = any_lt(3);
        let e = m.e[i]; // copied out, see nc_evicts_oldest
        if e.valid {
            assert!(slot_kept(&c, &e), "prop:c16_limit_rate_keeps_entries");
        }
        assert!(c.storage.len() == m.n, "prop:c16_limit_rate_keeps_entries");
        let p = any_ip();
        let tq = any_instant(0, T_MAX);
        let got = c.lookup(&p, tq);
        assert!(got == m_lookup(&m, &p, tq), "prop:c16_lookup_matches_model");
        if !got.found() {
            assert!((got == Answer::RateLimited) == (tq.total_micros() < now.total_micros() + 1_000_000), "prop:c16_rate_limited_for_exactly_1s_after_request");
        }
        assert_inv(&c, now);
        kani::cover!(got == Answer::RateLimited && tq > now, "rate limited inside the silent second");
        kani::cover!(got == Answer::RateLimited && m_has_key(&m, &p), "EXPIRED entry for the looked-up key while silent_until is in the future: RateLimited, not NotFound");
        kani::cover!(got == Answer::NotFound && tq > now, "silent second over");
        // flush empties the map and nothing else
        c.flush();
        assert!(c.storage.is_empty(), "prop:c16_flush_empties");
        assert!(!c.lookup(&p, tq).found(), "prop:c16_flush_empties");
        assert!(c.silent_until == m.silent, "prop:c16_flush_keeps_rate_limit");
        kani::cover!(m.n == 3, "flushed a full cache");
    }

    // ------------------------------------------------------------------ refresh needs key AND hardware address
    // @harness props=C16 cfg=KI4 tier=q to=600 mem=4 unwind=8 opts=nomem covers=3 funcs=neighbor::Cache::reset_expiry_if_existing;neighbor::Cache::lookup bounds=cache_of_3_slots_in_any_state;_refresh_with_any_(address,_hardware_address)_at_any_instant
    #[kani::proof]
    pub(crate) fn nc_reset_expiry() {
        let now = any_now();
        let (mut c, m) = any_cache(now);
        let p = any_ip();
        let h = any_hw();
        c.reset_expiry_if_existing(p, h, now);
        let i = any_lt(3);
        let e = m.e[i];
        let mut refreshed = false;
        if e.valid {
            let nb = c.storage.get(&e.ip);
            assert!(nb.is_some(), "prop:c16_refresh_never_removes");
            let nb = *nb.unwrap();
            assert!(nb.hardware_addr == e.hw, "prop:c16_refresh_never_changes_address");
            if e.ip == p && e.hw == h {
                refreshed = true;
                assert!(nb.expires_at == now + Duration::from_millis(60_000), "prop:c16_traffic_from_neighbor_restarts_60s");
            } else {
                assert!(nb.expires_at == e.exp, "prop:c16_refresh_only_on_matching_key_and_hardware_address");
            }
        }
        assert!(c.storage.len() == m.n, "prop:c16_refresh_never_adds");
        assert!(c.silent_until == m.silent, "prop:c16_refresh_keeps_rate_limit");
        assert_inv(&c, now);
        kani::cover!(refreshed && e.exp < now, "expired entry revived by matching traffic");
        kani::cover!(e.valid && e.ip == p && e.hw != h, "same address, different hardware address: ignored");
        kani::cover!(!m_has_key(&m, &p) && m.n == 3, "unknown sender, full cache");
    }

    // @harness props=C16 kind=mustfail cfg=KI4 tier=q to=600 mem=4 unwind=8 opts=nomem
    #[kani::proof]
    pub(crate) fn nc_must_fail() {
        let now = any_now();
        let (mut c, m) = any_cache(now);
        let ip = any_ip();
        let hw = any_hw();
        c.fill(ip, hw, now);
        assert!(c.lookup(&ip, now + Cache::ENTRY_LIFETIME) == Answer::Found(hw), "prop:deliberately_false_entry_still_usable_at_60s");
    }
}
