#[allow(dead_code, unused_imports, unused_variables, unused_mut)]
mod v_neighbor_cache {
    use super::*;
}
