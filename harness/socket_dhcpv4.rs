// DHCPv4 client harnesses: C18 (and the DHCP part of C13).
// Spliced into src/socket/dhcpv4.rs: `ClientState`, `RequestState`, `RenewState`, private `Socket` fields and
// `Socket::parse_ack` are reachable.  Build configuration KD (Ethernet medium).
//
// One-step harnesses from an arbitrary client state satisfying INV_dhcp, i.e. what the code maintains:
//   Renewing: renew_at <= rebind_at, and while not yet rebinding rebind_at <= expires_at
//   (once rebinding, `dispatch` may push rebind_at beyond expires_at; poll_at/dispatch clamp with expires_at);
//   Requesting: `retry` counts the REQUESTs successfully handed to the device since the OFFER was accepted
//   (entered with retry = 0 by `process`, incremented only after `emit` returned Ok) -- no relation to
//   `request_retries` is needed (`retry >= request_retries` is handled by `dispatch`).
// Server messages are byte templates written here from RFC 2131 (fixed BOOTP header, magic cookie) and
// RFC 2132 (option codes), one harness per option layout, every field value symbolic (probe 16b/16d).
#[allow(dead_code, unused_imports, unused_variables, unused_mut, unused_assignments, unused_macros)]
mod v_socket_dhcpv4 {
    use super::*;
    use crate::iface::{Config as IfaceConfig, Interface};
    use crate::phy::{ChecksumCapabilities, Medium};
    use crate::verif_common::*;
    use crate::verif_dev::NullDev;
    use crate::wire::EthernetAddress;

    const DISC: u8 = 0;
    const REQ: u8 = 1;
    const REN: u8 = 2;

    /// 2^32 seconds in microseconds: the largest lease / timeout magnitude considered
    const MAX_DUR_US: u64 = (1u64 << 32) * 1_000_000;

    // ------------------------------------------------------------------ independent references
    fn contiguous(m: [u8; 4]) -> bool {
        let inv = !u32::from_be_bytes(m);
        inv & inv.wrapping_add(1) == 0
    }
    fn prefix_of(m: [u8; 4]) -> u8 {
        u32::from_be_bytes(m).count_ones() as u8
    }
    fn unicast(a: [u8; 4]) -> bool {
        !(a == [255, 255, 255, 255] || (a[0] & 0xf0) == 0xe0 || a == [0, 0, 0, 0])
    }
    /// lease actually granted, in microseconds: server value (default 120 s when absent) capped by the user maximum
    fn granted_us(lease: Option<u32>, maxl: Option<Duration>) -> u64 {
        let l = match lease {
            Some(x) => x as u64 * 1_000_000,
            None => 120_000_000,
        };
        match maxl {
            Some(m) if m.total_micros() < l => m.total_micros(),
            _ => l,
        }
    }
    fn us(t: Instant) -> i64 {
        t.total_micros()
    }

    // ------------------------------------------------------------------ symbolic values
    fn any_ip() -> Ipv4Address {
        Ipv4Address::from_octets(kani::any())
    }
    fn any_instant() -> Instant {
        let t: i64 = kani::any();
        kani::assume(t >= 0 && t < (1i64 << 52));
        Instant::from_micros(t)
    }
    fn any_dur() -> Duration {
        let d: u64 = kani::any();
        kani::assume(d <= MAX_DUR_US);
        Duration::from_micros(d)
    }
    fn any_retry_config(max_retries: u16) -> RetryConfig {
        let mut rc = RetryConfig::default();
        rc.discover_timeout = any_dur();
        rc.initial_request_timeout = any_dur();
        rc.request_retries = kani::any();
        kani::assume(rc.request_retries <= max_retries);
        rc.min_renew_timeout = any_dur();
        rc.max_renew_timeout = if kani::any() { Duration::MAX } else { any_dur() };
        rc
    }
    fn any_config() -> Config<'static> {
        let plen: u8 = kani::any();
        kani::assume(plen <= 32);
        let mut dns: Vec<Ipv4Address, DHCP_MAX_DNS_SERVER_COUNT> = Vec::new();
        let n: u8 = kani::any();
        if n >= 1 {
            dns.push(any_ip()).ok();
        }
        if n >= 2 {
            dns.push(any_ip()).ok();
        }
        if n >= 3 {
            dns.push(any_ip()).ok();
        }
        Config {
            server: ServerInfo { address: any_ip(), identifier: any_ip() },
            address: Ipv4Cidr::new(any_ip(), plen),
            router: if kani::any() { Some(any_ip()) } else { None },
            dns_servers: dns,
            packet: None,
        }
    }

    /// arbitrary client state (INV_dhcp), arbitrary user settings; `max_retries` bounds `request_retries`
    fn any_state(s: &mut Socket, max_retries: u16) {
        let k: u8 = kani::any();
        any_state_in(s, max_retries, if k > 2 { REN } else { k });
    }
    /// the same with the phase fixed (per-phase harnesses)
    fn any_state_in(s: &mut Socket, max_retries: u16, k: u8) {
        s.transaction_id = kani::any();
        s.config_changed = kani::any();
        s.ignore_naks = kani::any();
        s.max_lease_duration = if kani::any() { Some(Duration::from_micros(kani::any())) } else { None };
        s.retry_config = any_retry_config(max_retries);
        s.state = match k {
            0 => ClientState::Discovering(DiscoverState { retry_at: any_instant() }),
            1 => ClientState::Requesting(RequestState {
                retry_at: any_instant(),
                retry: kani::any(),
                server: ServerInfo { address: any_ip(), identifier: any_ip() },
                requested_ip: any_ip(),
            }),
            _ => {
                let r = RenewState {
                    config: any_config(),
                    renew_at: any_instant(),
                    rebind_at: any_instant(),
                    rebinding: kani::any(),
                    expires_at: any_instant(),
                };
                kani::assume(r.renew_at <= r.rebind_at);
                kani::assume(r.rebinding || r.rebind_at <= r.expires_at);
                ClientState::Renewing(r)
            }
        };
    }

    /// flat copy of everything `process`/`dispatch`/`poll` may touch
    #[derive(Clone, Copy, Debug)]
    struct Snap {
        phase: u8,
        retry_at: Instant,
        retry: u16,
        server: ServerInfo,
        requested_ip: Ipv4Address,
        cfg_server: ServerInfo,
        cfg_addr: Ipv4Cidr,
        cfg_router: Option<Ipv4Address>,
        dns_n: usize,
        dns: [Ipv4Address; 3],
        renew_at: Instant,
        rebind_at: Instant,
        expires_at: Instant,
        rebinding: bool,
        config_changed: bool,
        tid: u32,
    }

    fn snap(s: &Socket) -> Snap {
        let z = Ipv4Address::UNSPECIFIED;
        let zs = ServerInfo { address: z, identifier: z };
        let t0 = Instant::from_micros(0);
        let mut p = Snap {
            phase: DISC, retry_at: t0, retry: 0, server: zs, requested_ip: z, cfg_server: zs,
            cfg_addr: Ipv4Cidr::new(z, 0), cfg_router: None, dns_n: 0, dns: [z; 3],
            renew_at: t0, rebind_at: t0, expires_at: t0, rebinding: false,
            config_changed: s.config_changed, tid: s.transaction_id,
        };
        match &s.state {
            ClientState::Discovering(d) => {
                p.retry_at = d.retry_at;
            }
            ClientState::Requesting(r) => {
                p.phase = REQ;
                p.retry_at = r.retry_at;
                p.retry = r.retry;
                p.server = r.server;
                p.requested_ip = r.requested_ip;
            }
            ClientState::Renewing(r) => {
                p.phase = REN;
                p.cfg_server = r.config.server;
                p.cfg_addr = r.config.address;
                p.cfg_router = r.config.router;
                p.dns_n = r.config.dns_servers.len();
                if p.dns_n > 0 {
                    p.dns[0] = r.config.dns_servers[0];
                }
                if p.dns_n > 1 {
                    p.dns[1] = r.config.dns_servers[1];
                }
                if p.dns_n > 2 {
                    p.dns[2] = r.config.dns_servers[2];
                }
                p.renew_at = r.renew_at;
                p.rebind_at = r.rebind_at;
                p.expires_at = r.expires_at;
                p.rebinding = r.rebinding;
            }
        }
        p
    }

    fn same_config(a: &Snap, b: &Snap) -> bool {
        a.cfg_server == b.cfg_server
            && a.cfg_addr == b.cfg_addr
            && a.cfg_router == b.cfg_router
            && a.dns_n == b.dns_n
            && (a.dns_n < 1 || a.dns[0] == b.dns[0])
            && (a.dns_n < 2 || a.dns[1] == b.dns[1])
            && (a.dns_n < 3 || a.dns[2] == b.dns[2])
    }
    fn same_timers(a: &Snap, b: &Snap) -> bool {
        a.renew_at == b.renew_at && a.rebind_at == b.rebind_at && a.expires_at == b.expires_at && a.rebinding == b.rebinding
    }
    /// protocol state equal (the event flag and the xid are compared separately)
    fn same_state(a: &Snap, b: &Snap) -> bool {
        a.phase == b.phase
            && match a.phase {
                DISC => a.retry_at == b.retry_at,
                REQ => a.retry_at == b.retry_at && a.retry == b.retry && a.server == b.server && a.requested_ip == b.requested_ip,
                _ => same_config(a, b) && same_timers(a, b),
            }
    }

    /// INV_dhcp on a post-state
    fn assert_inv(p: &Snap) {
        if p.phase == REN {
            assert!(p.renew_at <= p.rebind_at, "inv:dhcp_renew_at_not_after_rebind_at");
            assert!(p.rebinding || p.rebind_at <= p.expires_at, "inv:dhcp_rebind_at_not_after_expiry_until_rebinding");
        }
    }

    macro_rules! dhcp_env {
        ($dev:ident, $iface:ident, $cx:ident, $now:ident, $mac:ident, $mtu:expr) => {
            let mut $dev = NullDev { medium: Medium::Ethernet, mtu: $mtu, checksum: ChecksumCapabilities::ignored() };
            let $now: i64 = kani::any();
            kani::assume($now >= 0 && $now < (1i64 << 50));
            let macb: [u8; 6] = kani::any();
            kani::assume(macb[0] & 1 == 0);
            let $mac = EthernetAddress(macb);
            // (Interface::new draws its IPv4 ident in a `loop` from the seed: keep that concrete, then make the generator
            // state arbitrary so that every xid value is covered)
            let mut $iface = Interface::new(IfaceConfig::new(HardwareAddress::Ethernet($mac)), &mut $dev, Instant::from_micros($now));
            let $cx = $iface.context();
            *$cx.rand() = crate::rand::Rand::new(kani::any());
        };
    }

    // ------------------------------------------------------------------ 1. lease arithmetic at the parse_ack boundary
    // @harness props=C18 cfg=KD tier=q to=600 mem=6 unwind=12 opts=nomem covers=4 funcs=dhcpv4::Socket::parse_ack;Ipv4Address::prefix_len;Ipv4Address::x_is_unicast bounds=lease/T1/T2_each_absent_or_any_u32;_any_mask;_any_your_ip;_max_lease_absent_or_any_u64_us;_now_in_[0,2^40_ms);_<=2_DNS_servers
    #[kani::proof]
    pub(crate) fn dhcp_parse_ack() {
        let now: i64 = kani::any();
        kani::assume(now >= 0 && now < (1i64 << 40));
        let nowi = Instant::from_millis(now);
        let lease: Option<u32> = if kani::any() { Some(kani::any()) } else { None };
        let t1: Option<u32> = if kani::any() { Some(kani::any()) } else { None };
        let t2: Option<u32> = if kani::any() { Some(kani::any()) } else { None };
        let yi: [u8; 4] = kani::any();
        let mask: Option<[u8; 4]> = if kani::any() { Some(kani::any()) } else { None };
        let d0: [u8; 4] = kani::any();
        let d1: [u8; 4] = kani::any();
        let dns = if kani::any() {
            let mut v: Vec<Ipv4Address, DHCP_MAX_DNS_SERVER_COUNT> = Vec::new();
            v.push(Ipv4Address::from_octets(d0)).ok();
            v.push(Ipv4Address::from_octets(d1)).ok();
            Some(v)
        } else {
            None
        };
        let router = if kani::any() { Some(any_ip()) } else { None };
        let msg = DhcpRepr {
            message_type: DhcpMessageType::Ack,
            transaction_id: kani::any(),
            secs: 0,
            client_hardware_address: EthernetAddress(kani::any()),
            client_ip: Ipv4Address::UNSPECIFIED,
            your_ip: Ipv4Address::from_octets(yi),
            server_ip: Ipv4Address::UNSPECIFIED,
            router,
            subnet_mask: mask.map(Ipv4Address::from_octets),
            relay_agent_ip: Ipv4Address::UNSPECIFIED,
            broadcast: false,
            requested_ip: None,
            client_identifier: None,
            server_identifier: None,
            parameter_request_list: None,
            dns_servers: dns,
            max_size: None,
            lease_duration: lease,
            renew_duration: t1,
            rebind_duration: t2,
            additional_options: &[],
        };
        let maxl: Option<Duration> = if kani::any() { Some(Duration::from_micros(kani::any())) } else { None };
        let server = ServerInfo { address: any_ip(), identifier: any_ip() };
        crate::vdump!("now={} lease={:?} t1={:?} t2={:?} yi={:?} mask={:?} maxl={:?}", now, lease, t1, t2, yi, mask, maxl);
        let res = Socket::parse_ack(nowi, &msg, maxl, server);
        crate::vdump!("RESULT {:?}", res);
        let g = granted_us(lease, maxl);
        if let Some((cfg, renew_at, rebind_at, expires_at)) = &res {
            assert!(mask.is_some() && contiguous(mask.unwrap()), "prop:c18_ack_mask_contiguous");
            assert!(unicast(yi), "prop:c18_ack_address_unicast");
            assert!(cfg.address.address() == Ipv4Address::from_octets(yi) && cfg.address.prefix_len() == prefix_of(mask.unwrap()), "prop:c18_config_is_ack_address_and_mask");
            assert!(cfg.server == server && cfg.router == router && cfg.packet.is_none(), "prop:c18_config_fields_from_ack");
            // only unicast DNS servers, each one from the message
            let k = any_lt(DHCP_MAX_DNS_SERVER_COUNT);
            if k < cfg.dns_servers.len() {
                let a = cfg.dns_servers[k].octets();
                assert!(unicast(a) && msg.dns_servers.is_some() && (a == d0 || a == d1), "prop:c18_config_dns_from_ack");
            }
            assert!(us(*expires_at) == us(nowi) + g as i64, "prop:c18_expiry_is_now_plus_granted_lease");
            assert!(nowi <= *renew_at && renew_at <= rebind_at && rebind_at <= expires_at, "prop:c18_renew_before_rebind_before_expiry");
            // T1/T2 from the server are used when they are ordered T1 < T2 < lease (RFC 2131 4.4.5); the documented
            // defaults 0.5 / 0.875 of the lease otherwise when both are absent
            if let (Some(a), Some(b)) = (t1, t2) {
                let (a, b) = (a as u64 * 1_000_000, b as u64 * 1_000_000);
                if a < b && b < g {
                    assert!(us(*renew_at) == us(nowi) + a as i64 && us(*rebind_at) == us(nowi) + b as i64, "prop:c18_server_t1_t2_honoured");
                }
            }
            if t1.is_none() && t2.is_none() {
                assert!(us(*renew_at) == us(nowi) + (g / 2) as i64 && us(*rebind_at) == us(nowi) + (g * 7 / 8) as i64, "prop:c18_default_t1_t2");
            }
        } else {
            // (not demanded by C18, but keeps the harness honest: rejection has one of the three documented causes)
            assert!(mask.is_none() || !contiguous(mask.unwrap()) || !unicast(yi), "prop:c18_ack_rejected_only_for_documented_cause");
        }
        kani::cover!(res.is_some() && lease == Some(0), "zero lease accepted");
        kani::cover!(res.is_some() && lease == Some(u32::MAX) && t1 == Some(u32::MAX) && maxl.is_none(), "2^32-1 lease with inverted T1");
        kani::cover!(res.is_some() && t1.is_some() && t2.is_some() && t1 == t2 && t1 != Some(0), "T1 == T2 falls back to defaults");
        kani::cover!(res.is_none() && mask.is_some() && unicast(yi), "non-contiguous mask rejected");
    }

    // ------------------------------------------------------------------ 2. server message (byte template) -> process
    struct Fields {
        op: u8,
        htype: u8,
        hlen: u8,
        xid: [u8; 4],
        yi: [u8; 4],
        si: [u8; 4],
        ch: [u8; 6],
        mt: u8,
        sid: [u8; 4],
        lease: u32,
        lease2: u32,
        mask: [u8; 4],
        router: [u8; 4],
        t1: u32,
        t2: u32,
        dns0: [u8; 4],
        dns1: [u8; 4],
    }
    fn any_fields() -> Fields {
        Fields {
            op: kani::any(), htype: kani::any(), hlen: kani::any(), xid: kani::any(), yi: kani::any(), si: kani::any(),
            ch: kani::any(), mt: kani::any(), sid: kani::any(), lease: kani::any(), lease2: kani::any(), mask: kani::any(),
            router: kani::any(), t1: kani::any(), t2: kani::any(), dns0: kani::any(), dns1: kani::any(),
        }
    }

    /// what the option area of a layout contains (the oracle for the template)
    #[derive(Clone, Copy)]
    struct Present {
        sid: bool,
        mask: bool,
        lease: bool,
        lease2: bool,
        router: bool,
        t12: bool,
        dns: bool,
    }

    const L_FULL: u8 = 0;
    const L_NOSID: u8 = 1;
    const L_NOMASK: u8 = 2;
    const L_T1T2: u8 = 3;
    const L_DNS: u8 = 4;
    const L_TYPEONLY: u8 = 5;
    const L_DUPLEASE: u8 = 6;
    const L_REORDER: u8 = 7;
    const L_NOLEASE: u8 = 8;

    const MSG_MAX: usize = 320;

    macro_rules! put {
        ($b:ident, $n:ident, $v:expr) => {
            $b[$n] = $v;
            $n += 1;
        };
    }
    macro_rules! opt1 {
        ($b:ident, $n:ident, $kind:expr, $v:expr) => {
            put!($b, $n, $kind);
            put!($b, $n, 1);
            put!($b, $n, $v);
        };
    }
    macro_rules! opt4 {
        ($b:ident, $n:ident, $kind:expr, $v:expr) => {
            let v4: [u8; 4] = $v;
            put!($b, $n, $kind);
            put!($b, $n, 4);
            put!($b, $n, v4[0]);
            put!($b, $n, v4[1]);
            put!($b, $n, v4[2]);
            put!($b, $n, v4[3]);
        };
    }

    // RFC 2132 option codes
    const O_PAD: u8 = 0;
    const O_MASK: u8 = 1;
    const O_ROUTER: u8 = 3;
    const O_DNS: u8 = 6;
    const O_LEASE: u8 = 51;
    const O_TYPE: u8 = 53;
    const O_SID: u8 = 54;
    const O_T1: u8 = 58;
    const O_T2: u8 = 59;
    const O_END: u8 = 255;

    /// RFC 2131 figure 1: op htype hlen hops | xid | secs flags | ciaddr | yiaddr | siaddr | giaddr | chaddr(16)
    /// | sname(64) | file(128) | magic cookie 99.130.83.99 | options
    macro_rules! template {
        ($b:ident, $n:ident, $f:ident, $layout:expr) => {
            let mut $b = [0u8; MSG_MAX];
            $b[0] = $f.op;
            $b[1] = $f.htype;
            $b[2] = $f.hlen;
            $b[4] = $f.xid[0];
            $b[5] = $f.xid[1];
            $b[6] = $f.xid[2];
            $b[7] = $f.xid[3];
            $b[16] = $f.yi[0];
            $b[17] = $f.yi[1];
            $b[18] = $f.yi[2];
            $b[19] = $f.yi[3];
            $b[20] = $f.si[0];
            $b[21] = $f.si[1];
            $b[22] = $f.si[2];
            $b[23] = $f.si[3];
            $b[28] = $f.ch[0];
            $b[29] = $f.ch[1];
            $b[30] = $f.ch[2];
            $b[31] = $f.ch[3];
            $b[32] = $f.ch[4];
            $b[33] = $f.ch[5];
            $b[236] = 99;
            $b[237] = 130;
            $b[238] = 83;
            $b[239] = 99;
            let mut $n: usize = 240;
            match $layout {
                L_FULL => {
                    opt1!($b, $n, O_TYPE, $f.mt);
                    opt4!($b, $n, O_SID, $f.sid);
                    opt4!($b, $n, O_LEASE, $f.lease.to_be_bytes());
                    opt4!($b, $n, O_MASK, $f.mask);
                    opt4!($b, $n, O_ROUTER, $f.router);
                }
                L_NOSID => {
                    opt1!($b, $n, O_TYPE, $f.mt);
                    opt4!($b, $n, O_LEASE, $f.lease.to_be_bytes());
                    opt4!($b, $n, O_MASK, $f.mask);
                    opt4!($b, $n, O_ROUTER, $f.router);
                }
                L_NOMASK => {
                    opt1!($b, $n, O_TYPE, $f.mt);
                    opt4!($b, $n, O_SID, $f.sid);
                    opt4!($b, $n, O_LEASE, $f.lease.to_be_bytes());
                    opt4!($b, $n, O_ROUTER, $f.router);
                }
                L_T1T2 => {
                    opt1!($b, $n, O_TYPE, $f.mt);
                    opt4!($b, $n, O_SID, $f.sid);
                    opt4!($b, $n, O_LEASE, $f.lease.to_be_bytes());
                    opt4!($b, $n, O_T1, $f.t1.to_be_bytes());
                    opt4!($b, $n, O_T2, $f.t2.to_be_bytes());
                    opt4!($b, $n, O_MASK, $f.mask);
                    opt4!($b, $n, O_ROUTER, $f.router);
                }
                L_DNS => {
                    opt1!($b, $n, O_TYPE, $f.mt);
                    opt4!($b, $n, O_SID, $f.sid);
                    opt4!($b, $n, O_LEASE, $f.lease.to_be_bytes());
                    opt4!($b, $n, O_MASK, $f.mask);
                    opt4!($b, $n, O_ROUTER, $f.router);
                    put!($b, $n, O_DNS);
                    put!($b, $n, 8);
                    put!($b, $n, $f.dns0[0]);
                    put!($b, $n, $f.dns0[1]);
                    put!($b, $n, $f.dns0[2]);
                    put!($b, $n, $f.dns0[3]);
                    put!($b, $n, $f.dns1[0]);
                    put!($b, $n, $f.dns1[1]);
                    put!($b, $n, $f.dns1[2]);
                    put!($b, $n, $f.dns1[3]);
                }
                L_TYPEONLY => {
                    opt1!($b, $n, O_TYPE, $f.mt);
                }
                L_DUPLEASE => {
                    opt1!($b, $n, O_TYPE, $f.mt);
                    opt4!($b, $n, O_SID, $f.sid);
                    opt4!($b, $n, O_LEASE, $f.lease.to_be_bytes());
                    opt4!($b, $n, O_MASK, $f.mask);
                    opt4!($b, $n, O_LEASE, $f.lease2.to_be_bytes());
                    opt4!($b, $n, O_ROUTER, $f.router);
                }
                L_REORDER => {
                    opt4!($b, $n, O_MASK, $f.mask);
                    opt4!($b, $n, O_ROUTER, $f.router);
                    put!($b, $n, O_PAD);
                    opt4!($b, $n, O_LEASE, $f.lease.to_be_bytes());
                    opt4!($b, $n, O_SID, $f.sid);
                    opt1!($b, $n, O_TYPE, $f.mt);
                }
                _ => {
                    opt1!($b, $n, O_TYPE, $f.mt);
                    opt4!($b, $n, O_SID, $f.sid);
                    opt4!($b, $n, O_MASK, $f.mask);
                }
            }
            put!($b, $n, O_END);
        };
    }

    fn present(layout: u8) -> Present {
        Present {
            sid: !matches!(layout, L_NOSID | L_TYPEONLY),
            mask: !matches!(layout, L_NOMASK | L_TYPEONLY),
            lease: !matches!(layout, L_TYPEONLY | L_NOLEASE),
            lease2: layout == L_DUPLEASE,
            router: !matches!(layout, L_TYPEONLY | L_NOLEASE),
            t12: layout == L_T1T2,
            dns: layout == L_DNS,
        }
    }

    /// what happened, for the per-layout reachability witnesses
    struct Outcome {
        configured: bool,
        refreshed: bool,
        offer_taken: bool,
        nak_reset: bool,
        ignored_matching_ack: bool,
        zero_retry: bool,
        lease_capped: bool,
        second_lease_used: bool,
        t12_used: bool,
    }

    /// One server message against an arbitrary client state.  `assert_sent`: also demand that an ACK configures the
    /// client in Requesting only after a REQUEST was handed to the device (`retry > 0`); see `finding_dhcp_ack_before_request`.
    fn process_step(layout: u8, assert_sent: bool) -> Outcome {
        dhcp_env!(dev, iface, cx, now, mac, 1514);
        let nowi = Instant::from_micros(now);
        let mut s = Socket::new();
        any_state(&mut s, u16::MAX);
        let pre = snap(&s);
        let maxl = s.max_lease_duration;
        let ignore_naks = s.ignore_naks;
        let f = any_fields();
        let pr = present(layout);
        template!(b, n, f, layout);
        let src = any_ip();
        let ip_repr = Ipv4Repr { src_addr: src, dst_addr: any_ip(), next_header: IpProtocol::Udp, payload_len: UDP_HEADER_LEN + n, hop_limit: 64 };
        let udp_repr = UdpRepr { src_port: DHCP_SERVER_PORT, dst_port: DHCP_CLIENT_PORT };
        crate::vdump!("PRE now_us={} mac={} xid={:#x} max_lease={:?} ignore_naks={} changed={} {:?}", now, mac, pre.tid, maxl, ignore_naks, pre.config_changed, s.state);
        crate::vdump!("MSG layout={} op={} htype={} hlen={} xid={:?} yiaddr={:?} chaddr={:?} type={} sid={:?} lease={} lease2={} mask={:?} router={:?} t1={} t2={} dns={:?},{:?} src={}",
            layout, f.op, f.htype, f.hlen, f.xid, f.yi, f.ch, f.mt, f.sid, f.lease, f.lease2, f.mask, f.router, f.t1, f.t2, f.dns0, f.dns1, src);
        crate::vdump!("BYTES {:?}", &b[..n]);

        s.process(cx, &ip_repr, &udp_repr, &b[..n]);

        let post = snap(&s);
        crate::vdump!("POST changed={} xid={:#x} {:?}", post.config_changed, post.tid, s.state);

        // ---- reference reading of the template
        let well_formed = f.htype == 1 && f.hlen == 6;
        let reply = f.op == 2;
        let is_ack = reply && f.mt == 5;
        let is_offer = reply && f.mt == 2;
        let is_nak = reply && f.mt == 6;
        let xid_ok = u32::from_be_bytes(f.xid) == pre.tid;
        let ch_ok = f.ch == mac.0;
        let mask_ok = pr.mask && contiguous(f.mask);
        let yi_ok = unicast(f.yi);
        let for_us = well_formed && xid_ok && ch_ok && pr.sid;
        let g1 = granted_us(if pr.lease { Some(f.lease) } else { None }, maxl);
        let g2 = granted_us(Some(f.lease2), maxl);

        let changed = !same_state(&pre, &post);
        let mut o = Outcome {
            configured: false, refreshed: false, offer_taken: false, nak_reset: false, ignored_matching_ack: false,
            zero_retry: false, lease_capped: false, second_lease_used: false, t12_used: false,
        };

        assert!(post.tid == pre.tid, "prop:c18_process_keeps_transaction_id");
        assert!(post.config_changed || !pre.config_changed, "prop:c18_pending_event_never_dropped_by_process");

        match post.phase {
            REN => {
                if changed {
                    // a configuration is installed or its lease refreshed: only by a valid ACK to an outstanding REQUEST
                    assert!(pre.phase != DISC, "prop:c18_configured_only_with_request_outstanding");
                    assert!(is_ack, "prop:c18_only_ack_configures");
                    assert!(well_formed, "prop:c18_only_ethernet_bootreply_configures");
                    assert!(xid_ok, "prop:c18_ack_xid_is_last_request_xid");
                    assert!(ch_ok, "prop:c18_ack_for_own_hardware_address");
                    assert!(pr.sid, "prop:c18_ack_has_server_identifier");
                    assert!(mask_ok, "prop:c18_ack_mask_contiguous");
                    assert!(yi_ok, "prop:c18_ack_address_unicast");
                    if assert_sent && pre.phase == REQ {
                        assert!(pre.retry > 0, "prop:c18_ack_only_after_request_sent");
                    }
                    let e = us(post.expires_at) - us(nowi);
                    assert!(e == g1 as i64 || (pr.lease2 && e == g2 as i64), "prop:c18_expiry_is_now_plus_granted_lease");
                    assert!(nowi <= post.renew_at && post.renew_at <= post.rebind_at && post.rebind_at <= post.expires_at, "prop:c18_renew_before_rebind_before_expiry");
                    assert!(!post.rebinding, "prop:c18_fresh_lease_is_not_rebinding");
                    assert!(post.cfg_addr.address() == Ipv4Address::from_octets(f.yi) && post.cfg_addr.prefix_len() == prefix_of(f.mask), "prop:c18_config_is_ack_address_and_mask");
                    let want_server = if pre.phase == REQ { pre.server } else { pre.cfg_server };
                    assert!(post.cfg_server == want_server, "prop:c18_config_server_is_the_requested_one");
                    assert!(post.cfg_router == if pr.router { Some(Ipv4Address::from_octets(f.router)) } else { None }, "prop:c18_config_fields_from_ack");
                    assert!(post.dns_n <= if pr.dns { 2 } else { 0 }, "prop:c18_config_dns_from_ack");
                    if pre.phase == REQ || !same_config(&pre, &post) {
                        assert!(post.config_changed, "prop:c18_new_configuration_reported");
                    }
                    o.configured = pre.phase == REQ;
                    o.refreshed = pre.phase == REN;
                    o.zero_retry = pre.phase == REQ && pre.retry == 0;
                    o.lease_capped = maxl.is_some() && e < f.lease as i64 * 1_000_000;
                    o.second_lease_used = pr.lease2 && e == g2 as i64 && g1 != g2;
                    o.t12_used = pr.t12 && us(post.renew_at) - us(nowi) == f.t1 as i64 * 1_000_000 && f.t1 > 0 && f.t1 as u64 * 1_000_000 != g1 / 2;
                }
                // the most recent valid ACK defines the lease: a bound client must take it
                if pre.phase == REN && is_ack && for_us && mask_ok && yi_ok {
                    let e = us(post.expires_at) - us(nowi);
                    assert!(e == g1 as i64 || (pr.lease2 && e == g2 as i64), "prop:c18_latest_valid_ack_defines_lease");
                    assert!(!post.rebinding && post.renew_at <= post.rebind_at && post.rebind_at <= post.expires_at, "prop:c18_latest_valid_ack_defines_lease");
                }
                if pre.phase == REN && !(is_ack && for_us) {
                    o.ignored_matching_ack = !changed && f.mt == 5 && xid_ok && ch_ok;
                }
            }
            REQ => {
                if pre.phase == DISC {
                    assert!(is_offer, "prop:c18_only_offer_starts_request");
                    assert!(well_formed && xid_ok && ch_ok, "prop:c18_offer_matches_xid_and_hardware_address");
                    assert!(pr.sid, "prop:c18_offer_has_server_identifier");
                    assert!(yi_ok, "prop:c18_offer_address_unicast");
                    assert!(post.server.identifier == Ipv4Address::from_octets(f.sid) && post.server.address == src, "prop:c18_request_goes_to_offering_server");
                    assert!(post.requested_ip == Ipv4Address::from_octets(f.yi), "prop:c18_request_is_for_offered_address");
                    assert!(post.retry == 0 && post.retry_at == nowi, "prop:c18_request_due_immediately");
                    o.offer_taken = true;
                } else {
                    assert!(pre.phase == REQ && !changed, "prop:c18_message_leaves_requesting_state_untouched");
                    o.ignored_matching_ack = f.mt == 5 && xid_ok && ch_ok && well_formed && reply;
                }
            }
            _ => {
                if pre.phase == DISC {
                    assert!(!changed, "prop:c18_message_leaves_discovering_state_untouched");
                } else {
                    assert!(is_nak && !ignore_naks, "prop:c18_reset_only_by_nak_unless_ignored");
                    assert!(for_us, "prop:c18_nak_matches_xid_and_hardware_address");
                    if pre.phase == REN {
                        assert!(post.config_changed, "prop:c18_nak_loss_of_configuration_reported");
                    }
                    o.nak_reset = true;
                }
            }
        }
        // the event flag is raised only by one of the three changes above
        if post.config_changed && !pre.config_changed {
            assert!((post.phase == REN && changed) || (pre.phase == REN && post.phase == DISC), "prop:c18_event_only_on_configuration_change");
        }
        assert_inv(&post);
        o
    }

    // @harness props=C18 cfg=KD tier=q to=1200 mem=8 unwind=12 opts=nomem,fs320 covers=5 funcs=dhcpv4::Socket::process;dhcpv4::Socket::parse_ack;wire::dhcpv4::Repr::parse;wire::dhcpv4::Packet::options bounds=layout_{type,server-id,lease,mask,router};_every_field_value_symbolic_(op,htype,hlen,xid,yiaddr,siaddr,chaddr,type,all_option_values);_any_client_state_with_INV_dhcp;_any_MAC;_no_receive_packet_buffer
    #[kani::proof]
    pub(crate) fn dhcp_process_full() {
        let o = process_step(L_FULL, false);
        kani::cover!(o.configured, "ACK accepted in Requesting");
        kani::cover!(o.refreshed, "ACK refreshed the lease in Renewing");
        kani::cover!(o.offer_taken, "OFFER accepted in Discovering");
        kani::cover!(o.nak_reset, "NAK reset the client");
        kani::cover!(o.configured && o.lease_capped, "lease capped by max_lease_duration");
    }

    // @harness props=C18 cfg=KD tier=q to=1200 mem=8 unwind=12 opts=nomem,fs320 covers=2 funcs=dhcpv4::Socket::process;wire::dhcpv4::Repr::parse bounds=layout_{type,lease,mask,router}_(no_server_identifier);_every_field_value_symbolic;_any_client_state_with_INV_dhcp
    #[kani::proof]
    pub(crate) fn dhcp_process_nosid() {
        let o = process_step(L_NOSID, false);
        assert!(!o.configured && !o.refreshed && !o.offer_taken && !o.nak_reset, "prop:c18_ack_has_server_identifier");
        kani::cover!(o.ignored_matching_ack, "matching ACK without server identifier ignored");
        kani::cover!(!o.ignored_matching_ack, "other message ignored");
    }

    // @harness props=C18 cfg=KD tier=q to=1200 mem=8 unwind=12 opts=nomem,fs320 covers=3 funcs=dhcpv4::Socket::process;dhcpv4::Socket::parse_ack;wire::dhcpv4::Repr::parse bounds=layout_{type,server-id,lease,router}_(no_subnet_mask);_every_field_value_symbolic;_any_client_state_with_INV_dhcp
    #[kani::proof]
    pub(crate) fn dhcp_process_nomask() {
        let o = process_step(L_NOMASK, false);
        assert!(!o.configured && !o.refreshed, "prop:c18_ack_mask_contiguous");
        kani::cover!(o.ignored_matching_ack, "matching ACK without subnet mask ignored");
        kani::cover!(o.offer_taken, "OFFER accepted in Discovering");
        kani::cover!(o.nak_reset, "NAK reset the client");
    }

    // @harness props=C18 cfg=KD tier=q to=1200 mem=8 unwind=12 opts=nomem,fs320 covers=3 funcs=dhcpv4::Socket::process;dhcpv4::Socket::parse_ack;wire::dhcpv4::Repr::parse bounds=layout_{type,server-id,lease,T1,T2,mask,router};_every_field_value_symbolic_(T1/T2/lease_any_u32);_any_client_state_with_INV_dhcp
    #[kani::proof]
    pub(crate) fn dhcp_process_t1t2() {
        let o = process_step(L_T1T2, false);
        kani::cover!(o.configured, "ACK accepted in Requesting");
        kani::cover!(o.refreshed, "ACK refreshed the lease in Renewing");
        kani::cover!(o.configured && o.t12_used, "server T1 used");
    }

    // @harness props=C18 cfg=KD tier=q to=1200 mem=8 unwind=12 opts=nomem,fs320 covers=2 funcs=dhcpv4::Socket::process;dhcpv4::Socket::parse_ack;wire::dhcpv4::Repr::parse bounds=layout_{type,server-id,lease,mask,router,2_DNS_servers};_every_field_value_symbolic;_any_client_state_with_INV_dhcp
    #[kani::proof]
    pub(crate) fn dhcp_process_dns() {
        let o = process_step(L_DNS, false);
        kani::cover!(o.configured, "ACK accepted in Requesting");
        kani::cover!(o.refreshed, "ACK refreshed the lease in Renewing");
    }

    // @harness props=C18 cfg=KD tier=q to=1200 mem=8 unwind=12 opts=nomem,fs320 covers=2 funcs=dhcpv4::Socket::process;wire::dhcpv4::Repr::parse bounds=layout_{type}_only;_every_field_value_symbolic;_any_client_state_with_INV_dhcp
    #[kani::proof]
    pub(crate) fn dhcp_process_typeonly() {
        let o = process_step(L_TYPEONLY, false);
        assert!(!o.configured && !o.refreshed && !o.offer_taken && !o.nak_reset, "prop:c18_ack_has_server_identifier");
        kani::cover!(o.ignored_matching_ack, "matching bare ACK ignored");
        kani::cover!(!o.ignored_matching_ack, "other message ignored");
    }

    // @harness props=C18 cfg=KD tier=q to=1200 mem=8 unwind=12 opts=nomem,fs320 covers=3 funcs=dhcpv4::Socket::process;dhcpv4::Socket::parse_ack;wire::dhcpv4::Repr::parse bounds=layout_{type,server-id,lease,mask,lease,router}_(lease_option_twice);_every_field_value_symbolic;_any_client_state_with_INV_dhcp
    #[kani::proof]
    pub(crate) fn dhcp_process_duplease() {
        let o = process_step(L_DUPLEASE, false);
        kani::cover!(o.configured, "ACK accepted in Requesting");
        kani::cover!(o.refreshed, "ACK refreshed the lease in Renewing");
        kani::cover!(o.second_lease_used, "second lease option decided the expiry");
    }

    // @harness props=C18 cfg=KD tier=q to=1200 mem=8 unwind=12 opts=nomem,fs320 covers=4 funcs=dhcpv4::Socket::process;dhcpv4::Socket::parse_ack;wire::dhcpv4::Repr::parse bounds=layout_{mask,router,pad,lease,server-id,type}_(type_last);_every_field_value_symbolic;_any_client_state_with_INV_dhcp
    #[kani::proof]
    pub(crate) fn dhcp_process_reorder() {
        let o = process_step(L_REORDER, false);
        kani::cover!(o.configured, "ACK accepted in Requesting");
        kani::cover!(o.refreshed, "ACK refreshed the lease in Renewing");
        kani::cover!(o.offer_taken, "OFFER accepted in Discovering");
        kani::cover!(o.nak_reset, "NAK reset the client");
    }

    // @harness props=C18 cfg=KD tier=q to=1200 mem=8 unwind=12 opts=nomem,fs320 covers=2 funcs=dhcpv4::Socket::process;dhcpv4::Socket::parse_ack;wire::dhcpv4::Repr::parse bounds=layout_{type,server-id,mask}_(no_lease_option:_120_s_default);_every_field_value_symbolic;_any_client_state_with_INV_dhcp
    #[kani::proof]
    pub(crate) fn dhcp_process_nolease() {
        let o = process_step(L_NOLEASE, false);
        kani::cover!(o.configured, "ACK without lease option accepted in Requesting");
        kani::cover!(o.refreshed, "ACK without lease option refreshed the lease");
    }

    // DESIGN hypothesis 13.  `process` enters Requesting with retry = 0 (OFFER accepted) and the first REQUEST is
    // emitted by the next `dispatch`; `retry` is incremented only after `emit` returned Ok.  So retry == 0 <=> no
    // REQUEST has reached the device.  An ACK carrying the DISCOVER's xid is accepted in that window (RFC 2131
    // figure 5: DHCPACK is discarded in SELECTING), i.e. a configuration is reported although no request was sent.
    // @harness props=C18 cfg=KD tier=q to=1200 mem=8 unwind=12 opts=nomem,fs320 covers=1 funcs=dhcpv4::Socket::process bounds=layout_{type,server-id,lease,mask,router};_every_field_value_symbolic;_any_client_state_with_INV_dhcp
    #[kani::proof]
    pub(crate) fn finding_dhcp_ack_before_request() {
        let o = process_step(L_FULL, true);
        kani::cover!(o.configured, "ACK accepted in Requesting after a REQUEST was sent");
    }

    // ------------------------------------------------------------------ 3. dispatch
    #[derive(Clone, Copy)]
    struct Emitted {
        seen: bool,
        mt: DhcpMessageType,
        xid: u32,
        ch: EthernetAddress,
        cid: Option<EthernetAddress>,
        src: Ipv4Address,
        dst: Ipv4Address,
        ciaddr: Ipv4Address,
        yiaddr: Ipv4Address,
        req_ip: Option<Ipv4Address>,
        sid: Option<Ipv4Address>,
        sport: u16,
        dport: u16,
        len_ok: bool,
        proto_ok: bool,
    }
    fn no_emission() -> Emitted {
        let z = Ipv4Address::UNSPECIFIED;
        Emitted {
            seen: false, mt: DhcpMessageType::Unknown(0), xid: 0, ch: EthernetAddress([0; 6]), cid: None, src: z, dst: z, ciaddr: z,
            yiaddr: z, req_ip: None, sid: None, sport: 0, dport: 0, len_ok: false, proto_ok: false,
        }
    }
    fn record(e: &mut Emitted, ip: &Ipv4Repr, udp: &UdpRepr, d: &DhcpRepr) {
        e.seen = true;
        e.mt = d.message_type;
        e.xid = d.transaction_id;
        e.ch = d.client_hardware_address;
        e.cid = d.client_identifier;
        e.src = ip.src_addr;
        e.dst = ip.dst_addr;
        e.ciaddr = d.client_ip;
        e.yiaddr = d.your_ip;
        e.req_ip = d.requested_ip;
        e.sid = d.server_identifier;
        e.sport = udp.src_port;
        e.dport = udp.dst_port;
        e.len_ok = ip.payload_len == UDP_HEADER_LEN + d.buffer_len();
        e.proto_ok = ip.next_header == IpProtocol::Udp;
    }

    /// obligations on any emitted message and on the state after one `dispatch` at `nowi`
    fn check_dispatch(pre: &Snap, post: &Snap, e: &Emitted, emit_ok: bool, res_ok: bool, nowi: Instant, mac: EthernetAddress, rc: &RetryConfig) {
        assert!(res_ok == (emit_ok || !e.seen), "prop:c09_emit_error_passed_through");
        let z = Ipv4Address::UNSPECIFIED;
        if e.seen {
            assert!(e.ch == mac && e.cid == Some(mac), "prop:c18_message_carries_own_hardware_address");
            assert!(e.sport == DHCP_CLIENT_PORT && e.dport == DHCP_SERVER_PORT && e.len_ok && e.proto_ok, "prop:c10_dhcp_message_ports_and_length");
            assert!(e.yiaddr == z, "prop:c18_client_message_has_no_yiaddr");
            if emit_ok {
                assert!(e.xid == post.tid, "prop:c18_message_carries_socket_transaction_id");
            } else {
                // the device refused the message: nothing is remembered, except that the rebinding phase was entered
                assert!(post.tid == pre.tid && post.config_changed == pre.config_changed, "prop:c18_failed_emit_leaves_state");
                let mut want = *pre;
                if pre.phase == REN {
                    want.rebinding = pre.rebinding || nowi >= pre.rebind_at;
                }
                assert!(same_state(&want, post), "prop:c18_failed_emit_leaves_state");
            }
        } else {
            assert!(post.tid == pre.tid, "prop:c18_xid_changes_only_with_a_message");
        }
        match pre.phase {
            DISC => {
                assert!(e.seen == (nowi >= pre.retry_at), "prop:c18_discover_sent_exactly_when_due");
                if e.seen {
                    assert!(e.mt == DhcpMessageType::Discover && e.src == z && e.dst == Ipv4Address::BROADCAST && e.ciaddr == z, "prop:c18_discover_is_broadcast_from_unspecified");
                    assert!(e.req_ip.is_none() && e.sid.is_none(), "prop:c18_discover_is_broadcast_from_unspecified");
                }
                if e.seen && emit_ok {
                    assert!(post.phase == DISC, "prop:c18_dispatch_discovering_stays");
                    let gap = us(post.retry_at) - us(nowi);
                    assert!(gap >= 0 && gap as u64 == rc.discover_timeout.total_micros(), "prop:c18_bounded_solicit_interval");
                } else if !e.seen {
                    assert!(same_state(pre, post) && post.config_changed == pre.config_changed, "prop:c13_no_state_change_before_poll_at");
                }
            }
            REQ => {
                let due = nowi >= pre.retry_at;
                let exhausted = pre.retry >= rc.request_retries;
                assert!(e.seen == (due && !exhausted), "prop:c18_request_sent_exactly_when_due");
                if e.seen {
                    assert!(e.mt == DhcpMessageType::Request && e.src == z && e.dst == Ipv4Address::BROADCAST && e.ciaddr == z, "prop:c18_request_is_broadcast_from_unspecified");
                    assert!(e.req_ip == Some(pre.requested_ip) && e.sid == Some(pre.server.identifier), "prop:c18_request_names_offered_address_and_server");
                    assert!(e.xid == pre.tid, "prop:c18_request_keeps_discover_xid");
                }
                if e.seen && emit_ok {
                    assert!(post.phase == REQ && post.retry == pre.retry + 1 && post.server == pre.server && post.requested_ip == pre.requested_ip, "prop:c18_request_counted");
                    let gap = us(post.retry_at) - us(nowi);
                    let backoff = (rc.initial_request_timeout.total_micros() as u128) << (pre.retry as u32 / 2);
                    let bound = core::cmp::max(rc.discover_timeout.total_micros() as u128, backoff);
                    assert!(gap >= 0 && gap as u128 <= bound, "prop:c18_bounded_solicit_interval");
                } else if due && exhausted {
                    // give up on this server and start over: the next DISCOVER is due immediately
                    assert!(post.phase == DISC && post.retry_at <= nowi, "prop:c18_rediscover_after_request_retries");
                    assert!(post.config_changed == pre.config_changed, "prop:c18_event_only_on_configuration_change");
                } else if !e.seen {
                    assert!(same_state(pre, post) && post.config_changed == pre.config_changed, "prop:c13_no_state_change_before_poll_at");
                }
            }
            _ => {
                let expired = nowi >= pre.expires_at;
                if expired {
                    assert!(!e.seen, "prop:c18_no_renewal_with_expired_lease");
                    assert!(post.phase == DISC && post.config_changed, "prop:c18_deconfigured_at_expiry");
                    assert!(post.retry_at <= nowi, "prop:c18_rediscover_immediately_after_expiry");
                } else {
                    let rebinding = pre.rebinding || nowi >= pre.rebind_at;
                    let due = if pre.rebinding { nowi >= pre.rebind_at } else { nowi >= pre.renew_at };
                    assert!(e.seen == due, "prop:c18_renewal_attempted_exactly_when_due");
                    assert!(post.phase == REN && post.expires_at == pre.expires_at && same_config(pre, post), "prop:c18_dispatch_never_extends_lease");
                    if e.seen {
                        assert!(e.mt == DhcpMessageType::Request, "prop:c18_renewal_is_a_request");
                        assert!(e.src == pre.cfg_addr.address() && e.ciaddr == pre.cfg_addr.address(), "prop:c18_renewal_from_leased_address");
                        assert!(e.req_ip.is_none() && e.sid.is_none(), "prop:c18_renewal_has_no_requested_ip_or_server_id");
                        // renew (unicast to the leasing server) before T2, rebind (broadcast) from T2 on, neither after expiry
                        if rebinding {
                            assert!(e.dst == Ipv4Address::BROADCAST, "prop:c18_rebind_is_broadcast_from_t2");
                        } else {
                            assert!(e.dst == pre.cfg_server.address && nowi < pre.rebind_at, "prop:c18_renew_is_unicast_before_t2");
                        }
                    }
                    if e.seen && emit_ok {
                        assert!(post.rebinding == rebinding, "prop:c18_rebinding_entered_at_t2");
                        let next = if rebinding { post.rebind_at } else { post.renew_at };
                        assert!(next >= nowi, "prop:c18_renewal_retry_not_in_the_past");
                        if !rebinding {
                            assert!(post.rebind_at == pre.rebind_at && post.renew_at <= pre.rebind_at, "prop:c18_renew_retries_stay_before_t2");
                        }
                        assert!(post.config_changed == pre.config_changed, "prop:c18_event_only_on_configuration_change");
                    } else if !e.seen {
                        assert!(same_state(pre, post) && post.config_changed == pre.config_changed, "prop:c13_no_state_change_before_poll_at");
                    }
                }
            }
        }
        assert_inv(post);
    }

    struct DispatchOutcome {
        pre: Snap,
        post: Snap,
        e: Emitted,
        emit_ok: bool,
        expired: bool,
    }

    fn dispatch_step(phase: u8) -> DispatchOutcome {
        let mtu = any_le(1514);
        kani::assume(mtu >= 82);
        dhcp_env!(dev, iface, cx, now, mac, mtu);
        let nowi = Instant::from_micros(now);
        let mut s = Socket::new();
        any_state_in(&mut s, 16, phase);
        let rc = s.retry_config;
        let pre = snap(&s);
        crate::vdump!("PRE now_us={} mac={} xid={:#x} changed={} {:?} {:?}", now, mac, pre.tid, pre.config_changed, rc, s.state);
        let mut e = no_emission();
        let emit_ok: bool = kani::any();
        let res = s.dispatch(cx, |_cx, (ip, udp, d)| {
            record(&mut e, &ip, &udp, &d);
            if emit_ok { Ok(()) } else { Err(()) }
        });
        let post = snap(&s);
        crate::vdump!("EMIT seen={} ok={} type={:?} xid={:#x} src={} dst={} ciaddr={} req_ip={:?} sid={:?}", e.seen, emit_ok, e.mt, e.xid, e.src, e.dst, e.ciaddr, e.req_ip, e.sid);
        crate::vdump!("POST xid={:#x} changed={} {:?}", post.tid, post.config_changed, s.state);
        check_dispatch(&pre, &post, &e, emit_ok, res.is_ok(), nowi, mac, &rc);
        // the first poll() at or after expiry reports the loss
        let expired = pre.phase == REN && nowi >= pre.expires_at;
        if expired {
            let ev = s.poll();
            assert!(ev == Some(Event::Deconfigured), "prop:c18_deconfigured_at_expiry");
        }
        DispatchOutcome { pre, post, e, emit_ok, expired }
    }

    // @harness props=C18 cfg=KD tier=q to=900 mem=6 unwind=12 opts=nomem covers=3 funcs=dhcpv4::Socket::dispatch bounds=any_Discovering_state;_any_now;_emit_Ok_or_Err;_timeouts<=2^32_s;_any_MAC,_MTU_82..1514,_any_random_seed
    #[kani::proof]
    pub(crate) fn dhcp_dispatch_discovering() {
        let o = dispatch_step(DISC);
        kani::cover!(o.e.seen && o.emit_ok, "DISCOVER sent");
        kani::cover!(o.e.seen && !o.emit_ok, "DISCOVER refused by the device");
        kani::cover!(!o.e.seen, "DISCOVER not due yet");
    }

    // @harness props=C18 cfg=KD tier=q to=900 mem=6 unwind=12 opts=nomem covers=3 funcs=dhcpv4::Socket::dispatch;dhcpv4::Socket::reset bounds=any_Requesting_state_(retry_any_u16);_any_now;_emit_Ok_or_Err;_timeouts<=2^32_s;_request_retries<=16;_any_MAC,_MTU_82..1514
    #[kani::proof]
    pub(crate) fn dhcp_dispatch_requesting() {
        let o = dispatch_step(REQ);
        kani::cover!(o.e.seen && o.emit_ok && o.pre.retry == 0, "first REQUEST sent");
        kani::cover!(o.e.seen && o.emit_ok && o.pre.retry == 15, "REQUEST retransmitted with backoff");
        kani::cover!(o.post.phase == DISC, "request retries exhausted");
    }

    // @harness props=C18 cfg=KD tier=q to=900 mem=6 unwind=12 opts=nomem covers=5 funcs=dhcpv4::Socket::dispatch;dhcpv4::Socket::reset;dhcpv4::Socket::poll bounds=any_Renewing_state_with_INV_dhcp;_any_now;_emit_Ok_or_Err;_timeouts<=2^32_s_(max_renew_timeout_also_Duration::MAX);_<=3_DNS_servers;_any_MAC,_MTU_82..1514,_any_random_seed
    #[kani::proof]
    pub(crate) fn dhcp_dispatch_renewing() {
        let o = dispatch_step(REN);
        kani::cover!(o.expired, "lease expired");
        kani::cover!(o.e.seen && o.emit_ok && o.e.dst != Ipv4Address::BROADCAST, "renewal unicast to the server");
        kani::cover!(o.e.seen && o.emit_ok && !o.pre.rebinding && o.post.rebinding, "rebinding entered");
        kani::cover!(o.e.seen && o.emit_ok && o.pre.rebinding && o.post.rebind_at > o.post.expires_at, "rebind retry scheduled beyond expiry (clamped by poll_at)");
        kani::cover!(o.e.seen && !o.emit_ok, "renewal refused by the device");
    }

    // `initial_request_timeout << (retry / 2)` (Duration::shl = u64 <<): a legal RetryConfig with request_retries > 128
    // reaches a shift amount of 64 => arithmetic-overflow panic (builds with overflow checks) / wrapped shift amount
    // (release builds); from retry 84 on (5 s << 42) the timeout already wraps around silently.
    // @harness props=C18 cfg=KD tier=q to=600 mem=6 unwind=12 opts=nomem covers=1 funcs=dhcpv4::Socket::dispatch;time::Duration::shl bounds=Requesting_state;_request_retries_any_u16;_default_timeouts
    #[kani::proof]
    pub(crate) fn finding_dhcp_request_backoff_shift() {
        dhcp_env!(dev, iface, cx, now, mac, 1514);
        let nowi = Instant::from_micros(now);
        let mut s = Socket::new();
        any_state_in(&mut s, u16::MAX, REQ);
        // default timeouts (5 s initial REQUEST timeout); only the number of retries is the user's choice
        let retries = s.retry_config.request_retries;
        s.retry_config = RetryConfig::default();
        s.retry_config.request_retries = retries;
        let rc = s.retry_config;
        let pre = snap(&s);
        crate::vdump!("PRE now_us={} {:?} {:?}", now, rc, s.state);
        let mut seen = false;
        let res = s.dispatch(cx, |_cx, (_ip, _udp, _d)| -> Result<(), ()> {
            seen = true;
            Ok(())
        });
        let post = snap(&s);
        crate::vdump!("POST {:?}", s.state);
        if seen {
            assert!(post.phase == REQ && post.retry == pre.retry + 1, "prop:c18_request_counted");
        }
        kani::cover!(seen && pre.retry >= 100, "REQUEST number 101 or later sent");
    }

    // ------------------------------------------------------------------ 4. poll_at contract
    struct PollAtOutcome {
        pre: Snap,
        d: Instant,
        early: bool,
        seen: bool,
    }

    fn poll_at_step(phase: u8) -> PollAtOutcome {
        dhcp_env!(dev, iface, cx, now, mac, 1514);
        let nowi = Instant::from_micros(now);
        let mut s = Socket::new();
        any_state_in(&mut s, 16, phase);
        let pre = snap(&s);
        let d = match s.poll_at(cx) {
            PollAt::Time(t) => t,
            _ => {
                assert!(false, "prop:c18_dhcp_client_always_has_a_deadline");
                Instant::from_micros(0)
            }
        };
        if pre.phase == REN {
            assert!(d <= pre.expires_at, "prop:c18_poll_at_not_after_expiry");
            // earliest of the renew/rebind retry instant and the expiry
            let retry = if pre.rebinding { pre.rebind_at } else { pre.renew_at };
            assert!(d == core::cmp::min(retry, pre.expires_at), "prop:c18_poll_at_is_next_renewal_or_expiry");
        } else {
            assert!(d == pre.retry_at, "prop:c18_poll_at_is_next_solicitation");
        }
        let early = nowi < d;
        crate::vdump!("PRE now_us={} poll_at={} {:?}", now, d, s.state);
        let mut seen = false;
        let emit_ok: bool = kani::any();
        let _ = s.dispatch(cx, |_cx, (_ip, _udp, _d)| {
            seen = true;
            if emit_ok { Ok(()) } else { Err(()) }
        });
        let post = snap(&s);
        crate::vdump!("POST seen={} {:?}", seen, s.state);
        let unchanged = same_state(&pre, &post) && post.tid == pre.tid && post.config_changed == pre.config_changed;
        if early {
            assert!(!seen, "prop:c13_nothing_sent_before_poll_at");
            assert!(unchanged, "prop:c13_no_state_change_before_poll_at");
        } else {
            // at or after the deadline something observable happens
            assert!(seen || !unchanged, "prop:c18_deadline_leads_to_message_or_state_change");
        }
        if !seen && unchanged {
            match s.poll_at(cx) {
                PollAt::Time(t) => assert!(t > nowi, "prop:c13_idle_poll_leaves_future_deadline"),
                _ => assert!(false, "prop:c18_dhcp_client_always_has_a_deadline"),
            }
        }
        if post.phase == REN {
            match s.poll_at(cx) {
                PollAt::Time(t) => assert!(t <= post.expires_at, "prop:c18_poll_at_not_after_expiry"),
                _ => assert!(false, "prop:c18_dhcp_client_always_has_a_deadline"),
            }
        }
        PollAtOutcome { pre, d, early, seen }
    }

    // @harness props=C18,C13 cfg=KD tier=q to=900 mem=6 unwind=12 opts=nomem covers=3 funcs=dhcpv4::Socket::poll_at;dhcpv4::Socket::dispatch bounds=any_Discovering_or_Requesting_state;_any_now;_emit_Ok_or_Err;_timeouts<=2^32_s;_request_retries<=16
    #[kani::proof]
    pub(crate) fn dhcp_poll_at_soliciting() {
        let o = poll_at_step(if kani::any() { DISC } else { REQ });
        kani::cover!(o.early && o.pre.phase == REQ, "polled before the REQUEST retry is due");
        kani::cover!(o.early && o.pre.phase == DISC, "polled before the DISCOVER retry is due");
        kani::cover!(!o.early && o.seen, "deadline reached: message sent");
    }

    // @harness props=C18,C13 cfg=KD tier=q to=900 mem=6 unwind=12 opts=nomem covers=4 funcs=dhcpv4::Socket::poll_at;dhcpv4::Socket::dispatch bounds=any_Renewing_state_with_INV_dhcp;_any_now;_emit_Ok_or_Err;_timeouts<=2^32_s_(max_renew_timeout_also_Duration::MAX)
    #[kani::proof]
    pub(crate) fn dhcp_poll_at_renewing() {
        let o = poll_at_step(REN);
        kani::cover!(o.early && o.d == o.pre.expires_at && o.d < o.pre.rebind_at, "deadline is the expiry while rebinding");
        kani::cover!(o.early && o.d < o.pre.expires_at, "polled before the renewal is due");
        kani::cover!(!o.early && o.seen, "renewal deadline reached");
        kani::cover!(!o.early && !o.seen, "expiry deadline reached");
    }

    // ------------------------------------------------------------------ 5. poll(): events
    // @harness props=C18 cfg=KD tier=q to=600 mem=6 unwind=12 opts=nomem covers=3 funcs=dhcpv4::Socket::poll bounds=any_client_state_with_INV_dhcp;_<=3_DNS_servers;_no_receive_packet_buffer
    #[kani::proof]
    pub(crate) fn dhcp_poll_event() {
        let mut s = Socket::new();
        any_state(&mut s, u16::MAX);
        let pre = snap(&s);
        crate::vdump!("PRE changed={} {:?}", pre.config_changed, s.state);
        let mut kind = 0u8;
        {
            let ev = s.poll();
            crate::vdump!("EVENT {:?}", ev);
            match &ev {
                None => {}
                Some(Event::Deconfigured) => kind = 1,
                Some(Event::Configured(c)) => {
                    kind = 2;
                    assert!(pre.phase == REN, "prop:c18_configured_only_while_bound");
                    assert!(c.server == pre.cfg_server && c.address == pre.cfg_addr && c.router == pre.cfg_router && c.packet.is_none(), "prop:c18_event_reports_the_bound_configuration");
                    assert!(c.dns_servers.len() == pre.dns_n, "prop:c18_event_reports_the_bound_configuration");
                    // (constant indices: `==` on elements read at a symbolic index from an array inside a struct gives a
                    // spurious, non-replaying counterexample with Kani 0.68 / CBMC 6.11)
                    assert!(pre.dns_n < 1 || c.dns_servers[0] == pre.dns[0], "prop:c18_event_reports_the_bound_configuration");
                    assert!(pre.dns_n < 2 || c.dns_servers[1] == pre.dns[1], "prop:c18_event_reports_the_bound_configuration");
                    assert!(pre.dns_n < 3 || c.dns_servers[2] == pre.dns[2], "prop:c18_event_reports_the_bound_configuration");
                }
            }
        }
        assert!((kind != 0) == pre.config_changed, "prop:c18_event_exactly_when_flagged");
        if kind == 2 {
            assert!(pre.phase == REN && pre.config_changed, "prop:c18_configured_only_while_bound");
        }
        if kind == 1 {
            assert!(pre.phase != REN && pre.config_changed, "prop:c18_deconfigured_only_while_unbound");
        }
        let post = snap(&s);
        assert!(!post.config_changed, "prop:c18_event_consumed");
        assert!(same_state(&pre, &post) && post.tid == pre.tid, "prop:c18_poll_keeps_protocol_state");
        assert!(s.poll().is_none(), "prop:c18_event_consumed");
        kani::cover!(kind == 2 && pre.dns_n == 3, "Configured with 3 DNS servers");
        kani::cover!(kind == 1 && pre.phase == REQ, "Deconfigured while requesting");
        kani::cover!(kind == 0 && pre.phase == REN, "no event while bound");
    }

    // ------------------------------------------------------------------ 6. history from Socket::new() (thorough tier)
    /// discover-dispatch -> OFFER -> [request-dispatch] -> ACK -> later dispatch, symbolic fields and time advances.
    /// Ghost: which client messages reached the device.
    fn history(with_request_dispatch: bool) -> (bool, bool, bool, bool) {
        let mut dev = NullDev { medium: Medium::Ethernet, mtu: 1514, checksum: ChecksumCapabilities::ignored() };
        let t0: i64 = kani::any();
        kani::assume(t0 >= 0 && t0 < (1i64 << 40));
        let macb: [u8; 6] = kani::any();
        kani::assume(macb[0] & 1 == 0);
        let mac = EthernetAddress(macb);
        let mut iface = Interface::new(IfaceConfig::new(HardwareAddress::Ethernet(mac)), &mut dev, Instant::from_millis(t0));
        *iface.context().rand() = crate::rand::Rand::new(kani::any());
        let mut s = Socket::new();
        let maxl: Option<Duration> = if kani::any() { Some(Duration::from_micros(kani::any())) } else { None };
        s.set_max_lease_duration(maxl);
        s.set_ignore_naks(kani::any());
        assert!(s.poll() == Some(Event::Deconfigured), "prop:c18_new_client_reports_unconfigured");
        let udp_repr = UdpRepr { src_port: DHCP_SERVER_PORT, dst_port: DHCP_CLIENT_PORT };

        // step 1: DISCOVER
        let mut e1 = no_emission();
        let _ = s.dispatch(iface.context(), |_cx, (ip, udp, d)| -> Result<(), ()> {
            record(&mut e1, &ip, &udp, &d);
            Ok(())
        });
        assert!(e1.seen && e1.mt == DhcpMessageType::Discover && e1.dst == Ipv4Address::BROADCAST, "prop:c18_new_client_solicits_immediately");
        crate::vdump!("T0={} DISCOVER xid={:#x} {:?}", t0, e1.xid, s.state);

        // step 2: a server message (OFFER layout, every value symbolic) at t1 >= t0
        let t1: i64 = kani::any();
        kani::assume(t1 >= t0 && t1 < (1i64 << 40));
        iface.poll_maintenance(Instant::from_millis(t1));
        let f1 = any_fields();
        template!(b1, n1, f1, L_FULL);
        let src1 = any_ip();
        let ip1 = Ipv4Repr { src_addr: src1, dst_addr: Ipv4Address::BROADCAST, next_header: IpProtocol::Udp, payload_len: UDP_HEADER_LEN + n1, hop_limit: 64 };
        s.process(iface.context(), &ip1, &udp_repr, &b1[..n1]);
        crate::vdump!("T1={} MSG1 type={} xid={:?} ch={:?} yi={:?} sid={:?} -> {:?}", t1, f1.mt, f1.xid, f1.ch, f1.yi, f1.sid, s.state);
        assert!(s.poll().is_none(), "prop:c18_configured_only_with_request_outstanding");
        let offer_taken = matches!(s.state, ClientState::Requesting(_));

        // step 3: REQUEST
        let t2: i64 = kani::any();
        kani::assume(t2 >= t1 && t2 < (1i64 << 40));
        let mut e2 = no_emission();
        if with_request_dispatch {
            iface.poll_maintenance(Instant::from_millis(t2));
            let _ = s.dispatch(iface.context(), |_cx, (ip, udp, d)| -> Result<(), ()> {
                record(&mut e2, &ip, &udp, &d);
                Ok(())
            });
            crate::vdump!("T2={} CLIENT seen={} type={:?} xid={:#x} req_ip={:?} sid={:?} -> {:?}", t2, e2.seen, e2.mt, e2.xid, e2.req_ip, e2.sid, s.state);
        }
        let request_sent = e2.seen && e2.mt == DhcpMessageType::Request;

        // step 4: a second server message (ACK layout, every value symbolic) at t3 >= t2
        let t3: i64 = kani::any();
        kani::assume(t3 >= t2 && t3 < (1i64 << 40));
        iface.poll_maintenance(Instant::from_millis(t3));
        let f2 = any_fields();
        template!(b2, n2, f2, L_FULL);
        let ip2 = Ipv4Repr { src_addr: any_ip(), dst_addr: Ipv4Address::BROADCAST, next_header: IpProtocol::Udp, payload_len: UDP_HEADER_LEN + n2, hop_limit: 64 };
        s.process(iface.context(), &ip2, &udp_repr, &b2[..n2]);
        crate::vdump!("T3={} MSG2 type={} xid={:?} ch={:?} yi={:?} sid={:?} lease={} mask={:?} -> {:?}", t3, f2.mt, f2.xid, f2.ch, f2.yi, f2.sid, f2.lease, f2.mask, s.state);
        let g = granted_us(Some(f2.lease), maxl);
        let mut configured = false;
        {
            let ev = s.poll();
            crate::vdump!("EVENT {:?}", ev);
            if let Some(Event::Configured(c)) = &ev {
                configured = true;
                assert!(request_sent, "prop:c18_ack_only_after_request_sent");
                assert!(f2.op == 2 && f2.mt == 5, "prop:c18_only_ack_configures");
                assert!(u32::from_be_bytes(f2.xid) == e2.xid || !request_sent, "prop:c18_ack_xid_is_last_request_xid");
                assert!(f2.ch == macb, "prop:c18_ack_for_own_hardware_address");
                assert!(contiguous(f2.mask), "prop:c18_ack_mask_contiguous");
                assert!(unicast(f2.yi), "prop:c18_ack_address_unicast");
                assert!(c.address.address() == Ipv4Address::from_octets(f2.yi) && c.address.prefix_len() == prefix_of(f2.mask), "prop:c18_config_is_ack_address_and_mask");
                // the request named the offered address and the offering server
                assert!(!request_sent || (e2.req_ip == Some(Ipv4Address::from_octets(f1.yi)) && e2.sid == Some(Ipv4Address::from_octets(f1.sid))), "prop:c18_request_names_offered_address_and_server");
            } else {
                assert!(ev.is_none(), "prop:c18_event_only_on_configuration_change");
            }
        }
        if configured {
            match s.poll_at(iface.context()) {
                PollAt::Time(t) => assert!(us(t) <= t3 * 1000 + g as i64, "prop:c18_poll_at_not_after_expiry"),
                _ => assert!(false, "prop:c18_dhcp_client_always_has_a_deadline"),
            }
        }

        // step 5: time passes; no further ACK arrives
        let t4: i64 = kani::any();
        kani::assume(t4 >= t3 && t4 < (1i64 << 41));
        iface.poll_maintenance(Instant::from_millis(t4));
        let mut e3 = no_emission();
        let _ = s.dispatch(iface.context(), |_cx, (ip, udp, d)| -> Result<(), ()> {
            record(&mut e3, &ip, &udp, &d);
            Ok(())
        });
        crate::vdump!("T4={} CLIENT seen={} type={:?} dst={} -> {:?}", t4, e3.seen, e3.mt, e3.dst, s.state);
        let expired = configured && t4 * 1000 >= t3 * 1000 + g as i64;
        {
            let ev = s.poll();
            if expired {
                assert!(ev == Some(Event::Deconfigured), "prop:c18_deconfigured_at_expiry");
                assert!(!e3.seen, "prop:c18_no_renewal_with_expired_lease");
            } else {
                assert!(ev.is_none(), "prop:c18_event_only_on_configuration_change");
            }
        }
        if configured && !expired && e3.seen {
            assert!(e3.mt == DhcpMessageType::Request && e3.src == Ipv4Address::from_octets(f2.yi), "prop:c18_renewal_from_leased_address");
        }
        (configured, expired, configured && !expired && e3.seen && e3.dst == Ipv4Address::BROADCAST, offer_taken)
    }

    // @harness props=C18 cfg=KD tier=t to=3000 mem=12 unwind=12 opts=nomem,fs320 covers=3 funcs=dhcpv4::Socket::new;dhcpv4::Socket::dispatch;dhcpv4::Socket::process;dhcpv4::Socket::poll;dhcpv4::Socket::poll_at;Interface::poll_maintenance bounds=history_new();dispatch;server_message;dispatch;server_message;dispatch_with_4_symbolic_time_advances;_both_messages_layout_{type,server-id,lease,mask,router}_all_values_symbolic;_default_retry_config;_emit_always_Ok
    #[kani::proof]
    pub(crate) fn dhcp_history() {
        let (configured, expired, rebinding, _offer_taken) = history(true);
        kani::cover!(configured && !expired, "configured and still within the lease");
        kani::cover!(configured && expired, "configured, then the lease expired");
        kani::cover!(rebinding, "rebinding broadcast after T2");
    }

    // the replayable history behind `finding_dhcp_ack_before_request`: DISCOVER, OFFER, ACK without any REQUEST
    // @harness props=C18 cfg=KD tier=t to=3000 mem=12 unwind=12 opts=nomem,fs320 covers=1 funcs=dhcpv4::Socket::new;dhcpv4::Socket::dispatch;dhcpv4::Socket::process;dhcpv4::Socket::poll bounds=history_new();dispatch;server_message;server_message;dispatch;_both_messages_layout_{type,server-id,lease,mask,router}_all_values_symbolic;_default_retry_config
    #[kani::proof]
    pub(crate) fn finding_dhcp_history_ack_without_request() {
        let (configured, _expired, _rebinding, offer_taken) = history(false);
        kani::cover!(offer_taken && !configured, "OFFER accepted, second message did not configure the client");
    }

    // ------------------------------------------------------------------ must-fail twin
    // @harness props=C18 kind=mustfail cfg=KD tier=q to=600 mem=6 unwind=12 opts=nomem
    #[kani::proof]
    pub(crate) fn dhcp_must_fail() {
        dhcp_env!(dev, iface, cx, now, mac, 1514);
        let mut s = Socket::new();
        any_state(&mut s, 16);
        let pre = snap(&s);
        let _ = s.dispatch(cx, |_cx, (_ip, _udp, _d)| -> Result<(), ()> { Ok(()) });
        let post = snap(&s);
        assert!(post.phase == pre.phase, "prop:deliberately_false_dispatch_never_changes_phase");
    }
}
