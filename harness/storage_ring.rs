// C14 — RingBuffer is a faithful bounded FIFO queue (and random-access window).
// Spliced into src/storage/ring_buffer.rs (private fields reachable).
#[allow(dead_code, unused_imports, unused_variables)]
mod v_storage_ring {
    use super::*;
    use crate::verif_common::*;

    /// largest capacity explored; every capacity 0..=N is covered (symbolic)
    const N: usize = 6;

    /// Arbitrary ring satisfying INV_ring; every such state is API-reachable
    /// (`ring_inv_states_reachable`).  Contents are symbolic.
    fn any_ring(arr: &mut [u8; N]) -> RingBuffer<'_, u8> {
        let cap = any_le(N);
        let read_at: usize = kani::any();
        let length: usize = kani::any();
        kani::assume(length <= cap);
        kani::assume(if cap == 0 { read_at == 0 } else { read_at < cap });
        let mut r = RingBuffer::new(&mut arr[..cap]);
        r.read_at = read_at;
        r.length = length;
        r
    }

    fn inv(r: &RingBuffer<'_, u8>) -> bool {
        let cap = r.storage.len();
        r.length <= cap && (if cap == 0 { r.read_at == 0 } else { r.read_at < cap })
    }

    /// element at logical position i counted from the read pointer (i < cap):
    /// positions < len are the queue, positions >= len the unallocated window in order
    fn logical(r: &RingBuffer<'_, u8>, i: usize) -> u8 {
        let cap = r.storage.len();
        r.storage[(r.read_at + i) % cap]
    }

    struct Snap {
        cap: usize,
        len: usize,
        read_at: usize,
        l: [u8; N],
    }

    fn snap(r: &RingBuffer<'_, u8>) -> Snap {
        let cap = r.storage.len();
        let mut l = [0u8; N];
        let mut i = 0;
        while i < N {
            if i < cap {
                l[i] = logical(r, i);
            }
            i += 1;
        }
        Snap { cap, len: r.length, read_at: r.read_at, l }
    }

    /// post-state queue = pre-state queue with `deq` elements removed at the front and
    /// `enq` elements appended (appended values given by `val(j)`), checked at a symbolic index;
    /// `keep_window`: the unallocated window keeps its contents in order (random-access users rely on it)
    fn check_queue(r: &RingBuffer<'_, u8>, pre: &Snap, deq: usize, enq: usize, new0: u8, new1: u8, new_known: bool, keep_window: bool) {
        assert!(inv(r), "prop:c14_ring_invariant");
        assert!(r.capacity() == pre.cap, "prop:c14_capacity_constant");
        assert!(r.len() == pre.len - deq + enq, "prop:c14_len_matches_model");
        assert!(r.len() <= r.capacity(), "prop:c14_never_exceeds_capacity");
        assert!(r.window() == pre.cap - r.len(), "prop:c14_window_matches_model");
        assert!(r.is_empty() == (r.len() == 0) && r.is_full() == (r.len() == pre.cap), "prop:c14_empty_full_flags");
        if pre.cap > 0 {
            let k = any_lt(N);
            kani::assume(k < pre.cap);
            if k < pre.len - deq {
                assert!(logical(r, k) == pre.l[k + deq], "prop:c14_queue_contents_in_order");
            } else if k < r.len() {
                if new_known {
                    let j = k - (pre.len - deq);
                    let want = if j == 0 { new0 } else { new1 };
                    if j < 2 {
                        assert!(logical(r, k) == want, "prop:c14_enqueued_value_stored");
                    }
                }
            } else if keep_window {
                assert!(logical(r, k) == pre.l[(k + deq) % pre.cap], "prop:c14_window_contents_kept");
            }
        }
    }

    // @harness props=C14 tier=q to=300 mem=4 unwind=8 opts=nomem covers=2 funcs=RingBuffer::enqueue_unallocated;RingBuffer::dequeue_allocated bounds=capacity_0..=6
    #[kani::proof]
    pub(crate) fn ring_inv_states_reachable() {
        // every INV state (cap, read_at, length) is reached by enqueue_unallocated(a); dequeue_allocated(a); enqueue_unallocated(b)
        let mut arr: [u8; N] = kani::any();
        let cap = any_le(N);
        let a: usize = kani::any();
        let b: usize = kani::any();
        kani::assume(a <= cap && b <= cap);
        let mut r = RingBuffer::new(&mut arr[..cap]);
        r.enqueue_unallocated(a);
        r.dequeue_allocated(a);
        r.enqueue_unallocated(b);
        assert!(inv(&r), "prop:c14_ring_invariant");
        assert!(r.length == b, "prop:c14_prefix_reaches_length");
        assert!(r.read_at == (if cap == 0 { 0 } else { a % cap }), "prop:c14_prefix_reaches_read_at");
        kani::cover!(cap == N && r.read_at == N - 1 && r.length == N, "full wrapped ring");
        kani::cover!(cap == 0, "zero capacity");
    }

    // @harness props=C14 tier=q to=300 mem=4 unwind=8 opts=nomem covers=2 funcs=RingBuffer::enqueue_one;RingBuffer::enqueue_one_with bounds=capacity_0..=6;_arbitrary_INV_state
    #[kani::proof]
    pub(crate) fn ring_enqueue_one() {
        let mut arr: [u8; N] = kani::any();
        let mut r = any_ring(&mut arr);
        let pre = snap(&r);
        let v: u8 = kani::any();
        let decline: bool = kani::any();
        let with: bool = kani::any();
        if with {
            let res = r.enqueue_one_with(|slot| {
                if decline { Err(()) } else { *slot = v; Ok(7u8) }
            });
            match res {
                Err(Full) => {
                    assert!(pre.len == pre.cap, "prop:c14_full_only_when_full");
                    check_queue(&r, &pre, 0, 0, 0, 0, false, true);
                }
                Ok(Err(())) => {
                    assert!(pre.len < pre.cap && decline, "prop:c14_callback_error_passed_through");
                    check_queue(&r, &pre, 0, 0, 0, 0, false, true);
                }
                Ok(Ok(x)) => {
                    assert!(x == 7 && pre.len < pre.cap && !decline, "prop:c14_callback_result_passed_through");
                    check_queue(&r, &pre, 0, 1, v, 0, true, true);
                }
            }
        } else {
            match r.enqueue_one() {
                Err(Full) => {
                    assert!(pre.len == pre.cap, "prop:c14_full_only_when_full");
                    check_queue(&r, &pre, 0, 0, 0, 0, false, true);
                }
                Ok(slot) => {
                    *slot = v;
                    assert!(pre.len < pre.cap, "prop:c14_no_enqueue_when_full");
                    check_queue(&r, &pre, 0, 1, v, 0, true, true);
                }
            }
        }
        kani::cover!(r.len() == pre.len + 1 && pre.read_at + pre.len >= pre.cap, "enqueued at a wrapped position");
        kani::cover!(pre.len == pre.cap && pre.cap > 0, "refused: full");
    }

    // @harness props=C14 tier=q to=300 mem=4 unwind=8 opts=nomem covers=2 funcs=RingBuffer::dequeue_one;RingBuffer::dequeue_one_with bounds=capacity_0..=6;_arbitrary_INV_state
    #[kani::proof]
    pub(crate) fn ring_dequeue_one() {
        let mut arr: [u8; N] = kani::any();
        let mut r = any_ring(&mut arr);
        let pre = snap(&r);
        let decline: bool = kani::any();
        let with: bool = kani::any();
        if with {
            let res = r.dequeue_one_with(|slot| if decline { Err(()) } else { Ok(*slot) });
            match res {
                Err(Empty) => {
                    assert!(pre.len == 0, "prop:c14_empty_only_when_empty");
                    check_queue(&r, &pre, 0, 0, 0, 0, false, true);
                }
                Ok(Err(())) => {
                    assert!(pre.len > 0 && decline, "prop:c14_callback_error_passed_through");
                    check_queue(&r, &pre, 0, 0, 0, 0, false, true);
                }
                Ok(Ok(x)) => {
                    assert!(pre.len > 0 && x == pre.l[0], "prop:c14_dequeue_returns_oldest");
                    check_queue(&r, &pre, 1, 0, 0, 0, false, true);
                }
            }
        } else {
            match r.dequeue_one() {
                Err(Empty) => {
                    assert!(pre.len == 0, "prop:c14_empty_only_when_empty");
                    check_queue(&r, &pre, 0, 0, 0, 0, false, true);
                }
                Ok(slot) => {
                    let x = *slot;
                    assert!(pre.len > 0 && x == pre.l[0], "prop:c14_dequeue_returns_oldest");
                    check_queue(&r, &pre, 1, 0, 0, 0, false, true);
                }
            }
        }
        kani::cover!(r.len() + 1 == pre.len && pre.read_at + 1 == pre.cap, "dequeued across the wrap");
        kani::cover!(pre.len == 0, "refused: empty");
    }

    // @harness props=C14 tier=q to=300 mem=4 unwind=8 opts=nomem covers=2 funcs=RingBuffer::enqueue_many;RingBuffer::enqueue_many_with;RingBuffer::contiguous_window bounds=capacity_0..=6;_size_0..=8
    #[kani::proof]
    pub(crate) fn ring_enqueue_many() {
        let mut arr: [u8; N] = kani::any();
        let mut r = any_ring(&mut arr);
        let pre = snap(&r);
        let size = any_le(N + 2);
        let v0: u8 = kani::any();
        let v1: u8 = kani::any();
        // model: an empty ring is re-based; the slice handed out is the largest contiguous free run
        let base = if pre.len == 0 { 0 } else { pre.read_at };
        let write_at = if pre.cap == 0 { 0 } else { (base + pre.len) % pre.cap };
        let contig = core::cmp::min(pre.cap - pre.len, pre.cap - write_at);
        let with: bool = kani::any();
        let n;
        if with {
            let take = any_le(N + 2);
            let mut seen = 0;
            let (sz, tag) = r.enqueue_many_with(|buf| {
                seen = buf.len();
                let t = core::cmp::min(take, buf.len());
                if t > 0 { buf[0] = v0; }
                if t > 1 { buf[1] = v1; }
                (t, 9u8)
            });
            assert!(seen == contig, "prop:c14_enqueue_many_with_offers_largest_contiguous_run");
            assert!(tag == 9 && sz == core::cmp::min(take, contig), "prop:c14_enqueue_many_with_result_passed_through");
            n = sz;
        } else {
            let s = r.enqueue_many(size);
            n = s.len();
            if n > 0 { s[0] = v0; }
            if n > 1 { s[1] = v1; }
            assert!(n == core::cmp::min(size, contig), "prop:c14_enqueue_many_len");
        }
        assert!(contig > 0 || pre.len == pre.cap, "prop:c14_progress_unless_full");
        // the unallocated window keeps its order only when the ring was not re-based
        check_queue(&r, &pre, 0, n, v0, v1, true, pre.len != 0);
        kani::cover!(n >= 2 && pre.len > 0, "two or more enqueued behind existing data");
        kani::cover!(n > 0 && pre.len == 0 && pre.read_at != 0, "re-based empty ring");
    }

    // @harness props=C14 tier=q to=300 mem=4 unwind=8 opts=nomem covers=2 funcs=RingBuffer::enqueue_slice bounds=capacity_0..=6;_data_length_0..=8
    #[kani::proof]
    pub(crate) fn ring_enqueue_slice() {
        let mut arr: [u8; N] = kani::any();
        let mut r = any_ring(&mut arr);
        let pre = snap(&r);
        let data: [u8; N + 2] = kani::any();
        let dl = any_le(N + 2);
        let n = r.enqueue_slice(&data[..dl]);
        assert!(n == core::cmp::min(dl, pre.cap - pre.len), "prop:c14_enqueue_slice_takes_all_that_fits");
        assert!(inv(&r) && r.len() == pre.len + n, "prop:c14_len_matches_model");
        if pre.cap > 0 {
            let k = any_lt(N);
            kani::assume(k < r.len());
            if k < pre.len {
                assert!(logical(&r, k) == pre.l[k], "prop:c14_queue_contents_in_order");
            } else {
                assert!(logical(&r, k) == data[k - pre.len], "prop:c14_enqueued_value_stored");
            }
        }
        kani::cover!(n >= 3 && pre.len > 0 && pre.read_at + pre.len < pre.cap && pre.read_at + pre.len + n > pre.cap, "slice wrapped around the end");
        kani::cover!(n < dl, "slice cut: ring full");
    }

    // @harness props=C14 tier=q to=300 mem=4 unwind=8 opts=nomem covers=2 funcs=RingBuffer::dequeue_many;RingBuffer::dequeue_many_with bounds=capacity_0..=6;_size_0..=8
    #[kani::proof]
    pub(crate) fn ring_dequeue_many() {
        let mut arr: [u8; N] = kani::any();
        let mut r = any_ring(&mut arr);
        let pre = snap(&r);
        let size = any_le(N + 2);
        let contig = core::cmp::min(pre.len, pre.cap - pre.read_at);
        let j = any_lt(N);
        let with: bool = kani::any();
        let n;
        if with {
            let take = any_le(N + 2);
            let mut seen = 0;
            let mut vj = 0u8;
            let (sz, tag) = r.dequeue_many_with(|buf| {
                seen = buf.len();
                if j < buf.len() { vj = buf[j]; }
                (core::cmp::min(take, buf.len()), 9u8)
            });
            assert!(seen == contig, "prop:c14_dequeue_many_with_offers_largest_contiguous_run");
            assert!(tag == 9 && sz == core::cmp::min(take, contig), "prop:c14_dequeue_many_with_result_passed_through");
            if j < seen { assert!(vj == pre.l[j], "prop:c14_dequeue_returns_oldest"); }
            n = sz;
        } else {
            let s = r.dequeue_many(size);
            n = s.len();
            if j < n { assert!(s[j] == pre.l[j], "prop:c14_dequeue_returns_oldest"); }
            assert!(n == core::cmp::min(size, contig), "prop:c14_dequeue_many_len");
        }
        assert!(contig > 0 || pre.len == 0, "prop:c14_progress_unless_empty");
        check_queue(&r, &pre, n, 0, 0, 0, false, true);
        kani::cover!(n >= 2 && r.len() > 0, "two or more dequeued, some remain");
        kani::cover!(n > 0 && n < size && n < pre.len, "cut at the end of storage");
    }

    // @harness props=C14 tier=q to=300 mem=4 unwind=8 opts=nomem covers=2 funcs=RingBuffer::dequeue_slice bounds=capacity_0..=6;_data_length_0..=8
    #[kani::proof]
    pub(crate) fn ring_dequeue_slice() {
        let mut arr: [u8; N] = kani::any();
        let mut r = any_ring(&mut arr);
        let pre = snap(&r);
        let mut data = [0u8; N + 2];
        let dl = any_le(N + 2);
        let n = r.dequeue_slice(&mut data[..dl]);
        assert!(n == core::cmp::min(dl, pre.len), "prop:c14_dequeue_slice_takes_all_available");
        let j = any_lt(N);
        if j < n { assert!(data[j] == pre.l[j], "prop:c14_dequeue_returns_oldest"); }
        check_queue(&r, &pre, n, 0, 0, 0, false, true);
        kani::cover!(n >= 3 && pre.read_at + n > pre.cap, "read across the wrap");
        kani::cover!(n < dl, "ring drained");
    }

    // @harness props=C14,C04 tier=q to=300 mem=4 unwind=8 opts=nomem covers=2 funcs=RingBuffer::get_unallocated;RingBuffer::write_unallocated;RingBuffer::enqueue_unallocated bounds=capacity_0..=6;_offset,size_0..=8
    #[kani::proof]
    pub(crate) fn ring_unallocated() {
        let mut arr: [u8; N] = kani::any();
        let mut r = any_ring(&mut arr);
        let pre = snap(&r);
        let window = pre.cap - pre.len;
        let off = any_le(N + 2);
        let data: [u8; N + 2] = kani::any();
        let dl = any_le(N + 2);
        // get_unallocated: a sub-slice of the window starting at logical position len+off
        {
            let size = any_le(N + 2);
            let start = if pre.cap == 0 { 0 } else { (pre.read_at + pre.len + off) % pre.cap };
            let s = r.get_unallocated(off, size);
            let n = s.len();
            if off > window {
                assert!(n == 0, "prop:c14_get_unallocated_empty_past_window");
            } else {
                assert!(n == core::cmp::min(core::cmp::min(size, window - off), pre.cap - start), "prop:c14_get_unallocated_len");
                let j = any_lt(N);
                if j < n { assert!(s[j] == pre.l[pre.len + off + j], "prop:c14_get_unallocated_is_window_view"); }
            }
        }
        check_queue(&r, &pre, 0, 0, 0, 0, false, true);
        // write_unallocated: writes exactly min(dl, window-off) bytes at window offset off, nothing else changes
        let w = r.write_unallocated(off, &data[..dl]);
        let want = if off > window { 0 } else { core::cmp::min(dl, window - off) };
        assert!(w == want, "prop:c14_write_unallocated_writes_all_that_fits");
        assert!(inv(&r) && r.len() == pre.len && r.read_at == pre.read_at, "prop:c14_write_unallocated_does_not_enqueue");
        if pre.cap > 0 {
            let k = any_lt(N);
            kani::assume(k < pre.cap);
            let in_written = k >= pre.len + off && k < pre.len + off + w;
            if in_written {
                assert!(logical(&r, k) == data[k - pre.len - off], "prop:c14_write_unallocated_stores_bytes_at_offset");
            } else {
                assert!(logical(&r, k) == pre.l[k], "prop:c14_write_unallocated_touches_nothing_else");
            }
        }
        // enqueue_unallocated(count <= window) turns the first count window bytes into queue bytes
        let count = any_le(N);
        kani::assume(count <= window);
        let mid = snap(&r);
        r.enqueue_unallocated(count);
        assert!(inv(&r) && r.len() == pre.len + count && r.read_at == pre.read_at, "prop:c14_enqueue_unallocated_extends_queue");
        if pre.cap > 0 {
            let k = any_lt(N);
            kani::assume(k < pre.cap);
            assert!(logical(&r, k) == mid.l[k], "prop:c14_enqueue_unallocated_keeps_contents");
        }
        kani::cover!(w >= 2 && off > 0 && pre.len > 0 && count > off, "out-of-order write later enqueued");
        kani::cover!(w >= 2 && (pre.read_at + pre.len + off) % pre.cap + w > pre.cap, "write wrapped");
    }

    // @harness props=C14 tier=q to=300 mem=4 unwind=8 opts=nomem covers=2 funcs=RingBuffer::get_allocated;RingBuffer::read_allocated;RingBuffer::dequeue_allocated;RingBuffer::clear bounds=capacity_0..=6;_offset,size_0..=8
    #[kani::proof]
    pub(crate) fn ring_allocated() {
        let mut arr: [u8; N] = kani::any();
        let mut r = any_ring(&mut arr);
        let pre = snap(&r);
        let off = any_le(N + 2);
        {
            let size = any_le(N + 2);
            let start = if pre.cap == 0 { 0 } else { (pre.read_at + off) % pre.cap };
            let s = r.get_allocated(off, size);
            let n = s.len();
            if off > pre.len {
                assert!(n == 0, "prop:c14_get_allocated_empty_past_len");
            } else {
                assert!(n == core::cmp::min(core::cmp::min(size, pre.len - off), pre.cap - start), "prop:c14_get_allocated_len");
                let j = any_lt(N);
                if j < n { assert!(s[j] == pre.l[off + j], "prop:c14_get_allocated_is_queue_view"); }
            }
        }
        let mut data = [0u8; N + 2];
        let dl = any_le(N + 2);
        let n = r.read_allocated(off, &mut data[..dl]);
        let want = if off > pre.len { 0 } else { core::cmp::min(dl, pre.len - off) };
        assert!(n == want, "prop:c14_read_allocated_reads_all_available");
        let j = any_lt(N);
        if j < n { assert!(data[j] == pre.l[off + j], "prop:c14_read_allocated_returns_queue_bytes"); }
        check_queue(&r, &pre, 0, 0, 0, 0, false, true);
        let count = any_le(N);
        kani::assume(count <= pre.len);
        r.dequeue_allocated(count);
        check_queue(&r, &pre, count, 0, 0, 0, false, true);
        kani::cover!(n >= 2 && off > 0 && pre.read_at + off + n > pre.cap, "read wrapped");
        kani::cover!(count > 0 && r.len() > 0, "partial dequeue_allocated");
        let clr: bool = kani::any();
        if clr {
            r.clear();
            assert!(r.len() == 0 && r.is_empty() && r.window() == pre.cap && inv(&r), "prop:c14_clear_empties");
        }
    }

    // two-step: random-access write, queue op, then enqueue_unallocated — the combination TCP reassembly uses
    // @harness props=C14,C04 tier=q to=600 mem=6 unwind=8 opts=nomem covers=1 funcs=RingBuffer::write_unallocated;RingBuffer::dequeue_many;RingBuffer::dequeue_allocated;RingBuffer::enqueue_unallocated bounds=capacity_0..=6
    #[kani::proof]
    pub(crate) fn ring_random_then_queue() {
        let mut arr: [u8; N] = kani::any();
        let mut r = any_ring(&mut arr);
        let pre = snap(&r);
        let window = pre.cap - pre.len;
        let off = any_le(N);
        let data: [u8; N] = kani::any();
        let dl = any_le(N);
        kani::assume(off + dl <= window);
        let w = r.write_unallocated(off, &data[..dl]);
        assert!(w == dl, "prop:c14_write_unallocated_writes_all_that_fits");
        // the application reads some bytes in between
        let take = any_le(N);
        let via_many: bool = kani::any();
        let got = if via_many { r.dequeue_many(take).len() } else {
            let c = core::cmp::min(take, pre.len);
            r.dequeue_allocated(c);
            c
        };
        // then the hole is filled and the out-of-order bytes become queue bytes
        r.enqueue_unallocated(off + dl);
        assert!(inv(&r) && r.len() == pre.len - got + off + dl, "prop:c14_len_matches_model");
        if dl > 0 {
            let j = any_lt(N);
            kani::assume(j < dl);
            assert!(logical(&r, pre.len - got + off + j) == data[j], "prop:c14_out_of_order_bytes_survive_queue_ops");
        }
        kani::cover!(dl >= 2 && off >= 1 && got >= 1, "write, read, then commit");
    }

    // @harness props=C14 kind=mustfail tier=q to=300 mem=4 unwind=8 opts=nomem
    #[kani::proof]
    pub(crate) fn ring_must_fail() {
        let mut arr: [u8; N] = kani::any();
        let mut r = any_ring(&mut arr);
        let pre = snap(&r);
        let data: [u8; 4] = kani::any();
        let n = r.enqueue_slice(&data);
        assert!(n == 4, "prop:deliberately_false_enqueue_slice_always_fits");
    }
}

// Accessors used by harnesses living in other modules (tcp, udp, ...): only compiled under cfg(kani).
#[allow(dead_code)]
impl<'a, T: 'a> RingBuffer<'a, T> {
    pub(crate) fn verif_set(&mut self, read_at: usize, length: usize) {
        self.read_at = read_at;
        self.length = length;
    }
    pub(crate) fn verif_read_at(&self) -> usize {
        self.read_at
    }
    pub(crate) fn verif_storage(&mut self) -> &mut [T] {
        &mut self.storage[..]
    }
    pub(crate) fn verif_storage_ref(&self) -> &[T] {
        &self.storage[..]
    }
    /// INV_ring
    pub(crate) fn verif_inv(&self) -> bool {
        let cap = self.storage.len();
        self.length <= cap && (if cap == 0 { self.read_at == 0 } else { self.read_at < cap })
    }
}
