// C16 — route table: `Routes::lookup` = gateway of the longest-prefix route among those not expired, and the
// default-route helpers.  Spliced into src/iface/route.rs (private `storage` reachable).
//
// Pre-state: `Routes::new()` + <= 2 (= IFACE_MAX_ROUTE_COUNT in KI4/KI6) symbolic routes pushed through the public
// `update` closure - every table a user can build.  Expiry convention of the code (kept by the reference, stated
// here): a route with `expires_at = Some(t)` is live while `now <= t` (it is dropped when `now > t`), `None` = forever;
// `preferred_until` does not take part in lookups.  Among several live matching routes of the same maximal prefix
// length any of them is accepted (the code returns the last one).
#[allow(dead_code, unused_imports, unused_variables, unused_mut)]
mod v_iface_route {
    use super::*;
    use crate::verif_common::*;

    const T_MAX: i64 = 1i64 << 50; // microseconds

    #[cfg(feature = "proto-ipv4")]
    fn any_v4() -> IpAddress {
        let o: [u8; 4] = kani::any();
        IpAddress::Ipv4(Ipv4Address::from(o))
    }
    #[cfg(feature = "proto-ipv6")]
    fn any_v6() -> IpAddress {
        let o: [u8; 16] = kani::any();
        IpAddress::Ipv6(Ipv6Address::from(o))
    }
    /// any address of an enabled IP version (not necessarily unicast)
    fn any_addr() -> IpAddress {
        #[cfg(all(feature = "proto-ipv4", feature = "proto-ipv6"))]
        let a = if kani::any() { any_v4() } else { any_v6() };
        #[cfg(all(feature = "proto-ipv4", not(feature = "proto-ipv6")))]
        let a = any_v4();
        #[cfg(all(not(feature = "proto-ipv4"), feature = "proto-ipv6"))]
        let a = any_v6();
        a
    }
    fn max_prefix(a: &IpAddress) -> u8 {
        match a {
            #[cfg(feature = "proto-ipv4")]
            IpAddress::Ipv4(_) => 32,
            #[cfg(feature = "proto-ipv6")]
            IpAddress::Ipv6(_) => 128,
        }
    }
    fn any_instant(lo: i64, hi: i64) -> Instant {
        let t: i64 = kani::any();
        kani::assume(t >= lo && t <= hi);
        Instant::from_micros(t)
    }
    fn any_opt_instant() -> Option<Instant> {
        if kani::any() { Some(any_instant(0, T_MAX)) } else { None }
    }
    fn any_route() -> Route {
        let net = any_addr();
        let pl: u8 = kani::any();
        kani::assume(pl <= max_prefix(&net));
        let via = any_addr();
        kani::assume(via.is_unicast());
        Route { cidr: IpCidr::new(net, pl), via_router: via, preferred_until: any_opt_instant(), expires_at: any_opt_instant() }
    }

    /// independent reference for "addr lies in net/pl": the top `pl` bits agree
    fn ref_contains(cidr: &IpCidr, a: &IpAddress) -> bool {
        let pl = cidr.prefix_len() as u32;
        match (cidr.address(), a) {
            #[cfg(feature = "proto-ipv4")]
            (IpAddress::Ipv4(n), IpAddress::Ipv4(a)) => {
                let x = u32::from_be_bytes(n.octets()) ^ u32::from_be_bytes(a.octets());
                pl == 0 || (x >> (32 - pl)) == 0
            }
            #[cfg(feature = "proto-ipv6")]
            (IpAddress::Ipv6(n), IpAddress::Ipv6(a)) => {
                let x = u128::from_be_bytes(n.octets()) ^ u128::from_be_bytes(a.octets());
                pl == 0 || (x >> (128 - pl)) == 0
            }
            #[allow(unreachable_patterns)]
            _ => false,
        }
    }
    fn live(r: &Route, now: Instant) -> bool {
        match r.expires_at {
            Some(t) => now <= t,
            None => true,
        }
    }
    fn usable(r: &Route, a: &IpAddress, now: Instant) -> bool {
        live(r, now) && ref_contains(&r.cidr, a)
    }

    /// `got` is what the reference allows for the table [r0, r1][..n]
    fn check_lookup(got: Option<IpAddress>, n: usize, r0: &Route, r1: &Route, a: &IpAddress, now: Instant) {
        let u0 = n >= 1 && usable(r0, a, now);
        let u1 = n >= 2 && usable(r1, a, now);
        match got {
            None => assert!(!u0 && !u1, "prop:c16_route_found_whenever_a_live_route_matches"),
            Some(gw) => {
                assert!(u0 || u1, "prop:c16_no_gateway_without_a_live_matching_route");
                let best0 = u0 && (!u1 || r0.cidr.prefix_len() >= r1.cidr.prefix_len());
                let best1 = u1 && (!u0 || r1.cidr.prefix_len() >= r0.cidr.prefix_len());
                assert!((best0 && gw == r0.via_router) || (best1 && gw == r1.via_router), "prop:c16_gateway_of_longest_prefix_live_route");
            }
        }
    }

    // @harness props=C16 cfg=KI4,KI6 tier=q to=600 mem=8 unwind=KI4:8,KI6:18 opts=nomem covers=4 funcs=route::Routes::lookup;route::Routes::update;IpCidr::contains_addr bounds=table_of_0..=2_routes_(IFACE_MAX_ROUTE_COUNT=2);_any_network_address_and_any_prefix_length_0..=32_(0..=128_for_IPv6),_any_unicast_gateway,_any_expires_at/preferred_until_or_none;_any_unicast_destination;_any_instant_(microseconds)
    #[kani::proof]
    pub(crate) fn route_longest_prefix() {
        let now = any_instant(0, T_MAX);
        let n = any_le(2);
        let r0 = any_route();
        let r1 = any_route();
        let mut routes = Routes::new();
        // (each case pushes at a concrete length)
        match n {
            0 => {}
            1 => routes.update(|v| {
                v.push(r0).unwrap();
            }),
            _ => routes.update(|v| {
                v.push(r0).unwrap();
                v.push(r1).unwrap();
            }),
        }
        let a = any_addr();
        kani::assume(a.is_unicast());
        let got = routes.lookup(&a, now);
        check_lookup(got, n, &r0, &r1, &a, now);
        assert!(routes.storage.len() == n, "prop:c16_lookup_is_pure");
        let u0 = n >= 1 && usable(&r0, &a, now);
        let u1 = n >= 2 && usable(&r1, &a, now);
        kani::cover!(u0 && u1 && r0.cidr.prefix_len() > r1.cidr.prefix_len() && r1.cidr.prefix_len() > 0, "first route more specific than second");
        kani::cover!(u0 && u1 && r0.cidr.prefix_len() < r1.cidr.prefix_len(), "second route more specific");
        kani::cover!(n == 2 && !live(&r1, now) && ref_contains(&r1.cidr, &a) && r1.cidr.prefix_len() > r0.cidr.prefix_len() && got.is_some(), "more specific route expired, fell back");
        kani::cover!(n == 2 && got.is_none(), "two routes, none usable");
    }

    fn is_default(r: &Route) -> bool {
        #[cfg(feature = "proto-ipv4")]
        if r.is_ipv4_gateway() {
            return true;
        }
        #[cfg(feature = "proto-ipv6")]
        if r.is_ipv6_gateway() {
            return true;
        }
        false
    }
    fn same_route(a: &Route, b: &Route) -> bool {
        a.cidr == b.cidr && a.via_router == b.via_router && a.preferred_until == b.preferred_until && a.expires_at == b.expires_at
    }

    // @harness props=C16 cfg=KI4 tier=q to=600 mem=8 unwind=8 opts=nomem covers=4 funcs=route::Routes::add_default_ipv4_route;route::Routes::add_default_ipv6_route;route::Routes::remove_default_ipv4_route;route::Routes::remove_default_ipv6_route;route::Routes::get_default_ipv4_route;route::Routes::lookup bounds=table_of_0..=2_routes_with_at_most_one_default_route;_any_unicast_gateway;_any_unicast_destination;_IPv4_only_(under_KI6_the_same_harness_runs_out_of_8_GB)
    #[kani::proof]
    pub(crate) fn route_default_gateway() {
        let now = any_instant(0, T_MAX);
        let n = any_le(2);
        let r0 = any_route();
        let r1 = any_route();
        // stated pre-condition: at most one default route (what add_default_* maintains; `update` could push duplicates)
        kani::assume(!(n == 2 && is_default(&r0) && is_default(&r1)));
        let mut routes = Routes::new();
        // (each case pushes at a concrete length)
        match n {
            0 => {}
            1 => routes.update(|v| {
                v.push(r0).unwrap();
            }),
            _ => routes.update(|v| {
                v.push(r0).unwrap();
                v.push(r1).unwrap();
            }),
        }
        let d0 = n >= 1 && is_default(&r0);
        let d1 = n >= 2 && is_default(&r1);
        let gw = any_addr();
        kani::assume(gw.is_unicast());
        let res = match gw {
            #[cfg(feature = "proto-ipv4")]
            IpAddress::Ipv4(g) => routes.add_default_ipv4_route(g),
            #[cfg(feature = "proto-ipv6")]
            IpAddress::Ipv6(g) => routes.add_default_ipv6_route(g),
        };
        let a = any_addr();
        kani::assume(a.is_unicast());
        match res {
            Err(RouteTableFull) => {
                // only when there was no default to replace and no room; nothing changed
                assert!(n == 2 && !d0 && !d1, "prop:c16_default_route_refused_only_when_full");
                assert!(routes.storage.len() == 2 && same_route(&routes.storage[0], &r0) && same_route(&routes.storage[1], &r1), "prop:c16_refused_default_route_changes_nothing");
            }
            Ok(old) => {
                match old {
                    Some(o) => assert!((d0 && same_route(&o, &r0)) || (d1 && same_route(&o, &r1)), "prop:c16_returns_previous_default_route"),
                    None => assert!(!d0 && !d1, "prop:c16_returns_previous_default_route"),
                }
                let had = d0 || d1;
                assert!(routes.storage.len() == if had { n } else { n + 1 }, "prop:c16_default_route_replaced_not_duplicated");
                // the new default is last, forever, via gw; the non-default routes are kept in order
                let last = routes.storage[routes.storage.len() - 1];
                assert!(is_default(&last) && last.via_router == gw && last.expires_at.is_none() && last.preferred_until.is_none(), "prop:c16_new_default_route_installed");
                if n == 2 && d0 {
                    assert!(same_route(&routes.storage[0], &r1), "prop:c16_other_routes_kept");
                } else if n >= 1 && !d0 {
                    assert!(same_route(&routes.storage[0], &r0), "prop:c16_other_routes_kept");
                }
                if n == 2 && !d0 && !d1 {
                    assert!(false, "prop:c16_default_route_refused_only_when_full");
                }
                // lookups: a destination no other live route covers goes to the new gateway
                let o0 = n >= 1 && !d0 && usable(&r0, &a, now);
                let o1 = n >= 2 && !d1 && usable(&r1, &a, now);
                let got = routes.lookup(&a, now);
                if max_prefix(&a) == max_prefix(&gw) {
                    assert!(got.is_some(), "prop:c16_route_found_whenever_a_live_route_matches");
                    if !o0 && !o1 {
                        assert!(got == Some(gw), "prop:c16_default_route_used_when_nothing_more_specific");
                    }
                    if o0 && r0.cidr.prefix_len() > 0 && !o1 {
                        assert!(got == Some(r0.via_router), "prop:c16_gateway_of_longest_prefix_live_route");
                    }
                }
                // at most one default afterwards (inv)
                let k = any_lt(2);
                if k + 1 < routes.storage.len() {
                    assert!(!is_default(&routes.storage[k]), "inv:routes_at_most_one_default");
                }
                kani::cover!(had && n == 2, "default replaced in a full table");
                kani::cover!(o0 && r0.cidr.prefix_len() > 0 && got == Some(r0.via_router), "more specific route wins over the default");
            }
        }
        kani::cover!(res.is_err(), "table full, refused");
        // removing: returns it, afterwards there is none
        let removed = match gw {
            #[cfg(feature = "proto-ipv4")]
            IpAddress::Ipv4(_) => routes.remove_default_ipv4_route(),
            #[cfg(feature = "proto-ipv6")]
            IpAddress::Ipv6(_) => routes.remove_default_ipv6_route(),
        };
        if res.is_ok() {
            assert!(removed.is_some() && removed.unwrap().via_router == gw, "prop:c16_remove_returns_the_default_route");
        }
        let gone = match gw {
            #[cfg(feature = "proto-ipv4")]
            IpAddress::Ipv4(_) => routes.get_default_ipv4_route().is_none(),
            #[cfg(feature = "proto-ipv6")]
            IpAddress::Ipv6(_) => routes.get_default_ipv6_route().is_none(),
        };
        assert!(gone, "prop:c16_no_default_route_after_remove");
        kani::cover!(removed.is_some() && routes.storage.len() == 1, "default removed, one route left");
    }

    // @harness props=C16 kind=mustfail cfg=KI4 tier=q to=600 mem=4 unwind=8 opts=nomem
    #[kani::proof]
    pub(crate) fn route_must_fail() {
        let now = any_instant(0, T_MAX);
        let r0 = any_route();
        let r1 = any_route();
        let mut routes = Routes::new();
        routes.update(|v| {
            v.push(r0).unwrap();
            v.push(r1).unwrap();
        });
        let a = any_addr();
        kani::assume(a.is_unicast());
        // false: the FIRST matching route is not always the answer
        if usable(&r0, &a, now) {
            assert!(routes.lookup(&a, now) == Some(r0.via_router), "prop:deliberately_false_first_match_wins");
        }
    }
}
