// Interface-level wake-up schedule harnesses: C13 (Interface::poll_at vs. Interface::poll).
// Spliced into src/iface/interface/mod.rs: `Interface { inner, fragments, fragmenter }`, private
// fields of `InterfaceInner`, `socket_egress`, `ndisc_rs_egress`, `multicast_egress` reachable.
//
// The SLAAC state of the interface is produced through `Slaac`'s own API, in the order the interface
// uses it (rs_sent after rs_required, process_advertisement, sync), at symbolic instants - the
// fields of `Slaac` are private to iface::slaac (see iface_slaac.rs for its invariant).
//
// Modelling notes
//  * SLAAC is only enabled on Medium::Ethernet here: on Medium::Ip `ndisc_rs_egress` evaluates
//    `self.hardware_addr().into()`, i.e. `HardwareAddress::Ip.as_bytes()`, which is `unreachable!()`
//    (reported separately; it is a crash, not a scheduling defect).
//  * Joining a multicast group (done by update_ip_addrs for the solicited-node group on Ethernet) is
//    announced by the next poll but not scheduled through poll_at; C13 excludes the MLD/IGMP
//    machinery, and the poll harnesses start without a pending join (address pushed directly).
#[allow(dead_code, unused_imports, unused_variables, unused_mut, unused_macros)]
mod v_iface_pollat {
    use super::*;
    use crate::iface::{SocketSet, SocketStorage};
    use crate::socket::tcp as stcp;
    use crate::socket::udp as sudp;
    use crate::verif_common::*;
    use crate::verif_dev::{CapDev, NullDev};

    // instants are symbolic microsecond counts (the resolution of `Instant`)
    const T_MAX: i64 = 1i64 << 50;
    /// RTR_SOLICITATION_INTERVAL in microseconds
    const RSI: i64 = 4_000_000;
    const FRAME: usize = 128;
    const MAC: [u8; 6] = [0x02, 0, 0, 0, 0, 0x01];

    fn us(t: i64) -> Instant {
        Instant::from_micros(t)
    }

    fn any_us(lo: i64, hi: i64) -> i64 {
        let t: i64 = kani::any();
        kani::assume(t >= lo && t <= hi);
        t
    }

    /// minimum of two optional deadlines, None = no deadline
    fn opt_min(a: Option<Instant>, b: Option<Instant>) -> Option<Instant> {
        match (a, b) {
            (None, x) => x,
            (x, None) => x,
            (Some(x), Some(y)) => Some(if x <= y { x } else { y }),
        }
    }

    /// the instant at which an event loop sleeping until `d` wakes up when it is `now`
    fn wake(d: Option<Instant>, now: Instant) -> Option<Instant> {
        d.map(|x| if x <= now { now } else { x })
    }

    /// a socket's own deadline as an optional instant (PollAt::Now = due at `now`)
    fn finite(p: PollAt, now: Instant) -> Option<Instant> {
        match p {
            PollAt::Ingress => None,
            PollAt::Now => Some(now),
            PollAt::Time(t) => Some(t),
        }
    }

    /// reference: minimum over the finite deadlines of all sockets (their neighbor state is Active in
    /// these harnesses, so `Meta::poll_at` passes the socket's value on - see socket_meta.rs)
    fn sockets_deadline(iface: &mut Interface, sockets: &SocketSet<'_>, now: Instant) -> Option<Instant> {
        let mut best: Option<Instant> = None;
        for item in sockets.items() {
            let p = item.socket.poll_at(&mut iface.inner);
            crate::vdump!("  socket {}: poll_at = {:?}", item.meta.handle, p);
            best = opt_min(best, finite(p, now));
        }
        best
    }

    macro_rules! udp_socket {
        ($s:ident, $port:expr) => {
            let mut rxm = [sudp::PacketMetadata::EMPTY; 1];
            let mut rxp = [0u8; 4];
            let mut txm = [sudp::PacketMetadata::EMPTY; 1];
            let mut txp = [0u8; 4];
            let mut $s = sudp::Socket::new(
                sudp::PacketBuffer::new(&mut rxm[..], &mut rxp[..]),
                sudp::PacketBuffer::new(&mut txm[..], &mut txp[..]),
            );
            $s.bind($port).unwrap();
        };
    }

    // =================================================================================== IPv6 + SLAAC (KI6)
    #[cfg(feature = "proto-ipv6-slaac")]
    mod v6 {
        use super::*;

        pub(super) const LL: Ipv6Address = Ipv6Address::new(0xfe80, 0, 0, 0, 0, 0, 0, 1);
        pub(super) const ROUTER: Ipv6Address = Ipv6Address::new(0xfe80, 0, 0, 0, 0, 0, 0, 0xa);
        pub(super) const ALL_NODES: Ipv6Address = Ipv6Address::new(0xff02, 0, 0, 0, 0, 0, 0, 1);
        pub(super) const PEER: Ipv6Address = Ipv6Address::new(0xfe80, 0, 0, 0, 0, 0, 0, 2);

        pub(super) fn config(eth: bool, slaac: bool) -> Config {
            let mut c = Config::new(if eth {
                HardwareAddress::Ethernet(EthernetAddress(MAC))
            } else {
                HardwareAddress::Ip
            });
            c.slaac = slaac;
            c
        }

        pub(super) fn medium(eth: bool) -> Medium {
            if eth { Medium::Ethernet } else { Medium::Ip }
        }

        /// Drive the interface's `Slaac` through history `tag`, every event at a symbolic instant <= `now`:
        ///   0 Start (nothing happened)            1 / 5 Discovering, 1 / 2 solicitations sent
        ///   2 Discovering, all 3 solicitations sent, no answer
        ///   3 Maintaining, router answered with lifetime 0 (nothing stored)
        ///   4 Maintaining, router answered with a symbolic lifetime 1 us ..= 65535 s (route stored, not yet synced)
        pub(super) fn slaac_history(iface: &mut Interface, now: i64, tag: u8) {
            if tag == 0 {
                return;
            }
            let s = &mut iface.inner.slaac;
            let t1 = any_us(0, now);
            // first solicitation (Start: due at any instant)
            kani::assume(s.rs_required(us(t1)));
            s.rs_sent(us(t1));
            if tag == 1 {
                return;
            }
            if tag == 5 {
                let t2 = any_us(t1 + RSI, now);
                kani::assume(s.rs_required(us(t2)));
                s.rs_sent(us(t2));
                return;
            }
            if tag == 2 {
                let t2 = any_us(t1 + RSI, now);
                kani::assume(s.rs_required(us(t2)));
                s.rs_sent(us(t2));
                let t3 = any_us(t2 + RSI, now);
                kani::assume(s.rs_required(us(t3)));
                s.rs_sent(us(t3));
                return;
            }
            // a router answers at t_ra
            let t_ra = any_us(t1, now);
            let life = if tag == 3 { 0 } else { any_us(1, 65_535_000_000) as u64 };
            s.process_advertisement(&ROUTER, Duration::from_micros(life), None, us(t_ra));
        }

        // ------------------------------------------------------------------ combination of deadlines
        // `Interface::poll_at` is a filter_map().min() over the socket set.  An iterator position that
        // depends on symbolic data makes CBMC unroll every later `next()` to the unwinding bound (>= 17
        // here, for 16-byte address comparisons), so: a one-slot set may hold a symbolic socket (the
        // iterator always ends up at the end), a two-slot set gets concrete queue states per path.
        macro_rules! comb_iface {
            ($dev:ident, $iface:ident, $now:ident, $slaac_on:ident, $tag:ident, $max_tag:expr) => {
                let eth: bool = kani::any();
                let $slaac_on: bool = kani::any();
                let mut $dev = NullDev { medium: medium(eth), mtu: 1500, checksum: ChecksumCapabilities::ignored() };
                let $now = any_us(0, T_MAX);
                let mut $iface = Interface::new(config(eth, $slaac_on), &mut $dev, us(0));
                $iface.update_ip_addrs(|a| {
                    a.push(IpCidr::Ipv6(Ipv6Cidr::new(LL, 64))).unwrap();
                });
                // advertisements and solicitations only touch `slaac` when it is enabled
                let $tag: u8 = kani::any();
                kani::assume($tag <= $max_tag || $tag == 5);
                if $slaac_on {
                    slaac_history(&mut $iface, $now, $tag);
                }
            };
        }

        fn check_combination(iface: &mut Interface, sockets: &SocketSet<'_>, now: i64, slaac_on: bool) -> (Option<Instant>, Option<Instant>, Option<Instant>, Option<Instant>) {
            let nowi = us(now);
            crate::vdump!("now={} slaac_enabled={} slaac={:?}", nowi, slaac_on, iface.inner.slaac);
            let d_sock = sockets_deadline(iface, sockets, nowi);
            let d_slaac = if slaac_on { iface.inner.slaac.poll_at(nowi) } else { None };
            let want = opt_min(d_sock, d_slaac);
            let got = iface.poll_at(nowi, sockets);
            crate::vdump!("sockets: {:?}  slaac: {:?}  expected min: {:?}  Interface::poll_at: {:?}", d_sock, d_slaac, want, got);
            (d_sock, d_slaac, want, got)
        }

        fn assert_combination(want: Option<Instant>, got: Option<Instant>, nowi: Instant) {
            if want.is_some() {
                assert!(got.is_some(), "prop:c13_iface_poll_at_keeps_finite_deadline");
            } else {
                assert!(got.is_none(), "prop:c13_iface_poll_at_no_spurious_deadline");
            }
            if want.is_some() && got.is_some() {
                assert!(wake(got, nowi) == wake(want, nowi), "prop:c13_iface_poll_at_is_min_of_finite_deadlines");
            }
        }

        /// one slot: empty | UDP socket (queue empty: Ingress, non-empty: Now) | TCP socket whose SYN went
        /// out at a symbolic instant (retransmission timer: Time(t))
        pub(super) fn combination_body() {
            comb_iface!(dev, iface, now, slaac_on, tag, 4);
            let nowi = us(now);
            udp_socket!(u0, 1000);
            let mut trx = [0u8; 4];
            let mut ttx = [0u8; 4];
            let mut storage = [SocketStorage::EMPTY];
            let mut sockets = SocketSet::new(&mut storage[..]);
            let kind: u8 = kani::any();
            kani::assume(kind <= 2);
            let q0: bool = kani::any();
            if kind == 1 {
                if q0 {
                    u0.send_slice(&[1, 2], IpEndpoint::new(IpAddress::Ipv6(PEER), 7)).unwrap();
                }
                sockets.add(u0);
            } else if kind == 2 {
                let mut t0 = stcp::Socket::new(stcp::SocketBuffer::new(&mut trx[..]), stcp::SocketBuffer::new(&mut ttx[..]));
                let t_syn = any_us(0, now);
                iface.inner.now = us(t_syn);
                t0.connect(&mut iface.inner, (IpAddress::Ipv6(PEER), 80u16), 4000u16).unwrap();
                let _ = t0.dispatch(&mut iface.inner, |_cx, _pkt| -> core::result::Result<(), ()> { Ok(()) });
                sockets.add(t0);
            }
            let (d_sock, d_slaac, want, got) = check_combination(&mut iface, &sockets, now, slaac_on);
            // (witnesses first: a failing assertion cuts off the paths behind it)
            kani::cover!(slaac_on && d_sock.is_none() && d_slaac.is_some(), "only SLAAC has a deadline");
            kani::cover!(slaac_on && d_slaac.is_none() && d_sock.is_some(), "SLAAC idle, a socket has a deadline");
            kani::cover!(slaac_on && kind == 2 && d_slaac.is_some() && d_sock.unwrap() > nowi && d_slaac.unwrap() > d_sock.unwrap(), "timed socket deadline before timed SLAAC deadline");
            kani::cover!(slaac_on && kind == 2 && d_slaac.is_some() && d_slaac.unwrap() > nowi && d_slaac.unwrap() < d_sock.unwrap(), "timed SLAAC deadline before timed socket deadline");
            kani::cover!(slaac_on && tag == 4 && d_slaac.is_some() && d_slaac.unwrap() > nowi && kind == 1, "router lifetime running");
            kani::cover!(want.is_none() && kind == 1, "nothing scheduled");
            assert_combination(want, got, nowi);
        }

        /// Two UDP sockets.  Config.slaac, the SLAAC history and the queue states are concrete on each
        /// path: with a concrete phase Start/Discovering the Maintaining arm of Slaac::poll_at (~5M
        /// clauses per call at this unwinding bound) is not entered; poll_at_combination covers it.
        fn two_sockets_path(slaac_on: bool, tag: u8, q0: bool, q1: bool) {
            let eth: bool = kani::any();
            let mut dev = NullDev { medium: medium(eth), mtu: 1500, checksum: ChecksumCapabilities::ignored() };
            let now = any_us(0, T_MAX);
            let mut iface = Interface::new(config(eth, slaac_on), &mut dev, us(0));
            iface.update_ip_addrs(|a| {
                a.push(IpCidr::Ipv6(Ipv6Cidr::new(LL, 64))).unwrap();
            });
            if slaac_on {
                slaac_history(&mut iface, now, tag);
            }
            udp_socket!(u0, 1000);
            udp_socket!(u1, 1001);
            let mut storage = [SocketStorage::EMPTY, SocketStorage::EMPTY];
            let mut sockets = SocketSet::new(&mut storage[..]);
            if q0 {
                u0.send_slice(&[1, 2], IpEndpoint::new(IpAddress::Ipv6(PEER), 7)).unwrap();
            }
            if q1 {
                u1.send_slice(&[3], IpEndpoint::new(IpAddress::Ipv6(PEER), 7)).unwrap();
            }
            sockets.add(u0);
            sockets.add(u1);
            let (d_sock, d_slaac, want, got) = check_combination(&mut iface, &sockets, now, slaac_on);
            kani::cover!(!q0 && q1 && !slaac_on && got.is_some(), "second of two UDP sockets due, SLAAC off");
            kani::cover!(!q0 && !q1 && want.is_none(), "two idle sockets, nothing scheduled");
            kani::cover!(q0 && !q1 && slaac_on && d_slaac.is_some() && d_slaac.unwrap() > us(now), "first socket due before the SLAAC deadline");
            assert_combination(want, got, us(now));
        }

        pub(super) fn combination_two_body() {
            let shape: u8 = kani::any();
            match shape {
                0 => two_sockets_path(false, 0, false, true),
                1 => two_sockets_path(false, 0, true, false),
                2 => two_sockets_path(false, 0, false, false),
                3 => two_sockets_path(true, 1, true, false),
                _ => two_sockets_path(true, 1, false, false),
            }
        }

        // ------------------------------------------------------------------ poll vs poll_at on a real interface
        // The real `Interface::poll` runs on `AskDev`: a device without pending frames that counts the
        // transmit tokens it is asked for and hands none out.  Under this feature set one dispatch_ip costs
        // > 0.5M symex steps (every IPv6 payload emitter is explored) and `poll` contains up to six of them,
        // some inside loops; with `AskDev` none is reachable, while the question C13 asks of a poll is
        // still answered exactly: `asked == 0` iff this poll would not have tried to transmit anything,
        // and in that case the device was never consulted, so the poll ran exactly as it would have on a
        // device that accepts every frame.  (When `asked > 0` the harnesses claim nothing.)
        // SLAAC runs on Ethernet (modelling note at the top); its history stays in the soliciting phases
        // (once a router advertisement has been processed `sync_slaac_state` becomes reachable for the
        // solver, and its nested loops over heapless containers, unrolled to the bound of 18 that the
        // 16-byte address comparisons force, exceed 8 GB; stored routes/prefixes and the Maintaining
        // phase are covered at `Slaac` level in iface_slaac.rs).  No address is configured through
        // update_ip_addrs, so no multicast join is pending (MLD is outside C13).
        pub(super) struct AskDev {
            pub(super) medium: Medium,
            pub(super) asked: usize,
        }
        impl Device for AskDev {
            type RxToken<'a> = crate::verif_dev::NoRx;
            type TxToken<'a> = crate::verif_dev::NoTx;
            fn capabilities(&self) -> DeviceCapabilities {
                let mut c = DeviceCapabilities::default();
                c.medium = self.medium;
                c.max_transmission_unit = 1500;
                c.checksum = ChecksumCapabilities::ignored();
                c
            }
            fn receive(&mut self, _t: Instant) -> Option<(crate::verif_dev::NoRx, crate::verif_dev::NoTx)> {
                None
            }
            fn transmit(&mut self, _t: Instant) -> Option<crate::verif_dev::NoTx> {
                self.asked += 1;
                None
            }
        }

        macro_rules! poll_env {
            ($dev:ident, $iface:ident, $sockets:ident, $now:ident, $tag:expr, $queued:ident) => {
                let mut $dev = AskDev { medium: Medium::Ethernet, asked: 0 };
                let $now = any_us(0, T_MAX);
                let mut $iface = Interface::new(config(true, true), &mut $dev, us(0));
                $iface.inner.ip_addrs.push(IpCidr::Ipv6(Ipv6Cidr::new(LL, 64))).unwrap();
                slaac_history(&mut $iface, $now, $tag);
                udp_socket!(u0, 1000);
                let mut storage = [SocketStorage::EMPTY];
                let mut $sockets = SocketSet::new(&mut storage[..]);
                let $queued: bool = kani::any();
                if $queued {
                    u0.send_slice(&[1, 2], IpEndpoint::new(IpAddress::Ipv6(ALL_NODES), 7)).unwrap();
                }
                $sockets.add(u0);
                assert!($iface.fragmenter_is_idle(), "inv:fragmenter_empty");
            };
        }

        /// the SLAAC history is concrete on each path (merging `Slaac` values makes the solver lose the fact
        /// that nothing is stored, and with it the unreachability of sync_slaac_state)
        macro_rules! histories {
            ($path:ident) => {
                let h: u8 = kani::any();
                match h {
                    0 => $path(0),
                    1 => $path(1),
                    2 => $path(5),
                    _ => $path(2),
                }
            };
        }

        fn nonspin_path(tag: u8) {
            poll_env!(dev, iface, sockets, now, tag, queued);
            let nowi = us(now);
            crate::vdump!("PRE now={} slaac={:?} udp_queued={}", nowi, iface.inner.slaac, queued);
            let res = iface.poll(nowi, &mut dev, &mut sockets);
            let asked = dev.asked;
            let d = iface.poll_at(nowi, &sockets);
            let delay = iface.poll_delay(nowi, &sockets);
            crate::vdump!("POST transmit attempts={} poll={:?} slaac={:?} poll_at={:?} poll_delay={:?}", asked, res, iface.inner.slaac, d, delay);
            kani::cover!(asked == 0 && tag == 1, "idle poll while waiting for the solicitation interval");
            kani::cover!(asked == 0 && tag == 2, "idle poll after the last solicitation");
            kani::cover!(asked > 0 && tag == 0 && !queued, "first solicitation attempted");
            if asked == 0 {
                // nothing received, nothing to transmit: the deadline lies ahead or is absent
                assert!(d.is_none() || d.unwrap() > nowi, "prop:c13_iface_idle_poll_leaves_future_deadline");
                assert!(res == PollResult::None, "prop:c13_iface_idle_poll_reports_no_change");
            }
            if queued {
                assert!(asked >= 1, "prop:c13_iface_due_socket_is_served");
            }
        }

        pub(super) fn nonspin_body() {
            histories!(nonspin_path);
        }

        fn early_path(tag: u8) {
            poll_env!(dev, iface, sockets, now, tag, queued);
            let nowi = us(now);
            crate::vdump!("PRE now={} slaac={:?} udp_queued={}", nowi, iface.inner.slaac, queued);
            let d = iface.poll_at(nowi, &sockets);
            // any probe instant from `now` up to (excluding) the advertised deadline
            let t = any_us(now, T_MAX + RSI);
            let early = match d {
                None => true,
                Some(x) => us(t) < x,
            };
            kani::assume(early);
            crate::vdump!("poll_at({}) = {:?}; polling at {}", nowi, d, us(t));
            let _ = iface.poll(us(t), &mut dev, &mut sockets);
            crate::vdump!("POST transmit attempts={} slaac={:?}", dev.asked, iface.inner.slaac);
            kani::cover!(tag == 1 && t > now, "probe inside the solicitation interval");
            kani::cover!(tag == 1 && t == now && !queued, "probe at the poll instant itself");
            assert!(dev.asked == 0, "prop:c13_iface_nothing_sent_before_poll_at");
        }

        /// (two histories only: the counterexample search of the concrete-playback pass, which runs without
        /// slicing, does not fit 8 GB with all four; poll_nonspin_iface has all four)
        pub(super) fn early_body() {
            if kani::any() { early_path(0) } else { early_path(1) }
        }
    }

    impl Interface {
        /// nothing left over from an earlier oversized datagram
        fn fragmenter_is_idle(&self) -> bool {
            #[cfg(feature = "_proto-fragmentation")]
            {
                self.fragmenter.is_empty()
            }
            #[cfg(not(feature = "_proto-fragmentation"))]
            {
                true
            }
        }
    }

    // @harness props=C13 cfg=KI6 tier=q to=900 mem=8 unwind=18 opts=nomem covers=6 funcs=Interface::poll_at;Slaac::poll_at;Meta::poll_at;udp::Socket::poll_at;tcp::Socket::poll_at bounds=Medium::Ip_or_Ethernet,_Config.slaac_on/off,_SLAAC_history_symbolic_(Start_|_1_|_2_|_3_unanswered_solicitations_|_router_answer_with_lifetime_0_|_router_answer_with_lifetime_1us..=65535s),_all_events_at_symbolic_instants;_one-slot_socket_set:_empty_|_UDP_socket_with_empty/non-empty_queue_|_TCP_socket_in_SYN-SENT_with_its_retransmission_timer_at_a_symbolic_instant;_neighbor_state_Active;_now_<2^50_us
    #[kani::proof]
    pub(crate) fn poll_at_combination() {
        #[cfg(feature = "proto-ipv6-slaac")]
        v6::combination_body();
    }

    // @harness props=C13 cfg=KI6 tier=q to=900 mem=8 unwind=18 opts=nomem covers=3 funcs=Interface::poll_at;Slaac::poll_at;Meta::poll_at;udp::Socket::poll_at bounds=two_UDP_sockets;_5_concrete_shapes:_SLAAC_disabled_x_(idle+due,_due+idle,_idle+idle)_and_SLAAC_enabled_after_1_solicitation_x_(due+idle,_idle+idle);_Medium::Ip_or_Ethernet;_neighbor_state_Active;_instants_symbolic,_now_<2^50_us
    #[kani::proof]
    pub(crate) fn poll_at_combination_two() {
        #[cfg(feature = "proto-ipv6-slaac")]
        v6::combination_two_body();
    }

    // @harness props=C13 cfg=KI6 tier=q to=900 mem=8 unwind=18 opts=nomem covers=3 funcs=Interface::poll;Interface::poll_at;Interface::poll_egress;Interface::poll_maintenance;Interface::ndisc_rs_egress;Interface::socket_egress;Interface::socket_ingress bounds=real_Interface::poll_on_Ethernet_with_SLAAC_enabled;_4_SLAAC_histories_as_concrete_paths,_all_in_the_soliciting_phases_(Start_|_1_|_2_|_3_unanswered_solicitations),_events_at_symbolic_instants;_device_without_pending_frames_that_counts_requested_transmit_tokens_and_grants_none_(claims_only_for_polls_that_request_none:_those_run_as_on_an_accepting_device);_one_UDP_socket_with_0..=1_queued_datagram;_fragmenter_empty;_no_multicast_join_pending;_now_<2^50_us
    #[kani::proof]
    pub(crate) fn poll_nonspin_iface() {
        #[cfg(feature = "proto-ipv6-slaac")]
        v6::nonspin_body();
    }

    // @harness props=C13 cfg=KI6 tier=q to=900 mem=8 unwind=18 opts=nomem covers=2 funcs=Interface::poll;Interface::poll_at;Interface::poll_egress;Interface::ndisc_rs_egress;Interface::socket_egress bounds=same_interface_and_device_as_poll_nonspin_iface,_cut_to_2_SLAAC_histories_(Start_|_1_solicitation_sent);_deadline_taken_at_now,_real_Interface::poll_at_any_probe_instant_in_[now,deadline)
    #[kani::proof]
    pub(crate) fn poll_early_iface() {
        #[cfg(feature = "proto-ipv6-slaac")]
        v6::early_body();
    }

    // =================================================================================== IPv4 fragmentation (KI4)
    #[cfg(feature = "proto-ipv4-fragmentation")]
    mod v4 {
        use super::*;

        const LOCAL: Ipv4Address = Ipv4Address::new(192, 168, 1, 1);
        const PEER: Ipv4Address = Ipv4Address::new(192, 168, 1, 2);

        fn frag_path(eth: bool) {
            let mut dev = CapDev::<FRAME>::new(if eth { Medium::Ethernet } else { Medium::Ip }, 1500, ChecksumCapabilities::ignored());
            let now = any_us(0, T_MAX);
            let nowi = us(now);
            let hw = if eth { HardwareAddress::Ethernet(EthernetAddress(MAC)) } else { HardwareAddress::Ip };
            let mut iface = Interface::new(Config::new(hw), &mut dev, us(0));
            iface.update_ip_addrs(|a| {
                a.push(IpCidr::new(IpAddress::Ipv4(LOCAL), 24)).unwrap();
            });
            udp_socket!(u0, 1000);
            let mut storage = [SocketStorage::EMPTY];
            let mut sockets = SocketSet::new(&mut storage[..]);
            let queued: bool = kani::any();
            if queued {
                u0.send_slice(&[1, 2], IpEndpoint::new(IpAddress::Ipv4(PEER), 7)).unwrap();
            }
            if kani::any() {
                sockets.add(u0);
            }
            let d_sock = sockets_deadline(&mut iface, &sockets, nowi);

            // an oversized datagram is being sent: `packet_len` bytes stored, `sent_bytes` of them transmitted
            let cap = iface.fragmenter.buffer.len();
            let packet_len = any_le(cap);
            let sent = any_le(cap);
            kani::assume(packet_len >= 1 && sent <= packet_len);
            iface.fragmenter.packet_len = packet_len;
            iface.fragmenter.sent_bytes = sent;
            crate::vdump!("now={} fragmenter packet_len={} sent_bytes={} sockets={:?}", nowi, packet_len, sent, d_sock);

            let d = iface.poll_at(nowi, &sockets);
            kani::cover!(sent < packet_len && d_sock.is_none() && sent > 0, "fragments pending, sockets idle");
            kani::cover!(sent == packet_len && d_sock.is_some(), "fragmenter finished, socket due");
            kani::cover!(sent == packet_len && d_sock.is_none() && eth, "fragmenter finished, nothing else to do");
            if sent < packet_len {
                // unsent fragment bytes: poll again right away, whatever the sockets say
                assert!(d.is_some() && d.unwrap() <= nowi, "prop:c13_pending_fragments_poll_now");
            } else {
                // everything went out; the buffer is released by the next egress, which transmits nothing
                // (one extra wake-up, then the sockets' schedule applies again)
                iface.inner.now = nowi;
                iface.ipv4_egress(&mut dev);
                assert!(dev.tx.frames == 0, "prop:c13_finished_fragmenter_sends_nothing");
                assert!(iface.fragmenter.is_empty(), "prop:c13_finished_fragmenter_released");
                let d2 = iface.poll_at(nowi, &sockets);
                assert!(wake(d2, nowi) == wake(d_sock, nowi), "prop:c13_iface_poll_at_is_min_of_finite_deadlines");
            }
        }

        pub(super) fn frag_body() {
            if kani::any() { frag_path(true) } else { frag_path(false) }
        }
    }

    // @harness props=C13 cfg=KI4 tier=q to=600 mem=8 unwind=18 opts=nomem covers=3 funcs=Interface::poll_at;Interface::ipv4_egress;Fragmenter::is_empty;Fragmenter::finished;Fragmenter::reset bounds=Medium::Ip_or_Ethernet;_fragmenter_with_any_packet_len_1..=buffer_size_(256)_and_any_sent_bytes<=packet_len;_0..=1_UDP_socket_with_0..=1_queued_datagram;_now_<2^50_us
    #[kani::proof]
    pub(crate) fn frag_pending_polls_now() {
        #[cfg(feature = "proto-ipv4-fragmentation")]
        v4::frag_body();
    }

    // @harness props=C13 kind=mustfail cfg=KI6 tier=q to=600 mem=8 unwind=18 opts=nomem
    #[kani::proof]
    pub(crate) fn pollat_must_fail() {
        let mut dev = NullDev { medium: Medium::Ip, mtu: 1500, checksum: ChecksumCapabilities::ignored() };
        let now = any_us(0, T_MAX);
        let mut iface = Interface::new(Config::new(HardwareAddress::Ip), &mut dev, us(0));
        udp_socket!(u0, 1000);
        let mut storage = [SocketStorage::EMPTY];
        let mut sockets = SocketSet::new(&mut storage[..]);
        if kani::any() {
            #[cfg(feature = "proto-ipv6")]
            u0.send_slice(&[1, 2], IpEndpoint::new(IpAddress::Ipv6(Ipv6Address::new(0xfe80, 0, 0, 0, 0, 0, 0, 2)), 7)).unwrap();
            #[cfg(not(feature = "proto-ipv6"))]
            u0.send_slice(&[1, 2], IpEndpoint::new(IpAddress::Ipv4(Ipv4Address::new(10, 0, 0, 2)), 7)).unwrap();
        }
        sockets.add(u0);
        assert!(iface.poll_at(us(now), &sockets).is_none(), "prop:deliberately_false_interface_never_has_a_deadline");
    }
}
