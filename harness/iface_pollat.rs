// Interface-level wake-up schedule harnesses: C13 (Interface::poll_at vs. Interface::poll).
// Spliced into src/iface/interface/mod.rs: `Interface { inner, fragments, fragmenter }`, private
// fields of `InterfaceInner`, `socket_egress`, `ndisc_rs_egress`, `multicast_egress` reachable.
//
// The SLAAC state of the interface is produced through `Slaac`'s own API, in the order the interface
// uses it (rs_sent after rs_required, process_advertisement, sync), at symbolic instants - the
// fields of `Slaac` are private to iface::slaac (see iface_slaac.rs for its invariant).
//
// Modelling notes
//  * SLAAC is only enabled on Medium::Ethernet here: on Medium::Ip `ndisc_rs_egress` evaluates
//    `self.hardware_addr().into()`, i.e. `HardwareAddress::Ip.as_bytes()`, which is `unreachable!()`
//    (reported separately; it is a crash, not a scheduling defect).
//  * Joining a multicast group (done by update_ip_addrs for the solicited-node group on Ethernet) is
//    announced by the next poll but not scheduled through poll_at; C13 excludes the MLD/IGMP
//    machinery, so the harnesses flush the pending reports (`multicast_egress`) before they start.
#[allow(dead_code, unused_imports, unused_variables, unused_mut, unused_macros)]
mod v_iface_pollat {
    use super::*;
    use crate::iface::{SocketSet, SocketStorage};
    use crate::socket::tcp as stcp;
    use crate::socket::udp as sudp;
    use crate::verif_common::*;
    use crate::verif_dev::{CapDev, NullDev};

    // instants are symbolic microsecond counts (the resolution of `Instant`)
    const T_MAX: i64 = 1i64 << 50;
    /// RTR_SOLICITATION_INTERVAL in microseconds
    const RSI: i64 = 4_000_000;
    const FRAME: usize = 128;
    const MAC: [u8; 6] = [0x02, 0, 0, 0, 0, 0x01];

    fn us(t: i64) -> Instant {
        Instant::from_micros(t)
    }

    fn any_us(lo: i64, hi: i64) -> i64 {
        let t: i64 = kani::any();
        kani::assume(t >= lo && t <= hi);
        t
    }

    /// minimum of two optional deadlines, None = no deadline
    fn opt_min(a: Option<Instant>, b: Option<Instant>) -> Option<Instant> {
        match (a, b) {
            (None, x) => x,
            (x, None) => x,
            (Some(x), Some(y)) => Some(if x <= y { x } else { y }),
        }
    }

    /// the instant at which an event loop sleeping until `d` wakes up when it is `now`
    fn wake(d: Option<Instant>, now: Instant) -> Option<Instant> {
        d.map(|x| if x <= now { now } else { x })
    }

    /// a socket's own deadline as an optional instant (PollAt::Now = due at `now`)
    fn finite(p: PollAt, now: Instant) -> Option<Instant> {
        match p {
            PollAt::Ingress => None,
            PollAt::Now => Some(now),
            PollAt::Time(t) => Some(t),
        }
    }

    /// reference: minimum over the finite deadlines of all sockets (their neighbor state is Active in
    /// these harnesses, so `Meta::poll_at` passes the socket's value on - see socket_meta.rs)
    fn sockets_deadline(iface: &mut Interface, sockets: &SocketSet<'_>, now: Instant) -> Option<Instant> {
        let mut best: Option<Instant> = None;
        for item in sockets.items() {
            let p = item.socket.poll_at(&mut iface.inner);
            crate::vdump!("  socket {}: poll_at = {:?}", item.meta.handle, p);
            best = opt_min(best, finite(p, now));
        }
        best
    }

    macro_rules! udp_socket {
        ($s:ident, $port:expr) => {
            let mut rxm = [sudp::PacketMetadata::EMPTY; 1];
            let mut rxp = [0u8; 4];
            let mut txm = [sudp::PacketMetadata::EMPTY; 1];
            let mut txp = [0u8; 4];
            let mut $s = sudp::Socket::new(
                sudp::PacketBuffer::new(&mut rxm[..], &mut rxp[..]),
                sudp::PacketBuffer::new(&mut txm[..], &mut txp[..]),
            );
            $s.bind($port).unwrap();
        };
    }

    // =================================================================================== IPv6 + SLAAC (KI6)
    #[cfg(feature = "proto-ipv6-slaac")]
    mod v6 {
        use super::*;

        pub(super) const LL: Ipv6Address = Ipv6Address::new(0xfe80, 0, 0, 0, 0, 0, 0, 1);
        pub(super) const ROUTER: Ipv6Address = Ipv6Address::new(0xfe80, 0, 0, 0, 0, 0, 0, 0xa);
        pub(super) const ALL_NODES: Ipv6Address = Ipv6Address::new(0xff02, 0, 0, 0, 0, 0, 0, 1);
        pub(super) const PEER: Ipv6Address = Ipv6Address::new(0xfe80, 0, 0, 0, 0, 0, 0, 2);

        pub(super) fn config(eth: bool, slaac: bool) -> Config {
            let mut c = Config::new(if eth {
                HardwareAddress::Ethernet(EthernetAddress(MAC))
            } else {
                HardwareAddress::Ip
            });
            c.slaac = slaac;
            c
        }

        pub(super) fn medium(eth: bool) -> Medium {
            if eth { Medium::Ethernet } else { Medium::Ip }
        }

        /// Drive the interface's `Slaac` through history `tag` (concrete on each path, so that loops over
        /// stored routes have constant trip counts), every event at a symbolic instant <= `now`:
        ///   0 Start (nothing happened)            1 Discovering, 1..=2 solicitations sent
        ///   2 Discovering, all 3 solicitations sent, no answer
        ///   3 Maintaining, router answered with lifetime 0 (nothing stored)
        ///   4 Maintaining, router answered with a symbolic lifetime 1 us ..= 65535 s (route stored, not yet synced)
        pub(super) fn slaac_history(iface: &mut Interface, now: i64, tag: u8) {
            if tag == 0 {
                return;
            }
            let s = &mut iface.inner.slaac;
            let t1 = any_us(0, now);
            // first solicitation (Start: due at any instant)
            kani::assume(s.rs_required(us(t1)));
            s.rs_sent(us(t1));
            if tag == 1 {
                if kani::any() {
                    let t2 = any_us(t1 + RSI, now);
                    kani::assume(s.rs_required(us(t2)));
                    s.rs_sent(us(t2));
                }
                return;
            }
            if tag == 2 {
                let t2 = any_us(t1 + RSI, now);
                kani::assume(s.rs_required(us(t2)));
                s.rs_sent(us(t2));
                let t3 = any_us(t2 + RSI, now);
                kani::assume(s.rs_required(us(t3)));
                s.rs_sent(us(t3));
                return;
            }
            // a router answers at t_ra
            let t_ra = any_us(t1, now);
            let life = if tag == 3 { 0 } else { any_us(1, 65_535_000_000) as u64 };
            s.process_advertisement(&ROUTER, Duration::from_micros(life), None, us(t_ra));
        }

        // ------------------------------------------------------------------ combination of deadlines
        fn combination_path(eth: bool, slaac_on: bool, tag: u8, with_tcp: bool) {
            let mut dev = NullDev { medium: medium(eth), mtu: 1500, checksum: ChecksumCapabilities::ignored() };
            let now = any_us(0, T_MAX);
            let nowi = us(now);
            let mut iface = Interface::new(config(eth, slaac_on), &mut dev, us(0));
            iface.update_ip_addrs(|a| {
                a.push(IpCidr::Ipv6(Ipv6Cidr::new(LL, 64))).unwrap();
            });
            // advertisements and solicitations only touch `slaac` when it is enabled
            if slaac_on {
                slaac_history(&mut iface, now, tag);
            }

            // 0..=2 UDP sockets (queue empty: Ingress, non-empty: Now), optionally a TCP socket whose
            // SYN went out at a symbolic instant (retransmission timer: Time(t))
            let n_udp: u8 = kani::any();
            kani::assume(n_udp <= 2);
            let q0: bool = kani::any();
            let q1: bool = kani::any();
            udp_socket!(u0, 1000);
            udp_socket!(u1, 1001);
            let mut trx = [0u8; 4];
            let mut ttx = [0u8; 4];
            let mut storage = [SocketStorage::EMPTY, SocketStorage::EMPTY, SocketStorage::EMPTY];
            let mut sockets = SocketSet::new(&mut storage[..]);
            if q0 {
                u0.send_slice(&[1, 2], IpEndpoint::new(IpAddress::Ipv6(PEER), 7)).unwrap();
            }
            if q1 {
                u1.send_slice(&[3], IpEndpoint::new(IpAddress::Ipv6(PEER), 7)).unwrap();
            }
            if n_udp >= 1 {
                sockets.add(u0);
            }
            if n_udp >= 2 {
                sockets.add(u1);
            }
            if with_tcp {
                let mut t0 = stcp::Socket::new(stcp::SocketBuffer::new(&mut trx[..]), stcp::SocketBuffer::new(&mut ttx[..]));
                let t_syn = any_us(0, now);
                iface.inner.now = us(t_syn);
                t0.connect(&mut iface.inner, (IpAddress::Ipv6(PEER), 80u16), 4000u16).unwrap();
                let _ = t0.dispatch(&mut iface.inner, |_cx, _pkt| -> core::result::Result<(), ()> { Ok(()) });
                sockets.add(t0);
            }

            crate::vdump!("now={} medium={:?} slaac_enabled={} slaac={:?}", nowi, medium(eth), slaac_on, iface.inner.slaac);
            let d_sock = sockets_deadline(&mut iface, &sockets, nowi);
            let d_slaac = if slaac_on { iface.inner.slaac.poll_at(nowi) } else { None };
            let want = opt_min(d_sock, d_slaac);
            let got = iface.poll_at(nowi, &sockets);
            crate::vdump!("sockets: {:?}  slaac: {:?}  expected min: {:?}  Interface::poll_at: {:?}", d_sock, d_slaac, want, got);

            // (witnesses first: a failing assertion cuts off the paths behind it)
            kani::cover!(slaac_on && d_sock.is_none() && d_slaac.is_some(), "only SLAAC has a deadline");
            kani::cover!(slaac_on && d_slaac.is_none() && d_sock.is_some(), "SLAAC idle, a socket has a deadline");
            kani::cover!(slaac_on && with_tcp && n_udp == 0 && d_slaac.is_some() && d_sock.unwrap() > nowi && d_slaac.unwrap() > d_sock.unwrap(), "timed socket deadline before timed SLAAC deadline");
            kani::cover!(!slaac_on && n_udp == 2 && q1 && !q0 && !with_tcp, "second of two UDP sockets due");
            kani::cover!(tag == 4 && eth && d_slaac.is_some() && d_slaac.unwrap() > nowi, "router lifetime running");
            kani::cover!(want.is_none() && n_udp == 2 && !with_tcp, "nothing scheduled");

            if want.is_some() {
                assert!(got.is_some(), "prop:c13_iface_poll_at_keeps_finite_deadline");
            } else {
                assert!(got.is_none(), "prop:c13_iface_poll_at_no_spurious_deadline");
            }
            if want.is_some() && got.is_some() {
                assert!(wake(got, nowi) == wake(want, nowi), "prop:c13_iface_poll_at_is_min_of_finite_deadlines");
            }
        }

        /// medium, Config.slaac, SLAAC history and presence of the TCP socket are concrete on each path
        pub(super) fn combination_body() {
            let shape: u8 = kani::any();
            match shape {
                0 => combination_path(false, false, 0, false),
                1 => combination_path(true, false, 0, true),
                2 => combination_path(false, true, 0, false),
                3 => combination_path(true, true, 1, false),
                4 => combination_path(false, true, 1, true),
                5 => combination_path(true, true, 2, false),
                6 => combination_path(false, true, 3, true),
                7 => combination_path(true, true, 3, false),
                8 => combination_path(false, true, 4, true),
                _ => combination_path(true, true, 4, false),
            }
        }

        // ------------------------------------------------------------------ poll vs poll_at on a real interface
        // `slaac_on` (=> Ethernet, see the modelling note at the top), the SLAAC history and whether a
        // datagram is queued are concrete on each path: `Interface::poll` repeats `poll_egress` until
        // nothing was sent, and that loop must end by constant propagation (the unwinding bound has to
        // be >= 17 for 16-byte address comparisons, far more than the 2 rounds a poll needs here).
        macro_rules! poll_env {
            ($dev:ident, $iface:ident, $sockets:ident, $now:ident, $slaac_on:expr, $tag:expr, $queued:expr) => {
                let eth = $slaac_on;
                let mut $dev = CapDev::<FRAME>::new(medium(eth), 1500, ChecksumCapabilities::ignored());
                let $now = any_us(0, T_MAX);
                let mut $iface = Interface::new(config(eth, $slaac_on), &mut $dev, us(0));
                $iface.update_ip_addrs(|a| {
                    a.push(IpCidr::Ipv6(Ipv6Cidr::new(LL, 64))).unwrap();
                });
                // announce the solicited-node group now (outside C13), then start counting frames
                $iface.multicast_egress(&mut $dev);
                $dev.tx.frames = 0;
                if $slaac_on {
                    slaac_history(&mut $iface, $now, $tag);
                }
                udp_socket!(u0, 1000);
                let mut storage = [SocketStorage::EMPTY];
                let mut $sockets = SocketSet::new(&mut storage[..]);
                if $queued {
                    // multicast destination: no neighbor discovery on Ethernet
                    u0.send_slice(&[1, 2], IpEndpoint::new(IpAddress::Ipv6(ALL_NODES), 7)).unwrap();
                }
                $sockets.add(u0);
                assert!($iface.fragmenter_is_idle(), "inv:fragmenter_empty");
            };
        }

        fn nonspin_path(slaac_on: bool, tag: u8, queued: bool) {
            poll_env!(dev, iface, sockets, now, slaac_on, tag, queued);
            let nowi = us(now);
            crate::vdump!("PRE now={} slaac_enabled={} slaac={:?} udp_queued={}", nowi, slaac_on, iface.inner.slaac, queued);
            let res = iface.poll(nowi, &mut dev, &mut sockets);
            let frames = dev.tx.frames;
            let d = iface.poll_at(nowi, &sockets);
            crate::vdump!("POST frames={} poll={:?} slaac={:?} poll_at={:?} poll_delay={:?}", frames, res, iface.inner.slaac, d, iface.poll_delay(nowi, &sockets));
            kani::cover!(frames == 0 && tag == 1, "idle poll while waiting for the solicitation interval");
            kani::cover!(frames == 0 && tag == 2, "idle poll after the last solicitation");
            kani::cover!(frames == 2 && queued && slaac_on, "router solicitation and datagram in one poll");
            kani::cover!(frames == 0 && tag == 4 && d.is_some(), "idle poll with a router lifetime running");
            kani::cover!(frames == 1 && !slaac_on, "datagram sent on Medium::Ip");
            if frames == 0 {
                // nothing received (rx_pending = false), nothing transmitted: the deadline lies ahead or is absent
                assert!(d.is_none() || d.unwrap() > nowi, "prop:c13_iface_idle_poll_leaves_future_deadline");
                assert!(res == PollResult::None, "prop:c13_iface_idle_poll_reports_no_change");
            }
            if queued {
                assert!(frames >= 1, "prop:c13_iface_due_socket_is_served");
            }
        }

        pub(super) fn nonspin_body() {
            let shape: u8 = kani::any();
            match shape {
                0 => nonspin_path(false, 0, false),
                1 => nonspin_path(false, 0, true),
                2 => nonspin_path(true, 0, true),
                3 => nonspin_path(true, 1, false),
                4 => nonspin_path(true, 2, false),
                5 => nonspin_path(true, 3, false),
                _ => nonspin_path(true, 4, false),
            }
        }

        fn early_path(slaac_on: bool, tag: u8) {
            poll_env!(dev, iface, sockets, now, slaac_on, tag, false);
            let nowi = us(now);
            crate::vdump!("PRE now={} slaac_enabled={} slaac={:?}", nowi, slaac_on, iface.inner.slaac);
            let d = iface.poll_at(nowi, &sockets);
            // any probe instant from `now` up to (excluding) the advertised deadline
            let t = any_us(now, T_MAX + RSI);
            let early = match d {
                None => true,
                Some(x) => us(t) < x,
            };
            kani::assume(early);
            crate::vdump!("poll_at({}) = {:?}; polling at {}", nowi, d, us(t));
            let _ = iface.poll(us(t), &mut dev, &mut sockets);
            crate::vdump!("POST frames={} slaac={:?}", dev.tx.frames, iface.inner.slaac);
            kani::cover!(tag == 1 && t > now, "probe inside the solicitation interval");
            kani::cover!(d.is_none() && !slaac_on, "no deadline at all");
            kani::cover!(tag == 4 && d.is_some() && t > now, "probe before a router lifetime ends");
            assert!(dev.tx.frames == 0, "prop:c13_iface_nothing_sent_before_poll_at");
        }

        /// (a queued datagram makes poll_at "now": no early instant exists, so the socket is idle here)
        pub(super) fn early_body() {
            let shape: u8 = kani::any();
            match shape {
                0 => early_path(false, 0),
                1 => early_path(true, 0),
                2 => early_path(true, 1),
                3 => early_path(true, 2),
                4 => early_path(true, 3),
                _ => early_path(true, 4),
            }
        }
    }

    impl Interface {
        /// nothing left over from an earlier oversized datagram
        fn fragmenter_is_idle(&self) -> bool {
            #[cfg(feature = "_proto-fragmentation")]
            {
                self.fragmenter.is_empty()
            }
            #[cfg(not(feature = "_proto-fragmentation"))]
            {
                true
            }
        }
    }

    // @harness props=C13 cfg=KI6 tier=q to=600 mem=8 unwind=18 opts=nomem covers=6 funcs=Interface::poll_at;Slaac::poll_at;Meta::poll_at;udp::Socket::poll_at;tcp::Socket::poll_at bounds=10_concrete_shapes_(Medium::Ip/Ethernet_x_Config.slaac_on/off_x_SLAAC_history_x_TCP_socket_present):_SLAAC_histories_Start_|_1..=2_solicitations_|_3_unanswered_solicitations_|_router_answer_with_lifetime_0_|_router_answer_with_lifetime_1us..=65535s,_all_at_symbolic_instants;_0..=2_UDP_sockets_(queue_empty/non-empty);_TCP_socket_in_SYN-SENT_with_its_retransmission_timer_at_a_symbolic_instant;_neighbor_state_Active;_now_<2^50_us
    #[kani::proof]
    pub(crate) fn poll_at_combination() {
        #[cfg(feature = "proto-ipv6-slaac")]
        v6::combination_body();
    }

    // @harness props=C13 cfg=KI6 tier=q to=900 mem=8 unwind=18 opts=nomem covers=5 funcs=Interface::poll;Interface::poll_at;Interface::poll_egress;Interface::poll_maintenance;Interface::ndisc_rs_egress;Interface::socket_egress;Interface::sync_slaac_state bounds=7_concrete_shapes:_Medium::Ip_without_SLAAC_(datagram_queued_or_not)_|_Ethernet_with_SLAAC_in_each_of_5_histories_(Start_with_a_queued_datagram;_1..=2_solicitations;_3_unanswered_solicitations;_router_lifetime_0;_router_lifetime_1us..=65535s_not_yet_synced),_events_at_symbolic_instants;_device_accepts_every_frame,_no_frame_pending;_one_UDP_socket,_2-byte_datagram_to_ff02::1;_fragmenter_empty;_multicast_joins_flushed;_now_<2^50_us
    #[kani::proof]
    pub(crate) fn poll_nonspin_iface() {
        #[cfg(feature = "proto-ipv6-slaac")]
        v6::nonspin_body();
    }

    // @harness props=C13 cfg=KI6 tier=q to=900 mem=8 unwind=18 opts=nomem covers=3 funcs=Interface::poll;Interface::poll_at;Interface::poll_egress;Interface::ndisc_rs_egress;Interface::socket_egress bounds=6_concrete_shapes:_Medium::Ip_without_SLAAC_|_Ethernet_with_SLAAC_in_each_of_5_histories;_idle_UDP_socket;_deadline_taken_at_now,_poll_at_any_probe_instant_in_[now,deadline)
    #[kani::proof]
    pub(crate) fn poll_early_iface() {
        #[cfg(feature = "proto-ipv6-slaac")]
        v6::early_body();
    }

    // =================================================================================== IPv4 fragmentation (KI4)
    #[cfg(feature = "proto-ipv4-fragmentation")]
    mod v4 {
        use super::*;

        const LOCAL: Ipv4Address = Ipv4Address::new(192, 168, 1, 1);
        const PEER: Ipv4Address = Ipv4Address::new(192, 168, 1, 2);

        fn frag_path(eth: bool) {
            let mut dev = CapDev::<FRAME>::new(if eth { Medium::Ethernet } else { Medium::Ip }, 1500, ChecksumCapabilities::ignored());
            let now = any_us(0, T_MAX);
            let nowi = us(now);
            let hw = if eth { HardwareAddress::Ethernet(EthernetAddress(MAC)) } else { HardwareAddress::Ip };
            let mut iface = Interface::new(Config::new(hw), &mut dev, us(0));
            iface.update_ip_addrs(|a| {
                a.push(IpCidr::new(IpAddress::Ipv4(LOCAL), 24)).unwrap();
            });
            udp_socket!(u0, 1000);
            let mut storage = [SocketStorage::EMPTY];
            let mut sockets = SocketSet::new(&mut storage[..]);
            let queued: bool = kani::any();
            if queued {
                u0.send_slice(&[1, 2], IpEndpoint::new(IpAddress::Ipv4(PEER), 7)).unwrap();
            }
            if kani::any() {
                sockets.add(u0);
            }
            let d_sock = sockets_deadline(&mut iface, &sockets, nowi);

            // an oversized datagram is being sent: `packet_len` bytes stored, `sent_bytes` of them transmitted
            let cap = iface.fragmenter.buffer.len();
            let packet_len = any_le(cap);
            let sent = any_le(cap);
            kani::assume(packet_len >= 1 && sent <= packet_len);
            iface.fragmenter.packet_len = packet_len;
            iface.fragmenter.sent_bytes = sent;
            crate::vdump!("now={} fragmenter packet_len={} sent_bytes={} sockets={:?}", nowi, packet_len, sent, d_sock);

            let d = iface.poll_at(nowi, &sockets);
            kani::cover!(sent < packet_len && d_sock.is_none() && sent > 0, "fragments pending, sockets idle");
            kani::cover!(sent == packet_len && d_sock.is_some(), "fragmenter finished, socket due");
            kani::cover!(sent == packet_len && d_sock.is_none() && eth, "fragmenter finished, nothing else to do");
            if sent < packet_len {
                // unsent fragment bytes: poll again right away, whatever the sockets say
                assert!(d.is_some() && d.unwrap() <= nowi, "prop:c13_pending_fragments_poll_now");
            } else {
                // everything went out; the buffer is released by the next egress, which transmits nothing
                // (one extra wake-up, then the sockets' schedule applies again)
                iface.inner.now = nowi;
                iface.ipv4_egress(&mut dev);
                assert!(dev.tx.frames == 0, "prop:c13_finished_fragmenter_sends_nothing");
                assert!(iface.fragmenter.is_empty(), "prop:c13_finished_fragmenter_released");
                let d2 = iface.poll_at(nowi, &sockets);
                assert!(wake(d2, nowi) == wake(d_sock, nowi), "prop:c13_iface_poll_at_is_min_of_finite_deadlines");
            }
        }

        pub(super) fn frag_body() {
            if kani::any() { frag_path(true) } else { frag_path(false) }
        }
    }

    // @harness props=C13 cfg=KI4 tier=q to=600 mem=8 unwind=18 opts=nomem covers=3 funcs=Interface::poll_at;Interface::ipv4_egress;Fragmenter::is_empty;Fragmenter::finished;Fragmenter::reset bounds=Medium::Ip_or_Ethernet;_fragmenter_with_any_packet_len_1..=buffer_size_(256)_and_any_sent_bytes<=packet_len;_0..=1_UDP_socket_with_0..=1_queued_datagram;_now_<2^50_us
    #[kani::proof]
    pub(crate) fn frag_pending_polls_now() {
        #[cfg(feature = "proto-ipv4-fragmentation")]
        v4::frag_body();
    }

    // @harness props=C13 kind=mustfail cfg=KI6 tier=q to=600 mem=8 unwind=18 opts=nomem
    #[kani::proof]
    pub(crate) fn pollat_must_fail() {
        let mut dev = NullDev { medium: Medium::Ip, mtu: 1500, checksum: ChecksumCapabilities::ignored() };
        let now = any_us(0, T_MAX);
        let mut iface = Interface::new(Config::new(HardwareAddress::Ip), &mut dev, us(0));
        udp_socket!(u0, 1000);
        let mut storage = [SocketStorage::EMPTY];
        let mut sockets = SocketSet::new(&mut storage[..]);
        if kani::any() {
            #[cfg(feature = "proto-ipv6")]
            u0.send_slice(&[1, 2], IpEndpoint::new(IpAddress::Ipv6(Ipv6Address::new(0xfe80, 0, 0, 0, 0, 0, 0, 2)), 7)).unwrap();
            #[cfg(not(feature = "proto-ipv6"))]
            u0.send_slice(&[1, 2], IpEndpoint::new(IpAddress::Ipv4(Ipv4Address::new(10, 0, 0, 2)), 7)).unwrap();
        }
        sockets.add(u0);
        assert!(iface.poll_at(us(now), &sockets).is_none(), "prop:deliberately_false_interface_never_has_a_deadline");
    }
}
