// C09 (socket layer) and C13 (poll_at) — icmp::Socket never merges, splits, truncates, duplicates or
// reorders datagrams.  Spliced into src/socket/icmp.rs (private fields of `Socket` reachable).
//
// Same method as socket_udp.rs, with smaller bounds (ring wrap-around and padding records are explored by
// socket_udp.rs and storage_packet.rs; ICMP dispatch parses every queued message, which is what costs here):
// the socket's PacketBuffers (1..=2 metadata slots, 20 payload bytes) are brought into a pre-state by a fixed
// script of two public-API steps with symbolic arguments (every step may be a no-op), shadowed by a ghost
// FIFO; then ONE operation under test; then the queue is drained through the public API and compared with
// the ghost.  The IPv4 harnesses run in the IPv4-only configuration KI4 (in KG every dispatch would also
// encode the unreachable ICMPv6 / NDISC / MLD parsers); the IPv6 harness runs in KG.  A queued ICMP datagram is the whole ICMP
// message: 8 header bytes (type, code, checksum, ident, seq_no) + 0..=4 data bytes pat(tag, i);
// seq_no is derived from the tag, so the ghost stores (tag, data length, address, ident, type, code) only.
#[cfg(all(feature = "proto-ipv4", feature = "medium-ip"))]
#[allow(dead_code, unused_imports, unused_variables, unused_mut, unused_assignments)]
mod v_socket_icmp {
    use super::*;
    use crate::iface::{Config, Interface};
    use crate::phy::Medium;
    use crate::time::Instant;
    use crate::verif_common::*;
    use crate::verif_dev::NullDev;
    use crate::wire::{HardwareAddress, IpCidr, Ipv4Address, Icmpv4DstUnreachable, Icmpv4TimeExceeded};
    #[cfg(feature = "proto-ipv6")]
    use crate::wire::Ipv6Address;

    const LOCAL: Ipv4Address = Ipv4Address::new(192, 168, 1, 1);
    const MC: usize = 2; // metadata slots: 1..=2 symbolic
    const PC: usize = 20; // payload ring: one 12-byte message and one of 8, not two of 12 (symbolic capacities: socket_udp.rs)
    const HL: usize = 8; // echo header
    const DD: usize = 4; // echo data bytes: 0..=4
    const BL: usize = HL + DD; // largest message: 12 bytes

    fn pat(tag: u8, i: usize) -> u8 {
        tag.wrapping_mul(7).wrapping_add(i as u8)
    }
    fn seq_of(tag: u8) -> u16 {
        ((tag as u16) << 8) | (tag ^ 0x5a) as u16
    }

    /// the ICMP message (ty, code, arbitrary checksum, ident, seq_of(tag), pat(tag, ..)) as bytes
    fn message(tag: u8, ident: u16, ty: u8, code: u8, ck: u16) -> [u8; BL] {
        [
            ty, code, (ck >> 8) as u8, ck as u8,
            (ident >> 8) as u8, ident as u8, (seq_of(tag) >> 8) as u8, seq_of(tag) as u8,
            pat(tag, 0), pat(tag, 1), pat(tag, 2), pat(tag, 3),
        ]
    }

    fn data_of(tag: u8) -> [u8; DD] {
        [pat(tag, 0), pat(tag, 1), pat(tag, 2), pat(tag, 3)]
    }

    /// straight-line (no loop: keeps the unwind bound at what smoltcp's own loops need)
    fn copy_into(buf: &mut [u8], src: &[u8; BL]) {
        macro_rules! put {
            ($($i:expr)*) => { $( if $i < buf.len() { buf[$i] = src[$i]; } )* };
        }
        put!(0 1 2 3 4 5 6 7 8 9 10 11);
    }

    fn any_v4() -> Ipv4Address {
        let o: [u8; 4] = kani::any();
        Ipv4Address::new(o[0], o[1], o[2], o[3])
    }

    // ---------------------------------------------------------------- ghost FIFO
    #[derive(Clone, Copy)]
    struct G {
        valid: bool,
        /// the datagram offered by the `process` under test: may have been dropped as a whole
        opt: bool,
        tag: u8,
        /// number of data bytes behind the 8-byte header
        len: usize,
        addr: Ipv4Address,
        ident: u16,
        ty: u8,
        code: u8,
    }
    const GE: G = G { valid: false, opt: false, tag: 0, len: 0, addr: Ipv4Address::new(0, 0, 0, 0), ident: 0, ty: 0, code: 0 };

    impl G {
        /// what `dispatch` can parse: echo request (8) / echo reply (0) with code 0.  Everything else that
        /// fits in 12 bytes is malformed for Icmpv4Repr::parse and is dropped without being emitted.
        fn echo(&self) -> bool {
            self.code == 0 && (self.ty == 8 || self.ty == 0)
        }
    }

    struct Ghost {
        q: [G; MC],
        overflow: bool,
        popped: bool,
    }
    impl Ghost {
        fn new() -> Ghost {
            Ghost { q: [GE; MC], overflow: false, popped: false }
        }
        fn push(&mut self, g: G) {
            if !self.q[0].valid { self.q[0] = g; }
            else if !self.q[1].valid { self.q[1] = g; }
            else { self.overflow = true; }
        }
        fn pop(&mut self) {
            if self.q[0].valid { self.popped = true; }
            self.q[0] = self.q[1];
            self.q[1] = GE;
        }
        fn count(&self) -> usize {
            self.q[0].valid as usize + self.q[1].valid as usize
        }
        fn bytes(&self) -> usize {
            (if self.q[0].valid { HL + self.q[0].len } else { 0 }) + (if self.q[1].valid { HL + self.q[1].len } else { 0 })
        }
    }

    // ---------------------------------------------------------------- environment
    macro_rules! env {
        ($dev:ident, $iface:ident, $cx:ident) => {
            let mut $dev = NullDev { medium: Medium::Ip, mtu: 1500, checksum: ChecksumCapabilities::ignored() };
            let mut $iface = Interface::new(Config::new(HardwareAddress::Ip), &mut $dev, Instant::from_millis(0));
            $iface.update_ip_addrs(|a| {
                a.push(IpCidr::new(IpAddress::Ipv4(LOCAL), 24)).unwrap();
            });
            let $cx = $iface.context();
        };
    }

    macro_rules! sock {
        ($s:ident, $rmc:expr, $rpc:expr, $tmc:expr, $tpc:expr) => {
            let mut rxm = [PacketMetadata::EMPTY; MC];
            let mut rxp = [0u8; PC];
            let mut txm = [PacketMetadata::EMPTY; MC];
            let mut txp = [0u8; PC];
            let (rmc, rpc, tmc, tpc): (usize, usize, usize, usize) = ($rmc, $rpc, $tmc, $tpc);
            let mut $s = Socket::new(
                PacketBuffer::new(&mut rxm[..rmc], &mut rxp[..rpc]),
                PacketBuffer::new(&mut txm[..tmc], &mut txp[..tpc]),
            );
        };
    }

    fn any_slots() -> usize {
        let v = any_le(MC);
        kani::assume(v >= 1);
        v
    }

    fn any_hop(s: &mut Socket<'_>) -> u8 {
        if kani::any() {
            let h: u8 = kani::any();
            kani::assume(h != 0);
            s.set_hop_limit(Some(h));
            h
        } else {
            64
        }
    }

    // ---------------------------------------------------------------- transmit side: script steps
    const VIA_SEND: u8 = 0;
    const VIA_SLICE: u8 = 1;
    const VIA_WITH: u8 = 2;

    fn any_msg() -> G {
        let ty: u8 = kani::any();
        let code: u8 = kani::any();
        G { valid: true, opt: false, tag: kani::any(), len: any_le(DD), addr: any_v4(), ident: kani::any(), ty, code }
    }

    /// One send of a symbolic ICMP message (skipped or refused: the step may be a no-op) through the API
    /// variant `how` (concrete at every call site).
    fn step_send(s: &mut Socket<'_>, g: &mut Ghost, how: u8) -> bool {
        if kani::any() {
            return false;
        }
        let m = any_msg();
        let bytes = message(m.tag, m.ident, m.ty, m.code, kani::any());
        let size = HL + m.len;
        let dst = IpAddress::Ipv4(m.addr);
        let ok = if how == VIA_SEND {
            match s.send(size, dst) {
                Ok(buf) => {
                    copy_into(buf, &bytes);
                    true
                }
                Err(_) => false,
            }
        } else if how == VIA_SLICE {
            s.send_slice(&bytes[..size], dst).is_ok()
        } else {
            let max = any_le(BL);
            kani::assume(size <= max);
            s.send_with(max, dst, |b| {
                copy_into(&mut b[..size], &bytes);
                size
            })
            .is_ok()
        };
        if ok {
            g.push(m);
        }
        ok
    }

    fn step_dispatch(s: &mut Socket<'_>, cx: &mut Context, g: &mut Ghost) -> bool {
        let ok: bool = kani::any();
        let _ = s.dispatch(cx, |_cx, _p| if ok { Ok(()) } else { Err(()) });
        // a malformed head is dropped without consulting emit
        if ok || (g.q[0].valid && !g.q[0].echo()) {
            g.pop();
        }
        ok
    }

    /// what one `dispatch` hands to `emit`, compared with the ghost entry `e`
    struct Seen {
        seen: bool,
        dst: bool,
        src: bool,
        len: bool,
        hdr: bool,
        kind: bool,
        ids: bool,
        byte: bool,
    }

    fn dispatch_recording(s: &mut Socket<'_>, cx: &mut Context, e: &G, hop: u8, emit_ok: bool) -> (Seen, Result<(), ()>) {
        let exp_src = cx.get_source_address_ipv4(&e.addr);
        let mut o = Seen { seen: false, dst: false, src: false, len: false, hdr: false, kind: false, ids: false, byte: false };
        let k = any_lt(DD);
        let r = s.dispatch(cx, |_cx, (ip, icmp)| {
            o.seen = true;
            o.dst = ip.dst_addr() == IpAddress::Ipv4(e.addr);
            o.src = Some(ip.src_addr()) == exp_src.map(IpAddress::Ipv4);
            o.hdr = ip.next_header() == IpProtocol::Icmp && ip.hop_limit() == hop && ip.payload_len() == HL + e.len;
            match icmp {
                IcmpRepr::Ipv4(Icmpv4Repr::EchoRequest { ident, seq_no, data }) => {
                    o.kind = e.ty == 8;
                    o.ids = ident == e.ident && seq_no == seq_of(e.tag);
                    o.len = data.len() == e.len;
                    o.byte = k >= data.len() || data[k] == pat(e.tag, k);
                }
                IcmpRepr::Ipv4(Icmpv4Repr::EchoReply { ident, seq_no, data }) => {
                    o.kind = e.ty == 0;
                    o.ids = ident == e.ident && seq_no == seq_of(e.tag);
                    o.len = data.len() == e.len;
                    o.byte = k >= data.len() || data[k] == pat(e.tag, k);
                }
                _ => {}
            }
            if emit_ok { Ok(()) } else { Err(()) }
        });
        // with a single IPv4 address on the interface the IPv4 heuristic always answers LOCAL
        assert!(exp_src == Some(LOCAL), "prop:c09_icmp_tx_source_is_interface_address");
        (o, r)
    }

    fn assert_emitted_is(o: &Seen, e: &G) {
        assert!(e.valid && e.echo(), "prop:c09_icmp_tx_no_extra_datagram");
        assert!(o.kind && o.len, "prop:c09_icmp_tx_datagram_whole_not_merged_not_split");
        assert!(o.ids && o.byte, "prop:c09_icmp_tx_message_bytes_unmodified");
        assert!(o.dst, "prop:c09_icmp_tx_destination_address");
        assert!(o.src, "prop:c09_icmp_tx_source_per_documented_rule");
        assert!(o.hdr, "prop:c09_icmp_tx_protocol_length_and_hop_limit");
    }

    /// The transmit queue equals the ghost: MC dispatches emit exactly the ghost's echo messages, each once,
    /// whole, in order; a queued message that is not a well-formed echo is dropped, never emitted.
    fn drain_tx(s: &mut Socket<'_>, cx: &mut Context, g: &Ghost, hop: u8) {
        assert!(!g.overflow, "prop:c09_icmp_tx_more_datagrams_than_metadata_slots");
        let mut i = 0;
        while i < MC {
            let e = g.q[i];
            let (o, r) = dispatch_recording(s, cx, &e, hop, true);
            assert!(r.is_ok(), "prop:c09_icmp_dispatch_error_only_from_emit");
            if e.valid && e.echo() {
                assert!(o.seen, "prop:c09_icmp_tx_no_datagram_lost");
                assert_emitted_is(&o, &e);
            } else {
                assert!(!o.seen, "prop:c09_icmp_tx_no_extra_datagram");
            }
            i += 1;
        }
    }

    macro_rules! tx_setup {
        ($dev:ident, $iface:ident, $cx:ident, $s:ident, $g:ident, $hop:ident) => {
            env!($dev, $iface, $cx);
            sock!($s, 1, 0, any_slots(), PC);
            let $hop = any_hop(&mut $s);
            let mut $g = Ghost::new();
        };
    }

    fn unspec(a: &Ipv4Address) -> bool {
        a.octets() == [0, 0, 0, 0]
    }

    // @harness props=C09 cfg=KI4 tier=q to=900 mem=8 unwind=6 opts=nomem covers=4 funcs=icmp::Socket::send_slice;icmp::Socket::send;icmp::Socket::send_with;icmp::Socket::dispatch;Icmpv4Repr::parse;PacketBuffer::enqueue;PacketBuffer::dequeue_with bounds=tx_metadata_slots_1..=2;_payload_ring_20_bytes;_pre-state_=_send,_dispatch_(each_may_be_a_no-op);_ICMPv4_messages_of_8+0..=4_bytes,_any_type/code/ident,_any_IPv4_destination;_one_interface_address
    #[kani::proof]
    pub(crate) fn icmp_send() {
        tx_setup!(dev, iface, cx, s, g, hop);
        step_send(&mut s, &mut g, VIA_SEND);
        step_dispatch(&mut s, cx, &mut g);
        let before = g.count();
        let m = any_msg();
        let size = HL + m.len;
        let bytes = message(m.tag, m.ident, m.ty, m.code, kani::any());
        let pcap = s.payload_send_capacity();
        let mcap = s.packet_send_capacity();
        let r = s.send_slice(&bytes[..size], IpAddress::Ipv4(m.addr));
        match r {
            Ok(()) => {
                assert!(!unspec(&m.addr), "prop:c09_icmp_send_refuses_unaddressable");
                g.push(m);
            }
            Err(SendError::Unaddressable) => assert!(unspec(&m.addr), "prop:c09_icmp_send_unaddressable_only_as_documented"),
            Err(SendError::BufferFull) => {
                // nothing queued => any datagram up to the payload capacity is accepted
                assert!(!(before == 0 && size <= pcap), "prop:c09_icmp_empty_tx_accepts_up_to_capacity");
            }
        }
        kani::cover!(r.is_ok() && before == 1, "second datagram accepted behind the first");
        kani::cover!(r.is_ok() && before == 0 && g.popped, "accepted on a queue emptied by dispatch");
        kani::cover!(r == Err(SendError::BufferFull) && before == 1 && mcap == 2, "refused: payload ring too full");
        kani::cover!(r == Err(SendError::BufferFull) && before == mcap, "refused: metadata slots full");
        drain_tx(&mut s, cx, &g, hop);
    }

    // @harness props=C09 cfg=KI4 tier=q to=900 mem=8 unwind=6 opts=nomem covers=3 funcs=icmp::Socket::send_with;icmp::Socket::send_slice;icmp::Socket::dispatch;PacketBuffer::enqueue_with_infallible;PacketBuffer::dequeue_with bounds=tx_metadata_slots_1..=2;_payload_ring_20_bytes;_pre-state_=_send_slice,_dispatch_(each_may_be_a_no-op);_max_size_0..=12,_written_message_8..=12_bytes_<=_max_size
    #[kani::proof]
    pub(crate) fn icmp_send_with() {
        tx_setup!(dev, iface, cx, s, g, hop);
        step_send(&mut s, &mut g, VIA_SLICE);
        step_dispatch(&mut s, cx, &mut g);
        let before = g.count();
        let m = any_msg();
        let take = HL + m.len;
        let max = any_le(BL);
        kani::assume(take <= max);
        let bytes = message(m.tag, m.ident, m.ty, m.code, kani::any());
        let pcap = s.payload_send_capacity();
        let mcap = s.packet_send_capacity();
        let mut offered = 0usize;
        let mut called = false;
        let r = s.send_with(max, IpAddress::Ipv4(m.addr), |b| {
            called = true;
            offered = b.len();
            copy_into(&mut b[..take], &bytes);
            take
        });
        match r {
            Ok(n) => {
                assert!(!unspec(&m.addr), "prop:c09_icmp_send_refuses_unaddressable");
                assert!(called && offered == max && n == take, "prop:c09_icmp_send_with_offers_max_and_keeps_written_size");
                g.push(m);
            }
            Err(SendError::Unaddressable) => assert!(unspec(&m.addr) && !called, "prop:c09_icmp_send_unaddressable_only_as_documented"),
            Err(SendError::BufferFull) => {
                assert!(!called, "prop:c09_icmp_send_with_callback_not_called_on_refusal");
                // nothing queued => any datagram up to the payload capacity is accepted
                assert!(!(before == 0 && max <= pcap), "prop:c09_icmp_empty_tx_accepts_up_to_capacity");
            }
        }
        kani::cover!(r.is_ok() && before == 1 && take < max, "second datagram accepted and shrunk");
        kani::cover!(r.is_ok() && before == 0 && g.popped, "accepted on a queue emptied by dispatch (read pointer moved)");
        kani::cover!(r == Err(SendError::BufferFull) && before == 1 && mcap == 2, "refused: payload ring too full");
        drain_tx(&mut s, cx, &g, hop);
    }

    // @harness props=C09 cfg=KI4 tier=q to=900 mem=8 unwind=6 opts=nomem covers=4 funcs=icmp::Socket::dispatch;icmp::Socket::send_slice;icmp::Socket::send_with;Icmpv4Repr::parse;PacketBuffer::dequeue_with bounds=tx_metadata_slots_1..=2;_payload_ring_20_bytes;_pre-state_=_send_slice,_send_with_(each_may_be_a_no-op);_emit_returns_Ok_or_Err;_ICMPv4_messages_8..=12_bytes,_any_type/code
    #[kani::proof]
    pub(crate) fn icmp_dispatch() {
        tx_setup!(dev, iface, cx, s, g, hop);
        step_send(&mut s, &mut g, VIA_SLICE);
        step_send(&mut s, &mut g, VIA_WITH);
        let before = g.count();
        let head = g.q[0];
        let emit_ok: bool = kani::any();
        let (o, r) = dispatch_recording(&mut s, cx, &head, hop, emit_ok);
        if head.valid && head.echo() {
            assert!(o.seen, "prop:c09_icmp_tx_no_datagram_lost");
            assert_emitted_is(&o, &head);
            assert!(r.is_ok() == emit_ok, "prop:c09_icmp_dispatch_error_only_from_emit");
            if emit_ok {
                g.pop(); // exactly the head leaves the queue
            }
            // emit failed: nothing leaves the queue, the same datagram is offered again by the drain below
        } else {
            // empty, or a malformed message: dropped (at most once on the wire), emit not consulted
            assert!(!o.seen && r.is_ok(), "prop:c09_icmp_tx_no_extra_datagram");
            g.pop();
        }
        kani::cover!(head.valid && head.echo() && !emit_ok && before == 2, "emit Err path taken with two queued");
        kani::cover!(head.valid && head.echo() && emit_ok && before == 2, "emit Ok pops the head, one remains");
        kani::cover!(head.valid && head.echo() && head.ty == 0 && head.len == DD, "echo reply with 4 data bytes emitted");
        kani::cover!(head.valid && !head.echo() && before == 2, "malformed head dropped, one remains");
        drain_tx(&mut s, cx, &g, hop);
    }

    // @harness props=C09,C13 cfg=KI4 tier=q to=900 mem=8 unwind=6 opts=nomem covers=3 funcs=icmp::Socket::poll_at;icmp::Socket::send_slice;icmp::Socket::send_with;icmp::Socket::dispatch bounds=tx_metadata_slots_1..=2;_payload_ring_20_bytes;_script_send_slice,_send_with,_dispatch,_send_slice,_dispatch,_dispatch_(each_may_be_a_no-op);_poll_at_probed_after_every_step
    #[kani::proof]
    pub(crate) fn icmp_poll_at() {
        tx_setup!(dev, iface, cx, s, g, hop);
        assert!(s.poll_at(cx) == PollAt::Ingress, "prop:c13_icmp_poll_at_ingress_when_nothing_queued");
        step_send(&mut s, &mut g, VIA_SLICE);
        let p1 = s.poll_at(cx);
        assert!((g.count() > 0) == (p1 == PollAt::Now) && (g.count() == 0) == (p1 == PollAt::Ingress), "prop:c13_icmp_poll_at_now_iff_datagram_queued");
        step_send(&mut s, &mut g, VIA_WITH);
        let p2 = s.poll_at(cx);
        assert!((g.count() > 0) == (p2 == PollAt::Now) && (g.count() == 0) == (p2 == PollAt::Ingress), "prop:c13_icmp_poll_at_now_iff_datagram_queued");
        step_dispatch(&mut s, cx, &mut g);
        let p3 = s.poll_at(cx);
        assert!((g.count() > 0) == (p3 == PollAt::Now) && (g.count() == 0) == (p3 == PollAt::Ingress), "prop:c13_icmp_poll_at_now_iff_datagram_queued");
        // a send that may be refused after its padding record was written, then the last datagram leaves
        let sent = step_send(&mut s, &mut g, VIA_SLICE);
        let p4 = s.poll_at(cx);
        assert!(g.count() == 0 || p4 == PollAt::Now, "prop:c13_icmp_poll_at_now_while_datagram_queued");
        let ok = step_dispatch(&mut s, cx, &mut g);
        let p5 = s.poll_at(cx);
        assert!(g.count() == 0 || p5 == PollAt::Now, "prop:c13_icmp_poll_at_now_while_datagram_queued");
        assert!(p5 == PollAt::Now || p5 == PollAt::Ingress, "prop:c13_icmp_poll_at_now_or_ingress");
        // non-spinning: a dispatch that had nothing to emit and leaves nothing queued leaves no deadline behind
        let offered = (g.q[0].valid && g.q[0].echo());
        let mut seen = false;
        let _ = s.dispatch(cx, |_cx, _p| {
            seen = true;
            Err::<(), ()>(())
        });
        assert!(seen == offered, "prop:c09_icmp_tx_no_datagram_lost");
        if !offered {
            g.pop(); // nothing queued, or a head that is dropped without being emitted
        }
        let p6 = s.poll_at(cx);
        assert!(seen || g.count() > 0 || p6 == PollAt::Ingress, "prop:c13_icmp_idle_dispatch_leaves_no_deadline");
        kani::cover!(p2 == PollAt::Now && p5 == PollAt::Ingress, "queue drained: Now -> Ingress");
        kani::cover!(!sent && g.count() == 0 && g.popped && ok && p5 == PollAt::Now && p6 == PollAt::Ingress, "only a padding record left: one idle dispatch, then Ingress");
        kani::cover!(!ok && g.count() == 2, "emit failed with two queued: still Now");
    }

    // ---------------------------------------------------------------- receive side: script steps
    fn bind_ident(s: &mut Socket<'_>) -> u16 {
        let id: u16 = kani::any();
        assert!(s.bind(Endpoint::Ident(id)).is_ok(), "prop:c09_icmp_bind_fresh_socket");
        id
    }

    /// a symbolic echo request / reply for the bound identifier from any IPv4 source
    fn any_echo(ident: u16) -> G {
        let req: bool = kani::any();
        G { valid: true, opt: false, tag: kani::any(), len: any_le(DD), addr: any_v4(), ident, ty: if req { 8 } else { 0 }, code: 0 }
    }

    fn process_echo(s: &mut Socket<'_>, cx: &mut Context, m: &G) {
        let data = data_of(m.tag);
        let repr = if m.ty == 8 {
            Icmpv4Repr::EchoRequest { ident: m.ident, seq_no: seq_of(m.tag), data: &data[..m.len] }
        } else {
            Icmpv4Repr::EchoReply { ident: m.ident, seq_no: seq_of(m.tag), data: &data[..m.len] }
        };
        let ip = Ipv4Repr { src_addr: m.addr, dst_addr: LOCAL, next_header: IpProtocol::Icmp, payload_len: HL + m.len, hop_limit: 64 };
        assert!(s.accepts_v4(cx, &ip, &repr), "prop:c09_icmp_accepts_echo_with_bound_ident");
        s.process_v4(cx, &ip, &repr);
    }

    /// One accepted echo message (skipped or dropped as a whole: the step may be a no-op).  The message is
    /// >= 8 bytes, a padding record alone is shorter than the message it precedes, so acceptance is visible
    /// in the byte count and the ghost is exact.
    fn step_process(s: &mut Socket<'_>, cx: &mut Context, g: &mut Ghost, ident: u16) -> bool {
        if kani::any() {
            return false;
        }
        let m = any_echo(ident);
        let before = s.recv_queue();
        process_echo(s, cx, &m);
        let ok = s.recv_queue() >= before + HL + m.len;
        if ok {
            g.push(m);
        }
        ok
    }

    fn step_recv(s: &mut Socket<'_>, g: &mut Ghost) {
        if kani::any() {
            let _ = s.recv();
            g.pop();
        }
    }

    /// the received bytes are the ICMP message of `e`, whole (the checksum bytes are C08's subject)
    fn bytes_are(buf: &[u8], e: &G) -> bool {
        if buf.len() != HL + e.len {
            return false;
        }
        let k = any_lt(DD);
        buf[0] == e.ty
            && buf[1] == 0
            && buf[4] == (e.ident >> 8) as u8
            && buf[5] == e.ident as u8
            && buf[6] == (seq_of(e.tag) >> 8) as u8
            && buf[7] == seq_of(e.tag) as u8
            && (k >= e.len || buf[HL + k] == pat(e.tag, k))
    }

    /// the receive queue equals the ghost (an `opt` tail entry may be missing as a whole); returns whether
    /// the `opt` entry was delivered
    fn drain_rx(s: &mut Socket<'_>, g: &Ghost) -> bool {
        assert!(!g.overflow, "prop:c09_icmp_rx_more_datagrams_than_metadata_slots");
        let mut tail = false;
        let mut i = 0;
        while i < MC {
            let e = g.q[i];
            match s.recv() {
                Ok((buf, a)) => {
                    assert!(e.valid, "prop:c09_icmp_rx_no_extra_datagram");
                    assert!(buf.len() == HL + e.len, "prop:c09_icmp_rx_datagram_whole_not_merged_not_split");
                    assert!(bytes_are(buf, &e), "prop:c09_icmp_rx_message_bytes_unmodified");
                    assert!(a == IpAddress::Ipv4(e.addr), "prop:c09_icmp_rx_source_address");
                    if e.opt {
                        tail = true;
                    }
                }
                Err(err) => {
                    assert!(err == RecvError::Exhausted, "prop:c09_icmp_recv_error_kind");
                    assert!(!e.valid || e.opt, "prop:c09_icmp_rx_no_datagram_lost");
                }
            }
            i += 1;
        }
        tail
    }

    macro_rules! rx_setup {
        ($dev:ident, $iface:ident, $cx:ident, $s:ident, $g:ident, $ident:ident) => {
            env!($dev, $iface, $cx);
            sock!($s, any_slots(), PC, 1, 0);
            let $ident = bind_ident(&mut $s);
            let mut $g = Ghost::new();
        };
    }

    // @harness props=C09 cfg=KI4 tier=q to=900 mem=8 unwind=6 opts=nomem covers=4 funcs=icmp::Socket::process_v4;icmp::Socket::accepts_v4;icmp::Socket::recv;Icmpv4Repr::emit;PacketBuffer::enqueue;PacketBuffer::dequeue bounds=rx_metadata_slots_1..=2;_payload_ring_20_bytes;_pre-state_=_process,_recv_(each_may_be_a_no-op);_echo_request/reply_with_0..=4_data_bytes_from_any_IPv4_source
    #[kani::proof]
    pub(crate) fn icmp_process_recv() {
        rx_setup!(dev, iface, cx, s, g, ident);
        step_process(&mut s, cx, &mut g, ident);
        step_recv(&mut s, &mut g);
        let before = g.count();
        let mut m = any_echo(ident);
        let size = HL + m.len;
        let pcap = s.payload_recv_capacity();
        let mcap = s.packet_recv_capacity();
        process_echo(&mut s, cx, &m);
        // delivered exactly once with its source address, or not at all
        m.opt = true;
        g.push(m);
        let bytes_after = s.recv_queue();
        let delivered = drain_rx(&mut s, &g);
        if !delivered {
            assert!(!(before == 0 && size <= pcap), "prop:c09_icmp_empty_rx_accepts_up_to_capacity");
        } else {
            assert!(before < mcap && size <= pcap, "prop:c09_icmp_rx_delivery_within_capacity");
        }
        kani::cover!(delivered && before == 1, "second datagram delivered behind the first");
        kani::cover!(delivered && before == 0 && g.popped, "delivered into a queue emptied by recv");
        kani::cover!(!delivered && before == 1 && mcap == 2, "dropped whole: payload ring too full");
        kani::cover!(!delivered && before == mcap, "dropped whole: metadata slots full");
    }

    // @harness props=C09 cfg=KI4 tier=q to=900 mem=8 unwind=6 opts=nomem covers=3 funcs=icmp::Socket::recv_slice;icmp::Socket::recv;icmp::Socket::process_v4 bounds=rx_metadata_slots_1..=2;_payload_ring_20_bytes;_pre-state_=_process,_process_(each_may_be_a_no-op);_user_buffer_0..=12_bytes
    #[kani::proof]
    pub(crate) fn icmp_recv_truncated() {
        rx_setup!(dev, iface, cx, s, g, ident);
        step_process(&mut s, cx, &mut g, ident);
        step_process(&mut s, cx, &mut g, ident);
        let head = g.q[0];
        let ulen = any_le(BL);
        let mut ubuf = [0xEEu8; BL];
        let r = s.recv_slice(&mut ubuf[..ulen]);
        match r {
            Ok((n, a)) => {
                assert!(head.valid, "prop:c09_icmp_rx_no_extra_datagram");
                assert!(n == HL + head.len && n <= ulen, "prop:c09_icmp_recv_slice_whole_datagram_or_error");
                assert!(bytes_are(&ubuf[..n], &head), "prop:c09_icmp_rx_message_bytes_unmodified");
                assert!(a == IpAddress::Ipv4(head.addr), "prop:c09_icmp_rx_source_address");
                g.pop();
            }
            Err(RecvError::Truncated) => {
                // documented: "the packet is dropped and a RecvError::Truncated error is returned"
                assert!(head.valid && ulen < HL + head.len, "prop:c09_icmp_truncated_only_when_buffer_too_small");
                g.pop();
            }
            Err(RecvError::Exhausted) => assert!(!head.valid, "prop:c09_icmp_rx_no_datagram_lost"),
        }
        kani::cover!(r == Err(RecvError::Truncated) && g.count() >= 1, "short user buffer: Truncated, next datagram still queued");
        kani::cover!(matches!(r, Ok((n, _)) if n == ulen && n >= 10) && g.count() >= 1, "exact-size user buffer");
        kani::cover!(matches!(r, Ok((n, _)) if n < ulen), "larger user buffer");
        drain_rx(&mut s, &g);
    }

    // ---------------------------------------------------------------- accepts / bind
    /// an 8-byte UDP header as found in the data of an ICMP error message
    fn udp_header(sp: u16, dp: u16, len: u16) -> [u8; 8] {
        [(sp >> 8) as u8, sp as u8, (dp >> 8) as u8, dp as u8, (len >> 8) as u8, len as u8, 0, 0]
    }

    // @harness props=C09 cfg=KI4 tier=q to=600 mem=8 unwind=6 opts=nomem covers=4 funcs=icmp::Socket::accepts_v4;icmp::Socket::bind;icmp::Socket::is_open;UdpRepr::parse bounds=bound_to_Ident(any),_Udp(any_port,_no/any_IPv4_address)_or_Tcp;_message_=_echo_request/reply_(any_ident)_or_DstUnreachable/TimeExceeded_quoting_an_8-byte_UDP_header_(any_ports,_any_length_field)
    #[kani::proof]
    pub(crate) fn icmp_accepts_bind() {
        env!(dev, iface, cx);
        sock!(s, 1, 0, 1, 0);
        assert!(!s.is_open(), "prop:c09_icmp_new_socket_closed");
        let bk: u8 = kani::any();
        let bid: u16 = kani::any();
        let bport: u16 = kani::any();
        let baddr = if kani::any() { Some(IpAddress::Ipv4(any_v4())) } else { None };
        let bep = IpListenEndpoint { addr: baddr, port: bport };
        let ep1 = match bk {
            0 => Endpoint::Unspecified,
            1 => Endpoint::Ident(bid),
            2 => Endpoint::Udp(bep),
            _ => Endpoint::Tcp(bep),
        };
        let specified = match bk {
            0 => false,
            1 => true,
            _ => bport != 0,
        };
        let r1 = s.bind(ep1);
        // documented: Unaddressable iff the endpoint is unspecified; a fresh socket otherwise binds
        assert!(r1 == if specified { Ok(()) } else { Err(BindError::Unaddressable) }, "prop:c09_icmp_bind_result_as_documented");
        assert!(s.is_open() == r1.is_ok(), "prop:c09_icmp_open_iff_bound");

        // the packet
        let src = any_v4();
        let dst = any_v4();
        let echo: bool = kani::any();
        let mid: u16 = kani::any();
        let data = data_of(1);
        let qsp: u16 = kani::any();
        let qdp: u16 = kani::any();
        let qlen: u16 = kani::any();
        let quoted = udp_header(qsp, qdp, qlen);
        let qhdr = Ipv4Repr { src_addr: dst, dst_addr: any_v4(), next_header: IpProtocol::Udp, payload_len: 8, hop_limit: 64 };
        let mk: u8 = kani::any();
        let repr = if echo {
            if mk == 0 {
                Icmpv4Repr::EchoRequest { ident: mid, seq_no: 1, data: &data[..2] }
            } else {
                Icmpv4Repr::EchoReply { ident: mid, seq_no: 1, data: &data[..2] }
            }
        } else if mk == 0 {
            Icmpv4Repr::DstUnreachable { reason: Icmpv4DstUnreachable::PortUnreachable, header: qhdr, data: &quoted[..] }
        } else {
            Icmpv4Repr::TimeExceeded { reason: Icmpv4TimeExceeded::TtlExpired, header: qhdr, data: &quoted[..] }
        };
        let ip = Ipv4Repr { src_addr: src, dst_addr: dst, next_header: IpProtocol::Icmp, payload_len: repr.buffer_len(), hop_limit: 64 };
        let acc = s.accepts_v4(cx, &ip, &repr);
        let matches = match bk {
            0 => false,
            // bound to an identifier: echo request / reply carrying exactly that identifier
            1 => echo && mid == bid,
            // bound to a UDP port: an error message quoting a UDP header sent from that port, and, if bound
            // to an address, addressed to that address
            2 => !echo && bport != 0 && qsp == bport && (baddr.is_none() || baddr == Some(IpAddress::Ipv4(dst))),
            // bound to a TCP port: likewise (the source port is the first field of a TCP header too; the quote is
            // the first 8 octets of the offending segment, so nothing else of it can be examined)
            _ => !echo && bport != 0 && qsp == bport && (baddr.is_none() || baddr == Some(IpAddress::Ipv4(dst))),
        };
        crate::vdump!("bound={:?} ip={:?} repr={:?} accepted={} reference={}", s.endpoint, ip, repr, acc, matches);
        assert!(!acc || matches, "prop:c09_icmp_accepts_only_if_bound_endpoint_matches");
        // matching is also sufficient, whatever the quoted length field says (quotes are normally truncated:
        // see icmp_accepts_truncated_quote)
        assert!(acc == matches, "prop:c09_icmp_accepts_iff_bound_endpoint_matches");
        kani::cover!(acc && bk == 1, "echo with the bound identifier accepted");
        kani::cover!(acc && bk == 2 && baddr.is_some() && qlen > 8, "error for the bound UDP port and address accepted, truncated quote");
        kani::cover!(!acc && bk == 2 && !echo && qsp == bport && qdp != 0, "right port, wrong address");
        kani::cover!(!acc && bk == 1 && echo, "echo with another identifier refused");

        // binding twice is an error and changes nothing
        if r1.is_ok() {
            let ep2 = if kani::any() { Endpoint::Ident(kani::any()) } else { Endpoint::Unspecified };
            let r2 = s.bind(ep2);
            assert!(r2 == if ep2 == Endpoint::Unspecified { Err(BindError::Unaddressable) } else { Err(BindError::InvalidState) }, "prop:c09_icmp_bind_twice_errors");
            assert!(s.endpoint == ep1, "prop:c09_icmp_failed_bind_keeps_endpoint");
        }
    }

    // RFC 792: an ICMP error quotes the IP header and the first 64 bits of the offending datagram, so the
    // quoted UDP length field normally exceeds the 8 quoted bytes.  A socket bound to the UDP port the
    // datagram was sent from must accept such an error ("each valid datagram arriving for a bound socket is
    // delivered").
    // @harness props=C09 cfg=KI4 tier=q to=600 mem=8 unwind=6 opts=nomem covers=1 funcs=icmp::Socket::accepts_v4 bounds=socket_bound_to_Udp(any_port);_DstUnreachable_quoting_the_first_8_bytes_of_a_UDP_datagram_of_any_length_8..=65535
    #[kani::proof]
    pub(crate) fn icmp_accepts_truncated_quote() {
        env!(dev, iface, cx);
        sock!(s, 1, 0, 1, 0);
        let bport: u16 = kani::any();
        kani::assume(bport != 0);
        assert!(s.bind(Endpoint::Udp(IpListenEndpoint { addr: None, port: bport })).is_ok(), "prop:c09_icmp_bind_fresh_socket");
        let qdp: u16 = kani::any();
        let qlen: u16 = kani::any();
        kani::assume(qlen >= 8);
        let quoted = udp_header(bport, qdp, qlen);
        let qhdr = Ipv4Repr { src_addr: LOCAL, dst_addr: any_v4(), next_header: IpProtocol::Udp, payload_len: 8, hop_limit: 64 };
        let repr = Icmpv4Repr::DstUnreachable { reason: Icmpv4DstUnreachable::PortUnreachable, header: qhdr, data: &quoted[..] };
        let ip = Ipv4Repr { src_addr: any_v4(), dst_addr: LOCAL, next_header: IpProtocol::Icmp, payload_len: repr.buffer_len(), hop_limit: 64 };
        let acc = s.accepts_v4(cx, &ip, &repr);
        kani::cover!(qlen > 8, "quoted datagram longer than the quote");
        assert!(acc, "prop:c09_icmp_accepts_error_quoting_first_8_bytes_of_own_udp_datagram");
    }

    // ---------------------------------------------------------------- IPv6 messages (one datagram each way)
    // @harness props=C09 cfg=KG tier=q to=900 mem=8 unwind=17 opts=nomem covers=2 funcs=icmp::Socket::send_slice;icmp::Socket::dispatch;icmp::Socket::process_v6;icmp::Socket::accepts_v6;icmp::Socket::recv;Icmpv6Repr::parse;Icmpv6Repr::emit bounds=one_ICMPv6_echo_request/reply_(0..=4_data_bytes)_sent_and_one_received;_payload_rings_of_12_bytes;_IPv6_addresses_with_2_symbolic_groups;_interface_without_IPv6_address_(source_::1)
    #[kani::proof]
    pub(crate) fn icmp_v6_send_dispatch_process_recv() {
        #[cfg(feature = "proto-ipv6")]
        icmp_v6_send_dispatch_process_recv_body();
    }
    #[cfg(feature = "proto-ipv6")]
    fn icmp_v6_send_dispatch_process_recv_body() {
        env!(dev, iface, cx);
        sock!(s, 1, BL, 1, BL);
        let ident = bind_ident(&mut s);
        // transmit
        let req: bool = kani::any();
        let tag: u8 = kani::any();
        let d = any_le(DD);
        let a: u16 = kani::any();
        let b: u16 = kani::any();
        let dst = Ipv6Address::new(a, 0, 0, 0, 0, 0, 0, b);
        let bytes = message(tag, ident, if req { 0x80 } else { 0x81 }, 0, kani::any());
        let r = s.send_slice(&bytes[..HL + d], IpAddress::Ipv6(dst));
        assert!(r.is_ok() == !(a == 0 && b == 0), "prop:c09_icmp_send_unaddressable_only_as_documented");
        let emit_ok: bool = kani::any();
        let exp_src = if r.is_ok() { Some(cx.get_source_address_ipv6(&dst)) } else { None };
        let mut seen = 0u8;
        let mut good = false;
        let k = any_lt(DD);
        let r1 = s.dispatch(cx, |_cx, (ip, icmp)| {
            seen += 1;
            let ipok = ip.dst_addr() == IpAddress::Ipv6(dst) && Some(ip.src_addr()) == exp_src.map(IpAddress::Ipv6)
                && ip.next_header() == IpProtocol::Icmpv6 && ip.payload_len() == HL + d && ip.hop_limit() == 64;
            good = ipok && match icmp {
                IcmpRepr::Ipv6(Icmpv6Repr::EchoRequest { ident: i, seq_no, data }) => {
                    req && i == ident && seq_no == seq_of(tag) && data.len() == d && (k >= d || data[k] == pat(tag, k))
                }
                IcmpRepr::Ipv6(Icmpv6Repr::EchoReply { ident: i, seq_no, data }) => {
                    !req && i == ident && seq_no == seq_of(tag) && data.len() == d && (k >= d || data[k] == pat(tag, k))
                }
                _ => false,
            };
            if emit_ok { Ok(()) } else { Err(()) }
        });
        if r.is_ok() {
            assert!(seen == 1 && good, "prop:c09_icmp_tx_message_bytes_unmodified");
            assert!(r1.is_ok() == emit_ok, "prop:c09_icmp_dispatch_error_only_from_emit");
        } else {
            assert!(seen == 0, "prop:c09_icmp_tx_no_extra_datagram");
        }
        // re-offered once after a failed emit, then gone
        let r2 = s.dispatch(cx, |_cx, _p| {
            seen += 1;
            Ok::<(), ()>(())
        });
        assert!(seen == (r.is_ok() as u8) + (r.is_ok() && !emit_ok) as u8, "prop:c09_icmp_tx_each_datagram_at_most_once_after_success");
        assert!(s.poll_at(cx) == PollAt::Ingress, "prop:c13_icmp_poll_at_ingress_when_nothing_queued");
        kani::cover!(r.is_ok() && !emit_ok && seen == 2, "IPv6 echo re-offered after a failed emit");

        // receive
        let src = Ipv6Address::new(kani::any(), 0, 0, 0, 0, 0, 0, kani::any());
        let me = Ipv6Address::new(0xfe80, 0, 0, 0, 0, 0, 0, 1);
        let rtag: u8 = kani::any();
        let rd = any_le(DD);
        let data = data_of(rtag);
        let rid: u16 = kani::any();
        let rreq: bool = kani::any();
        let repr = if rreq {
            Icmpv6Repr::EchoRequest { ident: rid, seq_no: seq_of(rtag), data: &data[..rd] }
        } else {
            Icmpv6Repr::EchoReply { ident: rid, seq_no: seq_of(rtag), data: &data[..rd] }
        };
        let ip6 = Ipv6Repr { src_addr: src, dst_addr: me, next_header: IpProtocol::Icmpv6, payload_len: HL + rd, hop_limit: 64 };
        let acc = s.accepts_v6(cx, &ip6, &repr);
        assert!(acc == (rid == ident), "prop:c09_icmp_accepts_iff_bound_endpoint_matches");
        if acc {
            s.process_v6(cx, &ip6, &repr);
            match s.recv() {
                Ok((buf, from)) => {
                    assert!(from == IpAddress::Ipv6(src), "prop:c09_icmp_rx_source_address");
                    assert!(buf.len() == HL + rd, "prop:c09_icmp_rx_datagram_whole_not_merged_not_split");
                    let e = G { valid: true, opt: false, tag: rtag, len: rd, addr: LOCAL, ident: rid, ty: if rreq { 0x80 } else { 0x81 }, code: 0 };
                    assert!(bytes_are(buf, &e), "prop:c09_icmp_rx_message_bytes_unmodified");
                }
                Err(_) => assert!(false, "prop:c09_icmp_empty_rx_accepts_up_to_capacity"),
            }
            assert!(s.recv().is_err(), "prop:c09_icmp_rx_no_extra_datagram");
        }
        kani::cover!(acc && rd == DD, "IPv6 echo with 4 data bytes delivered");
    }

    // @harness props=C09 kind=mustfail cfg=KI4 tier=q to=600 mem=8 unwind=6 opts=nomem
    #[kani::proof]
    pub(crate) fn icmp_must_fail() {
        tx_setup!(dev, iface, cx, s, g, hop);
        step_send(&mut s, &mut g, VIA_SLICE);
        step_send(&mut s, &mut g, VIA_SLICE);
        let head = g.q[0];
        let (o, r) = dispatch_recording(&mut s, cx, &head, hop, false);
        // false: a failed emit does NOT remove the head
        g.pop();
        drain_tx(&mut s, cx, &g, hop);
    }
}

// Configurations without IPv4 or without medium-ip (this file is spliced into every configuration of a
// run): the harnesses above are not run there; the replay dispatcher only needs their names.
#[cfg(not(all(feature = "proto-ipv4", feature = "medium-ip")))]
#[allow(dead_code)]
mod v_socket_icmp {
    macro_rules! stubs {
        ($($n:ident)*) => { $(pub(crate) fn $n() {})* };
    }
    stubs!(icmp_send icmp_send_with icmp_dispatch icmp_poll_at icmp_process_recv icmp_recv_truncated icmp_accepts_bind icmp_accepts_truncated_quote icmp_v6_send_dispatch_process_recv icmp_must_fail);
}
