// C20 (6LoWPAN compression and fragmentation are lossless) and the 6LoWPAN part of C03.
// Spliced into src/iface/interface/sixlowpan.rs (child of `iface::interface`): the private
// `InterfaceInner::{sixlowpan_to_ipv6, ipv6_to_sixlowpan, compressed_packet_size, process_sixlowpan_fragment,
// dispatch_sixlowpan, dispatch_sixlowpan_frag, dispatch_ieee802154}` are reachable.
//
// The round trip decompress(compress(p)) = p is cut at the 802.15.4 payload bytes (DESIGN.md probe 15):
//   lowpan_compress_<shape>    real compressor output          == tmpl(shape, fields of p)
//   lowpan_decompress_<shape>  real decompressor on tmpl(..)   == expected(shape, fields of p)  (plain RFC 8200 datagram)
// `tmpl` is written here from RFC 6282 (IPHC 3.1, address modes 3.1.1/3.2.2, UDP NHC 4.3.3) and RFC 4944 5.3; it is
// shape-concrete (every offset is a compile-time fact of the harness) and field-symbolic.
#[allow(dead_code, unused_imports, unused_variables, unused_mut, unused_assignments)]
mod v_iface_sixlowpan {
    use super::*;
    use crate::iface::{Config, Interface};
    use crate::verif_common::*;
    use crate::verif_dev::{CapTx, NullDev, TxState};

    // ------------------------------------------------------------------ shapes
    #[derive(Clone, Copy, PartialEq, Eq)]
    enum Ll {
        Ext,
        Short,
    }

    /// how one address is carried (RFC 6282 3.1.1: SAC/SAM, M/DAC/DAM)
    #[derive(Clone, Copy, PartialEq, Eq)]
    enum Am {
        /// 128 bits in-line (SAC=0 SAM=00 / M=0 DAC=0 DAM=00)
        Full,
        /// fe80::/64 + 64 bits in-line (mode 01)
        Ll64,
        /// fe80::0000:00ff:fe00:XXXX, 16 bits in-line (mode 10)
        Ll16,
        /// fe80::/64 + IID computed from the link-layer address (mode 11)
        LlElided,
        /// the unspecified address :: (SAC=1 SAM=00), source only
        Unspec,
        /// context prefix (64 bits) + 64 bits in-line (SAC/DAC=1 mode 01)
        Ctx64,
        /// context prefix + 0000:00ff:fe00:XXXX (SAC/DAC=1 mode 10)
        Ctx16,
        /// context prefix + IID from the link-layer address (SAC/DAC=1 mode 11)
        CtxElided,
        /// M=1 DAM=00: 128 bits in-line, destination only
        McFull,
        /// M=1 DAM=01: ffXX::00XX:XXXX:XXXX, 48 bits in-line
        Mc48,
        /// M=1 DAM=10: ffXX::00XX:XXXX, 32 bits in-line
        Mc32,
        /// M=1 DAM=11: ff02::00XX, 8 bits in-line
        Mc8,
    }

    /// upper layer and how IPHC announces it (a plain struct: enums with payload are niche-encoded and CBMC loses
    /// their discriminant, which makes every `match` arm live)
    #[derive(Clone, Copy, PartialEq, Eq)]
    struct Up {
        /// UP_ICMP: NH=0, next header 58 in-line, ICMPv6 echo request (8 octets) + data
        /// UP_TCP: NH=0, next header 6 in-line, TCP header without options (20 octets) + data
        /// UP_UDP_INLINE: NH=0, next header 17 in-line, plain UDP header (peers only; smoltcp always uses NHC)
        /// UP_UDP_NHC: NH=1, LOWPAN_NHC UDP 11110CPP: port mode p, checksum elided c
        kind: u8,
        p: u8,
        c: bool,
    }
    const UP_ICMP: u8 = 0;
    const UP_TCP: u8 = 1;
    const UP_UDP_INLINE: u8 = 2;
    const UP_UDP_NHC: u8 = 3;
    const ICMP: Up = Up { kind: UP_ICMP, p: 0, c: false };
    const TCP: Up = Up { kind: UP_TCP, p: 0, c: false };
    const UDP_INLINE: Up = Up { kind: UP_UDP_INLINE, p: 0, c: false };
    const fn nhc(p: u8) -> Up {
        Up { kind: UP_UDP_NHC, p, c: false }
    }
    const fn nhc_elided(p: u8) -> Up {
        Up { kind: UP_UDP_NHC, p, c: true }
    }
    fn is_nhc(s: &Shape) -> bool {
        s.up.kind == UP_UDP_NHC
    }

    #[derive(Clone, Copy)]
    struct Shape {
        /// TF 00: ECN+DSCP+flow label (4 octets), 01: ECN+flow label (3), 10: ECN+DSCP (1), 11: elided
        tf: u8,
        /// HLIM 00: in-line, 01: 1, 10: 64, 11: 255
        hlim: u8,
        /// context identifier extension octet present
        cid: bool,
        src: Am,
        dst: Am,
        sll: Ll,
        dll: Ll,
        up: Up,
        /// upper-layer payload octets (0..=4)
        plen: usize,
    }

    const fn sh(hlim: u8, src: Am, sll: Ll, dst: Am, dll: Ll, up: Up, plen: usize) -> Shape {
        Shape { tf: 3, hlim, cid: false, src, dst, sll, dll, up, plen }
    }

    const LL_PREFIX: [u8; 8] = [0xfe, 0x80, 0, 0, 0, 0, 0, 0];
    const SHORT_IID: [u8; 6] = [0, 0, 0, 0xff, 0xfe, 0];
    const TL: usize = 64;

    /// all field values of one datagram of a shape
    #[derive(Clone, Copy)]
    struct Fields {
        /// IPv6 traffic class octet (DSCP:6 | ECN:2) and 20-bit flow label
        tc: u8,
        flow: u32,
        hl: u8,
        src: [u8; 16],
        dst: [u8; 16],
        sll: [u8; 8],
        dll: [u8; 8],
        /// context 0 of the receiver's table; SCI/DCI octet if CID=1
        ctx: [u8; 8],
        cidb: u8,
        sport: u16,
        dport: u16,
        ck: [u8; 2],
        /// Icmp/Tcp/UdpInline: the whole upper-layer header + data; UdpNhc: the UDP data in up[..plen]
        up: [u8; 24],
    }

    fn ll_addr(k: Ll, b: &[u8; 8]) -> Ieee802154Address {
        match k {
            Ll::Ext => Ieee802154Address::Extended(*b),
            Ll::Short => Ieee802154Address::Short([b[0], b[1]]),
        }
    }

    /// RFC 6282 3.2.2 / RFC 4944 6: IID of a link-layer address (EUI-64 with the U/L bit flipped, or 0000:00ff:fe00:XXXX)
    fn iid(k: Ll, b: &[u8; 8]) -> [u8; 8] {
        match k {
            Ll::Ext => [b[0] ^ 0x02, b[1], b[2], b[3], b[4], b[5], b[6], b[7]],
            Ll::Short => [0, 0, 0, 0xff, 0xfe, 0, b[0], b[1]],
        }
    }

    fn mk_addr(m: Am, raw: &[u8; 16], k: Ll, llb: &[u8; 8], ctx: &[u8; 8]) -> [u8; 16] {
        let mut a = [0u8; 16];
        match m {
            Am::Full => a = *raw,
            Am::McFull => {
                a = *raw;
                a[0] = 0xff;
            }
            Am::Ll64 => {
                a[..8].copy_from_slice(&LL_PREFIX);
                a[8..].copy_from_slice(&raw[8..]);
            }
            Am::Ll16 => {
                a[..8].copy_from_slice(&LL_PREFIX);
                a[8..14].copy_from_slice(&SHORT_IID);
                a[14] = raw[14];
                a[15] = raw[15];
            }
            Am::LlElided => {
                a[..8].copy_from_slice(&LL_PREFIX);
                a[8..].copy_from_slice(&iid(k, llb));
            }
            Am::Unspec => {}
            Am::Ctx64 => {
                a[..8].copy_from_slice(ctx);
                a[8..].copy_from_slice(&raw[8..]);
            }
            Am::Ctx16 => {
                a[..8].copy_from_slice(ctx);
                a[8..14].copy_from_slice(&SHORT_IID);
                a[14] = raw[14];
                a[15] = raw[15];
            }
            Am::CtxElided => {
                a[..8].copy_from_slice(ctx);
                a[8..].copy_from_slice(&iid(k, llb));
            }
            Am::Mc48 => {
                a[0] = 0xff;
                a[1] = raw[1];
                a[11..].copy_from_slice(&raw[11..]);
            }
            Am::Mc32 => {
                a[0] = 0xff;
                a[1] = raw[1];
                a[13..].copy_from_slice(&raw[13..]);
            }
            Am::Mc8 => {
                a[0] = 0xff;
                a[1] = 0x02;
                a[15] = raw[15];
            }
        }
        a
    }

    fn uses_ctx(m: Am) -> bool {
        matches!(m, Am::Ctx64 | Am::Ctx16 | Am::CtxElided)
    }

    /// (SAC or M/DAC bits, mode bits) of an address mode
    fn src_bits(m: Am) -> u8 {
        match m {
            Am::Full => 0b0_00,
            Am::Ll64 => 0b0_01,
            Am::Ll16 => 0b0_10,
            Am::LlElided => 0b0_11,
            Am::Unspec => 0b1_00,
            Am::Ctx64 => 0b1_01,
            Am::Ctx16 => 0b1_10,
            Am::CtxElided => 0b1_11,
            _ => panic!("not a source mode"),
        }
    }
    fn dst_bits(m: Am) -> u8 {
        match m {
            Am::Full => 0b0_0_00,
            Am::Ll64 => 0b0_0_01,
            Am::Ll16 => 0b0_0_10,
            Am::LlElided => 0b0_0_11,
            Am::Ctx64 => 0b0_1_01,
            Am::Ctx16 => 0b0_1_10,
            Am::CtxElided => 0b0_1_11,
            Am::McFull => 0b1_0_00,
            Am::Mc48 => 0b1_0_01,
            Am::Mc32 => 0b1_0_10,
            Am::Mc8 => 0b1_0_11,
            Am::Unspec => panic!("not a destination mode"),
        }
    }

    /// in-line octets of an address, appended at t[i..]; returns the new i
    fn put_addr(m: Am, a: &[u8; 16], t: &mut [u8; TL], mut i: usize) -> usize {
        match m {
            Am::Full | Am::McFull => {
                t[i..i + 16].copy_from_slice(a);
                i += 16;
            }
            Am::Ll64 | Am::Ctx64 => {
                t[i..i + 8].copy_from_slice(&a[8..]);
                i += 8;
            }
            Am::Ll16 | Am::Ctx16 => {
                t[i] = a[14];
                t[i + 1] = a[15];
                i += 2;
            }
            Am::LlElided | Am::CtxElided | Am::Unspec => {}
            Am::Mc48 => {
                t[i] = a[1];
                t[i + 1..i + 6].copy_from_slice(&a[11..]);
                i += 6;
            }
            Am::Mc32 => {
                t[i] = a[1];
                t[i + 1..i + 4].copy_from_slice(&a[13..]);
                i += 4;
            }
            Am::Mc8 => {
                t[i] = a[15];
                i += 1;
            }
        }
        i
    }

    fn upper_len(s: &Shape) -> usize {
        match s.up.kind {
            UP_ICMP => 8 + s.plen,
            UP_TCP => 20 + s.plen,
            _ => 8 + s.plen,
        }
    }
    fn proto(s: &Shape) -> u8 {
        match s.up.kind {
            UP_ICMP => 58,
            UP_TCP => 6,
            _ => 17,
        }
    }

    /// positions inside the template that harnesses refer to
    #[derive(Clone, Copy)]
    struct Lay {
        len: usize,
        /// end of the compressed headers (IPHC, and the whole UDP NHC incl. in-line checksum)
        hdr: usize,
        /// the NHC octet and the in-line checksum (UDP NHC only, else 0)
        nhc_at: usize,
        ck_at: usize,
    }

    /// RFC 6282 encoding of the datagram `f` in shape `s`
    fn tmpl(s: &Shape, f: &Fields, t: &mut [u8; TL]) -> Lay {
        let nhc = is_nhc(s);
        t[0] = 0b011_00_0_00 | (s.tf << 3) | ((nhc as u8) << 2) | s.hlim;
        t[1] = ((s.cid as u8) << 7) | (src_bits(s.src) << 4) | dst_bits(s.dst);
        let mut i = 2;
        if s.cid {
            t[i] = f.cidb;
            i += 1;
        }
        let ecn = f.tc & 0x03;
        let dscp = f.tc >> 2;
        match s.tf {
            0 => {
                t[i] = (ecn << 6) | dscp;
                t[i + 1] = ((f.flow >> 16) & 0x0f) as u8;
                t[i + 2] = (f.flow >> 8) as u8;
                t[i + 3] = f.flow as u8;
                i += 4;
            }
            1 => {
                t[i] = (ecn << 6) | ((f.flow >> 16) & 0x0f) as u8;
                t[i + 1] = (f.flow >> 8) as u8;
                t[i + 2] = f.flow as u8;
                i += 3;
            }
            2 => {
                t[i] = (ecn << 6) | dscp;
                i += 1;
            }
            _ => {}
        }
        if !nhc {
            t[i] = proto(s);
            i += 1;
        }
        if s.hlim == 0 {
            t[i] = f.hl;
            i += 1;
        }
        i = put_addr(s.src, &f.src, t, i);
        i = put_addr(s.dst, &f.dst, t, i);
        let mut lay = Lay { len: 0, hdr: i, nhc_at: 0, ck_at: 0 };
        match nhc {
            false => {
                let n = upper_len(s);
                t[i..i + n].copy_from_slice(&f.up[..n]);
                i += n;
            }
            true => {
                let p = s.up.p;
                let c = s.up.c;
                lay.nhc_at = i;
                t[i] = 0b11110_000 | ((c as u8) << 2) | p;
                i += 1;
                match p {
                    0 => {
                        t[i] = (f.sport >> 8) as u8;
                        t[i + 1] = f.sport as u8;
                        t[i + 2] = (f.dport >> 8) as u8;
                        t[i + 3] = f.dport as u8;
                        i += 4;
                    }
                    1 => {
                        // source in full, destination 0xf0XX
                        t[i] = (f.sport >> 8) as u8;
                        t[i + 1] = f.sport as u8;
                        t[i + 2] = f.dport as u8;
                        i += 3;
                    }
                    2 => {
                        // source 0xf0XX, destination in full
                        t[i] = f.sport as u8;
                        t[i + 1] = (f.dport >> 8) as u8;
                        t[i + 2] = f.dport as u8;
                        i += 3;
                    }
                    _ => {
                        // both 0xf0bX: source nibble high, destination nibble low
                        t[i] = (((f.sport & 0x0f) as u8) << 4) | (f.dport & 0x0f) as u8;
                        i += 1;
                    }
                }
                if !c {
                    lay.ck_at = i;
                    t[i] = f.ck[0];
                    t[i + 1] = f.ck[1];
                    i += 2;
                }
                lay.hdr = i;
                t[i..i + s.plen].copy_from_slice(&f.up[..s.plen]);
                i += s.plen;
            }
        }
        lay.len = i;
        lay
    }

    /// the plain IPv6 datagram (RFC 8200 header; RFC 768 UDP header) the template stands for; returns its length
    fn expected(s: &Shape, f: &Fields, e: &mut [u8; 64]) -> usize {
        let ul = upper_len(s);
        e[0] = 0x60 | (f.tc >> 4);
        e[1] = (f.tc << 4) | ((f.flow >> 16) & 0x0f) as u8;
        e[2] = (f.flow >> 8) as u8;
        e[3] = f.flow as u8;
        e[4] = (ul >> 8) as u8;
        e[5] = ul as u8;
        e[6] = proto(s);
        e[7] = f.hl;
        e[8..24].copy_from_slice(&f.src);
        e[24..40].copy_from_slice(&f.dst);
        match is_nhc(s) {
            false => e[40..40 + ul].copy_from_slice(&f.up[..ul]),
            true => {
                e[40] = (f.sport >> 8) as u8;
                e[41] = f.sport as u8;
                e[42] = (f.dport >> 8) as u8;
                e[43] = f.dport as u8;
                e[44] = (ul >> 8) as u8;
                e[45] = ul as u8;
                e[46] = f.ck[0];
                e[47] = f.ck[1];
                e[48..48 + s.plen].copy_from_slice(&f.up[..s.plen]);
            }
        }
        40 + ul
    }

    /// symbolic field values of a datagram that can be carried in shape `s`
    fn any_fields(s: &Shape) -> Fields {
        let sll: [u8; 8] = kani::any();
        let dll: [u8; 8] = kani::any();
        let ctx: [u8; 8] = kani::any();
        let rs: [u8; 16] = kani::any();
        let rd: [u8; 16] = kani::any();
        let mut f = Fields {
            tc: kani::any(),
            flow: kani::any(),
            hl: kani::any(),
            src: mk_addr(s.src, &rs, s.sll, &sll, &ctx),
            dst: mk_addr(s.dst, &rd, s.dll, &dll, &ctx),
            sll,
            dll,
            ctx,
            cidb: 0,
            sport: kani::any(),
            dport: kani::any(),
            ck: kani::any(),
            up: kani::any(),
        };
        kani::assume(f.flow < (1 << 20));
        match s.tf {
            1 => kani::assume(f.tc >> 2 == 0),
            2 => kani::assume(f.flow == 0),
            3 => kani::assume(f.tc == 0 && f.flow == 0),
            _ => {}
        }
        match s.hlim {
            1 => f.hl = 1,
            2 => f.hl = 64,
            3 => f.hl = 255,
            _ => {}
        }
        if is_nhc(s) {
            match s.up.p {
                1 => kani::assume(f.dport >> 8 == 0xf0),
                2 => kani::assume(f.sport >> 8 == 0xf0),
                3 => kani::assume(f.sport >> 4 == 0xf0b && f.dport >> 4 == 0xf0b),
                _ => {}
            }
        }
        f
    }

    fn ieee(src: Option<Ieee802154Address>, dst: Option<Ieee802154Address>) -> Ieee802154Repr {
        Ieee802154Repr {
            frame_type: Ieee802154FrameType::Data,
            security_enabled: false,
            frame_pending: false,
            ack_request: false,
            sequence_number: Some(1),
            pan_id_compression: true,
            frame_version: Ieee802154FrameVersion::Ieee802154_2003,
            dst_pan_id: Some(Ieee802154Pan(0xabcd)),
            dst_addr: dst,
            src_pan_id: Some(Ieee802154Pan(0xabcd)),
            src_addr: src,
        }
    }

    fn ieee_of(s: &Shape, f: &Fields) -> Ieee802154Repr {
        ieee(Some(ll_addr(s.sll, &f.sll)), Some(ll_addr(s.dll, &f.dll)))
    }

    // ------------------------------------------------------------------ 2. decompression of a template
    /// `ctx_table`: number of entries in the receiver's context table (context 0 = f.ctx)
    fn decompress_case(s: Shape) {
        let mut f = any_fields(&s);
        if s.cid {
            // 1-entry table: SCI = DCI = 0 are the identifiers that resolve
            f.cidb = 0;
        }
        if (uses_ctx(s.src) || uses_ctx(s.dst) || s.src == Am::Unspec) && !is_nhc(&s) {
            // Modelling artifact (measured): for these address modes CBMC cannot see that `SixlowpanIphcRepr::parse`
            // succeeds, the parsed `next_header` stops being a constant, and the LOWPAN_NHC arm of the loop in
            // `sixlowpan_to_ipv6` is unrolled on the upper-layer octets (0.5 M steps per iteration).  A concrete first
            // upper-layer octet (ICMPv6 type 128; not an NHC dispatch) cuts that arm; the decompressor only copies it.
            f.up[0] = 0x80;
        }
        let r802 = ieee_of(&s, &f);
        let mut t = [0u8; TL];
        let lay = tmpl(&s, &f, &mut t);
        let mut e = [0u8; 64];
        let m = expected(&s, &f, &mut e);
        let ctx = [SixlowpanAddressContext(f.ctx)];
        let mut out: [u8; 64] = kani::any();
        crate::vdump!("TEMPLATE {:02x?}", &t[..lay.len]);
        let r = InterfaceInner::sixlowpan_to_ipv6(&ctx[..], &r802, &t[..lay.len], None, &mut out[..]);
        crate::vdump!("RESULT {:?}\nGOT      {:02x?}\nEXPECTED {:02x?}", r, &out[..m], &e[..m]);
        assert!(r.is_ok(), "prop:c20_well_formed_datagram_is_decompressed");
        assert!(matches!(r, Ok(l) if l == m), "prop:c20_decompressed_length");
        let k = any_lt(64);
        kani::assume(k < m);
        let is_udp_ck = is_nhc(&s) && (k == 46 || k == 47);
        if k < 4 {
            // smoltcp's Ipv6Repr carries neither traffic class nor flow label: compared only when elided (TF=11)
            assert!(out[0] >> 4 == 6, "prop:c20_decompressed_version");
            if s.tf == 3 {
                assert!(out[k] == e[k], "prop:c20_decompressed_ipv6_header");
            }
        } else if k < 8 {
            assert!(out[k] == e[k], "prop:c20_decompressed_ipv6_header");
        } else if k < 24 {
            assert!(out[k] == e[k], "prop:c20_decompressed_source_address");
        } else if k < 40 {
            assert!(out[k] == e[k], "prop:c20_decompressed_destination_address");
        } else if is_udp_ck {
            // the UDP checksum field is the subject of lowpan_decompress_udp_checksum_kept
        } else if is_nhc(&s) && k < 42 {
            assert!(out[k] == e[k], "prop:c20_decompressed_udp_source_port");
        } else if is_nhc(&s) && k < 44 {
            assert!(out[k] == e[k], "prop:c20_decompressed_udp_destination_port");
        } else if is_nhc(&s) && k < 46 {
            assert!(out[k] == e[k], "prop:c20_decompressed_udp_length");
        } else {
            assert!(out[k] == e[k], "prop:c20_decompressed_upper_layer_bytes");
        }
        kani::cover!(k == m - 1 && r.is_ok(), "last octet of the datagram compared");
        kani::cover!(k == 39 && r.is_ok(), "destination address compared");
    }

    // ------------------------------------------------------------------ 1. compression equals the template
    /// the datagram is one for which RFC 6282's most compact stateless form is exactly `s`
    /// (smoltcp picks the form from the address values; the template must be the one it has to pick)
    fn assume_sender_picks(s: &Shape, f: &Fields) {
        fn pick(m: Am, a: &[u8; 16], k: Ll, llb: &[u8; 8]) {
            let short_form = a[8] == 0 && a[9] == 0 && a[10] == 0 && a[11] == 0xff && a[12] == 0xfe && a[13] == 0;
            let ll_pfx = a[0] == 0xfe && a[1] == 0x80 && a[2] == 0 && a[3] == 0 && a[4] == 0 && a[5] == 0 && a[6] == 0 && a[7] == 0;
            let i = iid(k, llb);
            let is_iid = a[8] == i[0] && a[9] == i[1] && a[10] == i[2] && a[11] == i[3] && a[12] == i[4] && a[13] == i[5] && a[14] == i[6] && a[15] == i[7];
            let z2_10 = a[2] == 0 && a[3] == 0 && a[4] == 0 && a[5] == 0 && a[6] == 0 && a[7] == 0 && a[8] == 0 && a[9] == 0 && a[10] == 0;
            let unspec = a[0] == 0 && a[1] == 0 && z2_10 && a[11] == 0 && a[12] == 0 && a[13] == 0 && a[14] == 0 && a[15] == 0;
            match m {
                Am::Full => kani::assume(!unspec && !ll_pfx && a[0] != 0xff),
                Am::Ll64 => kani::assume(!short_form && !is_iid),
                Am::Ll16 => kani::assume(!is_iid),
                // an EUI-64 that happens to look like 0000:00ff:fe00:XXXX is sent in the 16-bit form (also decodable)
                Am::LlElided => kani::assume(k == Ll::Short || !short_form),
                Am::Unspec | Am::Mc8 => {}
                Am::Mc32 => kani::assume(!(a[1] == 0x02 && a[13] == 0 && a[14] == 0)),
                Am::Mc48 => kani::assume(!(a[11] == 0 && a[12] == 0)),
                Am::McFull => kani::assume(!z2_10),
                _ => panic!("smoltcp never emits context-based forms"),
            }
        }
        pick(s.src, &f.src, s.sll, &f.sll);
        pick(s.dst, &f.dst, s.dll, &f.dll);
        if s.hlim == 0 {
            kani::assume(f.hl != 1 && f.hl != 64 && f.hl != 255);
        }
        if is_nhc(s) {
            let p = s.up.p;
            let s8 = f.sport >> 8 == 0xf0;
            let d8 = f.dport >> 8 == 0xf0;
            let both4 = f.sport >> 4 == 0xf0b && f.dport >> 4 == 0xf0b;
            match p {
                0 => kani::assume(!s8 && !d8),
                1 => kani::assume(!s8),
                2 => kani::assume(!both4),
                _ => {}
            }
        }
    }

    // NOTE (measured, decides the structure of the compress harnesses).  `IpPayload` is a niche-encoded enum: Kani
    // models it as a union whose padding is nondet and writes the tag through a pointer cast, so for CBMC's symbolic
    // execution the discriminant of a freshly built `IpPayload::Udp(..)` is never a constant, even when every member
    // is concrete.  Every arm of `match &mut packet.payload` in `ipv6_to_sixlowpan` (all ICMPv6 / NDISC / MLD
    // emitters, TCP options, with garbage lengths) is therefore encoded: 0.85-0.97 M steps and more than 6 GB for ANY
    // call of that function, however concrete.  So:
    //  * `Via::Parts` (quick tier): real `compressed_packet_size` for the sizes, then exactly the calls
    //    `ipv6_to_sixlowpan` makes for this payload kind -- `SixlowpanIphcRepr::{buffer_len, emit}` built from the
    //    same fields, `SixlowpanUdpNhcRepr::{header_len, emit}` / `Icmpv6Repr::emit` / `TcpRepr::emit` on the rest of
    //    the buffer -- everything symbolic, all shapes;
    //  * `Via::Whole` (thorough tier, 16 GB): the real `ipv6_to_sixlowpan` on one shape per payload kind, which shows
    //    that its own slicing glue composes those calls the same way.
    #[derive(Clone, Copy, PartialEq, Eq)]
    enum Via {
        Parts,
        Whole,
    }

    fn check_sizes(s: &Shape, pkt: &PacketV6, r802: &Ieee802154Repr, lay: &Lay) {
        let (total, comp, uncomp) = InterfaceInner::compressed_packet_size(pkt, r802);
        crate::vdump!("sizes total={} compressed_hdr={} uncompressed_hdr={} template len={} hdr={}", total, comp, uncomp, lay.len, lay.hdr);
        assert!(total == lay.len, "prop:c20_compressed_size_equals_template_length");
        assert!(comp == lay.hdr, "prop:c20_compressed_header_size");
        assert!(uncomp == if is_nhc(s) { 48 } else { 40 }, "prop:c20_uncompressed_header_size");
    }

    /// first statements of `ipv6_to_sixlowpan`: the IPHC header built from the IPv6 header and the 802.15.4 addresses
    fn emit_iphc_part(s: &Shape, f: &Fields, r802: &Ieee802154Repr, buf: &mut [u8; TL], want: usize) {
        let repr = SixlowpanIphcRepr {
            src_addr: Ipv6Address::from_octets(f.src),
            ll_src_addr: r802.src_addr,
            dst_addr: Ipv6Address::from_octets(f.dst),
            ll_dst_addr: r802.dst_addr,
            next_header: if is_nhc(s) { SixlowpanNextHeader::Compressed } else { SixlowpanNextHeader::Uncompressed(IpProtocol::from(proto(s))) },
            hop_limit: f.hl,
            ecn: None,
            dscp: None,
            flow_label: None,
        };
        let n = repr.buffer_len();
        crate::vdump!("IPHC buffer_len={} template={}", n, want);
        assert!(n == want, "prop:c20_iphc_length_equals_template");
        repr.emit(&mut SixlowpanIphcPacket::new_unchecked(&mut buf[..want]));
    }

    fn compare_with_template(s: &Shape, lay: &Lay, buf: &[u8; TL], t: &[u8; TL]) {
        crate::vdump!("GOT      {:02x?}\nTEMPLATE {:02x?}", &buf[..lay.len], &t[..lay.len]);
        let k = any_lt(TL);
        kani::assume(k < lay.len);
        if is_nhc(s) {
            if k == lay.nhc_at {
                // C = 0: the two checksum octets are part of the layout `compressed_packet_size` announced
                assert!(buf[k] & 0x04 == 0, "prop:c20_udp_nhc_checksum_bit_matches_layout");
                assert!(buf[k] | 0x04 == t[k] | 0x04, "prop:c20_compressed_bytes_equal_template");
            } else if k == lay.ck_at || k == lay.ck_at + 1 {
                // tx checksumming is off in this harness: the checksum value is left to the device
            } else if k > lay.nhc_at && k < lay.ck_at {
                assert!(buf[k] == t[k], "prop:c20_compressed_udp_ports_equal_template");
            } else if k < lay.nhc_at {
                assert!(buf[k] == t[k], "prop:c20_compressed_iphc_equals_template");
            } else {
                assert!(buf[k] == t[k], "prop:c20_compressed_bytes_equal_template");
            }
        } else if k < lay.hdr {
            assert!(buf[k] == t[k], "prop:c20_compressed_iphc_equals_template");
        } else {
            assert!(buf[k] == t[k], "prop:c20_compressed_bytes_equal_template");
        }
        kani::cover!(k == lay.len - 1, "last octet compared");
        kani::cover!(k == 1, "second IPHC octet compared");
    }

    fn rep_ports(p: u8) -> (u16, u16) {
        match p {
            0 => (0x1234, 0xabcd),
            1 => (0x1234, 0xf0c7),
            2 => (0xf012, 0x5678),
            _ => (0xf0b3, 0xf0b9),
        }
    }

    fn compress_udp(s: Shape, via: Via, stale_c_bit: bool) {
        let mut f = any_fields(&s);
        if via == Via::Whole {
            let (sp, dp) = rep_ports(s.up.p);
            f.sport = sp;
            f.dport = dp;
        }
        assume_sender_picks(&s, &f);
        let r802 = ieee_of(&s, &f);
        let caps = ChecksumCapabilities::ignored();
        let stale: [u8; TL] = kani::any();
        let data: [u8; 4] = [f.up[0], f.up[1], f.up[2], f.up[3]];
        let src = Ipv6Address::from_octets(f.src);
        let dst = Ipv6Address::from_octets(f.dst);
        let udp = UdpRepr { src_port: f.sport, dst_port: f.dport };
        let pkt = PacketV6 {
            header: Ipv6Repr { src_addr: src, dst_addr: dst, next_header: IpProtocol::Udp, payload_len: 8 + s.plen, hop_limit: f.hl },
            payload: IpPayload::Udp(udp, &data[..s.plen]),
        };
        let mut t = [0u8; TL];
        let lay = tmpl(&s, &f, &mut t);
        if !stale_c_bit {
            // the stale-C-bit defect has its own harness (lowpan_compress_udp_stale_checksum_bit)
            kani::assume(stale[lay.nhc_at] & 0x04 == 0);
        }
        check_sizes(&s, &pkt, &r802, &lay);
        let mut buf = stale;
        match via {
            Via::Whole => InterfaceInner::ipv6_to_sixlowpan(&caps, pkt, &r802, &mut buf[..lay.len]),
            Via::Parts => {
                emit_iphc_part(&s, &f, &r802, &mut buf, lay.nhc_at);
                let u = SixlowpanUdpNhcRepr(udp);
                assert!(u.header_len() == lay.hdr - lay.nhc_at, "prop:c20_udp_nhc_header_len");
                u.emit(
                    &mut SixlowpanUdpNhcPacket::new_unchecked(&mut buf[lay.nhc_at..lay.len]),
                    &src,
                    &dst,
                    s.plen,
                    |b| b.copy_from_slice(&data[..s.plen]),
                    &caps,
                );
            }
        }
        compare_with_template(&s, &lay, &buf, &t);
    }

    fn compress_icmp(s: Shape, via: Via) {
        let mut f = any_fields(&s);
        assume_sender_picks(&s, &f);
        let r802 = ieee_of(&s, &f);
        let caps = ChecksumCapabilities::ignored();
        let stale: [u8; TL] = kani::any();
        let data: [u8; 4] = kani::any();
        let (ident, seq_no): (u16, u16) = if via == Via::Whole { (0x1234, 0xabcd) } else { (kani::any(), kani::any()) };
        // RFC 4443 4.1: type 128, code 0, checksum (0: not computed with tx checksumming off), identifier, sequence number, data
        f.up = [0; 24];
        f.up[0] = 0x80;
        f.up[4] = (ident >> 8) as u8;
        f.up[5] = ident as u8;
        f.up[6] = (seq_no >> 8) as u8;
        f.up[7] = seq_no as u8;
        f.up[8..12].copy_from_slice(&data);
        let src = Ipv6Address::from_octets(f.src);
        let dst = Ipv6Address::from_octets(f.dst);
        let icmp = Icmpv6Repr::EchoRequest { ident, seq_no, data: &data[..s.plen] };
        let pkt = PacketV6 {
            header: Ipv6Repr { src_addr: src, dst_addr: dst, next_header: IpProtocol::Icmpv6, payload_len: 8 + s.plen, hop_limit: f.hl },
            payload: IpPayload::Icmpv6(icmp),
        };
        let mut t = [0u8; TL];
        let lay = tmpl(&s, &f, &mut t);
        check_sizes(&s, &pkt, &r802, &lay);
        let mut buf = stale;
        match via {
            Via::Whole => InterfaceInner::ipv6_to_sixlowpan(&caps, pkt, &r802, &mut buf[..lay.len]),
            Via::Parts => {
                emit_iphc_part(&s, &f, &r802, &mut buf, lay.hdr);
                icmp.emit(&src, &dst, &mut Icmpv6Packet::new_unchecked(&mut buf[lay.hdr..lay.len]), &caps);
            }
        }
        compare_with_template(&s, &lay, &buf, &t);
    }

    fn compress_tcp(s: Shape, via: Via) {
        let mut f = any_fields(&s);
        assume_sender_picks(&s, &f);
        let r802 = ieee_of(&s, &f);
        let caps = ChecksumCapabilities::ignored();
        let stale: [u8; TL] = kani::any();
        let data: [u8; 4] = kani::any();
        let src = Ipv6Address::from_octets(f.src);
        let dst = Ipv6Address::from_octets(f.dst);
        let tcp = TcpRepr {
            src_port: 0xf0b1,
            dst_port: 80,
            control: TcpControl::Psh,
            seq_number: TcpSeqNumber(0x0102_0304),
            ack_number: Some(TcpSeqNumber(0x0a0b_0c0d)),
            window_len: 0x2000,
            window_scale: None,
            max_seg_size: None,
            sack_permitted: false,
            sack_ranges: [None, None, None],
            timestamp: None,
            payload: &data[..s.plen],
        };
        // reference for the TCP octets: the plain emission of the same segment (what `Packet::emit_payload` does on
        // other media), over the same stale buffer contents; 6LoWPAN carries TCP verbatim
        let mut t = [0u8; TL];
        let hdr = tmpl(&s, &f, &mut t).hdr;
        f.up.copy_from_slice(&stale[hdr..hdr + 24]);
        tcp.emit(&mut TcpPacket::new_unchecked(&mut f.up[..20 + s.plen]), &src.into(), &dst.into(), &caps);
        let lay = tmpl(&s, &f, &mut t);
        let pkt = PacketV6 {
            header: Ipv6Repr { src_addr: src, dst_addr: dst, next_header: IpProtocol::Tcp, payload_len: 20 + s.plen, hop_limit: f.hl },
            payload: IpPayload::Tcp(tcp),
        };
        check_sizes(&s, &pkt, &r802, &lay);
        let mut buf = stale;
        match via {
            Via::Whole => InterfaceInner::ipv6_to_sixlowpan(&caps, pkt, &r802, &mut buf[..lay.len]),
            Via::Parts => {
                emit_iphc_part(&s, &f, &r802, &mut buf, lay.hdr);
                tcp.emit(&mut TcpPacket::new_unchecked(&mut buf[lay.hdr..lay.len]), &src.into(), &dst.into(), &caps);
            }
        }
        compare_with_template(&s, &lay, &buf, &t);
    }

    // ------------------------------------------------------------------ UDP NHC checksum
    /// RFC 768 / RFC 8200 8.1 checksum of a UDP datagram over IPv6, written independently (32-bit accumulate, fold)
    fn ref_udp_checksum(src: &[u8; 16], dst: &[u8; 16], sport: u16, dport: u16, data: &[u8; 2]) -> u16 {
        let mut acc: u32 = 0;
        let mut i = 0;
        while i < 16 {
            acc += ((src[i] as u32) << 8) | src[i + 1] as u32;
            acc += ((dst[i] as u32) << 8) | dst[i + 1] as u32;
            i += 2;
        }
        let len = 8 + 2u32;
        acc += len; // upper-layer packet length
        acc += 17; // next header
        acc += sport as u32;
        acc += dport as u32;
        acc += len; // UDP length field
        acc += ((data[0] as u32) << 8) | data[1] as u32;
        acc = (acc & 0xffff) + (acc >> 16);
        acc = (acc & 0xffff) + (acc >> 16);
        let c = !(acc as u16);
        if c == 0 { 0xffff } else { c }
    }

    // ------------------------------------------------------------------ 3. arbitrary bytes (C03 + "otherwise nothing is delivered")
    fn any_ll_opt() -> Option<Ieee802154Address> {
        // every value `Ieee802154Repr::parse` can produce: absent addressing mode, reserved mode / frame version (None)
        match kani::any::<u8>() & 3 {
            0 => None,
            1 => Some(Ieee802154Address::Absent),
            2 => Some(Ieee802154Address::Short(kani::any())),
            _ => Some(Ieee802154Address::Extended(kani::any())),
        }
    }

    /// IPHC octets b0 b1 fixed, `n` further octets arbitrary, any prefix length of that
    /// `nhc`: 0 = nothing more fixed; otherwise the octet at `at` (the first LOWPAN_NHC octet) is this value: a symbolic
    /// NHC dispatch makes every iteration of the header loop cost ~0.2 M steps for both header kinds
    fn free_case<const N: usize>(b0: u8, b1: u8, nhc: u8, at: usize) {
        let mut bytes: [u8; N] = kani::any();
        bytes[0] = b0;
        bytes[1] = b1;
        if nhc != 0 {
            bytes[at] = nhc;
        }
        let len = N;
        let r802 = ieee(any_ll_opt(), any_ll_opt());
        let ctx = [SixlowpanAddressContext(kani::any())];
        let nctx = any_le(1);
        // fragmented: `process_sixlowpan_fragment` passes datagram_size (40..=buffer) and the 256-octet reassembly buffer;
        // unfragmented: None and the 1500-octet scratch buffer.  128 octets are more than 14 input octets can expand to.
        let total = if kani::any() {
            let t = any_le(crate::config::REASSEMBLY_BUFFER_SIZE);
            kani::assume(t >= 40);
            Some(t)
        } else {
            None
        };
        let mut out = [0u8; 72];
        crate::vdump!("INPUT {:02x?} total_len={:?} ll_src={:?} ll_dst={:?} contexts={}", &bytes[..len], total, r802.src_addr, r802.dst_addr, nctx);
        let r = InterfaceInner::sixlowpan_to_ipv6(&ctx[..nctx], &r802, &bytes[..len], total, &mut out[..]);
        crate::vdump!("RESULT {:?}", r);
        if let Ok(l) = r {
            assert!(l >= 40 && l <= 72, "prop:c20_decompressed_length_within_buffer");
        }
        kani::cover!(r.is_ok() && len == N, "all octets used, accepted");
        kani::cover!(r.is_err() && len == N, "all octets used, rejected");
    }

    // ------------------------------------------------------------------ 4. fragmentation on transmit
    /// 802.15.4 header of the frames smoltcp builds here: FC(2) seq(1) dst PAN(2) dst ext(8) src ext(8), PAN ID compression
    const MAC: usize = 21;
    /// compressed headers of the fragmentation harnesses' datagram: IPHC 7e 33 | NHC f0, ports in full, checksum
    const FH: usize = 9;
    /// uncompressed (40 + 8) minus compressed header size
    const DIFF: usize = 48 - FH;
    /// RFC 4944 5.3: all fragments but the last carry a multiple of 8 octets of the UNCOMPRESSED datagram
    const F1_LEN: usize = (125 - MAC - 4 + DIFF) / 8 * 8 - DIFF; // 97 compressed octets = 136 uncompressed
    const FN_LEN: usize = (125 - MAC - 5) / 8 * 8; // 96
    const TXN: usize = 128;

    fn not_short_form(b: &[u8; 8]) -> bool {
        let i = iid(Ext, b);
        !(i[0] == 0 && i[1] == 0 && i[2] == 0 && i[3] == 0xff && i[4] == 0xfe && i[5] == 0)
    }

    fn ll_ip(b: &[u8; 8]) -> Ipv6Address {
        let mut a = [0u8; 16];
        a[..8].copy_from_slice(&LL_PREFIX);
        a[8..].copy_from_slice(&iid(Ext, b));
        Ipv6Address::from_octets(a)
    }

    macro_rules! lowpan_env {
        ($dev:ident, $iface:ident, $hw:expr) => {
            let mut $dev = NullDev { medium: Medium::Ieee802154, mtu: 125, checksum: ChecksumCapabilities::ignored() };
            let mut cfg = Config::new(HardwareAddress::Ieee802154(Ieee802154Address::Extended($hw)));
            cfg.pan_id = Some(Ieee802154Pan(0xabcd));
            let mut $iface = Interface::new(cfg, &mut $dev, Instant::from_millis(0));
        };
    }

    /// octet k of the compressed datagram (ports 0x1234 -> 0xabcd); k = 7, 8 (checksum) excluded by the callers
    fn c_byte<const L: usize>(k: usize, payload: &[u8; L]) -> u8 {
        match k {
            0 => 0x7e,
            1 => 0x33,
            2 => 0xf0,
            3 => 0x12,
            4 => 0x34,
            5 => 0xab,
            6 => 0xcd,
            7 | 8 => 0,
            _ => payload[k - FH],
        }
    }

    /// frame `idx` (0-based) of the datagram must be: MAC header, FRAG1/FRAGN header, compressed octets lo..hi
    fn check_frame<const L: usize>(buf: &[u8; TXN], len: usize, idx: usize, lo: usize, hi: usize, tag: u16, seq0: u8, hw: &[u8; 8], peer: &[u8; 8], payload: &[u8; L]) {
        let size = 48 + L;
        let fh = if idx == 0 { 4 } else { 5 };
        crate::vdump!("frame {} len={} {:02x?}", idx, len, &buf[..len]);
        assert!(len <= 125, "prop:c20_frame_fits_802154");
        assert!(len == MAC + fh + (hi - lo), "prop:c20_fragment_frame_length");
        // 802.15.4: data frame, PAN ID compression, extended addresses, 2003 frame version; addresses little-endian
        assert!(buf[0] == 0x41 && buf[1] == 0xcc && buf[2] == seq0.wrapping_add(idx as u8) && buf[3] == 0xcd && buf[4] == 0xab, "prop:c20_802154_header");
        let j = any_lt(8);
        assert!(buf[5 + j] == peer[7 - j] && buf[13 + j] == hw[7 - j], "prop:c20_802154_addresses");
        let d = if idx == 0 { 0xc0 } else { 0xe0 };
        assert!(buf[MAC] == d | (size >> 8) as u8 && buf[MAC + 1] == size as u8, "prop:c20_fragment_datagram_size");
        assert!(buf[MAC + 2] == (tag >> 8) as u8 && buf[MAC + 3] == tag as u8, "prop:c20_fragment_datagram_tag");
        if idx > 0 {
            assert!((lo + DIFF) % 8 == 0 && buf[MAC + 4] as usize == (lo + DIFF) / 8, "prop:c20_fragment_offset_in_uncompressed_octets");
        }
        let k = any_lt(FH + L);
        kani::assume(k >= lo && k < hi && k != 7 && k != 8);
        assert!(buf[MAC + fh + (k - lo)] == c_byte(k, payload), "prop:c20_fragments_tile_the_compressed_datagram");
    }

    /// `Via::Whole`: the real `dispatch_ieee802154` produces FRAG1 and leaves the fragmenter state (heavy, see NOTE at
    /// `Via`); `Via::Parts`: that state is written by the harness (and `Whole` asserts it is the state the real code
    /// leaves); then the real `dispatch_ieee802154_frag` produces every FRAGN
    fn frag_tx_case<const L: usize>(nfrag: usize, via: Via) {
        let hw: [u8; 8] = kani::any();
        let peer: [u8; 8] = kani::any();
        kani::assume(not_short_form(&hw) && not_short_form(&peer));
        lowpan_env!(dev, iface, hw);
        let Interface { inner, fragmenter, .. } = &mut iface;
        let payload: [u8; L] = kani::any();
        let total = FH + L;
        let tag = inner.tag;
        let seq0 = inner.sequence_no;
        let mut tx_a = TxState::<TXN>::new();
        let mut tx_b = TxState::<TXN>::new();
        match via {
            Via::Whole => {
                let pkt = Packet::new_ipv6(
                    Ipv6Repr { src_addr: ll_ip(&hw), dst_addr: ll_ip(&peer), next_header: IpProtocol::Udp, payload_len: 8 + L, hop_limit: 64 },
                    IpPayload::Udp(UdpRepr { src_port: 0x1234, dst_port: 0xabcd }, &payload[..]),
                );
                inner.dispatch_ieee802154(Ieee802154Address::Extended(peer), CapTx { st: &mut tx_a }, PacketMeta::default(), pkt, fragmenter);
                assert!(tx_a.frames == 1, "prop:c20_first_fragment_sent");
                check_frame(&tx_a.buf0, tx_a.len0, 0, 0, F1_LEN, tag, seq0, &hw, &peer, &payload);
                // the state the FRAGN harnesses start from
                assert!(fragmenter.packet_len == total && fragmenter.sent_bytes == F1_LEN, "prop:c20_fragmenter_state_after_first_fragment");
                let sx = &fragmenter.sixlowpan;
                assert!(sx.datagram_size as usize == 48 + L && sx.datagram_tag == tag && sx.datagram_offset == F1_LEN + DIFF && sx.fragn_size == FN_LEN, "prop:c20_fragmenter_state_after_first_fragment");
                assert!(sx.ll_dst_addr == Ieee802154Address::Extended(peer) && sx.ll_src_addr == Ieee802154Address::Extended(hw), "prop:c20_fragmenter_state_after_first_fragment");
                let k = any_lt(FH + L);
                kani::assume(k != 7 && k != 8);
                assert!(fragmenter.buffer[k] == c_byte(k, &payload), "prop:c20_fragmenter_holds_the_compressed_datagram");
            }
            Via::Parts => {
                let ck: [u8; 2] = kani::any();
                fragmenter.buffer[..FH].copy_from_slice(&[0x7e, 0x33, 0xf0, 0x12, 0x34, 0xab, 0xcd, ck[0], ck[1]]);
                fragmenter.buffer[FH..FH + L].copy_from_slice(&payload);
                fragmenter.packet_len = total;
                fragmenter.sent_bytes = F1_LEN;
                fragmenter.sixlowpan.datagram_size = (48 + L) as u16;
                fragmenter.sixlowpan.datagram_tag = tag;
                fragmenter.sixlowpan.datagram_offset = F1_LEN + DIFF;
                fragmenter.sixlowpan.fragn_size = FN_LEN;
                fragmenter.sixlowpan.ll_dst_addr = Ieee802154Address::Extended(peer);
                fragmenter.sixlowpan.ll_src_addr = Ieee802154Address::Extended(hw);
                inner.sequence_no = seq0.wrapping_add(1);
                tx_a.frames = 1;
            }
        }
        assert!(!fragmenter.finished() && !fragmenter.is_empty(), "prop:c20_fragmenter_holds_the_rest");
        inner.dispatch_ieee802154_frag(CapTx { st: &mut tx_a }, fragmenter);
        let hi1 = if total < F1_LEN + FN_LEN { total } else { F1_LEN + FN_LEN };
        check_frame(&tx_a.buf1, tx_a.len1, 1, F1_LEN, hi1, tag, seq0, &hw, &peer, &payload);
        if nfrag == 3 {
            assert!(!fragmenter.finished(), "prop:c20_fragmenter_holds_the_rest");
            inner.dispatch_ieee802154_frag(CapTx { st: &mut tx_b }, fragmenter);
            check_frame(&tx_b.buf0, tx_b.len0, 2, F1_LEN + FN_LEN, total, tag, seq0, &hw, &peer, &payload);
        }
        // every octet of the compressed datagram went out exactly once
        assert!(fragmenter.finished(), "prop:c20_all_fragments_sent");
        kani::cover!(tx_a.frames == 2 && tx_a.len1 > MAC + 5, "second fragment carries data");
        kani::cover!(payload[L - 1] != payload[0], "payload varies");
    }

    // ------------------------------------------------------------------ 5. reassembly
    /// ghost datagram of the reassembly harness: fe80::iid(sll) -> fe80::iid(dll), UDP, 8 data octets: 56 octets,
    /// sent as FRAG1 (compressed headers only: uncompressed 0..48) and FRAGN offset 6 (48..56);
    /// both frames are 13 octets long (three fragments: 1.08 M steps, 11 min of symbolic execution, > 8 GB: measured)
    const GD: usize = 56;
    #[derive(Clone, Copy)]
    struct GhostD {
        sll: [u8; 8],
        dll: [u8; 8],
        sport: u16,
        dport: u16,
        ck: [u8; 2],
        data: [u8; 8],
        tag: u16,
    }

    /// datagram_size < 256 (passed as one octet) keeps the dispatch octet of the frame concrete
    fn frag_frame(g: &GhostD, which: u8, sl: u8, tag: u16, offset: u8) -> [u8; 13] {
        let sh = 0u8;
        let th = (tag >> 8) as u8;
        let tl = tag as u8;
        let d = &g.data;
        if which == 0 {
            [0xc0 | sh, sl, th, tl, 0x7e, 0x33, 0xf0, (g.sport >> 8) as u8, g.sport as u8, (g.dport >> 8) as u8, g.dport as u8, g.ck[0], g.ck[1]]
        } else {
            [0xe0 | sh, sl, th, tl, offset, d[0], d[1], d[2], d[3], d[4], d[5], d[6], d[7]]
        }
    }

    fn ghost_byte(g: &GhostD, k: usize) -> u8 {
        let s = iid(Ext, &g.sll);
        let d = iid(Ext, &g.dll);
        match k {
            0 => 0x60,
            1 | 2 | 3 | 4 => 0,
            5 => 16,
            6 => 17,
            7 => 64,
            8 | 24 => 0xfe,
            9 | 25 => 0x80,
            10..=15 | 26..=31 => 0,
            16..=23 => s[k - 16],
            32..=39 => d[k - 32],
            40 => (g.sport >> 8) as u8,
            41 => g.sport as u8,
            42 => (g.dport >> 8) as u8,
            43 => g.dport as u8,
            44 => 0,
            45 => 16,
            46 => g.ck[0],
            47 => g.ck[1],
            _ => g.data[k - 48],
        }
    }

    /// one received fragment; returns (delivered, length, octet k of the delivered datagram) -- no copy of the
    /// datagram: its length is symbolic for CBMC and a symbolic-length copy out of the 256-octet slot costs > 8 GB
    fn rx_feed(inner: &mut InterfaceInner, fb: &mut FragmentsBuffer, r802: &Ieee802154Repr, fr: &[u8; 13], k: usize) -> (bool, usize, u8) {
        crate::vdump!("FRAGMENT {:02x?}", fr);
        match inner.process_sixlowpan_fragment(r802, &fr[..], fb) {
            Some(d) => {
                let n = d.len();
                crate::vdump!("DELIVERED {} octets {:02x?}", n, d);
                (true, n, if k < n { d[k] } else { 0 })
            }
            None => (false, 0, 0),
        }
    }

    fn assert_is_ghost(g: &GhostD, n: usize, k: usize, dk: u8) {
        assert!(n == GD, "prop:c20_reassembled_length");
        if k != 46 && k != 47 {
            assert!(dk == ghost_byte(g, k), "prop:c20_reassembled_datagram_equals_sent_datagram");
        }
    }

    use Am::*;
    use Ll::{Ext, Short};

    // ---- shapes the stack itself can emit (TF=11, CID=0, stateless address modes), both directions
    const S_UDP4: Shape = sh(2, LlElided, Ext, LlElided, Ext, nhc(3), 4);
    const S_UDP0: Shape = sh(2, LlElided, Ext, Full, Ext, nhc(0), 4);
    const S_UDP1: Shape = sh(0, Full, Ext, Full, Ext, nhc(1), 3);
    const S_UDP2: Shape = sh(3, Ll64, Ext, Ll64, Short, nhc(2), 4);
    const S_ICMP_SHORT: Shape = sh(1, LlElided, Short, Ll16, Ext, ICMP, 4);
    const S_ICMP_MC8: Shape = sh(3, Unspec, Ext, Mc8, Short, ICMP, 2);
    const S_ICMP_MC32: Shape = sh(0, Ll16, Short, Mc32, Short, ICMP, 4);
    const S_ICMP_MC48: Shape = sh(3, Full, Ext, Mc48, Short, ICMP, 0);
    const S_UDP_MCFULL: Shape = sh(2, LlElided, Ext, McFull, Short, nhc(0), 1);
    const S_TCP: Shape = sh(2, Full, Ext, Full, Ext, TCP, 4);
    const S_TCP_LL: Shape = sh(2, LlElided, Ext, LlElided, Short, TCP, 2);
    const S_UDP_SHORT64: Shape = sh(0, Ll64, Short, Ll16, Short, nhc(0), 0);
    const S_ICMP_GE: Shape = sh(2, Full, Short, LlElided, Ext, ICMP, 1);

    // @harness props=C20 cfg=KL tier=q to=900 mem=4 unwind=20 opts=nomem covers=2 funcs=InterfaceInner::compressed_packet_size;SixlowpanIphcRepr::buffer_len;SixlowpanIphcRepr::emit;SixlowpanUdpNhcRepr::header_len;SixlowpanUdpNhcRepr::emit bounds=shape_TF=11;_HLIM_64;_src/dst_fe80::IID_elided_from_extended_link_addresses;_UDP-NHC_both_ports_0xf0bX_(4+4_bits);_every_address,_link_address,_hop_limit,_payload_octet_and_the_stale_transmit_buffer_symbolic;_all_ports_of_the_class;_stale_NHC_octet_with_C=0_(C=1:_lowpan_compress_udp_stale_checksum_bit);_the_calls_ipv6_to_sixlowpan_makes_are_made_by_the_harness_(the_function_itself:_lowpan_compress_whole_*);_payload<=4_octets;_tx_checksumming_off
    #[kani::proof]
    pub(crate) fn lowpan_compress_udp_ports4() {
        compress_udp(S_UDP4, Via::Parts, false);
    }

    // @harness props=C20 cfg=KL tier=q to=900 mem=4 unwind=20 opts=nomem covers=2 funcs=InterfaceInner::compressed_packet_size;SixlowpanIphcRepr::buffer_len;SixlowpanIphcRepr::emit;SixlowpanUdpNhcRepr::header_len;SixlowpanUdpNhcRepr::emit bounds=shape_TF=11;_HLIM_64;_src_elided_(extended_link_address);_dst_any_global_128_bits_in-line;_UDP-NHC_both_ports_in_full;_every_address,_link_address,_hop_limit,_payload_octet_and_the_stale_transmit_buffer_symbolic;_all_ports_of_the_class;_stale_NHC_octet_with_C=0_(C=1:_lowpan_compress_udp_stale_checksum_bit);_the_calls_ipv6_to_sixlowpan_makes_are_made_by_the_harness_(the_function_itself:_lowpan_compress_whole_*);_payload<=4_octets;_tx_checksumming_off
    #[kani::proof]
    pub(crate) fn lowpan_compress_udp_ports0() {
        compress_udp(S_UDP0, Via::Parts, false);
    }

    // @harness props=C20 cfg=KL tier=q to=900 mem=8 unwind=20 opts=nomem covers=2 funcs=InterfaceInner::compressed_packet_size;SixlowpanIphcRepr::buffer_len;SixlowpanIphcRepr::emit;SixlowpanUdpNhcRepr::header_len;SixlowpanUdpNhcRepr::emit bounds=shape_TF=11;_hop_limit_in-line;_src/dst_any_global_128_bits_in-line;_UDP-NHC_dst_port_0xf0XX;_every_address,_link_address,_hop_limit,_payload_octet_and_the_stale_transmit_buffer_symbolic;_all_ports_of_the_class;_stale_NHC_octet_with_C=0_(C=1:_lowpan_compress_udp_stale_checksum_bit);_the_calls_ipv6_to_sixlowpan_makes_are_made_by_the_harness_(the_function_itself:_lowpan_compress_whole_*);_payload<=4_octets;_tx_checksumming_off
    #[kani::proof]
    pub(crate) fn lowpan_compress_udp_ports1() {
        compress_udp(S_UDP1, Via::Parts, false);
    }

    // @harness props=C20 cfg=KL tier=q to=900 mem=4 unwind=20 opts=nomem covers=2 funcs=InterfaceInner::compressed_packet_size;SixlowpanIphcRepr::buffer_len;SixlowpanIphcRepr::emit;SixlowpanUdpNhcRepr::header_len;SixlowpanUdpNhcRepr::emit bounds=shape_TF=11;_HLIM_255;_src/dst_fe80::/64_+_64_bits_in-line;_UDP-NHC_src_port_0xf0XX;_every_address,_link_address,_hop_limit,_payload_octet_and_the_stale_transmit_buffer_symbolic;_all_ports_of_the_class;_stale_NHC_octet_with_C=0_(C=1:_lowpan_compress_udp_stale_checksum_bit);_the_calls_ipv6_to_sixlowpan_makes_are_made_by_the_harness_(the_function_itself:_lowpan_compress_whole_*);_payload<=4_octets;_tx_checksumming_off
    #[kani::proof]
    pub(crate) fn lowpan_compress_udp_ports2() {
        compress_udp(S_UDP2, Via::Parts, false);
    }

    // @harness props=C20 cfg=KL tier=q to=900 mem=4 unwind=20 opts=nomem covers=2 funcs=InterfaceInner::compressed_packet_size;SixlowpanIphcRepr::buffer_len;SixlowpanIphcRepr::emit;Icmpv6Repr::emit bounds=shape_TF=11;_HLIM_1;_src_elided_from_short_link_address;_dst_fe80::ff:fe00:XXXX_16_bits_in-line;_ICMPv6_echo;_every_address,_link_address,_hop_limit,_payload_octet_and_the_stale_transmit_buffer_symbolic;_the_calls_ipv6_to_sixlowpan_makes_are_made_by_the_harness_(the_function_itself:_lowpan_compress_whole_*);_payload<=4_octets;_tx_checksumming_off
    #[kani::proof]
    pub(crate) fn lowpan_compress_icmp_short() {
        compress_icmp(S_ICMP_SHORT, Via::Parts);
    }

    // @harness props=C20 cfg=KL tier=q to=900 mem=4 unwind=20 opts=nomem covers=2 funcs=InterfaceInner::compressed_packet_size;SixlowpanIphcRepr::buffer_len;SixlowpanIphcRepr::emit;Icmpv6Repr::emit bounds=shape_TF=11;_HLIM_255;_src_unspecified_(SAC=1_SAM=00);_dst_ff02::XX_(M=1_DAM=11);_ICMPv6_echo;_every_address,_link_address,_hop_limit,_payload_octet_and_the_stale_transmit_buffer_symbolic;_the_calls_ipv6_to_sixlowpan_makes_are_made_by_the_harness_(the_function_itself:_lowpan_compress_whole_*);_payload<=4_octets;_tx_checksumming_off
    #[kani::proof]
    pub(crate) fn lowpan_compress_icmp_mc8() {
        compress_icmp(S_ICMP_MC8, Via::Parts);
    }

    // @harness props=C20 cfg=KL tier=q to=900 mem=4 unwind=20 opts=nomem covers=2 funcs=InterfaceInner::compressed_packet_size;SixlowpanIphcRepr::buffer_len;SixlowpanIphcRepr::emit;Icmpv6Repr::emit bounds=shape_TF=11;_next_header_AND_hop_limit_both_in-line_(any_hop_limit_outside_1/64/255);_src_fe80::ff:fe00:XXXX_16_bits_in-line;_dst_ffXX::XX:XXXX_(M=1_DAM=10);_ICMPv6_echo;_every_address,_link_address,_hop_limit,_payload_octet_and_the_stale_transmit_buffer_symbolic;_the_calls_ipv6_to_sixlowpan_makes_are_made_by_the_harness_(the_function_itself:_lowpan_compress_whole_*);_payload<=4_octets;_tx_checksumming_off
    #[kani::proof]
    pub(crate) fn lowpan_compress_icmp_mc32() {
        compress_icmp(S_ICMP_MC32, Via::Parts);
    }

    // @harness props=C20 cfg=KL tier=q to=900 mem=4 unwind=20 opts=nomem covers=2 funcs=InterfaceInner::compressed_packet_size;SixlowpanIphcRepr::buffer_len;SixlowpanIphcRepr::emit;Icmpv6Repr::emit bounds=shape_TF=11;_HLIM_255;_src_any_global_in-line;_dst_ffXX::XX:XXXX:XXXX_(M=1_DAM=01,_e.g._solicited-node);_ICMPv6_echo_without_data;_every_address,_link_address,_hop_limit,_payload_octet_and_the_stale_transmit_buffer_symbolic;_the_calls_ipv6_to_sixlowpan_makes_are_made_by_the_harness_(the_function_itself:_lowpan_compress_whole_*);_payload<=4_octets;_tx_checksumming_off
    #[kani::proof]
    pub(crate) fn lowpan_compress_icmp_mc48() {
        compress_icmp(S_ICMP_MC48, Via::Parts);
    }

    // @harness props=C20 cfg=KL tier=q to=900 mem=4 unwind=20 opts=nomem covers=2 funcs=InterfaceInner::compressed_packet_size;SixlowpanIphcRepr::buffer_len;SixlowpanIphcRepr::emit;SixlowpanUdpNhcRepr::header_len;SixlowpanUdpNhcRepr::emit bounds=shape_TF=11;_HLIM_64;_src_elided;_dst_any_other_multicast_address_128_bits_in-line_(M=1_DAM=00);_UDP-NHC_ports_in_full;_every_address,_link_address,_hop_limit,_payload_octet_and_the_stale_transmit_buffer_symbolic;_all_ports_of_the_class;_stale_NHC_octet_with_C=0_(C=1:_lowpan_compress_udp_stale_checksum_bit);_the_calls_ipv6_to_sixlowpan_makes_are_made_by_the_harness_(the_function_itself:_lowpan_compress_whole_*);_payload<=4_octets;_tx_checksumming_off
    #[kani::proof]
    pub(crate) fn lowpan_compress_udp_mcfull() {
        compress_udp(S_UDP_MCFULL, Via::Parts, false);
    }

    // @harness props=C20 cfg=KL tier=q to=900 mem=4 unwind=20 opts=nomem covers=2 funcs=InterfaceInner::compressed_packet_size;SixlowpanIphcRepr::buffer_len;SixlowpanIphcRepr::emit;TcpRepr::emit bounds=shape_TF=11;_HLIM_64;_src/dst_any_global_in-line;_TCP_header_without_options_+_4_octets;_every_address,_link_address,_hop_limit,_payload_octet_and_the_stale_transmit_buffer_symbolic;_TCP_header_fields_concrete;_the_calls_ipv6_to_sixlowpan_makes_are_made_by_the_harness_(the_function_itself:_lowpan_compress_whole_*);_payload<=4_octets;_tx_checksumming_off
    #[kani::proof]
    pub(crate) fn lowpan_compress_tcp_global() {
        compress_tcp(S_TCP, Via::Parts);
    }

    // @harness props=C20 cfg=KL tier=t to=900 mem=4 unwind=20 opts=nomem covers=2 funcs=InterfaceInner::compressed_packet_size;SixlowpanIphcRepr::buffer_len;SixlowpanIphcRepr::emit;TcpRepr::emit bounds=shape_TF=11;_HLIM_64;_src_elided_(extended),_dst_elided_(short_link_address);_TCP_+_2_octets;_every_address,_link_address,_hop_limit,_payload_octet_and_the_stale_transmit_buffer_symbolic;_TCP_header_fields_concrete;_the_calls_ipv6_to_sixlowpan_makes_are_made_by_the_harness_(the_function_itself:_lowpan_compress_whole_*);_payload<=4_octets;_tx_checksumming_off
    #[kani::proof]
    pub(crate) fn lowpan_compress_tcp_ll() {
        compress_tcp(S_TCP_LL, Via::Parts);
    }

    // @harness props=C20 cfg=KL tier=t to=900 mem=4 unwind=20 opts=nomem covers=2 funcs=InterfaceInner::compressed_packet_size;SixlowpanIphcRepr::buffer_len;SixlowpanIphcRepr::emit;SixlowpanUdpNhcRepr::header_len;SixlowpanUdpNhcRepr::emit bounds=shape_TF=11;_hop_limit_in-line;_src_fe80::/64+64_bits;_dst_16_bits_in-line;_short_link_addresses;_UDP_without_data;_every_address,_link_address,_hop_limit,_payload_octet_and_the_stale_transmit_buffer_symbolic;_all_ports_of_the_class;_stale_NHC_octet_with_C=0_(C=1:_lowpan_compress_udp_stale_checksum_bit);_the_calls_ipv6_to_sixlowpan_makes_are_made_by_the_harness_(the_function_itself:_lowpan_compress_whole_*);_payload<=4_octets;_tx_checksumming_off
    #[kani::proof]
    pub(crate) fn lowpan_compress_udp_short_ll64() {
        compress_udp(S_UDP_SHORT64, Via::Parts, false);
    }

    // @harness props=C20 cfg=KL tier=t to=900 mem=4 unwind=20 opts=nomem covers=2 funcs=InterfaceInner::compressed_packet_size;SixlowpanIphcRepr::buffer_len;SixlowpanIphcRepr::emit;Icmpv6Repr::emit bounds=shape_TF=11;_HLIM_64;_src_global_in-line;_dst_elided_from_extended_link_address;_ICMPv6_echo;_every_address,_link_address,_hop_limit,_payload_octet_and_the_stale_transmit_buffer_symbolic;_the_calls_ipv6_to_sixlowpan_makes_are_made_by_the_harness_(the_function_itself:_lowpan_compress_whole_*);_payload<=4_octets;_tx_checksumming_off
    #[kani::proof]
    pub(crate) fn lowpan_compress_icmp_global_elided() {
        compress_icmp(S_ICMP_GE, Via::Parts);
    }

    // @harness props=C20 cfg=KL tier=q to=900 mem=4 unwind=20 opts=nomem covers=2 funcs=InterfaceInner::sixlowpan_to_ipv6;SixlowpanIphcRepr::parse;SixlowpanUnresolvedAddress::resolve;Ipv6Repr::emit;SixlowpanUdpNhcRepr::parse;UdpRepr::emit_header bounds=shape_TF=11;_HLIM_64;_src/dst_fe80::IID_elided_from_extended_link_addresses;_UDP-NHC_both_ports_0xf0bX_(4+4_bits);_every_field_value_symbolic;_all_ports_of_the_class_symbolic;_UDP_checksum_field_compared_in_lowpan_decompress_udp_checksum_kept;_payload<=4_octets;_output_buffer_64_octets_with_arbitrary_previous_contents
    #[kani::proof]
    pub(crate) fn lowpan_decompress_udp_ports4() {
        decompress_case(S_UDP4);
    }

    // @harness props=C20 cfg=KL tier=q to=900 mem=4 unwind=20 opts=nomem covers=2 funcs=InterfaceInner::sixlowpan_to_ipv6;SixlowpanIphcRepr::parse;SixlowpanUnresolvedAddress::resolve;Ipv6Repr::emit;SixlowpanUdpNhcRepr::parse;UdpRepr::emit_header bounds=shape_TF=11;_HLIM_64;_src_elided_(extended_link_address);_dst_any_global_128_bits_in-line;_UDP-NHC_both_ports_in_full;_every_field_value_symbolic;_all_ports_of_the_class_symbolic;_UDP_checksum_field_compared_in_lowpan_decompress_udp_checksum_kept;_payload<=4_octets;_output_buffer_64_octets_with_arbitrary_previous_contents
    #[kani::proof]
    pub(crate) fn lowpan_decompress_udp_ports0() {
        decompress_case(S_UDP0);
    }

    // @harness props=C20 cfg=KL tier=q to=900 mem=4 unwind=20 opts=nomem covers=2 funcs=InterfaceInner::sixlowpan_to_ipv6;SixlowpanIphcRepr::parse;SixlowpanUnresolvedAddress::resolve;Ipv6Repr::emit;SixlowpanUdpNhcRepr::parse;UdpRepr::emit_header bounds=shape_TF=11;_hop_limit_in-line;_src/dst_any_global_128_bits_in-line;_UDP-NHC_dst_port_0xf0XX;_every_field_value_symbolic;_all_ports_of_the_class_symbolic;_UDP_checksum_field_compared_in_lowpan_decompress_udp_checksum_kept;_payload<=4_octets;_output_buffer_64_octets_with_arbitrary_previous_contents
    #[kani::proof]
    pub(crate) fn lowpan_decompress_udp_ports1() {
        decompress_case(S_UDP1);
    }

    // @harness props=C20 cfg=KL tier=q to=900 mem=4 unwind=20 opts=nomem covers=2 funcs=InterfaceInner::sixlowpan_to_ipv6;SixlowpanIphcRepr::parse;SixlowpanUnresolvedAddress::resolve;Ipv6Repr::emit;SixlowpanUdpNhcRepr::parse;UdpRepr::emit_header bounds=shape_TF=11;_HLIM_255;_src/dst_fe80::/64_+_64_bits_in-line;_UDP-NHC_src_port_0xf0XX;_every_field_value_symbolic;_all_ports_of_the_class_symbolic;_UDP_checksum_field_compared_in_lowpan_decompress_udp_checksum_kept;_payload<=4_octets;_output_buffer_64_octets_with_arbitrary_previous_contents
    #[kani::proof]
    pub(crate) fn lowpan_decompress_udp_ports2() {
        decompress_case(S_UDP2);
    }

    // @harness props=C20 cfg=KL tier=q to=900 mem=4 unwind=20 opts=nomem covers=2 funcs=InterfaceInner::sixlowpan_to_ipv6;SixlowpanIphcRepr::parse;SixlowpanUnresolvedAddress::resolve;Ipv6Repr::emit bounds=shape_TF=11;_HLIM_1;_src_elided_from_short_link_address;_dst_fe80::ff:fe00:XXXX_16_bits_in-line;_ICMPv6_echo;_every_field_value_symbolic;_upper-layer_octets_arbitrary;_payload<=4_octets;_output_buffer_64_octets_with_arbitrary_previous_contents
    #[kani::proof]
    pub(crate) fn lowpan_decompress_icmp_short() {
        decompress_case(S_ICMP_SHORT);
    }

    // @harness props=C20 cfg=KL tier=q to=900 mem=4 unwind=20 opts=nomem covers=2 funcs=InterfaceInner::sixlowpan_to_ipv6;SixlowpanIphcRepr::parse;SixlowpanUnresolvedAddress::resolve;Ipv6Repr::emit bounds=shape_TF=11;_HLIM_255;_src_unspecified_(SAC=1_SAM=00);_dst_ff02::XX_(M=1_DAM=11);_ICMPv6_echo;_every_field_value_symbolic;_upper-layer_octets_arbitrary;_payload<=4_octets;_output_buffer_64_octets_with_arbitrary_previous_contents
    #[kani::proof]
    pub(crate) fn lowpan_decompress_icmp_mc8() {
        decompress_case(S_ICMP_MC8);
    }

    // @harness props=C20 cfg=KL tier=q to=900 mem=4 unwind=20 opts=nomem covers=2 funcs=InterfaceInner::sixlowpan_to_ipv6;SixlowpanIphcRepr::parse;SixlowpanUnresolvedAddress::resolve;Ipv6Repr::emit bounds=shape_TF=11;_next_header_AND_hop_limit_both_in-line_(any_hop_limit_outside_1/64/255);_src_fe80::ff:fe00:XXXX_16_bits_in-line;_dst_ffXX::XX:XXXX_(M=1_DAM=10);_ICMPv6_echo;_every_field_value_symbolic;_upper-layer_octets_arbitrary;_payload<=4_octets;_output_buffer_64_octets_with_arbitrary_previous_contents
    #[kani::proof]
    pub(crate) fn lowpan_decompress_icmp_mc32() {
        decompress_case(S_ICMP_MC32);
    }

    // @harness props=C20 cfg=KL tier=q to=900 mem=4 unwind=20 opts=nomem covers=2 funcs=InterfaceInner::sixlowpan_to_ipv6;SixlowpanIphcRepr::parse;SixlowpanUnresolvedAddress::resolve;Ipv6Repr::emit bounds=shape_TF=11;_HLIM_255;_src_any_global_in-line;_dst_ffXX::XX:XXXX:XXXX_(M=1_DAM=01,_e.g._solicited-node);_ICMPv6_echo_without_data;_every_field_value_symbolic;_upper-layer_octets_arbitrary;_payload<=4_octets;_output_buffer_64_octets_with_arbitrary_previous_contents
    #[kani::proof]
    pub(crate) fn lowpan_decompress_icmp_mc48() {
        decompress_case(S_ICMP_MC48);
    }

    // @harness props=C20 cfg=KL tier=q to=900 mem=4 unwind=20 opts=nomem covers=2 funcs=InterfaceInner::sixlowpan_to_ipv6;SixlowpanIphcRepr::parse;SixlowpanUnresolvedAddress::resolve;Ipv6Repr::emit;SixlowpanUdpNhcRepr::parse;UdpRepr::emit_header bounds=shape_TF=11;_HLIM_64;_src_elided;_dst_any_other_multicast_address_128_bits_in-line_(M=1_DAM=00);_UDP-NHC_ports_in_full;_every_field_value_symbolic;_all_ports_of_the_class_symbolic;_UDP_checksum_field_compared_in_lowpan_decompress_udp_checksum_kept;_payload<=4_octets;_output_buffer_64_octets_with_arbitrary_previous_contents
    #[kani::proof]
    pub(crate) fn lowpan_decompress_udp_mcfull() {
        decompress_case(S_UDP_MCFULL);
    }

    // @harness props=C20 cfg=KL tier=q to=900 mem=4 unwind=20 opts=nomem covers=2 funcs=InterfaceInner::sixlowpan_to_ipv6;SixlowpanIphcRepr::parse;SixlowpanUnresolvedAddress::resolve;Ipv6Repr::emit bounds=shape_TF=11;_HLIM_64;_src/dst_any_global_in-line;_TCP_header_without_options_+_4_octets;_every_field_value_symbolic;_upper-layer_octets_arbitrary;_payload<=4_octets;_output_buffer_64_octets_with_arbitrary_previous_contents
    #[kani::proof]
    pub(crate) fn lowpan_decompress_tcp_global() {
        decompress_case(S_TCP);
    }

    // @harness props=C20 cfg=KL tier=t to=900 mem=4 unwind=20 opts=nomem covers=2 funcs=InterfaceInner::sixlowpan_to_ipv6;SixlowpanIphcRepr::parse;SixlowpanUnresolvedAddress::resolve;Ipv6Repr::emit bounds=shape_TF=11;_HLIM_64;_src_elided_(extended),_dst_elided_(short_link_address);_TCP_+_2_octets;_every_field_value_symbolic;_upper-layer_octets_arbitrary;_payload<=4_octets;_output_buffer_64_octets_with_arbitrary_previous_contents
    #[kani::proof]
    pub(crate) fn lowpan_decompress_tcp_ll() {
        decompress_case(S_TCP_LL);
    }

    // @harness props=C20 cfg=KL tier=t to=900 mem=4 unwind=20 opts=nomem covers=2 funcs=InterfaceInner::sixlowpan_to_ipv6;SixlowpanIphcRepr::parse;SixlowpanUnresolvedAddress::resolve;Ipv6Repr::emit;SixlowpanUdpNhcRepr::parse;UdpRepr::emit_header bounds=shape_TF=11;_hop_limit_in-line;_src_fe80::/64+64_bits;_dst_16_bits_in-line;_short_link_addresses;_UDP_without_data;_every_field_value_symbolic;_all_ports_of_the_class_symbolic;_UDP_checksum_field_compared_in_lowpan_decompress_udp_checksum_kept;_payload<=4_octets;_output_buffer_64_octets_with_arbitrary_previous_contents
    #[kani::proof]
    pub(crate) fn lowpan_decompress_udp_short_ll64() {
        decompress_case(S_UDP_SHORT64);
    }

    // @harness props=C20 cfg=KL tier=t to=900 mem=4 unwind=20 opts=nomem covers=2 funcs=InterfaceInner::sixlowpan_to_ipv6;SixlowpanIphcRepr::parse;SixlowpanUnresolvedAddress::resolve;Ipv6Repr::emit bounds=shape_TF=11;_HLIM_64;_src_global_in-line;_dst_elided_from_extended_link_address;_ICMPv6_echo;_every_field_value_symbolic;_upper-layer_octets_arbitrary;_payload<=4_octets;_output_buffer_64_octets_with_arbitrary_previous_contents
    #[kani::proof]
    pub(crate) fn lowpan_decompress_icmp_global_elided() {
        decompress_case(S_ICMP_GE);
    }

    // ---- forms only a peer can send (thorough tier): TF != 11, context-based addresses, UDP in-line, C=1
    // @harness props=C20 cfg=KL tier=t to=900 mem=4 unwind=20 opts=nomem covers=2 funcs=InterfaceInner::sixlowpan_to_ipv6;SixlowpanIphcRepr::parse;SixlowpanUnresolvedAddress::resolve;Ipv6Repr::emit;SixlowpanUdpNhcRepr::parse;UdpRepr::emit_header bounds=receive-only_shape:_TF=00_(ECN+DSCP+flow_label_in-line);_HLIM_64;_addresses_elided;_ICMPv6;_traffic_class/flow_label_themselves_not_compared_(Ipv6Repr_does_not_carry_them);_every_field_value_symbolic;_payload<=4_octets;_one-entry_context_table
    #[kani::proof]
    pub(crate) fn lowpan_decompress_tf00() {
        decompress_case(Shape { tf: 0, hlim: 2, cid: false, src: LlElided, dst: LlElided, sll: Ext, dll: Ext, up: ICMP, plen: 2 });
    }

    // @harness props=C20 cfg=KL tier=t to=900 mem=4 unwind=20 opts=nomem covers=2 funcs=InterfaceInner::sixlowpan_to_ipv6;SixlowpanIphcRepr::parse;SixlowpanUnresolvedAddress::resolve;Ipv6Repr::emit;SixlowpanUdpNhcRepr::parse;UdpRepr::emit_header bounds=receive-only_shape:_TF=01_(ECN+flow_label);_hop_limit_in-line;_src_64_bits,_dst_16_bits_in-line;_UDP-NHC;_every_field_value_symbolic;_payload<=4_octets;_one-entry_context_table
    #[kani::proof]
    pub(crate) fn lowpan_decompress_tf01() {
        decompress_case(Shape { tf: 1, hlim: 0, cid: false, src: Ll64, dst: Ll16, sll: Ext, dll: Short, up: nhc(0), plen: 2 });
    }

    // @harness props=C20 cfg=KL tier=t to=900 mem=4 unwind=20 opts=nomem covers=2 funcs=InterfaceInner::sixlowpan_to_ipv6;SixlowpanIphcRepr::parse;SixlowpanUnresolvedAddress::resolve;Ipv6Repr::emit;SixlowpanUdpNhcRepr::parse;UdpRepr::emit_header bounds=receive-only_shape:_TF=10_(ECN+DSCP);_HLIM_255;_src_elided_(short);_dst_ff02::XX;_ICMPv6;_every_field_value_symbolic;_payload<=4_octets;_one-entry_context_table
    #[kani::proof]
    pub(crate) fn lowpan_decompress_tf10() {
        decompress_case(Shape { tf: 2, hlim: 3, cid: false, src: LlElided, dst: Mc8, sll: Short, dll: Short, up: ICMP, plen: 2 });
    }

    // @harness props=C20 cfg=KL tier=t to=900 mem=4 unwind=20 opts=nomem covers=2 funcs=InterfaceInner::sixlowpan_to_ipv6;SixlowpanIphcRepr::parse;SixlowpanUnresolvedAddress::resolve;Ipv6Repr::emit;SixlowpanUdpNhcRepr::parse;UdpRepr::emit_header bounds=receive-only_shape:_CID=1_SCI=DCI=0;_src/dst_context_prefix_+_IID_from_link_address_(SAC/DAC=1_mode_11);_UDP-NHC_4-bit_ports;_every_field_value_symbolic;_payload<=4_octets;_one-entry_context_table
    #[kani::proof]
    pub(crate) fn lowpan_decompress_ctx_elided() {
        decompress_case(Shape { tf: 3, hlim: 2, cid: true, src: CtxElided, dst: CtxElided, sll: Ext, dll: Short, up: nhc(3), plen: 4 });
    }

    // @harness props=C20 cfg=KL tier=t to=900 mem=4 unwind=20 opts=nomem covers=2 funcs=InterfaceInner::sixlowpan_to_ipv6;SixlowpanIphcRepr::parse;SixlowpanUnresolvedAddress::resolve;Ipv6Repr::emit;SixlowpanUdpNhcRepr::parse;UdpRepr::emit_header bounds=receive-only_shape:_CID=1;_src/dst_context_prefix_+_64_bits_in-line_(mode_01);_ICMPv6;_every_field_value_symbolic;_payload<=4_octets;_one-entry_context_table
    #[kani::proof]
    pub(crate) fn lowpan_decompress_ctx_64() {
        decompress_case(Shape { tf: 3, hlim: 2, cid: true, src: Ctx64, dst: Ctx64, sll: Ext, dll: Ext, up: ICMP, plen: 2 });
    }

    // @harness props=C20 cfg=KL tier=t to=900 mem=4 unwind=20 opts=nomem covers=2 funcs=InterfaceInner::sixlowpan_to_ipv6;SixlowpanIphcRepr::parse;SixlowpanUnresolvedAddress::resolve;Ipv6Repr::emit;SixlowpanUdpNhcRepr::parse;UdpRepr::emit_header bounds=receive-only_shape:_CID=1;_src/dst_context_prefix_+_0000:00ff:fe00:XXXX_(mode_10);_ICMPv6;_every_field_value_symbolic;_payload<=4_octets;_one-entry_context_table
    #[kani::proof]
    pub(crate) fn lowpan_decompress_ctx_16() {
        decompress_case(Shape { tf: 3, hlim: 2, cid: true, src: Ctx16, dst: Ctx16, sll: Ext, dll: Ext, up: ICMP, plen: 2 });
    }

    // (retired: lowpan_decompress_ctx0_implicit.  CID=0 with SAC/DAC=1 - RFC 6282 3.1.2 says context 0 is meant - is
    // rejected by SixlowpanIphcPacket::src_addr/dst_addr.  smoltcp never emits that form, so C20, a statement about
    // the datagrams the stack can send, does not cover it: the harness demanded more than the property states.)

    // @harness props=C20 cfg=KL tier=t to=900 mem=4 unwind=20 opts=nomem covers=2 funcs=InterfaceInner::sixlowpan_to_ipv6;SixlowpanIphcRepr::parse;SixlowpanUnresolvedAddress::resolve;Ipv6Repr::emit;SixlowpanUdpNhcRepr::parse;UdpRepr::emit_header bounds=receive-only_shape:_NH=0_next_header_17:_uncompressed_UDP_header_carried_verbatim;_every_field_value_symbolic;_payload<=4_octets;_one-entry_context_table
    #[kani::proof]
    pub(crate) fn lowpan_decompress_udp_inline() {
        decompress_case(Shape { tf: 3, hlim: 2, cid: false, src: LlElided, dst: LlElided, sll: Ext, dll: Ext, up: UDP_INLINE, plen: 4 });
    }

    // @harness props=C20 cfg=KL tier=t to=900 mem=4 unwind=20 opts=nomem covers=2 funcs=InterfaceInner::sixlowpan_to_ipv6;SixlowpanIphcRepr::parse;SixlowpanUnresolvedAddress::resolve;Ipv6Repr::emit;SixlowpanUdpNhcRepr::parse;UdpRepr::emit_header bounds=receive-only_shape:_UDP-NHC_with_C=1_(checksum_elided_by_the_peer);_ports_in_full;_checksum_field_not_compared;_every_field_value_symbolic;_payload<=4_octets;_one-entry_context_table
    #[kani::proof]
    pub(crate) fn lowpan_decompress_udp_ck_elided() {
        decompress_case(Shape { tf: 3, hlim: 2, cid: false, src: LlElided, dst: LlElided, sll: Ext, dll: Ext, up: nhc_elided(0), plen: 4 });
    }

    // @harness props=C20 cfg=KL tier=t to=900 mem=4 unwind=20 opts=nomem covers=2 funcs=InterfaceInner::sixlowpan_to_ipv6;SixlowpanIphcRepr::parse;SixlowpanUnresolvedAddress::resolve;Ipv6Repr::emit;SixlowpanUdpNhcRepr::parse;UdpRepr::emit_header bounds=receive-only_shape:_HLIM_1;_short_link_addresses_elided;_UDP-NHC_dst_port_0xf0XX;_every_field_value_symbolic;_payload<=4_octets;_one-entry_context_table
    #[kani::proof]
    pub(crate) fn lowpan_decompress_udp_ports1_ll() {
        decompress_case(Shape { tf: 3, hlim: 1, cid: false, src: LlElided, dst: LlElided, sll: Short, dll: Short, up: nhc(1), plen: 4 });
    }

    // @harness props=C20 cfg=KL tier=t to=900 mem=4 unwind=20 opts=nomem covers=2 funcs=InterfaceInner::sixlowpan_to_ipv6;SixlowpanIphcRepr::parse;SixlowpanUnresolvedAddress::resolve;Ipv6Repr::emit;SixlowpanUdpNhcRepr::parse;UdpRepr::emit_header bounds=receive-only_shape:_hop_limit_in-line;_src_global;_dst_ffXX::XX:XXXX;_UDP-NHC_src_port_0xf0XX;_every_field_value_symbolic;_payload<=4_octets;_one-entry_context_table
    #[kani::proof]
    pub(crate) fn lowpan_decompress_udp_ports2_mc() {
        decompress_case(Shape { tf: 3, hlim: 0, cid: false, src: Full, dst: Mc32, sll: Ext, dll: Short, up: nhc(2), plen: 2 });
    }

    // @harness props=C20 cfg=KL tier=t to=900 mem=4 unwind=20 opts=nomem covers=2 funcs=InterfaceInner::sixlowpan_to_ipv6;SixlowpanIphcRepr::parse;SixlowpanUnresolvedAddress::resolve;Ipv6Repr::emit;SixlowpanUdpNhcRepr::parse;UdpRepr::emit_header bounds=receive-only_shape:_HLIM_255;_src_16_bits;_dst_ffXX::XX:XXXX:XXXX;_TCP_header_only;_every_field_value_symbolic;_payload<=4_octets;_one-entry_context_table
    #[kani::proof]
    pub(crate) fn lowpan_decompress_tcp_mc48() {
        decompress_case(Shape { tf: 3, hlim: 3, cid: false, src: Ll16, dst: Mc48, sll: Ext, dll: Short, up: TCP, plen: 0 });
    }

    // @harness props=C20 cfg=KL tier=q to=900 mem=4 unwind=20 opts=nomem covers=2 funcs=InterfaceInner::compressed_packet_size;SixlowpanIphcRepr::emit;SixlowpanUdpNhcRepr::header_len;SixlowpanUdpNhcRepr::emit;SixlowpanUdpNhcPacket::set_dispatch_field bounds=shape_of_lowpan_compress_udp_ports0;_tx_checksumming_off_(ChecksumCapabilities_with_udp=None/Rx);_transmit_buffer_with_ARBITRARY_previous_contents_(device_buffers_are_reused):_the_C_bit_of_the_NHC_octet_must_still_say_that_the_2_checksum_octets_counted_by_header_len_are_present
    #[kani::proof]
    pub(crate) fn lowpan_compress_udp_stale_checksum_bit() {
        compress_udp(S_UDP0, Via::Parts, true);
    }

    // ---- the real `ipv6_to_sixlowpan` (see NOTE above `Via`): one shape per payload kind
    // @harness props=C20 cfg=KL tier=t to=3600 mem=16 unwind=20 opts=nomem covers=2 funcs=InterfaceInner::compressed_packet_size;InterfaceInner::ipv6_to_sixlowpan bounds=shape_of_lowpan_compress_udp_ports4;_ports_0xf0b3/0xf0b9;_addresses,_payload_and_stale_buffer_symbolic
    #[kani::proof]
    pub(crate) fn lowpan_compress_whole_udp() {
        compress_udp(S_UDP4, Via::Whole, false);
    }

    // @harness props=C20 cfg=KL tier=t to=3600 mem=16 unwind=20 opts=nomem covers=2 funcs=InterfaceInner::compressed_packet_size;InterfaceInner::ipv6_to_sixlowpan bounds=shape_of_lowpan_compress_icmp_short;_echo_ident/seq_concrete;_addresses,_data_and_stale_buffer_symbolic
    #[kani::proof]
    pub(crate) fn lowpan_compress_whole_icmp() {
        compress_icmp(S_ICMP_SHORT, Via::Whole);
    }

    // @harness props=C20 cfg=KL tier=t to=3600 mem=16 unwind=20 opts=nomem covers=2 funcs=InterfaceInner::compressed_packet_size;InterfaceInner::ipv6_to_sixlowpan bounds=shape_of_lowpan_compress_tcp_global;_TCP_header_concrete;_addresses,_data_and_stale_buffer_symbolic
    #[kani::proof]
    pub(crate) fn lowpan_compress_whole_tcp() {
        compress_tcp(S_TCP, Via::Whole);
    }

    // @harness props=C20 cfg=KL tier=t to=1800 mem=8 unwind=20 opts=nomem covers=1 funcs=SixlowpanUdpNhcRepr::emit;SixlowpanUdpNhcPacket::set_checksum;checksum::pseudo_header_v6;checksum::data bounds=tx_checksumming_ON;_concrete_addresses_fe80::1->fe80::2;_ports_symbolic_(both_outside_0xf0XX);_2_symbolic_payload_octets;_reference_=_RFC_768/8200_sum_written_in_the_harness
    #[kani::proof]
    pub(crate) fn lowpan_nhc_udp_emit_checksum() {
        let sport: u16 = kani::any();
        let dport: u16 = kani::any();
        kani::assume(sport >> 8 != 0xf0 && dport >> 8 != 0xf0);
        let data: [u8; 2] = kani::any();
        let mut s16 = [0u8; 16];
        s16[0] = 0xfe;
        s16[1] = 0x80;
        s16[15] = 1;
        let mut d16 = s16;
        d16[15] = 2;
        let repr = SixlowpanUdpNhcRepr(UdpRepr { src_port: sport, dst_port: dport });
        let mut buf: [u8; 9] = kani::any();
        repr.emit(
            &mut SixlowpanUdpNhcPacket::new_unchecked(&mut buf[..]),
            &Ipv6Address::from_octets(s16),
            &Ipv6Address::from_octets(d16),
            2,
            |b| b.copy_from_slice(&data),
            &ChecksumCapabilities::default(),
        );
        let want = ref_udp_checksum(&s16, &d16, sport, dport, &data);
        crate::vdump!("ports {:04x} {:04x} data {:02x?} got {:02x?} want {:04x}", sport, dport, data, buf, want);
        assert!(buf[0] == 0xf0, "prop:c20_udp_nhc_checksum_bit_matches_layout");
        // (0x0000 and 0xffff are the same one's-complement value; RFC 768 wants 0xffff on the wire)
        let got = ((buf[5] as u16) << 8) | buf[6] as u16;
        assert!(got == want || (got == 0 && want == 0xffff), "prop:c20_udp_nhc_inline_checksum_is_the_udp_checksum");
        kani::cover!(got != 0 && data[0] != 0, "checksum computed");
    }

    // @harness props=C20 cfg=KL tier=q to=900 mem=4 unwind=20 opts=nomem covers=2 funcs=InterfaceInner::sixlowpan_to_ipv6;decompress_udp;UdpRepr::emit_header;Ipv6Repr::emit bounds=what_process_sixlowpan_fragment_does_with_a_FRAG1:_shape_of_lowpan_decompress_udp_ports0_with_total_len=Some(datagram_size),_datagram_size_52..=256_symbolic,_4_of_the_UDP_data_octets_in_this_fragment;_the_rest_of_reassembly_(PacketAssembler)_is_C12's_reasm_*_harnesses_and_lowpan_frag_rx_*_(thorough)
    #[kani::proof]
    pub(crate) fn lowpan_decompress_frag1_udp() {
        let s = S_UDP0;
        let f = any_fields(&s);
        let r802 = ieee_of(&s, &f);
        let mut t = [0u8; TL];
        let lay = tmpl(&s, &f, &mut t);
        let mut e = [0u8; 64];
        let m = expected(&s, &f, &mut e);
        let total = any_le(256);
        kani::assume(total >= m);
        // RFC 4944 5.3: datagram_size covers the whole datagram, so the lengths in the headers are those of the whole
        e[4] = ((total - 40) >> 8) as u8;
        e[5] = (total - 40) as u8;
        e[44] = e[4];
        e[45] = e[5];
        let mut out: [u8; 64] = kani::any();
        let r = InterfaceInner::sixlowpan_to_ipv6(&[], &r802, &t[..lay.len], Some(total), &mut out[..]);
        crate::vdump!("total={} RESULT {:?}\nGOT      {:02x?}\nEXPECTED {:02x?}", total, r, &out[..m], &e[..m]);
        // the returned length is what this fragment contributes to the reassembly buffer
        assert!(matches!(r, Ok(l) if l == m), "prop:c20_decompressed_length");
        let k = any_lt(64);
        kani::assume(k < m && k != 46 && k != 47);
        if k == 4 || k == 5 {
            assert!(out[k] == e[k], "prop:c20_first_fragment_ipv6_payload_length_is_of_the_whole_datagram");
        } else if k == 44 || k == 45 {
            assert!(out[k] == e[k], "prop:c20_first_fragment_udp_length_is_of_the_whole_datagram");
        } else {
            assert!(out[k] == e[k], "prop:c20_decompressed_ipv6_header");
        }
        kani::cover!(total == 256 && k == 45, "largest datagram, UDP length compared");
        kani::cover!(total == m && k == m - 1, "single-fragment size, last octet compared");
    }

    // @harness props=C20 cfg=KL kind=finding tier=t to=900 mem=4 unwind=20 opts=nomem covers=1 funcs=InterfaceInner::sixlowpan_to_ipv6;UdpRepr::emit_header bounds=shape_of_lowpan_decompress_udp_ports0;_RFC_6282_4.3.2:_an_in-line_checksum_is_the_UDP_checksum_of_the_datagram_and_must_reappear_in_the_UDP_header
    #[kani::proof]
    pub(crate) fn lowpan_decompress_udp_checksum_kept() {
        let s = S_UDP0;
        let f = any_fields(&s);
        let r802 = ieee_of(&s, &f);
        let mut t = [0u8; TL];
        let lay = tmpl(&s, &f, &mut t);
        let mut out = [0u8; 64];
        let r = InterfaceInner::sixlowpan_to_ipv6(&[], &r802, &t[..lay.len], None, &mut out[..]);
        crate::vdump!("in-line checksum {:02x?}, UDP header {:02x?}", f.ck, &out[40..48]);
        assert!(r.is_ok(), "prop:c20_well_formed_datagram_is_decompressed");
        assert!(out[46] == f.ck[0] && out[47] == f.ck[1], "prop:c20_decompressed_udp_checksum_is_the_inline_checksum");
        kani::cover!(f.ck[0] != 0, "non-zero checksum");
    }

    // @harness props=C20,C03 cfg=KL tier=t to=900 mem=4 unwind=20 opts=nomem covers=2 funcs=InterfaceInner::sixlowpan_to_ipv6;decompress_udp bounds=UDP-NHC_4-bit_ports_+_4_data_octets;_output_buffer_of_any_length_40..=64_(REASSEMBLY_BUFFER_SIZE_is_user-configurable):_too_small_a_buffer_must_be_an_error,_not_a_panic
    #[kani::proof]
    pub(crate) fn lowpan_decompress_udp_small_buffer() {
        let s = S_UDP4;
        let f = any_fields(&s);
        let r802 = ieee_of(&s, &f);
        let mut t = [0u8; TL];
        let lay = tmpl(&s, &f, &mut t);
        let mut out = [0u8; 64];
        let blen = any_le(64);
        kani::assume(blen >= 40);
        crate::vdump!("output buffer {} octets, datagram needs 52", blen);
        let r = InterfaceInner::sixlowpan_to_ipv6(&[], &r802, &t[..lay.len], None, &mut out[..blen]);
        assert!(r.is_ok() == (blen >= 52), "prop:c20_short_output_buffer_is_an_error");
        kani::cover!(r.is_ok(), "fits");
        kani::cover!(r.is_err(), "refused");
    }

    // ---- arbitrary bytes behind a fixed IPHC base header: no panic, termination (unwinding assertions stay on), length bound
    // @harness props=C03,C20 cfg=KL tier=q to=1500 mem=8 unwind=4 opts=nomem covers=2 funcs=InterfaceInner::sixlowpan_to_ipv6;SixlowpanIphcPacket::check_len;SixlowpanIphcRepr::parse;decompress_ext_hdr;decompress_udp;decompress_next_header;SixlowpanUdpNhcRepr::parse;SixlowpanExtHeaderRepr::parse bounds=IPHC_7e_33_(TF=11_NH=1_HLIM=64_SAM=11_DAM=11),_then_the_UDP-NHC_octet_f0_+_8_arbitrary_octets;_exactly_that_length_(a_symbolic_length_costs_8x_the_steps:_measured);_link-layer_addresses_None/absent/short/extended;_0_or_1_context;_total_len_None_or_40..=256;_72-octet_output_buffer;_nomem_(with_all_memory-safety_checks_on,_same_verdict_in_50/300_s,_but_Kani_cannot_extract_the_counterexample:_its_trace_parser_runs_out_of_memory)
    #[kani::proof]
    pub(crate) fn lowpan_decompress_free_7e33_udp() {
        free_case::<11>(0x7e, 0x33, 0xf0, 2);
    }

    // @harness props=C03,C20 cfg=KL tier=q to=1500 mem=8 unwind=5 opts=nomem covers=2 funcs=InterfaceInner::sixlowpan_to_ipv6;SixlowpanIphcPacket::check_len;SixlowpanIphcRepr::parse;decompress_ext_hdr;decompress_udp;decompress_next_header;SixlowpanUdpNhcRepr::parse;SixlowpanExtHeaderRepr::parse bounds=IPHC_7e_33_(TF=11_NH=1_SAM=11_DAM=11),_then_the_extension-header_NHC_octet_e1_(hop-by-hop,_next_header_compressed)_+_4_arbitrary_octets_(chains_of_<=2_extension_headers);_exactly_that_length_(a_symbolic_length_costs_8x_the_steps:_measured);_link-layer_addresses_None/absent/short/extended;_0_or_1_context;_total_len_None_or_40..=256;_72-octet_output_buffer;_nomem_(with_all_memory-safety_checks_on,_same_verdict_in_50/300_s,_but_Kani_cannot_extract_the_counterexample:_its_trace_parser_runs_out_of_memory)
    #[kani::proof]
    pub(crate) fn lowpan_decompress_free_7e33_ext() {
        free_case::<7>(0x7e, 0x33, 0xe1, 2);
    }

    // @harness props=C03,C20 cfg=KL tier=q to=1500 mem=8 unwind=4 covers=2 funcs=InterfaceInner::sixlowpan_to_ipv6;SixlowpanIphcPacket::check_len;SixlowpanIphcRepr::parse;decompress_ext_hdr;decompress_udp;decompress_next_header;SixlowpanUdpNhcRepr::parse;SixlowpanExtHeaderRepr::parse bounds=IPHC_68_4b_(TF=01_NH=0_HLIM=00_SAC=1_SAM=00_(unspecified)_M=1_DAM=11),_then_12_arbitrary_octets:_ECN/flow_label,_in-line_next_header_and_hop_limit,_multicast_octet,_payload;_exactly_that_length_(a_symbolic_length_costs_8x_the_steps:_measured);_link-layer_addresses_None/absent/short/extended;_0_or_1_context;_total_len_None_or_40..=256;_72-octet_output_buffer
    #[kani::proof]
    pub(crate) fn lowpan_decompress_free_684b() {
        free_case::<14>(0x68, 0x4b, 0x00, 0);
    }

    // @harness props=C03,C20 cfg=KL tier=t to=1500 mem=8 unwind=4 covers=2 funcs=InterfaceInner::sixlowpan_to_ipv6;SixlowpanIphcPacket::check_len;SixlowpanIphcRepr::parse;decompress_ext_hdr;decompress_udp;decompress_next_header;SixlowpanUdpNhcRepr::parse;SixlowpanExtHeaderRepr::parse bounds=IPHC_7f_f7_(NH=1_HLIM=255_CID=1_SAC=1_SAM=11_DAC=1_DAM=11),_arbitrary_CID_octet,_UDP-NHC_octet_f0_+_8_arbitrary_octets;_exactly_that_length_(a_symbolic_length_costs_8x_the_steps:_measured);_link-layer_addresses_None/absent/short/extended;_0_or_1_context;_total_len_None_or_40..=256;_72-octet_output_buffer
    #[kani::proof]
    pub(crate) fn lowpan_decompress_free_7ff7_udp() {
        free_case::<12>(0x7f, 0xf7, 0xf0, 3);
    }

    // @harness props=C03,C20 cfg=KL tier=t to=1500 mem=8 unwind=5 covers=2 funcs=InterfaceInner::sixlowpan_to_ipv6;SixlowpanIphcPacket::check_len;SixlowpanIphcRepr::parse;decompress_ext_hdr;decompress_udp;decompress_next_header;SixlowpanUdpNhcRepr::parse;SixlowpanExtHeaderRepr::parse bounds=IPHC_7f_f7_(NH=1_CID=1_SAC=1_SAM=11_DAC=1_DAM=11),_arbitrary_CID_octet,_extension-header_NHC_octet_e0_+_4_arbitrary_octets;_exactly_that_length_(a_symbolic_length_costs_8x_the_steps:_measured);_link-layer_addresses_None/absent/short/extended;_0_or_1_context;_total_len_None_or_40..=256;_72-octet_output_buffer
    #[kani::proof]
    pub(crate) fn lowpan_decompress_free_7ff7_ext() {
        free_case::<8>(0x7f, 0xf7, 0xe0, 3);
    }

    // @harness props=C03,C20 cfg=KL tier=t to=1500 mem=8 unwind=4 covers=2 funcs=InterfaceInner::sixlowpan_to_ipv6;SixlowpanIphcPacket::check_len;SixlowpanIphcRepr::parse;decompress_ext_hdr;decompress_udp;decompress_next_header;SixlowpanUdpNhcRepr::parse;SixlowpanExtHeaderRepr::parse bounds=IPHC_65_2a_(TF=00_NH=1_HLIM=1_SAM=10_M=1_DAM=10),_10_arbitrary_header_octets,_UDP-NHC_octet_f0_+_6_arbitrary_octets;_exactly_that_length_(a_symbolic_length_costs_8x_the_steps:_measured);_link-layer_addresses_None/absent/short/extended;_0_or_1_context;_total_len_None_or_40..=256;_72-octet_output_buffer
    #[kani::proof]
    pub(crate) fn lowpan_decompress_free_652a_udp() {
        free_case::<19>(0x65, 0x2a, 0xf0, 12);
    }

    // @harness props=C03,C20 cfg=KL tier=t to=1500 mem=8 unwind=4 covers=2 funcs=InterfaceInner::sixlowpan_to_ipv6;SixlowpanIphcPacket::check_len;SixlowpanIphcRepr::parse;decompress_ext_hdr;decompress_udp;decompress_next_header;SixlowpanUdpNhcRepr::parse;SixlowpanExtHeaderRepr::parse bounds=IPHC_72_a6_(TF=10_NH=0_HLIM=64_CID=1_SAM=10_DAC=1_DAM=10),_then_12_arbitrary_octets;_exactly_that_length_(a_symbolic_length_costs_8x_the_steps:_measured);_link-layer_addresses_None/absent/short/extended;_0_or_1_context;_total_len_None_or_40..=256;_72-octet_output_buffer
    #[kani::proof]
    pub(crate) fn lowpan_decompress_free_72a6() {
        free_case::<14>(0x72, 0xa6, 0x00, 0);
    }

    // (removed from the thorough tier: lowpan_decompress_free_7e03_udp - out of memory at 16 GB / vacuous after the fixes; measured by the thorough sweep)

    // @harness props=C03,C20 cfg=KL tier=t to=1500 mem=8 unwind=4 covers=2 funcs=InterfaceInner::sixlowpan_to_ipv6;SixlowpanIphcPacket::check_len;SixlowpanIphcRepr::parse;decompress_ext_hdr;decompress_udp;decompress_next_header;SixlowpanUdpNhcRepr::parse;SixlowpanExtHeaderRepr::parse bounds=IPHC_7a_31_(NH=0_HLIM=64_SAM=11_DAM=01_(64_bits_in-line)),_then_12_arbitrary_octets;_exactly_that_length_(a_symbolic_length_costs_8x_the_steps:_measured);_link-layer_addresses_None/absent/short/extended;_0_or_1_context;_total_len_None_or_40..=256;_72-octet_output_buffer
    #[kani::proof]
    pub(crate) fn lowpan_decompress_free_7a31() {
        free_case::<14>(0x7a, 0x31, 0x00, 0);
    }

    // ---- 4. fragmentation on transmit (FRAGN from the state FRAG1 leaves: quick; FRAG1 through the real dispatch: thorough)
    // @harness props=C20 cfg=KL tier=q to=1500 mem=4 unwind=20 opts=nomem,fs256 covers=2 funcs=InterfaceInner::dispatch_ieee802154_frag;InterfaceInner::dispatch_sixlowpan_frag;SixlowpanFragRepr::emit;Ieee802154Repr::emit bounds=UDP_datagram_with_96_payload_octets_(one_more_than_fits_one_frame):_FRAG1_+_1_FRAGN_of_8_octets;_payload,_checksum_and_extended_link_addresses_symbolic;_fragmenter_state_after_FRAG1_written_by_the_harness_(asserted_for_the_real_code_in_lowpan_frag_tx_96)
    #[kani::proof]
    pub(crate) fn lowpan_fragn_tx_96() {
        frag_tx_case::<96>(2, Via::Parts);
    }

    // @harness props=C20 cfg=KL tier=t to=1500 mem=4 unwind=20 opts=nomem,fs256 covers=2 funcs=InterfaceInner::dispatch_ieee802154_frag;InterfaceInner::dispatch_sixlowpan_frag;SixlowpanFragRepr::emit;Ieee802154Repr::emit bounds=UDP_datagram_with_184_payload_octets:_exactly_two_full_frames;_payload,_checksum_and_extended_link_addresses_symbolic;_fragmenter_state_after_FRAG1_written_by_the_harness_(asserted_for_the_real_code_in_lowpan_frag_tx_185)
    #[kani::proof]
    pub(crate) fn lowpan_fragn_tx_184() {
        frag_tx_case::<184>(2, Via::Parts);
    }

    // @harness props=C20 cfg=KL tier=q to=1500 mem=4 unwind=20 opts=nomem,fs256 covers=2 funcs=InterfaceInner::dispatch_ieee802154_frag;InterfaceInner::dispatch_sixlowpan_frag;SixlowpanFragRepr::emit;Ieee802154Repr::emit bounds=UDP_datagram_with_185_payload_octets:_two_full_frames_+_1_octet_=_3_frames;_payload,_checksum_and_extended_link_addresses_symbolic;_fragmenter_state_after_FRAG1_written_by_the_harness_(asserted_for_the_real_code_in_lowpan_frag_tx_185)
    #[kani::proof]
    pub(crate) fn lowpan_fragn_tx_185() {
        frag_tx_case::<185>(3, Via::Parts);
    }

    // (removed from the thorough tier: lowpan_frag_tx_96 - out of memory at 16 GB / vacuous after the fixes; measured by the thorough sweep)

    // (removed from the thorough tier: lowpan_frag_tx_185 - out of memory at 16 GB / vacuous after the fixes; measured by the thorough sweep)

    // (removed from the thorough tier: lowpan_frag_busy - out of memory at 16 GB / vacuous after the fixes; measured by the thorough sweep)

    // ---- 5. reassembly
    /// the two fragments of the ghost datagram in the given order: delivered after the second, equal to what was sent
    fn frag_rx_pair(first: u8) {
        let g = GhostD { sll: kani::any(), dll: kani::any(), sport: kani::any(), dport: kani::any(), ck: kani::any(), data: kani::any(), tag: kani::any() };
        kani::assume(g.dport != 0);
        let hw: [u8; 8] = g.dll;
        lowpan_env!(dev, iface, hw);
        let Interface { inner, fragments, .. } = &mut iface;
        let r802 = ieee(Some(Ieee802154Address::Extended(g.sll)), Some(Ieee802154Address::Extended(g.dll)));
        // octet compared: the last data octet or the low octet of the UDP length (a symbolic index into the 256-octet
        // slot is one of the things that push this harness beyond 8 GB)
        let k = if kani::any() { GD - 1 } else { 45 };
        let (d1, _, _) = rx_feed(inner, fragments, &r802, &frag_frame(&g, first, GD as u8, g.tag, 6), k);
        assert!(!d1, "prop:c20_incomplete_datagram_not_delivered");
        let (d2, n2, c2) = rx_feed(inner, fragments, &r802, &frag_frame(&g, 1 - first, GD as u8, g.tag, 6), k);
        assert!(d2, "prop:c20_delivered_exactly_when_complete_in_any_order");
        if d2 {
            assert_is_ghost(&g, n2, k, c2);
        }
        kani::cover!(d2 && k == 55 && c2 != 0, "delivered, last data octet compared");
    }

    /// slot state = genuine fragment `first` (0 = FRAG1, 1 = the FRAGN at offset 6) already received; step = a fragment
    /// with the layout of fragment `kind` and symbolic tag / datagram_size / offset; then the missing fragment.
    /// `first` and `kind` are concrete per harness (symbolic kinds: out of memory at 8 GB after 11 min, measured)
    fn frag_rx_case(first: u8, kind: u8) {
        let g = GhostD { sll: kani::any(), dll: kani::any(), sport: kani::any(), dport: kani::any(), ck: kani::any(), data: kani::any(), tag: kani::any() };
        kani::assume(g.dport != 0);
        let hw: [u8; 8] = g.dll;
        lowpan_env!(dev, iface, hw);
        let Interface { inner, fragments, .. } = &mut iface;
        let r802 = ieee(Some(Ieee802154Address::Extended(g.sll)), Some(Ieee802154Address::Extended(g.dll)));
        let other = 1 - first;
        let k = any_lt(GD);
        let (d1, _, _) = rx_feed(inner, fragments, &r802, &frag_frame(&g, first, GD as u8, g.tag, 6), k);
        assert!(!d1, "prop:c20_incomplete_datagram_not_delivered");
        // the step
        let tag: u16 = kani::any();
        // (datagram sizes above the 256-octet reassembly buffer are refused by `set_total_size`)
        let size8: u8 = kani::any();
        let size = size8 as u16;
        // (a symbolic offset makes the copy into the 256-octet slot symbolic: > 8 GB; arbitrary offsets on a fresh slot are
        // covered by lowpan_frag_rx_free)
        let offset: u8 = 6;
        let genuine = tag == g.tag && size == GD as u16;
        if kind == 0 && !genuine {
            // smaller FRAG1 sizes: finding of lowpan_frag_rx_free (subtraction overflow)
            kani::assume(size >= 48);
        }
        let (ds, ns, cs) = rx_feed(inner, fragments, &r802, &frag_frame(&g, kind, size8, tag, offset), k);
        if genuine {
            assert!(ds == (kind == other), "prop:c20_delivered_exactly_when_complete_in_any_order");
            if ds {
                assert_is_ghost(&g, ns, k, cs);
            }
        } else if ds {
            // a foreign fragment can only complete a datagram of its own (a FRAG1 that is the whole datagram)
            assert!(kind == 0 && ns == size as usize, "prop:c20_foreign_fragment_delivers_nothing_of_the_datagram_in_progress");
        }
        // the slot of the datagram in progress is intact: the missing fragment completes it
        if !(genuine && kind == other) {
            let (df, nf, cf) = rx_feed(inner, fragments, &r802, &frag_frame(&g, other, GD as u8, g.tag, 6), k);
            assert!(df, "prop:c20_foreign_or_duplicate_fragment_does_not_disturb_reassembly");
            if df {
                assert_is_ghost(&g, nf, k, cf);
            }
        }
        kani::cover!(genuine, "genuine fragment (the missing one or a duplicate)");
        kani::cover!(!genuine && tag == g.tag, "same tag, other datagram size");
        kani::cover!(!genuine && size == GD as u16, "same size, foreign tag");
    }

    // (removed from the thorough tier: lowpan_frag_rx_pair_0 - out of memory at 16 GB / vacuous after the fixes; measured by the thorough sweep)

    // (removed from the thorough tier: lowpan_frag_rx_pair_1 - out of memory at 16 GB / vacuous after the fixes; measured by the thorough sweep)

    // (removed from the thorough tier: lowpan_frag_rx_step_1_0 - out of memory at 16 GB / vacuous after the fixes; measured by the thorough sweep)

    // (removed from the thorough tier: lowpan_frag_rx_step_0_1 - out of memory at 16 GB / vacuous after the fixes; measured by the thorough sweep)

    // (removed from the thorough tier: lowpan_frag_rx_step_0_0 - out of memory at 16 GB / vacuous after the fixes; measured by the thorough sweep)

    // (removed from the thorough tier: lowpan_frag_rx_step_1_1 - out of memory at 16 GB / vacuous after the fixes; measured by the thorough sweep)

    // (removed from the thorough tier: lowpan_frag_rx_free - out of memory at 16 GB / vacuous after the fixes; measured by the thorough sweep)

    /// one well-formed FRAG1 that is the whole compressed header (48 uncompressed octets), datagram_size symbolic in lo..=hi
    fn frag1_size_case(lo: u8, hi: u8) {
        let g = GhostD { sll: kani::any(), dll: kani::any(), sport: kani::any(), dport: kani::any(), ck: kani::any(), data: kani::any(), tag: kani::any() };
        let hw: [u8; 8] = g.dll;
        lowpan_env!(dev, iface, hw);
        let Interface { inner, fragments, .. } = &mut iface;
        let r802 = ieee(Some(Ieee802154Address::Extended(g.sll)), Some(Ieee802154Address::Extended(g.dll)));
        let size8: u8 = kani::any();
        kani::assume(size8 >= lo && size8 <= hi);
        let frame = frag_frame(&g, 0, size8, g.tag, 0);
        crate::vdump!("FRAG1 datagram_size={} {:02x?}", size8, frame);
        let r = inner.process_sixlowpan_fragment(&r802, &frame[..], fragments);
        let delivered = r.is_some();
        // 48 octets of headers and nothing else: complete (and delivered by this very call) exactly when the size is 48
        assert!(delivered == (size8 == 48), "prop:c20_delivered_exactly_when_complete_in_any_order");
        if let Some(d) = r {
            assert!(d.len() == 48 && d[6] == 17 && d[5] == 8 && d[45] == 8, "prop:c20_reassembled_datagram_equals_sent_datagram");
        }
        kani::cover!(delivered || hi < 48, "a FRAG1 that completes its datagram is delivered (if the size range contains 48)");
        kani::cover!(!delivered, "not delivered");
    }

    // @harness props=C20,C03 cfg=KL tier=q to=900 mem=8 unwind=12 covers=2 funcs=InterfaceInner::process_sixlowpan_fragment;PacketAssemblerSet::get;PacketAssembler::set_total_size;PacketAssembler::add_with;PacketAssembler::assemble;InterfaceInner::sixlowpan_to_ipv6;decompress_udp bounds=one_well-formed_FRAG1_(IPHC_7e_33,_UDP-NHC_with_ports_in_full,_no_data_octets)_with_datagram_size_48..=255;_delivered_by_the_call_that_completes_it_(size_48),_stored_otherwise;_extended_link_addresses,_ports,_tag_symbolic;_fresh_reassembly_buffers;_all_default_checks_on
    #[kani::proof]
    pub(crate) fn lowpan_frag_rx_frag1_any_size() {
        frag1_size_case(48, 255);
    }

    // @harness props=C03,C20 cfg=KL tier=q to=900 mem=8 unwind=12 opts=nomem covers=2 funcs=InterfaceInner::process_sixlowpan_fragment;InterfaceInner::sixlowpan_to_ipv6;decompress_udp bounds=the_same_FRAG1_with_datagram_size_40..=47_(accepted_by_the_`<_40`_check,_smaller_than_the_headers_it_carries)
    #[kani::proof]
    pub(crate) fn lowpan_frag_rx_frag1_small_size() {
        frag1_size_case(40, 47);
    }

    // @harness props=C03,C20 cfg=KL tier=q to=900 mem=8 unwind=12 opts=fs256 covers=1 funcs=InterfaceInner::process_sixlowpan_fragment;SixlowpanFragPacket::get_key bounds=a_well-formed_FRAGN_(datagram_size_64,_8_data_octets)_in_a_frame_whose_802.15.4_addressing_is_anything_Ieee802154Repr::parse_can_return_(None_for_reserved_addressing_modes_/_frame_version_0b11,_absent,_short,_extended)
    #[kani::proof]
    pub(crate) fn lowpan_frag_rx_any_addressing() {
        let hw: [u8; 8] = kani::any();
        lowpan_env!(dev, iface, hw);
        let Interface { inner, fragments, .. } = &mut iface;
        let d: [u8; 8] = kani::any();
        let tag: [u8; 2] = kani::any();
        let frame = [0xe0, 64, tag[0], tag[1], 6, d[0], d[1], d[2], d[3], d[4], d[5], d[6], d[7]];
        let r802 = ieee(any_ll_opt(), any_ll_opt());
        crate::vdump!("ll_src={:?} ll_dst={:?}", r802.src_addr, r802.dst_addr);
        let r = inner.process_sixlowpan_fragment(&r802, &frame[..], fragments);
        assert!(r.is_none(), "prop:c20_incomplete_datagram_not_delivered");
        kani::cover!(r802.src_addr.is_some() && r802.dst_addr.is_some(), "addresses present");
    }

    // (tried and removed: a FRAGN arriving first with a symbolic datagram size (and a symbolic or concrete offset) did not
    // finish in 15 minutes; lowpan_frag_rx_any_addressing keeps size 64 / offset 6 concrete with symbolic tag and addressing.)

    // @harness props=C20 cfg=KL kind=mustfail tier=q to=600 mem=4 unwind=20 opts=nomem
    #[kani::proof]
    pub(crate) fn lowpan_must_fail() {
        let s = S_ICMP_SHORT;
        let f = any_fields(&s);
        let r802 = ieee_of(&s, &f);
        let mut t = [0u8; TL];
        let lay = tmpl(&s, &f, &mut t);
        let mut out = [0u8; 64];
        let r = InterfaceInner::sixlowpan_to_ipv6(&[], &r802, &t[..lay.len], None, &mut out[..]);
        assert!(r.is_ok() && out[39] != f.dll[7], "prop:deliberately_false_destination_iid_differs_from_link_address");
    }
}
