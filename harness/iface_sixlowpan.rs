// C20 (6LoWPAN compression and fragmentation are lossless) and the 6LoWPAN part of C03.
// Spliced into src/iface/interface/sixlowpan.rs (child of `iface::interface`): the private
// `InterfaceInner::{sixlowpan_to_ipv6, ipv6_to_sixlowpan, compressed_packet_size, process_sixlowpan_fragment,
// dispatch_sixlowpan, dispatch_sixlowpan_frag, dispatch_ieee802154}` are reachable.
//
// The round trip decompress(compress(p)) = p is cut at the 802.15.4 payload bytes (DESIGN.md probe 15):
//   lowpan_compress_<shape>    real compressor output          == tmpl(shape, fields of p)
//   lowpan_decompress_<shape>  real decompressor on tmpl(..)   == expected(shape, fields of p)  (plain RFC 8200 datagram)
// `tmpl` is written here from RFC 6282 (IPHC 3.1, address modes 3.1.1/3.2.2, UDP NHC 4.3.3) and RFC 4944 5.3; it is
// shape-concrete (every offset is a compile-time fact of the harness) and field-symbolic.
#[allow(dead_code, unused_imports, unused_variables, unused_mut, unused_assignments)]
mod v_iface_sixlowpan {
    use super::*;
    use crate::iface::{Config, Interface};
    use crate::verif_common::*;
    use crate::verif_dev::{CapTx, NullDev, TxState};

    // ------------------------------------------------------------------ shapes
    #[derive(Clone, Copy, PartialEq, Eq)]
    enum Ll {
        Ext,
        Short,
    }

    /// how one address is carried (RFC 6282 3.1.1: SAC/SAM, M/DAC/DAM)
    #[derive(Clone, Copy, PartialEq, Eq)]
    enum Am {
        /// 128 bits in-line (SAC=0 SAM=00 / M=0 DAC=0 DAM=00)
        Full,
        /// fe80::/64 + 64 bits in-line (mode 01)
        Ll64,
        /// fe80::0000:00ff:fe00:XXXX, 16 bits in-line (mode 10)
        Ll16,
        /// fe80::/64 + IID computed from the link-layer address (mode 11)
        LlElided,
        /// the unspecified address :: (SAC=1 SAM=00), source only
        Unspec,
        /// context prefix (64 bits) + 64 bits in-line (SAC/DAC=1 mode 01)
        Ctx64,
        /// context prefix + 0000:00ff:fe00:XXXX (SAC/DAC=1 mode 10)
        Ctx16,
        /// context prefix + IID from the link-layer address (SAC/DAC=1 mode 11)
        CtxElided,
        /// M=1 DAM=00: 128 bits in-line, destination only
        McFull,
        /// M=1 DAM=01: ffXX::00XX:XXXX:XXXX, 48 bits in-line
        Mc48,
        /// M=1 DAM=10: ffXX::00XX:XXXX, 32 bits in-line
        Mc32,
        /// M=1 DAM=11: ff02::00XX, 8 bits in-line
        Mc8,
    }

    /// upper layer and how IPHC announces it (a plain struct: enums with payload are niche-encoded and CBMC loses
    /// their discriminant, which makes every `match` arm live)
    #[derive(Clone, Copy, PartialEq, Eq)]
    struct Up {
        /// UP_ICMP: NH=0, next header 58 in-line, ICMPv6 echo request (8 octets) + data
        /// UP_TCP: NH=0, next header 6 in-line, TCP header without options (20 octets) + data
        /// UP_UDP_INLINE: NH=0, next header 17 in-line, plain UDP header (peers only; smoltcp always uses NHC)
        /// UP_UDP_NHC: NH=1, LOWPAN_NHC UDP 11110CPP: port mode p, checksum elided c
        kind: u8,
        p: u8,
        c: bool,
    }
    const UP_ICMP: u8 = 0;
    const UP_TCP: u8 = 1;
    const UP_UDP_INLINE: u8 = 2;
    const UP_UDP_NHC: u8 = 3;
    const ICMP: Up = Up { kind: UP_ICMP, p: 0, c: false };
    const TCP: Up = Up { kind: UP_TCP, p: 0, c: false };
    const UDP_INLINE: Up = Up { kind: UP_UDP_INLINE, p: 0, c: false };
    const fn nhc(p: u8) -> Up {
        Up { kind: UP_UDP_NHC, p, c: false }
    }
    const fn nhc_elided(p: u8) -> Up {
        Up { kind: UP_UDP_NHC, p, c: true }
    }
    fn is_nhc(s: &Shape) -> bool {
        s.up.kind == UP_UDP_NHC
    }

    #[derive(Clone, Copy)]
    struct Shape {
        /// TF 00: ECN+DSCP+flow label (4 octets), 01: ECN+flow label (3), 10: ECN+DSCP (1), 11: elided
        tf: u8,
        /// HLIM 00: in-line, 01: 1, 10: 64, 11: 255
        hlim: u8,
        /// context identifier extension octet present
        cid: bool,
        src: Am,
        dst: Am,
        sll: Ll,
        dll: Ll,
        up: Up,
        /// upper-layer payload octets (0..=4)
        plen: usize,
    }

    const fn sh(hlim: u8, src: Am, sll: Ll, dst: Am, dll: Ll, up: Up, plen: usize) -> Shape {
        Shape { tf: 3, hlim, cid: false, src, dst, sll, dll, up, plen }
    }

    const LL_PREFIX: [u8; 8] = [0xfe, 0x80, 0, 0, 0, 0, 0, 0];
    const SHORT_IID: [u8; 6] = [0, 0, 0, 0xff, 0xfe, 0];
    const TL: usize = 64;

    /// all field values of one datagram of a shape
    #[derive(Clone, Copy)]
    struct Fields {
        /// IPv6 traffic class octet (DSCP:6 | ECN:2) and 20-bit flow label
        tc: u8,
        flow: u32,
        hl: u8,
        src: [u8; 16],
        dst: [u8; 16],
        sll: [u8; 8],
        dll: [u8; 8],
        /// context 0 of the receiver's table; SCI/DCI octet if CID=1
        ctx: [u8; 8],
        cidb: u8,
        sport: u16,
        dport: u16,
        ck: [u8; 2],
        /// Icmp/Tcp/UdpInline: the whole upper-layer header + data; UdpNhc: the UDP data in up[..plen]
        up: [u8; 24],
    }

    fn ll_addr(k: Ll, b: &[u8; 8]) -> Ieee802154Address {
        match k {
            Ll::Ext => Ieee802154Address::Extended(*b),
            Ll::Short => Ieee802154Address::Short([b[0], b[1]]),
        }
    }

    /// RFC 6282 3.2.2 / RFC 4944 6: IID of a link-layer address (EUI-64 with the U/L bit flipped, or 0000:00ff:fe00:XXXX)
    fn iid(k: Ll, b: &[u8; 8]) -> [u8; 8] {
        match k {
            Ll::Ext => [b[0] ^ 0x02, b[1], b[2], b[3], b[4], b[5], b[6], b[7]],
            Ll::Short => [0, 0, 0, 0xff, 0xfe, 0, b[0], b[1]],
        }
    }

    fn mk_addr(m: Am, raw: &[u8; 16], k: Ll, llb: &[u8; 8], ctx: &[u8; 8]) -> [u8; 16] {
        let mut a = [0u8; 16];
        match m {
            Am::Full => a = *raw,
            Am::McFull => {
                a = *raw;
                a[0] = 0xff;
            }
            Am::Ll64 => {
                a[..8].copy_from_slice(&LL_PREFIX);
                a[8..].copy_from_slice(&raw[8..]);
            }
            Am::Ll16 => {
                a[..8].copy_from_slice(&LL_PREFIX);
                a[8..14].copy_from_slice(&SHORT_IID);
                a[14] = raw[14];
                a[15] = raw[15];
            }
            Am::LlElided => {
                a[..8].copy_from_slice(&LL_PREFIX);
                a[8..].copy_from_slice(&iid(k, llb));
            }
            Am::Unspec => {}
            Am::Ctx64 => {
                a[..8].copy_from_slice(ctx);
                a[8..].copy_from_slice(&raw[8..]);
            }
            Am::Ctx16 => {
                a[..8].copy_from_slice(ctx);
                a[8..14].copy_from_slice(&SHORT_IID);
                a[14] = raw[14];
                a[15] = raw[15];
            }
            Am::CtxElided => {
                a[..8].copy_from_slice(ctx);
                a[8..].copy_from_slice(&iid(k, llb));
            }
            Am::Mc48 => {
                a[0] = 0xff;
                a[1] = raw[1];
                a[11..].copy_from_slice(&raw[11..]);
            }
            Am::Mc32 => {
                a[0] = 0xff;
                a[1] = raw[1];
                a[13..].copy_from_slice(&raw[13..]);
            }
            Am::Mc8 => {
                a[0] = 0xff;
                a[1] = 0x02;
                a[15] = raw[15];
            }
        }
        a
    }

    fn uses_ctx(m: Am) -> bool {
        matches!(m, Am::Ctx64 | Am::Ctx16 | Am::CtxElided)
    }

    /// (SAC or M/DAC bits, mode bits) of an address mode
    fn src_bits(m: Am) -> u8 {
        match m {
            Am::Full => 0b0_00,
            Am::Ll64 => 0b0_01,
            Am::Ll16 => 0b0_10,
            Am::LlElided => 0b0_11,
            Am::Unspec => 0b1_00,
            Am::Ctx64 => 0b1_01,
            Am::Ctx16 => 0b1_10,
            Am::CtxElided => 0b1_11,
            _ => panic!("not a source mode"),
        }
    }
    fn dst_bits(m: Am) -> u8 {
        match m {
            Am::Full => 0b0_0_00,
            Am::Ll64 => 0b0_0_01,
            Am::Ll16 => 0b0_0_10,
            Am::LlElided => 0b0_0_11,
            Am::Ctx64 => 0b0_1_01,
            Am::Ctx16 => 0b0_1_10,
            Am::CtxElided => 0b0_1_11,
            Am::McFull => 0b1_0_00,
            Am::Mc48 => 0b1_0_01,
            Am::Mc32 => 0b1_0_10,
            Am::Mc8 => 0b1_0_11,
            Am::Unspec => panic!("not a destination mode"),
        }
    }

    /// in-line octets of an address, appended at t[i..]; returns the new i
    fn put_addr(m: Am, a: &[u8; 16], t: &mut [u8; TL], mut i: usize) -> usize {
        match m {
            Am::Full | Am::McFull => {
                t[i..i + 16].copy_from_slice(a);
                i += 16;
            }
            Am::Ll64 | Am::Ctx64 => {
                t[i..i + 8].copy_from_slice(&a[8..]);
                i += 8;
            }
            Am::Ll16 | Am::Ctx16 => {
                t[i] = a[14];
                t[i + 1] = a[15];
                i += 2;
            }
            Am::LlElided | Am::CtxElided | Am::Unspec => {}
            Am::Mc48 => {
                t[i] = a[1];
                t[i + 1..i + 6].copy_from_slice(&a[11..]);
                i += 6;
            }
            Am::Mc32 => {
                t[i] = a[1];
                t[i + 1..i + 4].copy_from_slice(&a[13..]);
                i += 4;
            }
            Am::Mc8 => {
                t[i] = a[15];
                i += 1;
            }
        }
        i
    }

    fn upper_len(s: &Shape) -> usize {
        match s.up.kind {
            UP_ICMP => 8 + s.plen,
            UP_TCP => 20 + s.plen,
            _ => 8 + s.plen,
        }
    }
    fn proto(s: &Shape) -> u8 {
        match s.up.kind {
            UP_ICMP => 58,
            UP_TCP => 6,
            _ => 17,
        }
    }

    /// positions inside the template that harnesses refer to
    #[derive(Clone, Copy)]
    struct Lay {
        len: usize,
        /// end of the compressed headers (IPHC, and the whole UDP NHC incl. in-line checksum)
        hdr: usize,
        /// the NHC octet and the in-line checksum (UDP NHC only, else 0)
        nhc_at: usize,
        ck_at: usize,
    }

    /// RFC 6282 encoding of the datagram `f` in shape `s`
    fn tmpl(s: &Shape, f: &Fields, t: &mut [u8; TL]) -> Lay {
        let nhc = is_nhc(s);
        t[0] = 0b011_00_0_00 | (s.tf << 3) | ((nhc as u8) << 2) | s.hlim;
        t[1] = ((s.cid as u8) << 7) | (src_bits(s.src) << 4) | dst_bits(s.dst);
        let mut i = 2;
        if s.cid {
            t[i] = f.cidb;
            i += 1;
        }
        let ecn = f.tc & 0x03;
        let dscp = f.tc >> 2;
        match s.tf {
            0 => {
                t[i] = (ecn << 6) | dscp;
                t[i + 1] = ((f.flow >> 16) & 0x0f) as u8;
                t[i + 2] = (f.flow >> 8) as u8;
                t[i + 3] = f.flow as u8;
                i += 4;
            }
            1 => {
                t[i] = (ecn << 6) | ((f.flow >> 16) & 0x0f) as u8;
                t[i + 1] = (f.flow >> 8) as u8;
                t[i + 2] = f.flow as u8;
                i += 3;
            }
            2 => {
                t[i] = (ecn << 6) | dscp;
                i += 1;
            }
            _ => {}
        }
        if !nhc {
            t[i] = proto(s);
            i += 1;
        }
        if s.hlim == 0 {
            t[i] = f.hl;
            i += 1;
        }
        i = put_addr(s.src, &f.src, t, i);
        i = put_addr(s.dst, &f.dst, t, i);
        let mut lay = Lay { len: 0, hdr: i, nhc_at: 0, ck_at: 0 };
        match nhc {
            false => {
                let n = upper_len(s);
                t[i..i + n].copy_from_slice(&f.up[..n]);
                i += n;
            }
            true => {
                let p = s.up.p;
                let c = s.up.c;
                lay.nhc_at = i;
                t[i] = 0b11110_000 | ((c as u8) << 2) | p;
                i += 1;
                match p {
                    0 => {
                        t[i] = (f.sport >> 8) as u8;
                        t[i + 1] = f.sport as u8;
                        t[i + 2] = (f.dport >> 8) as u8;
                        t[i + 3] = f.dport as u8;
                        i += 4;
                    }
                    1 => {
                        // source in full, destination 0xf0XX
                        t[i] = (f.sport >> 8) as u8;
                        t[i + 1] = f.sport as u8;
                        t[i + 2] = f.dport as u8;
                        i += 3;
                    }
                    2 => {
                        // source 0xf0XX, destination in full
                        t[i] = f.sport as u8;
                        t[i + 1] = (f.dport >> 8) as u8;
                        t[i + 2] = f.dport as u8;
                        i += 3;
                    }
                    _ => {
                        // both 0xf0bX: source nibble high, destination nibble low
                        t[i] = (((f.sport & 0x0f) as u8) << 4) | (f.dport & 0x0f) as u8;
                        i += 1;
                    }
                }
                if !c {
                    lay.ck_at = i;
                    t[i] = f.ck[0];
                    t[i + 1] = f.ck[1];
                    i += 2;
                }
                lay.hdr = i;
                t[i..i + s.plen].copy_from_slice(&f.up[..s.plen]);
                i += s.plen;
            }
        }
        lay.len = i;
        lay
    }

    /// the plain IPv6 datagram (RFC 8200 header; RFC 768 UDP header) the template stands for; returns its length
    fn expected(s: &Shape, f: &Fields, e: &mut [u8; 64]) -> usize {
        let ul = upper_len(s);
        e[0] = 0x60 | (f.tc >> 4);
        e[1] = (f.tc << 4) | ((f.flow >> 16) & 0x0f) as u8;
        e[2] = (f.flow >> 8) as u8;
        e[3] = f.flow as u8;
        e[4] = (ul >> 8) as u8;
        e[5] = ul as u8;
        e[6] = proto(s);
        e[7] = f.hl;
        e[8..24].copy_from_slice(&f.src);
        e[24..40].copy_from_slice(&f.dst);
        match is_nhc(s) {
            false => e[40..40 + ul].copy_from_slice(&f.up[..ul]),
            true => {
                e[40] = (f.sport >> 8) as u8;
                e[41] = f.sport as u8;
                e[42] = (f.dport >> 8) as u8;
                e[43] = f.dport as u8;
                e[44] = (ul >> 8) as u8;
                e[45] = ul as u8;
                e[46] = f.ck[0];
                e[47] = f.ck[1];
                e[48..48 + s.plen].copy_from_slice(&f.up[..s.plen]);
            }
        }
        40 + ul
    }

    /// symbolic field values of a datagram that can be carried in shape `s`
    fn any_fields(s: &Shape) -> Fields {
        let sll: [u8; 8] = kani::any();
        let dll: [u8; 8] = kani::any();
        let ctx: [u8; 8] = kani::any();
        let rs: [u8; 16] = kani::any();
        let rd: [u8; 16] = kani::any();
        let mut f = Fields {
            tc: kani::any(),
            flow: kani::any(),
            hl: kani::any(),
            src: mk_addr(s.src, &rs, s.sll, &sll, &ctx),
            dst: mk_addr(s.dst, &rd, s.dll, &dll, &ctx),
            sll,
            dll,
            ctx,
            cidb: 0,
            sport: kani::any(),
            dport: kani::any(),
            ck: kani::any(),
            up: kani::any(),
        };
        kani::assume(f.flow < (1 << 20));
        match s.tf {
            1 => kani::assume(f.tc >> 2 == 0),
            2 => kani::assume(f.flow == 0),
            3 => kani::assume(f.tc == 0 && f.flow == 0),
            _ => {}
        }
        match s.hlim {
            1 => f.hl = 1,
            2 => f.hl = 64,
            3 => f.hl = 255,
            _ => {}
        }
        if is_nhc(s) {
            match s.up.p {
                1 => kani::assume(f.dport >> 8 == 0xf0),
                2 => kani::assume(f.sport >> 8 == 0xf0),
                3 => kani::assume(f.sport >> 4 == 0xf0b && f.dport >> 4 == 0xf0b),
                _ => {}
            }
        }
        f
    }

    fn ieee(src: Option<Ieee802154Address>, dst: Option<Ieee802154Address>) -> Ieee802154Repr {
        Ieee802154Repr {
            frame_type: Ieee802154FrameType::Data,
            security_enabled: false,
            frame_pending: false,
            ack_request: false,
            sequence_number: Some(1),
            pan_id_compression: true,
            frame_version: Ieee802154FrameVersion::Ieee802154_2003,
            dst_pan_id: Some(Ieee802154Pan(0xabcd)),
            dst_addr: dst,
            src_pan_id: Some(Ieee802154Pan(0xabcd)),
            src_addr: src,
        }
    }

    fn ieee_of(s: &Shape, f: &Fields) -> Ieee802154Repr {
        ieee(Some(ll_addr(s.sll, &f.sll)), Some(ll_addr(s.dll, &f.dll)))
    }

    // ------------------------------------------------------------------ 2. decompression of a template
    /// `ctx_table`: number of entries in the receiver's context table (context 0 = f.ctx)
    fn decompress_case(s: Shape) {
        let mut f = any_fields(&s);
        if s.cid {
            // 1-entry table: SCI = DCI = 0 are the identifiers that resolve
            f.cidb = 0;
        }
        let r802 = ieee_of(&s, &f);
        let mut t = [0u8; TL];
        let lay = tmpl(&s, &f, &mut t);
        let mut e = [0u8; 64];
        let m = expected(&s, &f, &mut e);
        let ctx = [SixlowpanAddressContext(f.ctx)];
        let mut out: [u8; 64] = kani::any();
        crate::vdump!("TEMPLATE {:02x?}", &t[..lay.len]);
        let r = InterfaceInner::sixlowpan_to_ipv6(&ctx[..], &r802, &t[..lay.len], None, &mut out[..]);
        crate::vdump!("RESULT {:?}\nGOT      {:02x?}\nEXPECTED {:02x?}", r, &out[..m], &e[..m]);
        assert!(r.is_ok(), "prop:c20_well_formed_datagram_is_decompressed");
        assert!(matches!(r, Ok(l) if l == m), "prop:c20_decompressed_length");
        let k = any_lt(64);
        kani::assume(k < m);
        let is_udp_ck = is_nhc(&s) && (k == 46 || k == 47);
        if k < 4 {
            // smoltcp's Ipv6Repr carries neither traffic class nor flow label: compared only when elided (TF=11)
            assert!(out[0] >> 4 == 6, "prop:c20_decompressed_version");
            if s.tf == 3 {
                assert!(out[k] == e[k], "prop:c20_decompressed_ipv6_header");
            }
        } else if k < 8 {
            assert!(out[k] == e[k], "prop:c20_decompressed_ipv6_header");
        } else if k < 24 {
            assert!(out[k] == e[k], "prop:c20_decompressed_source_address");
        } else if k < 40 {
            assert!(out[k] == e[k], "prop:c20_decompressed_destination_address");
        } else if is_udp_ck {
            // the UDP checksum field is the subject of lowpan_decompress_udp_checksum_kept
        } else if is_nhc(&s) && k < 42 {
            assert!(out[k] == e[k], "prop:c20_decompressed_udp_source_port");
        } else if is_nhc(&s) && k < 44 {
            assert!(out[k] == e[k], "prop:c20_decompressed_udp_destination_port");
        } else if is_nhc(&s) && k < 46 {
            assert!(out[k] == e[k], "prop:c20_decompressed_udp_length");
        } else {
            assert!(out[k] == e[k], "prop:c20_decompressed_upper_layer_bytes");
        }
        kani::cover!(k == m - 1 && r.is_ok(), "last octet of the datagram compared");
        kani::cover!(k == 23 && r.is_ok() && out[23] != 0, "source address compared");
    }

    // ------------------------------------------------------------------ 1. compression equals the template
    /// the datagram is one for which RFC 6282's most compact stateless form is exactly `s`
    /// (smoltcp picks the form from the address values; the template must be the one it has to pick)
    fn assume_sender_picks(s: &Shape, f: &Fields) {
        fn pick(m: Am, a: &[u8; 16], k: Ll, llb: &[u8; 8]) {
            let short_form = a[8] == 0 && a[9] == 0 && a[10] == 0 && a[11] == 0xff && a[12] == 0xfe && a[13] == 0;
            let ll_pfx = a[0] == 0xfe && a[1] == 0x80 && a[2] == 0 && a[3] == 0 && a[4] == 0 && a[5] == 0 && a[6] == 0 && a[7] == 0;
            let i = iid(k, llb);
            let is_iid = a[8] == i[0] && a[9] == i[1] && a[10] == i[2] && a[11] == i[3] && a[12] == i[4] && a[13] == i[5] && a[14] == i[6] && a[15] == i[7];
            let z2_10 = a[2] == 0 && a[3] == 0 && a[4] == 0 && a[5] == 0 && a[6] == 0 && a[7] == 0 && a[8] == 0 && a[9] == 0 && a[10] == 0;
            let unspec = a[0] == 0 && a[1] == 0 && z2_10 && a[11] == 0 && a[12] == 0 && a[13] == 0 && a[14] == 0 && a[15] == 0;
            match m {
                Am::Full => kani::assume(!unspec && !ll_pfx && a[0] != 0xff),
                Am::Ll64 => kani::assume(!short_form && !is_iid),
                Am::Ll16 => kani::assume(!is_iid),
                Am::LlElided | Am::Unspec | Am::Mc8 => {}
                Am::Mc32 => kani::assume(!(a[1] == 0x02 && a[13] == 0 && a[14] == 0)),
                Am::Mc48 => kani::assume(!(a[11] == 0 && a[12] == 0)),
                Am::McFull => kani::assume(!z2_10),
                _ => panic!("smoltcp never emits context-based forms"),
            }
        }
        pick(s.src, &f.src, s.sll, &f.sll);
        pick(s.dst, &f.dst, s.dll, &f.dll);
        if s.hlim == 0 {
            kani::assume(f.hl != 1 && f.hl != 64 && f.hl != 255);
        }
        if is_nhc(s) {
            let p = s.up.p;
            let s8 = f.sport >> 8 == 0xf0;
            let d8 = f.dport >> 8 == 0xf0;
            let both4 = f.sport >> 4 == 0xf0b && f.dport >> 4 == 0xf0b;
            match p {
                0 => kani::assume(!s8 && !d8),
                1 => kani::assume(!s8),
                2 => kani::assume(!both4),
                _ => {}
            }
        }
    }

    /// common tail: sizes, real compression over a stale buffer, octet-wise comparison with the template
    fn check_compress(s: &Shape, f: &Fields, r802: &Ieee802154Repr, pkt: PacketV6, stale: &[u8; TL], iphc_len: usize) {
        let mut t = [0u8; TL];
        let lay = tmpl(s, f, &mut t);
        let caps = ChecksumCapabilities::ignored();
        let (total, comp, uncomp) = InterfaceInner::compressed_packet_size(&pkt, r802);
        crate::vdump!("sizes total={} compressed_hdr={} uncompressed_hdr={} template len={} hdr={}", total, comp, uncomp, lay.len, lay.hdr);
        assert!(total == lay.len, "prop:c20_compressed_size_equals_template_length");
        assert!(comp == lay.hdr, "prop:c20_compressed_header_size");
        assert!(uncomp == if is_nhc(s) { 48 } else { 40 }, "prop:c20_uncompressed_header_size");
        let mut buf = *stale;
        InterfaceInner::ipv6_to_sixlowpan(&caps, pkt, r802, &mut buf[..lay.len]);
        crate::vdump!("GOT      {:02x?}\nTEMPLATE {:02x?}", &buf[..lay.len], &t[..lay.len]);
        let k = any_lt(TL);
        kani::assume(k < lay.len);
        if is_nhc(s) {
            if k == lay.nhc_at {
                // C = 0: the two checksum octets are part of the layout `compressed_packet_size` announced
                assert!(buf[k] & 0x04 == 0, "prop:c20_udp_nhc_checksum_bit_matches_layout");
                assert!(buf[k] | 0x04 == t[k] | 0x04, "prop:c20_compressed_bytes_equal_template");
            } else if k == lay.ck_at || k == lay.ck_at + 1 {
                // tx checksumming is off in this harness: the checksum value is left to the device
            } else if k > lay.nhc_at && k < lay.ck_at {
                assert!(buf[k] == t[k], "prop:c20_compressed_udp_ports_equal_template");
            } else {
                assert!(buf[k] == t[k], "prop:c20_compressed_bytes_equal_template");
            }
        } else {
            assert!(buf[k] == t[k], "prop:c20_compressed_bytes_equal_template");
        }
        kani::cover!(k == lay.len - 1, "last octet compared");
        kani::cover!(k == 1, "second IPHC octet compared");
    }

    // NOTE on what is symbolic in the compress harnesses.  `IpPayload` is a niche-encoded enum; Kani models it as a
    // union, CBMC does not track union members separately, so as soon as ANY by-value member of the payload variant
    // (ports, TCP fields, echo ident) is symbolic the discriminant is no longer a constant for symbolic execution and
    // every arm of `match packet.payload` in `ipv6_to_sixlowpan` (all ICMPv6/NDISC/MLD emitters, TCP options, ...) is
    // encoded with garbage lengths: 965 k steps, > 6 GB (measured).  Therefore the by-value members are concrete
    // representatives here, everything else (all of `Ipv6Repr`, link-layer addresses, payload octets, stale buffer) is
    // symbolic, and the port arithmetic is covered for ALL ports by `lowpan_nhc_udp_emit_ports*` on the real
    // `SixlowpanUdpNhcRepr::{header_len, emit}` (which `ipv6_to_sixlowpan` calls with the ports unchanged).
    fn rep_ports(p: u8) -> (u16, u16) {
        match p {
            0 => (0x1234, 0xabcd),
            1 => (0x1234, 0xf0c7),
            2 => (0xf012, 0x5678),
            _ => (0xf0b3, 0xf0b9),
        }
    }

    fn compress_udp(s: Shape) {
        let mut f = any_fields(&s);
        let (sp, dp) = rep_ports(s.up.p);
        f.sport = sp;
        f.dport = dp;
        assume_sender_picks(&s, &f);
        let r802 = ieee_of(&s, &f);
        let stale: [u8; TL] = kani::any();
        let data: [u8; 4] = [f.up[0], f.up[1], f.up[2], f.up[3]];
        let pkt = PacketV6 {
            header: Ipv6Repr {
                src_addr: Ipv6Address::from_octets(f.src),
                dst_addr: Ipv6Address::from_octets(f.dst),
                next_header: IpProtocol::Udp,
                payload_len: 8 + s.plen,
                hop_limit: f.hl,
            },
            payload: IpPayload::Udp(UdpRepr { src_port: sp, dst_port: dp }, &data[..s.plen]),
        };
        check_compress(&s, &f, &r802, pkt, &stale, 0);
    }

    fn compress_icmp(s: Shape) {
        let mut f = any_fields(&s);
        assume_sender_picks(&s, &f);
        let r802 = ieee_of(&s, &f);
        let stale: [u8; TL] = kani::any();
        let data: [u8; 4] = kani::any();
        let ident: u16 = 0x1234;
        let seq_no: u16 = 0xabcd;
        // RFC 4443 4.1: type 128, code 0, checksum (0: not computed with tx checksumming off), identifier, sequence number, data
        f.up = [0; 24];
        f.up[0] = 0x80;
        f.up[4] = (ident >> 8) as u8;
        f.up[5] = ident as u8;
        f.up[6] = (seq_no >> 8) as u8;
        f.up[7] = seq_no as u8;
        f.up[8..12].copy_from_slice(&data);
        let pkt = PacketV6 {
            header: Ipv6Repr {
                src_addr: Ipv6Address::from_octets(f.src),
                dst_addr: Ipv6Address::from_octets(f.dst),
                next_header: IpProtocol::Icmpv6,
                payload_len: 8 + s.plen,
                hop_limit: f.hl,
            },
            payload: IpPayload::Icmpv6(Icmpv6Repr::EchoRequest { ident, seq_no, data: &data[..s.plen] }),
        };
        check_compress(&s, &f, &r802, pkt, &stale, 0);
    }

    fn compress_tcp(s: Shape) {
        let mut f = any_fields(&s);
        assume_sender_picks(&s, &f);
        let r802 = ieee_of(&s, &f);
        let stale: [u8; TL] = kani::any();
        let data: [u8; 4] = kani::any();
        let src = Ipv6Address::from_octets(f.src);
        let dst = Ipv6Address::from_octets(f.dst);
        let tcp = TcpRepr {
            src_port: 0xf0b1,
            dst_port: 80,
            control: TcpControl::Psh,
            seq_number: TcpSeqNumber(0x0102_0304),
            ack_number: Some(TcpSeqNumber(0x0a0b_0c0d)),
            window_len: 0x2000,
            window_scale: None,
            max_seg_size: None,
            sack_permitted: false,
            sack_ranges: [None, None, None],
            timestamp: None,
            payload: &data[..s.plen],
        };
        // reference: the plain emission of the same segment (what `Packet::emit_payload` does on other media), over the
        // same stale buffer contents
        let mut t = [0u8; TL];
        let hdr = tmpl(&s, &f, &mut t).hdr;
        f.up.copy_from_slice(&stale[hdr..hdr + 24]);
        tcp.emit(&mut TcpPacket::new_unchecked(&mut f.up[..20 + s.plen]), &src.into(), &dst.into(), &ChecksumCapabilities::ignored());
        let pkt = PacketV6 {
            header: Ipv6Repr { src_addr: src, dst_addr: dst, next_header: IpProtocol::Tcp, payload_len: 20 + s.plen, hop_limit: f.hl },
            payload: IpPayload::Tcp(tcp),
        };
        check_compress(&s, &f, &r802, pkt, &stale, 0);
    }

    use Am::*;
    use Ll::{Ext, Short};

    // ---- shapes the stack itself emits (quick tier), both directions
    const S_UDP4: Shape = sh(2, LlElided, Ext, LlElided, Ext, nhc(3), 4);
    const S_UDP0: Shape = sh(2, LlElided, Ext, Full, Ext, nhc(0), 4);
    const S_UDP1: Shape = sh(0, Full, Ext, Full, Ext, nhc(1), 3);
    const S_UDP2: Shape = sh(3, Ll64, Ext, Ll64, Short, nhc(2), 4);
    const S_ICMP_SHORT: Shape = sh(1, LlElided, Short, Ll16, Ext, ICMP, 4);
    const S_ICMP_MC8: Shape = sh(3, Unspec, Ext, Mc8, Short, ICMP, 2);
    const S_ICMP_MC32: Shape = sh(2, Ll16, Short, Mc32, Short, ICMP, 4);
    const S_ICMP_MC48: Shape = sh(3, Full, Ext, Mc48, Short, ICMP, 0);
    const S_UDP_MCFULL: Shape = sh(2, LlElided, Ext, McFull, Short, nhc(0), 1);
    const S_TCP: Shape = sh(2, Full, Ext, Full, Ext, TCP, 4);
    const S_TCP_LL: Shape = sh(2, LlElided, Ext, LlElided, Short, TCP, 2);

    // @harness props=C20 cfg=KL tier=q to=600 mem=6 unwind=20 opts=nomem covers=2 funcs=InterfaceInner::compressed_packet_size;InterfaceInner::ipv6_to_sixlowpan;SixlowpanIphcRepr::emit;SixlowpanUdpNhcRepr::emit bounds=shape_TF11_HLIM64_src/dst_elided_from_extended_link_addresses_UDP-NHC_both_ports_0xf0bX;_payload_4_octets;_all_field_values_symbolic;_tx_checksum_off;_stale_buffer_contents_arbitrary
    #[kani::proof]
    pub(crate) fn lowpan_compress_udp_ports4() {
        compress_udp(S_UDP4);
    }

    // @harness props=C20 cfg=KL tier=q to=600 mem=6 unwind=20 opts=nomem covers=2 funcs=InterfaceInner::sixlowpan_to_ipv6;SixlowpanIphcRepr::parse;SixlowpanUdpNhcRepr::parse;UdpRepr::emit_header;Ipv6Repr::emit bounds=shape_TF11_HLIM64_src/dst_elided_from_extended_link_addresses_UDP-NHC_both_ports_0xf0bX_checksum_inline;_payload_4_octets;_all_field_values_symbolic;_UDP_checksum_field_not_compared_here
    #[kani::proof]
    pub(crate) fn lowpan_decompress_udp_ports4() {
        decompress_case(S_UDP4);
    }
}
