// Reno congestion controller: symbolic constructor for the TCP harnesses and the C02 window-floor step.
// Spliced into src/socket/tcp/congestion/reno.rs.
#[allow(dead_code)]
impl Reno {
    /// arbitrary controller state satisfying INV_reno
    pub(crate) fn verif_any() -> Reno {
        let mss: usize = kani::any();
        let cwnd: usize = kani::any();
        let ssthresh: usize = kani::any();
        let rwnd: usize = kani::any();
        kani::assume(mss >= 48 && mss <= 65535);
        kani::assume(cwnd >= 1 && cwnd <= (1 << 30));
        kani::assume(rwnd >= 1 && rwnd <= (1 << 30));
        let in_fast_recovery: bool = kani::any();
        kani::assume(ssthresh >= 1);
        kani::assume(!in_fast_recovery || ssthresh >= 2 * mss);
        Reno { cwnd, mss, ssthresh, rwnd, in_fast_recovery, in_rto_recovery: kani::any() }
    }
    pub(crate) fn verif_inv(&self) -> bool {
        self.mss >= 48 && self.cwnd >= 1 && self.rwnd >= 1 && self.ssthresh >= 1 && (!self.in_fast_recovery || self.ssthresh >= 2 * self.mss)
    }
}

#[allow(dead_code, unused_imports)]
mod v_tcp_reno {
    use super::*;

    // @harness props=C02 tier=q to=900 mem=6 unwind=4 opts=nomem covers=2 funcs=Reno::on_ack;Reno::on_dup_ack;Reno::on_loss;Reno::on_rto;Reno::set_remote_window;Reno::window bounds=any_controller_state_with_MSS_48..65535,_cwnd/rwnd<=2^30;_one_arbitrary_event
    #[kani::proof]
    pub(crate) fn reno_window_floor() {
        let mut r = Reno::verif_any();
        let mss = r.mss;
        let now = Instant::from_millis(0);
        let rtt = RttEstimator::default();
        let len: usize = kani::any();
        let fl: usize = kani::any();
        kani::assume(len <= (1 << 30) && fl <= (1 << 30));
        let ev: u8 = kani::any();
        let was_recovering = r.in_fast_recovery;
        match ev {
            0 => { r.on_ack(now, len, fl, &rtt); if len > 0 { assert!(r.window() >= mss, "prop:c02_cwnd_at_least_one_segment_after_ack"); } }
            1 => { r.on_dup_ack(now, len, fl); }
            2 => { r.on_loss(now, fl); if !was_recovering { assert!(r.window() >= mss, "prop:c02_cwnd_at_least_one_segment_after_loss"); } }
            3 => { r.on_rto(now, fl); assert!(r.window() >= mss, "prop:c02_cwnd_at_least_one_segment_after_rto"); }
            4 => { r.set_remote_window(len); }
            5 => { r.pre_transmit(now); }
            _ => { r.post_transmit(now, len); }
        }
        assert!(r.window() >= 1, "prop:c02_congestion_window_never_collapses_to_zero");
        assert!(r.verif_inv(), "inv:reno_invariant_preserved");
        kani::cover!(ev == 0 && len > 0 && r.window() > mss, "window grew");
        kani::cover!(ev == 3, "rto");
    }
}
